(* C15 — FileSink rotation triggers, naming and retention follow the configuration.
   Same model as C08 (FileSink.v).  Hypotheses, for EVERY configuration, initial foreign files, directory mode and history:
   special c = false (a directory path), fault_free ops (no failing write(2)), clock_ok k0 ops (readings strictly increase). *)
From Coq Require Import List NArith ZArith Sorted.
From Verif Require Import FileSink FileSinkProofs FileSinkExamples.
Import ListNotations.
Open Scope Z_scope.

(* A Process call first rotates exactly when the file the sink has open (after open() if there was none) already holds
   MaxBytes (MaxBytes > 0) or is older than MaxDuration (MaxDuration > 0) — in every state, reachable or not … *)
Theorem C15_rotate_iff : forall c w id size t1 t2 t3 t4 t5 flt, special c = false ->
  let b := match fopen w with Some _ => bw w | None => 0 end in
  let l := match fopen w with Some _ => lc w | None => t1 end in
  step_rot c w (Write id size t1 t2 t3 t4 t5 flt) = true <->
  (0 < maxBytes c /\ maxBytes c <= b) \/ (0 < maxDur c /\ maxDur c < t2 - l).
Proof. exact rotate_iff. Qed.
Print Assumptions C15_rotate_iff.
(* … where BytesWritten is the number of bytes appended through the current descriptor since it was opened *)
Theorem C15_bytes_written_is_since_open : forall c fids dm k0 ops, special c = false -> fault_free ops ->
  bw (run c fids dm k0 ops) = since_open (run c fids dm k0 ops).
Proof. exact bytes_written_is_since_open. Qed.
Print Assumptions C15_bytes_written_is_since_open.
(* a write that does not rotate is acknowledged and goes to the file that is open (names unchanged) *)
Theorem C15_non_rotating_write_same_file : forall c w id size t1 t2 t3 t4 t5, special c = false ->
  step_rot c w (Write id size t1 t2 t3 t4 t5 nofault) = false ->
  step_ok c w (Write id size t1 t2 t3 t4 t5 nofault) = true /\
  fopen (step c w (Write id size t1 t2 t3 t4 t5 nofault)) = fopen (do_open c w t1) /\
  names (files (step c w (Write id size t1 t2 t3 t4 t5 nofault))) = names (files (do_open c w t1)).
Proof. exact non_rotating_write_same_file. Qed.
Print Assumptions C15_non_rotating_write_same_file.

(* with neither limit nothing ever rotates (any state, any operation) *)
Theorem C15_no_limits_never_rotates : forall c w o, maxBytes c <= 0 -> maxDur c <= 0 -> step_rot c w o = false.
Proof. exact no_limits_never_rotates. Qed.
Print Assumptions C15_no_limits_never_rotates.

(* stamps strictly increase: of two stamped files the one created later carries the larger stamp … *)
Theorem C15_stamps_strictly_increase : forall c fids dm k0 ops, special c = false -> fault_free ops -> clock_ok k0 ops ->
  forall f g a b, In f (files (run c fids dm k0 ops)) -> In g (files (run c fids dm k0 ops)) ->
  (f_ino f < f_ino g)%N -> f_name f = NStamp a -> f_name g = NStamp b -> a < b.
Proof. exact stamps_strictly_increase. Qed.
Print Assumptions C15_stamps_strictly_increase.

(* with TimestampOnlyOnRotate the sink's file is always opened under the plain configured name (otherwise, with a limit,
   under base-<LastCreated>) … *)
Theorem C15_tsonly_active_plain : forall c fids dm k0 ops, special c = false -> clock_ok k0 ops ->
  forall i nm, fopen (run c fids dm k0 ops) = Some (i, nm) ->
  nm = newFileName c (lc (run c fids dm k0 ops)) /\ (tsOnly c = true -> nm = NPlain) /\
  (modeA c = true -> nm = NStamp (lc (run c fids dm k0 ops))).
Proof. exact opened_name. Qed.
Print Assumptions C15_tsonly_active_plain.
(* … which is the name the active file has as long as nobody renames it externally … *)
Theorem C15_active_file_name : forall c fids dm k0 ops, special c = false -> fault_free ops -> clock_ok k0 ops ->
  no_extrenames ops -> forall i nm, fopen (run c fids dm k0 ops) = Some (i, nm) ->
  exists p, active_file (run c fids dm k0 ops) = Some p /\ f_name p = newFileName c (lc (run c fids dm k0 ops)).
Proof. exact active_file_name. Qed.
Print Assumptions C15_active_file_name.
(* … and which Reopen re-establishes after any history, external renames included *)
Theorem C15_reopen_restores_name : forall c fids dm k0 ops, special c = false -> fault_free ops -> clock_ok k0 ops ->
  forall t, clock (run c fids dm k0 ops) < t ->
  exists p, active_file (step c (run c fids dm k0 ops) (Reopen t)) = Some p /\ f_name p = newFileName c t /\
            lc (step c (run c fids dm k0 ops) (Reopen t)) = t.
Proof. exact reopen_restores_name. Qed.
Print Assumptions C15_reopen_restores_name.

(* files are created with the configured mode (0600 when unset), in a directory created on demand with 0700 *)
Theorem C15_mode_and_dir : forall c fids dm k0 ops, special c = false -> clock_ok k0 ops ->
  (forall f, In f (files (run c fids dm k0 ops)) -> is_foreign (f_name f) = false -> f_mode f = eff_mode c) /\
  match dirmode (run c fids dm k0 ops) with
  | Some m => m = match dm with Some m0 => m0 | None => dirMode end
  | None => dm = None /\ fopen (run c fids dm k0 ops) = None /\ sink_files (files (run c fids dm k0 ops)) = []
  end.
Proof. exact mode_and_dir. Qed.
Print Assumptions C15_mode_and_dir.
Theorem C15_mode_constants : defaultMode = 384%N /\ dirMode = 448%N /\ (forall c, cmode c = 0%N -> eff_mode c = 384%N) /\
  (forall c, cmode c <> 0%N -> eff_mode c = cmode c).
Proof. exact mode_constants. Qed.

(* right after each rotation the rotated files are the newest MaxFiles of the ones that existed just before pruneFiles
   (all of them when MaxFiles = 0); in the all-stamped mode the new active file comes on top; and the write went, alone,
   into a file that did not exist before, with the configured name and mode *)
Theorem C15_retention_after_rotation : forall c fids dm k0 ops id size t1 t2 t3 t4 t5,
  special c = false -> fault_free ops -> clock_ok k0 (ops ++ [Write id size t1 t2 t3 t4 t5 nofault]) ->
  let w := run c fids dm k0 ops in
  let o := Write id size t1 t2 t3 t4 t5 nofault in
  step_rot c w o = true -> step_ok c w o = true ->
  let S := stamps_of (files (do_open c w t1)) ++ (if tsOnly c then [t3] else []) in
  StronglySorted Z.lt S /\
  stamps_of (files (step c w o)) = kept_stamps c S ++ (if modeA c then [t4] else []) /\
  (maxFiles c <> 0%N -> (length (kept_stamps c S) <= N.to_nat (maxFiles c))%nat) /\
  exists fs' p, files (step c w o) = fs' ++ [p] /\ f_data p = [id] /\ f_name p = newFileName c t4 /\ f_mode p = eff_mode c /\
                f_ino p = next_ino (do_open c w t1) /\ fopen (step c w o) = Some (f_ino p, newFileName c t4) /\
                ~ In (f_ino p) (inos (files (do_open c w t1))).
Proof. exact retention_after_rotation. Qed.
Print Assumptions C15_retention_after_rotation.
(* sort.Strings on the glob matches = numeric order of the stamps, for decimal stamps of equal length *)
Theorem C15_stamp_order_is_string_order : forall a b : list N, length a = length b ->
  Forall (fun d => (d < 10)%N) a -> Forall (fun d => (d < 10)%N) b ->
  (lex_lt a b <-> (digits_val a < digits_val b)%N).
Proof. exact stamp_order_is_string_order. Qed.
Print Assumptions C15_stamp_order_is_string_order.

(* the active file and the files outside the sink's name space are never removed (nor changed) *)
Theorem C15_active_and_foreign_never_removed : forall c fids dm k0 ops, special c = false -> fault_free ops -> clock_ok k0 ops ->
  foreign_files (files (run c fids dm k0 ops)) = mk_foreign 1%N fids /\
  (forall i nm, fopen (run c fids dm k0 ops) = Some (i, nm) ->
     exists p, In p (files (run c fids dm k0 ops)) /\ f_ino p = i /\ is_foreign (f_name p) = false).
Proof. exact active_and_foreign_never_removed. Qed.
Print Assumptions C15_active_and_foreign_never_removed.

Theorem C15_nonvacuous :
  fault_free (firstn 4 ex_ops) /\ clock_ok 0 (firstn 4 ex_ops ++ [wr 5 6 40]) /\
  step_rot ex_cfg ex_w4 (wr 5 6 40) = true /\ step_ok ex_cfg ex_w4 (wr 5 6 40) = true /\
  stamps_of (files ex_w4) = [23] /\ stamps_of (files (step ex_cfg ex_w4 (wr 5 6 40))) = [43] /\ bw ex_w4 = 12.
Proof. exact ex_rotation. Qed.
Print Assumptions C15_nonvacuous.

(* outside C15's quantifier (needs a failing write(2)): a retried write is acknowledged but not counted in BytesWritten *)
Theorem C15_outside_quantifier_retry_not_counted :
  acked (ex_retry retry_ok) = [1%N] /\ reading (files (ex_retry retry_ok)) = [1%N] /\
  bw (ex_retry retry_ok) = 0 /\ since_open (ex_retry retry_ok) = 5.
Proof. exact retry_not_counted. Qed.

(* the special paths bypass everything: no file, no descriptor, no directory, no rotation; every call succeeds *)
Theorem C15_special_paths_bypass : forall c w o, special c = true -> fopen w = None ->
  files (step c w o) = files w /\ fopen (step c w o) = None /\ dirmode (step c w o) = dirmode w /\
  step_ok c w o = true /\ step_rot c w o = false /\
  acked (step c w o) = acked w ++ match o with Write id _ _ _ _ _ _ _ => [id] | _ => [] end.
Proof. exact special_paths_bypass. Qed.
Print Assumptions C15_special_paths_bypass.

(* "in a directory created on demand" — also again: in EVERY state, after the log directory was removed from outside, the
   next Reopen (and a write that rotates in the all-stamped naming mode) re-creates it with 0700 and opens a new file with
   the configured name and mode.  (External deletions are not operations of the histories above: see FileSink.xop.) *)
Theorem C15_reopen_recreates_dir : forall c w t t', special c = false ->
  let w' := step c (xstep c w (XRmDir t)) (Reopen t') in
  dirmode w' = Some dirMode /\ files w' = [new_file c w t'] /\ fopen w' = Some (next_ino w, newFileName c t') /\
  lc w' = t' /\ bw w' = 0%Z /\ step_ok c (xstep c w (XRmDir t)) (Reopen t') = true.
Proof. exact reopen_recreates_dir. Qed.
Print Assumptions C15_reopen_recreates_dir.
Theorem C15_rotating_write_recreates_dir : forall c w t id size t1 t2 t3 t4 t5 o, special c = false -> tsOnly c = false ->
  fopen w = Some o -> rotate_due c w t2 = true ->
  let w1 := xstep c w (XRmDir t) in
  let w' := step c w1 (Write id size t1 t2 t3 t4 t5 nofault) in
  dirmode w' = Some dirMode /\ files w' = [add_data (new_file c w t4) id] /\
  fopen w' = Some (next_ino w, newFileName c t4) /\ step_ok c w1 (Write id size t1 t2 t3 t4 t5 nofault) = true.
Proof. exact rotating_write_recreates_dir. Qed.
Print Assumptions C15_rotating_write_recreates_dir.

(* ---- what the check's verdict means (RunFileSinkSound.v; same evaluator as C08) ---- *)
From Verif Require Import Run_FileSink RunFileSinkSound.
Theorem C15_verdict_is_model_execution : forall cs,
  mismatches cs = [] <->
  Forall (fun k =>
    dirlog_ok (c_dirlog k) /\
    (c_model k = true -> accepted (c_cfg k) (empties_of (c_steps k)) (w_init (c_fids k) (c_dm k) (c_k0 k)) (c_steps k)) /\
    oracles_ok (c_cfg k) (c_writers k) (c_counts k) (c_dm k) (empties_of (c_steps k)) false false (w_init (c_fids k) (c_dm k) (c_k0 k)) [] 0%N (c_steps k)) cs.
Proof. exact mismatches_nil_iff. Qed.
Print Assumptions C15_verdict_is_model_execution.
(* one observation agrees with the model state exactly when the evaluator reports nothing for it: acknowledgement, listing
   (kinds, modes, contents in reading order), BytesWritten, LastCreated, directory mode, foreign files, stdout/stderr *)
Theorem C15_observation_agrees_iff : forall E w ok o, check_model E w ok o = [] <-> agrees E w ok o.
Proof. exact check_model_nil_iff. Qed.
Print Assumptions C15_observation_agrees_iff.
(* the directory event log of a concurrent case: stamps strictly increase in order of appearance (= order of the critical
   sections) and retention only removes the oldest-created rotated file *)
Theorem C15_dirlog_verdict : forall l, dirlog_check l = [] <-> dirlog_ok l.
Proof. exact dirlog_check_nil_iff. Qed.
Print Assumptions C15_dirlog_verdict.
