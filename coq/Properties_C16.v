(* C16 — encrypted and HMAC-ed values are correct under the key in force, across rotation.
   Model: Crypto.v.  Keys are an abstract type K; AEAD (enc / dec, with protobuf marshalling), per-event wrapper
   derivation, HKDF and HMAC are arbitrary functions: every statement holds for all of them, under the only
   assumptions that decryption inverts encryption under the same key and that a blob is a byte string.  "Deterministic"
   is functionality of derive / hkdf / hmac.  Byte strings are lists of N; base64url is Base64.v. *)
From Coq Require Import List Bool NArith.
From Verif Require Import Base64 Crypto CryptoProofs Run_Crypto RunCryptoSound.
Import ListNotations.
Open Scope nat_scope.

(* base64url without padding decodes back, for every byte string *)
Theorem C16_b64url_roundtrip : forall bs, bytes bs -> decode (encode bs) = Some bs.
Proof. exact b64url_roundtrip. Qed.
Print Assumptions C16_b64url_roundtrip.

Theorem C16_unframe_frame : forall blob, bytes blob -> unframe_enc (frame_enc blob) = Some blob.
Proof. exact unframe_frame. Qed.
Print Assumptions C16_unframe_frame.

(* the framing is unambiguous: distinct ciphertext blobs / digests never share a field value, and a value framed as an HMAC
   is never accepted where an encrypted value is expected (nor the converse) *)
Theorem C16_frame_enc_injective : forall a b, bytes a -> bytes b -> frame_enc a = frame_enc b -> a = b.
Proof. exact frame_enc_injective. Qed.
Print Assumptions C16_frame_enc_injective.

Theorem C16_frame_hmac_injective : forall a b, bytes a -> bytes b -> frame_hmac a = frame_hmac b -> a = b.
Proof. exact frame_hmac_injective. Qed.
Print Assumptions C16_frame_hmac_injective.

Theorem C16_frames_disjoint : forall x, unframe_enc (frame_hmac x) = None /\ strip_prefix prefix_hmac (frame_enc x) = None.
Proof. intros x. split; [exact (hmac_frame_is_not_enc x) | exact (enc_frame_is_not_hmac x)]. Qed.
Print Assumptions C16_frames_disjoint.

(* the encoding is RawURLEncoding: URL-safe alphabet only (hence no '=' padding, code 61) and ceil(4n/3) characters *)
Theorem C16_b64url_alphabet : forall bs, Forall (fun c => url_char c = true) (encode bs) /\ ~ In 61%N (encode bs).
Proof. intros bs. split; [exact (encode_alphabet bs) | exact (encode_no_padding bs)]. Qed.
Print Assumptions C16_b64url_alphabet.

Theorem C16_b64url_length : forall bs, 3 * length (encode bs) = 4 * length bs + Nat.modulo (3 - Nat.modulo (length bs) 3) 3.
Proof. exact encode_length. Qed.
Print Assumptions C16_b64url_length.

(* decrypt_roundtrip: for every filter state, every event (with or without per-event wrapper info), every plaintext —
   any list of bytes, empty and non-UTF-8 included — and every AEAD randomness: the value the filter produces unframes
   and decrypts, with the wrapper in force for that event, to exactly the plaintext *)
Theorem C16_decrypt_roundtrip : forall K enc derive hkdf hmac dec,
  (forall k rnd m, dec k (enc k rnd m) = Some m) -> (forall k rnd m, bytes (enc k rnd m)) ->
  forall (st : fstate K) ewi o rnd m out,
  event_opts K derive st ewi = Some o -> value_out K enc hkdf hmac st o (CEnc rnd) m = Some out ->
  exists w s i, key_in_force K derive st ewi = Some (w, s, i) /\ decrypt_value K dec w out = Some m.
Proof. exact decrypt_roundtrip. Qed.
Print Assumptions C16_decrypt_roundtrip.

(* the wrapper / salt / info the code selects through its option list are the declarative key in force, and Process
   fails exactly when there is none (no wrapper, or per-event info with an empty event id) *)
Theorem C16_selection_is_key_in_force : forall K enc derive hkdf hmac (st : fstate K) ewi,
  match event_opts K derive st ewi, key_in_force K derive st ewi with
  | Some o, Some t => forall c m, value_out K enc hkdf hmac st o c m = Some (value_under K enc hkdf hmac t c m)
  | None, None => True
  | _, _ => False
  end.
Proof. exact opts_key_in_force. Qed.
Print Assumptions C16_selection_is_key_in_force.

(* hmac_value: an HMAC-ed value is "hmac-sha256:" ++ base64url(HMAC(HKDF(wrapper in force, salt in force, info in force), data)) *)
Theorem C16_hmac_value : forall K enc derive hkdf hmac (st : fstate K) ewi o m,
  event_opts K derive st ewi = Some o ->
  exists w s i, key_in_force K derive st ewi = Some (w, s, i) /\
                value_out K enc hkdf hmac st o CHmac m = Some (frame_hmac (hmac (hkdf w s i) m)).
Proof. exact hmac_value. Qed.
Print Assumptions C16_hmac_value.

(* per-event wrapper derived from the filter's wrapper and the event id; per-event salt / info take precedence over the
   filter's, nil falls back to the filter's *)
Theorem C16_key_in_force_precedence : forall K derive (st : fstate K) w id s i,
  f_wrap st = Some w -> id <> [] ->
  key_in_force K derive st (Some (id, s, i)) =
    Some (derive w id, match s with Some x => x | None => nonnil (f_salt st) end, match i with Some x => x | None => nonnil (f_info st) end).
Proof. exact key_in_force_precedence. Qed.
Print Assumptions C16_key_in_force_precedence.

(* hmac_deterministic: equal inputs under equal keys in force give equal digests (across events and filter states) *)
Theorem C16_hmac_deterministic : forall K enc derive hkdf hmac (st1 : fstate K) ewi1 o1 st2 ewi2 o2 m,
  event_opts K derive st1 ewi1 = Some o1 -> event_opts K derive st2 ewi2 = Some o2 ->
  key_in_force K derive st1 ewi1 = key_in_force K derive st2 ewi2 ->
  value_out K enc hkdf hmac st1 o1 CHmac m = value_out K enc hkdf hmac st2 o2 CHmac m.
Proof. exact hmac_deterministic. Qed.
Print Assumptions C16_hmac_deterministic.

(* rotation_takes_effect, over all histories: after any history the filter holds, per component, the last non-nil value a
   Rotate or a rotation payload set (else the initial one) ... *)
Theorem C16_rotation_state : forall K enc derive hkdf hmac (ops : list (op K)) st,
  fst (run K enc derive hkdf hmac st ops) =
    {| f_wrap := last_set (map (rot_w K) ops) (f_wrap st); f_salt := last_set (map (rot_s K) ops) (f_salt st);
       f_info := last_set (map (rot_i K) ops) (f_info st) |}.
Proof. exact run_state. Qed.
Print Assumptions C16_rotation_state.

(* ... and every event processed after a Rotate / rotation payload (any history before, any events in between) is
   processed exactly as in the state in which the rotation's non-nil components replaced the filter's *)
Theorem C16_rotation_takes_effect : forall K enc derive hkdf hmac (st : fstate K) ops1 rot ops2 ewi vals,
  (exists w s i, rot = ORotate K w s i \/ rot = ORotPayload K w s i) -> Forall (is_event K) ops2 ->
  let st1 := fst (run K enc derive hkdf hmac st ops1) in
  let st2 := rotate K st1 (rot_w K rot) (rot_s K rot) (rot_i K rot) in
  nth_error (snd (run K enc derive hkdf hmac st (ops1 ++ rot :: ops2 ++ [OEvent K ewi vals]))) (length ops1 + 1 + length ops2)
    = Some (snd (step K enc derive hkdf hmac st2 (OEvent K ewi vals))).
Proof. exact rotation_takes_effect. Qed.
Print Assumptions C16_rotation_takes_effect.

Theorem C16_rotate_sets : forall K (st : fstate K) w s i,
  (forall x, w = Some x -> f_wrap (rotate K st w s i) = Some x) /\
  (forall x, s = Some x -> f_salt (rotate K st w s i) = Some x) /\
  (forall x, i = Some x -> f_info (rotate K st w s i) = Some x) /\
  (w = None -> f_wrap (rotate K st w s i) = f_wrap st) /\ (s = None -> f_salt (rotate K st w s i) = f_salt st) /\
  (i = None -> f_info (rotate K st w s i) = f_info st).
Proof. exact rotate_sets. Qed.
Print Assumptions C16_rotate_sets.

(* value_atomic, over all schedules: rotations, the head of Process of each event and each encrypt()/hmacSha256() call are
   the atomic steps (they run under Filter.l).  Whatever the interleaving, a value is produced under the options its
   event fixed when it started and the filter state reached by exactly the rotations scheduled before that step. *)
Theorem C16_value_atomic : forall K enc derive hkdf hmac (cs : cstate K) pre tid c m post eo,
  lookup tid (cs_thr (fst (crun K enc derive hkdf hmac cs pre))) = Some eo ->
  nth_error (snd (crun K enc derive hkdf hmac cs (pre ++ AVal K tid c m :: post))) (length pre)
    = Some (match eo with Some o => value_out K enc hkdf hmac (fstate_after K (cs_f cs) pre) o c m | None => None end).
Proof. exact value_atomic. Qed.
Print Assumptions C16_value_atomic.

(* hence an event without per-event info takes wrapper, salt and info from ONE filter state (old or new, never mixed) *)
Theorem C16_value_atomic_plain : forall K enc derive hkdf hmac (cs : cstate K) pre tid c m post,
  lookup tid (cs_thr (fst (crun K enc derive hkdf hmac cs pre))) = Some (Some (no_opts K)) ->
  nth_error (snd (crun K enc derive hkdf hmac cs (pre ++ AVal K tid c m :: post))) (length pre)
    = Some (match key_in_force K derive (fstate_after K (cs_f cs) pre) None with
            | Some t => Some (value_under K enc hkdf hmac t c m) | None => None end).
Proof. exact value_atomic_plain. Qed.
Print Assumptions C16_value_atomic_plain.

(* and an event WITH per-event wrapper info fixes its whole triple at the head of Process (wrapper derived from the filter's
   wrapper of that moment; salt / info its own, else the filter's of that moment): in every schedule, whatever is rotated
   between its start and a value and whatever other events do, the value is produced under the key in force at its start.
   Together with C16_value_atomic_plain: every value of every event is protected wholly with one key generation. *)
Theorem C16_value_atomic_event : forall K enc derive hkdf hmac (cs : cstate K) pre1 tid e pre2 c m post,
  Forall (not_start K tid) pre2 ->
  nth_error (snd (crun K enc derive hkdf hmac cs (pre1 ++ AStart K tid (Some e) :: pre2 ++ AVal K tid c m :: post))) (length pre1 + 1 + length pre2)
    = Some (match key_in_force K derive (fstate_after K (cs_f cs) pre1) (Some e) with
            | Some t => Some (value_under K enc hkdf hmac t c m) | None => None end).
Proof. exact value_atomic_event. Qed.
Print Assumptions C16_value_atomic_event.

(* the schedule that mixed (old derived wrapper, new salt) before the repair of the library (red record and as-was model:
   notes/redgreen/C16_event_fallback_as_was.v) gives the value under the key in force at the start of the event *)
Theorem C16_value_atomic_event_fallback_fixed :
  nth_error (snd (crun tK t_enc t_derive t_hkdf t_hmac {| cs_f := st0; cs_thr := [] |}
                    [AStart tK 1%N (Some ([3]%N, None, None)); ARot tK (Some 2%N) (Some [8]%N) None; AVal tK 1%N CHmac [1]%N])) 2
    = Some (Some (value_under tK t_enc t_hkdf t_hmac (t_derive 1%N [3]%N, [7]%N, []%N) CHmac [1]%N)) /\
  key_in_force tK t_derive st0 (Some ([3]%N, None, None)) = Some (t_derive 1%N [3]%N, [7]%N, []%N).
Proof. exact ewi_fallback_fixed. Qed.
Print Assumptions C16_value_atomic_event_fallback_fixed.

(* one event rotated part way through - the schedule its own Tags() callback produces, or any rotation scheduled between two of
   its values: head of Process, values [pre], ONE rotation, values [post].  Every value is selected under the options the event
   fixed at its start; [pre] in the state it started in, [post] in the rotated state. *)
Theorem C16_callback_schedule : forall K enc derive hkdf hmac (st : fstate K) tid ewi pre w s i post,
  snd (crun K enc derive hkdf hmac {| cs_f := st; cs_thr := [] |} (AStart K tid ewi :: vals_of K tid pre ++ ARot K w s i :: vals_of K tid post)) =
    None :: map (fun v => match event_opts K derive st ewi with Some o => value_out K enc hkdf hmac st o (fst v) (snd v) | None => None end) pre
    ++ None :: map (fun v => match event_opts K derive st ewi with Some o => value_out K enc hkdf hmac (rotate K st w s i) o (fst v) (snd v) | None => None end) post.
Proof. exact callback_schedule. Qed.
Print Assumptions C16_callback_schedule.

(* what the check accepts for such an event when it carries per-event wrapper info: whatever the callback rotated (a filter
   that had no salt / info of its own included), EVERY value of the event - before and after the rotation - is attributed to the
   key in force when the event started *)
Theorem C16_callback_event_under_key_at_start : forall c e t,
  RunCryptoSound.cb_accepted c -> cb_ewi c = Some e -> key_in_force N m_derive (cb_init c) (Some e) = Some t ->
  exists os1 os2 os3, cb_obs c = CbValues os1 os2 os3 /\
    Forall2 (fun v o => value_ok t (fst v) o) (cb_pre c) os1 /\ Forall2 (fun v o => value_ok t (fst v) o) (cb_post c) os2.
Proof. exact cb_accepted_ewi. Qed.
Print Assumptions C16_callback_event_under_key_at_start.

(* a rotation payload whose accessors start events on the same filter: the check accepts it exactly when the payload was consumed,
   every such event is an execution of the model in the state before the rotation or in the state after it (a plain event value
   by value: each value under the old or the new filter triple; an event with wrapper info wholly under one of the two keys in
   force) - never a state in between - and the next event is under the rotated state *)
Theorem C16_rotation_payload_verdict : forall c, rp_mm c = [] <-> RunCryptoSound.rp_accepted c.
Proof. exact rp_mm_iff. Qed.
Print Assumptions C16_rotation_payload_verdict.

(* an event whose values carry their own class tags, under an override table that does not switch everything off: it is the
   model's event over exactly the values whose tag resolves (Tag.v) to encrypt / hmac-sha256, and when those are attributed to a
   triple, every value of the event came out as its resolved action says under THAT triple *)
Theorem C16_tagged_event : forall ov ewi fs r, Tag.all_none ov = false -> fst (tstep ov ewi fs r) = OEvent N ewi (crypto_vals ov fs).
Proof. exact tstep_event. Qed.
Theorem C16_tagged_event_values : forall ov t fs os,
  Forall2 (fun v o => value_ok t (fst v) o) (crypto_vals ov fs) (crypto_obs ov fs os) ->
  Forall2 (fun f o => tobs_ok t (tact ov f) o) fs os.
Proof. exact crypto_obs_ok. Qed.
Print Assumptions C16_tagged_event_values.

(* non-vacuity: a history with an event before rotation, Rotate, an event with per-event info (salt from the filter, info
   its own), a rotation payload, an event after it, and an event with an empty event id *)
Theorem C16_nonvacuous :
  snd (run tK t_enc t_derive t_hkdf t_hmac st0 hist) =
    [OutValues [frame_enc (t_enc 1 [9; 9] [0; 255; 128])%N; frame_hmac (t_hmac (t_hkdf 1 [7] []) [])%N];
     OutNone;
     OutValues [frame_hmac (t_hmac (t_hkdf (t_derive 2 [3]) [7] [4]) [1])%N];
     OutConsumed;
     OutValues [frame_hmac (t_hmac (t_hkdf 2 [8] [5]) [1])%N];
     OutErr].
Proof. exact hist_outcomes. Qed.

Theorem C16_nonvacuous_roundtrip :
  decrypt_value tK t_dec 1%N (frame_enc (t_enc 1 [9; 9] [0; 255; 128])%N) = Some [0; 255; 128]%N.
Proof. exact roundtrip_instance. Qed.

(* the tie: what the correspondence check's verdict means.  Run_Crypto.mismatches evaluates to [] exactly when every case is
   accepted: its observed history is an execution of the model from the case's initial filter state (Rotate returns nothing, a
   rotation payload is consumed, an event fails exactly when there is no key in force, and otherwise every value it produced is
   attributed to exactly key_in_force at that point, decrypts to the original and is framed as Base64.v says), equal data under
   equal triples gave equal digests, the values produced under concurrent rotation each come from one rotation, every event
   rotated from its own callback is accepted (RunCryptoSound.cb_accepted: its values before the rotation under the triple its
   options select in the state it started in, those after it under the triple the SAME options select in the rotated state),
   every rotation payload with side-effecting accessors is accepted (RunCryptoSound.rp_accepted), and the caller's salt / info
   slices kept their bytes.  (Identities are interned by the harness, which folds what the cryptography
   cannot tell apart: nil = empty salt / info, trailing NUL bytes of an HKDF salt and of an event id.) *)
Theorem C16_verdict_is_model_execution : forall cs, Run_Crypto.mismatches cs = [] <-> Forall RunCryptoSound.case_accepted cs.
Proof. exact RunCryptoSound.mismatches_nil_iff. Qed.
Print Assumptions C16_verdict_is_model_execution.

(* every value of every accepted event is under key_in_force of the state reached by the steps before it *)
Theorem C16_accepted_event_under_key_in_force : forall st seen pre ewi vals ob rest,
  RunCryptoSound.accepted st seen (pre ++ (OEvent N ewi vals, ob) :: rest) ->
  let st' := fold_left (fun s x => fst (step N d_enc m_derive d_hkdf d_hmac s (fst x))) pre st in
  match key_in_force N m_derive st' ewi with
  | None => ob = CoErr
  | Some t => exists os, ob = CoValues os /\ Forall2 (fun v o => value_ok t (fst v) o) vals os
  end.
Proof. exact accepted_event_under_key_in_force. Qed.
Print Assumptions C16_accepted_event_under_key_in_force.
