(* C17 — gated events do not linger: expiry, FlushAll and Close empty the gate.
   Model: Gated.v (gated.go after repair F1; on the unrepaired code these statements are false, see
   notes/redgreen/C17_F1_asis_refuted.v).  [rd i] is the clock reading used for the i-th group examined by
   processExpiredEvents, [tadd] the reading used when a new group is opened. *)
From Coq Require Import List NArith ZArith.
From Verif Require Import Gated GatedProofs GatedExamples.
From Verif Require Run_Gated RunGatedSound.
Import ListNotations.
Open Scope Z_scope.

(* after any successful Process of a Gateable event made at time T (every clock reading of the call is at least T) no group
   whose expiry time lies before T remains gated (Expiration >= 0; 0 means the 10 s default) *)
Theorem C17_expired_gone : forall E s id flush n rd tadd T,
  0 <= expiration_cfg E -> (forall i, T <= rd i) -> T <= tadd ->
  snd (step E s (Proc id flush n rd tadd)) <> RErr ->
  forall g, In g (groups (fst (step E s (Proc id flush n rd tadd)))) -> ~ (gexp g < T).
Proof. exact expired_gone. Qed.
Print Assumptions C17_expired_gone.

(* a successful processExpiredEvents leaves exactly the unexpired groups, and logged each expired group exactly once, oldest
   first (the log is newest first), through the Broker when one is configured and as dropped otherwise *)
Theorem C17_expire_success : forall E s rd, snd (astep E s (AExpire rd)) = RNil ->
  groups (fst (astep E s (AExpire rd))) = pick (expired rd) false (groups s) /\
  log (fst (astep E s (AExpire rd))) = rev (map (out_entry E) (pick (expired rd) true (groups s))) ++ log s.
Proof. exact expire_success. Qed.
Print Assumptions C17_expire_success.

(* ... and so a successful Process emitted every expired group before taking the new event in *)
Theorem C17_expired_emitted : forall E s id flush n rd tadd, N.eqb id 0 = false ->
  snd (step E s (Proc id flush n rd tadd)) <> RErr ->
  exists new, log (fst (step E s (Proc id flush n rd tadd))) =
              new ++ LArr {| eid := id; en := n |} :: rev (map (out_entry E) (pick (expired rd) true (groups s))) ++ log s.
Proof. exact expired_emitted. Qed.
Print Assumptions C17_expired_emitted.

(* "oldest first": list order is ARRIVAL order.  It coincides with expiry order only under the two hypotheses stated here — one
   constant Expiration (the fixed [E]) and group-opening clock readings that never decrease; Expiration is an exported field that
   may change between calls and a clock may step back, and then a later group can expire before an earlier one.  Nothing else in
   this file depends on the order: C17_expired_gone / C17_expire_success / C17_memory_bound hold for EVERY state [s], whatever the
   order of its groups' expiries (the walk examines every group, C17_expired_gone_needs_no_order is an instance), and the
   correspondence runs the model with the Expiration in force at each call (Run_Gated.cfg_at). *)
Theorem C17_groups_sorted_by_expiry : forall E l,
  0 <= expiration_cfg E -> Sorted.StronglySorted Z.le (add_times l) -> Sorted.StronglySorted Z.le (map gexp (groups (arun E l))).
Proof. exact groups_sorted_by_expiry. Qed.
Print Assumptions C17_groups_sorted_by_expiry.

(* an instance with list order <> expiry order: group 1 (expires 1010) listed before group 2 (expires 1005); the Process at 1007
   succeeds, group 2 is emitted through the Broker and only the unexpired group 1 and the new group remain *)
Theorem C17_expired_gone_needs_no_order :
  snd (step E_ok unordered (at_ 1007 3 false 3)) = RWithheld /\
  map gid (groups (fst (step E_ok unordered (at_ 1007 3 false 3)))) = [1%N; 3%N] /\
  hd (LArr {| eid := 0; en := 0 |}) (tl (log (fst (step E_ok unordered (at_ 1007 3 false 3))))) = LOut DSent 2 [{| eid := 2; en := 2 |}].
Proof. exact unordered_sweep. Qed.

(* after a successful FlushAll / Close nothing remains gated and every previously gated group was emitted exactly once,
   oldest first: sent through the Broker when one is configured, dropped otherwise *)
Theorem C17_flushall_empties : forall E s, snd (step E s FlushAll) = RNil ->
  groups (fst (step E s FlushAll)) = [] /\ log (fst (step E s FlushAll)) = rev (map (flush_entry E) (groups s)) ++ log s.
Proof. exact flushall_empties_step. Qed.
Print Assumptions C17_flushall_empties.

Theorem C17_close_empties : forall E s, snd (step E s Close) = RNil ->
  groups (fst (step E s Close)) = [] /\ log (fst (step E s Close)) = rev (map (flush_entry E) (groups s)) ++ log s.
Proof. exact close_empties_step. Qed.
Print Assumptions C17_close_empties.

(* memory bound: after a successful Process at time T every event the filter still holds belongs to an unexpired group *)
Theorem C17_memory_bound : forall E s id flush n rd tadd T,
  0 <= expiration_cfg E -> (forall i, T <= rd i) -> T <= tadd ->
  snd (step E s (Proc id flush n rd tadd)) <> RErr ->
  forall e, In e (all_of (groups (fst (step E s (Proc id flush n rd tadd))))) ->
  exists g, In g (groups (fst (step E s (Proc id flush n rd tadd)))) /\ In e (gevs g) /\ T <= gexp g.
Proof. exact memory_bound. Qed.
Print Assumptions C17_memory_bound.

(* ---------- what the check's verdict means ----------
   The correspondence part of the check evaluates Run_Gated.mismatches / conc_mismatches on the harness' cases with vm_compute and
   requires [].  That verdict is exactly: every observed history is an execution of the model (result, returned composite,
   ComposeFrom arguments, payloads handed to the Sender and the VerifGated snapshot of every call are the model's) and satisfies
   the observation-only oracles; every concurrent case satisfies the declarative concurrent oracle.  (The engine drops the
   kinds that do not speak about the property at hand; on a tree where the whole list is empty this is the reading.) *)
Theorem C17_verdict_is_model_execution : forall cs,
  Run_Gated.mismatches cs = [] <->
  Forall (fun c => RunGatedSound.accepted (Run_Gated.g_cfg c) s0 (Run_Gated.g_steps c) /\
                   RunGatedSound.oracles_ok (Run_Gated.g_cfg c) RunGatedSound.ostate0 (Run_Gated.g_steps c)) cs.
Proof. exact RunGatedSound.mismatches_nil_iff. Qed.
Print Assumptions C17_verdict_is_model_execution.

Theorem C17_concurrent_verdict_is_oracle : forall cs,
  Run_Gated.conc_mismatches cs = [] <-> Forall (fun c => RunGatedSound.conc_ok (Run_Gated.cc_obs c)) cs.
Proof. exact RunGatedSound.conc_mismatches_nil_iff. Qed.
Print Assumptions C17_concurrent_verdict_is_oracle.

(* three open groups, two of them expired when the next Process arrives; FlushAll / Close succeed with several groups open *)
Theorem C17_nonvacuous :
  length (groups three) = 3%nat /\
  snd (step E_ok three (at_ 1012 3 false 4)) = RWithheld /\
  map gid (groups (fst (step E_ok three (at_ 1012 3 false 4)))) = [3%N] /\
  snd (step E_ok three FlushAll) = RNil /\ snd (step E_nobroker (run E_nobroker [at_ 1000 1 false 1; at_ 1001 2 false 2]) Close) = RNil.
Proof. exact c17_inhabited. Qed.
