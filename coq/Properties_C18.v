(* C18 — CloudEvents output is well-formed and, where required, verifiably signed. *)
From Coq Require Import List NArith.
From Verif Require Import Alist Base64 Json JsonProofs Formatters CloudEvents CloudEventsProofs FormatsExamples Run_CloudEvents RunCloudEventsSound.
Import ListNotations.
Open Scope N_scope.

(* Whenever Process does not fail, the value stored under the configured format's name is the encoding (Json.render, indented
   for the text format) of a document with a non-empty id — the payload's ID() if it has one, otherwise the fresh one —, the
   configured non-empty source, the event's type and creation time, the image of the payload (or of its Data(); omitted for
   nil data), the format's content type and the configured schema (omitted when none); type, time, payload and every other
   format of the event are unchanged and the event is forwarded / dropped as the predicate says.  (specversion is the
   constant member "1.0" of [doc_jv].)  Hypothesis on the id source: it never returns the empty string. *)
Theorem C18_ce_fields : forall (P : Type) (p_id : P -> option bytes) (p_data : P -> dimage) cf (ev : event P) fresh r oc calls,
  process p_id p_data (Some cf) (Some ev) fresh = (r, oc, calls) -> oc <> OErr ->
  (forall i, fresh = Some i -> i <> []) ->
  exists d ev', r = Some ev' /\
    format (fmt_key (c_format cf)) ev' = Some (enc (c_format cf) d) /\
    ev_type ev' = ev_type ev /\ ev_time ev' = ev_time ev /\ ev_payload ev' = ev_payload ev /\
    (forall f, f <> fmt_key (c_format cf) -> format f ev' = format f ev) /\
    d_id d <> [] /\
    (match p_id (ev_payload ev) with Some i => d_id d = i | None => fresh = Some (d_id d) end) /\
    c_source cf = Some (d_source d) /\ d_source d <> [] /\
    d_type d = ev_type ev /\ ev_time ev = Some (d_time d) /\
    (match p_data (ev_payload ev) with DVal v => d_data d = Some v | DAbsent => d_data d = None | DUnenc => False end) /\
    d_ctype d = ctype (c_format cf) /\
    (match c_schema cf with Some s => d_schema d = s /\ s <> [] | None => d_schema d = [] end) /\
    oc = pred_out cf d.
Proof. exact ce_fields. Qed.
Print Assumptions C18_ce_fields.

(* invalid configurations (nil node, nil or empty source, unknown format, empty schema) are rejected: an error, the event
   untouched, the signer not consulted *)
Theorem C18_ce_invalid_config_rejected : forall (P : Type) (p_id : P -> option bytes) (p_data : P -> dimage) c (e : option (event P)) fresh,
  (c = None \/ exists cf, c = Some cf /\ valid cf = false) -> process p_id p_data c e fresh = (e, OErr, []).
Proof. exact ce_invalid_config_rejected. Qed.
Print Assumptions C18_ce_invalid_config_rejected.
Theorem C18_valid_iff : forall cf,
  valid cf = true <->
  (exists s, c_source cf = Some s /\ s <> []) /\ c_format cf <> FBad /\ (forall s, c_schema cf = Some s -> s <> []).
Proof. exact valid_iff. Qed.
Print Assumptions C18_valid_iff.

(* an empty ID() is rejected *)
Theorem C18_ce_empty_id_rejected : forall (P : Type) (p_id : P -> option bytes) (p_data : P -> dimage) cf (ev : event P) fresh,
  p_id (ev_payload ev) = Some [] -> process p_id p_data (Some cf) (Some ev) fresh = (Some ev, OErr, []).
Proof. exact ce_empty_id_rejected. Qed.
Print Assumptions C18_ce_empty_id_rejected.

(* signer configured and type listed: every event that is not failed carries serialized = base64url of exactly the unsigned
   document's encoding and serialized_hmac = the signer's result on exactly those bytes, and the signer was called once,
   with them *)
Theorem C18_forwarded_implies_signed : forall (P : Type) (p_id : P -> option bytes) (p_data : P -> dimage) cf (ev : event P) fresh r oc calls sg,
  process p_id p_data (Some cf) (Some ev) fresh = (r, oc, calls) -> oc <> OErr ->
  c_signer cf = Some sg -> listed cf (ev_type ev) = true ->
  exists d h, d_ser d = [] /\ d_hmac d = [] /\
    sg (enc (c_format cf) d) = SigOk h /\ calls = [enc (c_format cf) d] /\
    r = Some (formatted_as (fmt_key (c_format cf))
                (enc (c_format cf) (with_sig d (Base64.encode (enc (c_format cf) d)) h)) ev) /\
    oc = pred_out cf (with_sig d (Base64.encode (enc (c_format cf) d)) h).
Proof. exact forwarded_implies_signed. Qed.
Print Assumptions C18_forwarded_implies_signed.

(* the full statement, with the framing: the stored document is the unsigned document plus the two members; serialized is
   non-empty and base64url-decodes (Base64.decode_encode) to exactly the encoding of the unsigned document — the bytes of the
   one call the signer received, whose result is serialized_hmac; and both documents parse back to their images.
   Hypothesis: the data image handed over by the oracle is a well-formed JSON value. *)
Theorem C18_signed_when_required : forall (P : Type) (p_id : P -> option bytes) (p_data : P -> dimage) cf (ev : event P) fresh r oc calls sg,
  process p_id p_data (Some cf) (Some ev) fresh = (r, oc, calls) -> oc <> OErr ->
  c_signer cf = Some sg -> listed cf (ev_type ev) = true ->
  (forall v, p_data (ev_payload ev) = DVal v -> wf v) ->
  exists d h ser,
    d_ser d = [] /\ d_hmac d = [] /\
    sg (enc (c_format cf) d) = SigOk h /\ calls = [enc (c_format cf) d] /\
    r = Some (formatted_as (fmt_key (c_format cf)) (enc (c_format cf) (with_sig d ser h)) ev) /\
    ser <> [] /\ Base64.decode ser = Some (enc (c_format cf) d) /\
    (h <> [] -> members (doc_jv (with_sig d ser h)) =
                members (doc_jv d) ++ [(s_serialized, JStr ser); (s_serialized_hmac, JStr h)]) /\
    parse_doc (enc (c_format cf) d) = Some (jimage (doc_jv d)) /\
    parse_doc (enc (c_format cf) (with_sig d ser h)) = Some (jimage (doc_jv (with_sig d ser h))).
Proof. exact signed_when_required. Qed.
Print Assumptions C18_signed_when_required.

(* Rotate: the signer is the node's only state.  Rotate(sg) installs sg and nothing else, Rotate(nil) is refused; after a
   rotation — whatever signer, or none, the node had before — an event of a listed type that is not failed is signed by sg *)
Theorem C18_rotate_installs : forall c sg,
  let c' := fst (rotate c (Some sg)) in
  snd (rotate c (Some sg)) = true /\ c_signer c' = Some sg /\ c_sign_types c' = c_sign_types c /\ c_source c' = c_source c /\
  c_schema c' = c_schema c /\ c_format c' = c_format c /\ c_pred c' = c_pred c /\ valid c' = valid c /\
  (forall ty, listed c' ty = listed c ty).
Proof. exact rotate_installs. Qed.
Print Assumptions C18_rotate_installs.
Theorem C18_rotate_nil_refused : forall c, rotate c None = (c, false).
Proof. exact rotate_nil_refused. Qed.
Print Assumptions C18_rotate_nil_refused.
Theorem C18_rotated_signer_in_force : forall (P : Type) (p_id : P -> option bytes) (p_data : P -> dimage) cf sg (ev : event P) fresh r oc calls,
  process p_id p_data (Some (fst (rotate cf (Some sg)))) (Some ev) fresh = (r, oc, calls) -> oc <> OErr ->
  listed cf (ev_type ev) = true ->
  (forall v, p_data (ev_payload ev) = DVal v -> wf v) ->
  exists d h ser,
    d_ser d = [] /\ d_hmac d = [] /\ sg (enc (c_format cf) d) = SigOk h /\ calls = [enc (c_format cf) d] /\
    r = Some (formatted_as (fmt_key (c_format cf)) (enc (c_format cf) (with_sig d ser h)) ev) /\
    ser <> [] /\ Base64.decode ser = Some (enc (c_format cf) d).
Proof. exact rotated_signer_in_force. Qed.
Print Assumptions C18_rotated_signer_in_force.

(* every stored document — compact for cloudevents-json, indented for cloudevents-text — is JSON that parses back to the image
   of the document object (its members in order: id, source, specversion "1.0", type, data?, datacontentype, dataschema?, time,
   serialized?, serialized_hmac?) *)
Theorem C18_ce_document_parses : forall f d, data_wf (d_data d) -> parse_doc (enc f d) = Some (jimage (doc_jv d)).
Proof. exact ce_document_parses. Qed.
Print Assumptions C18_ce_document_parses.

(* an event whose signing failed is not forwarded (and not stored) unsigned.  The code before the F2 repair violated this:
   witness in notes/redgreen/C18_F2_before.txt and corpus/C18 *)
Theorem C18_sign_failure_not_forwarded : forall (P : Type) (p_id : P -> option bytes) (p_data : P -> dimage) cf (ev : event P) fresh id t dat sg,
  valid cf = true -> chosen_id P p_id ev fresh = Some id -> ev_time ev = Some t -> data_of P p_data ev = Some dat ->
  c_signer cf = Some sg -> listed cf (ev_type ev) = true ->
  sg (enc (c_format cf) (unsigned_doc cf ev id t dat)) = SigErr ->
  fst (process p_id p_data (Some cf) (Some ev) fresh) = (Some ev, OErr).
Proof. exact sign_failure_not_forwarded. Qed.
Print Assumptions C18_sign_failure_not_forwarded.

(* event types not listed (or no signer) are never signed: the signer is not called, the document carries no signature *)
Theorem C18_unlisted_never_signed : forall (P : Type) (p_id : P -> option bytes) (p_data : P -> dimage) cf (ev : event P) fresh r oc calls,
  process p_id p_data (Some cf) (Some ev) fresh = (r, oc, calls) ->
  (c_signer cf = None \/ listed cf (ev_type ev) = false) ->
  calls = [] /\
  (oc <> OErr -> exists d, d_ser d = [] /\ d_hmac d = [] /\
     r = Some (formatted_as (fmt_key (c_format cf)) (enc (c_format cf) d) ev)).
Proof. exact unlisted_never_signed. Qed.
Print Assumptions C18_unlisted_never_signed.

(* PARTIAL — full statement: "the id is ... otherwise fresh and unique".  Proved: under the hypothesis that the id source
   (base62.Random(10), not modelled) never repeats itself, no two events of a run are given the same fresh id. *)
Theorem C18_ce_fresh_ids_distinct_partial : forall (P : Type) (p_id : P -> option bytes) c (evs : list (event P)) stream,
  NoDup stream -> NoDup (process_all p_id c evs stream).
Proof. exact ce_fresh_ids_distinct_partial. Qed.
Print Assumptions C18_ce_fresh_ids_distinct_partial.

(* ---- the tie: what the correspondence check's verdict means ---- *)

(* The check evaluates [Run_CloudEvents.mismatches] and is green exactly when it is [].  That holds iff every case is
   accepted: a Process case's observation is CloudEvents.process on its inputs (error, forwarding, the document's bytes, the
   other entries, the signer's inputs), type/time/payload untouched, the stored value parses to an object with the members
   C18 requires ([fields_decl]), carries serialized / serialized_hmac exactly when a signer is configured and the type listed
   — serialized base64url-decoding to the signer's one input, which parses to the stored document minus the signature
   ([ser_decl]) —, an error not the predicate's left the table as it was, the re-read document is the stored one; every
   step of a history on one node is accepted under the signer in force and every Rotate result is the model's; fresh ids
   are non-empty and distinct.  (The indentation oracle stays the boolean [indent_ok]; the duplicate / panic counts of the
   concurrent part and the instant check of the time member are computed by the harness.) *)
Theorem C18_verdict_is_model_execution : forall cs,
  Run_CloudEvents.mismatches cs = [] <-> Forall RunCloudEventsSound.case_accepted cs.
Proof. exact RunCloudEventsSound.mismatches_nil_iff. Qed.
Print Assumptions C18_verdict_is_model_execution.

(* what acceptance gives on the observations themselves *)
Theorem C18_accepted_signed : forall c,
  ce_accepted c -> b_err (k_obs c) = false -> k_signer (k_cfg c) <> 0 -> In (k_type c) (k_types (k_cfg c)) ->
  exists b ms s u, tget (ce_key c) (b_table (k_obs c)) = Some b /\ parse_doc b = Some (JObj ms) /\
    mget s_serialized ms = Some (JStr s) /\ b_calls (k_obs c) = [u] /\ Base64.decode s = Some u /\
    parse_doc u = Some (JObj (drop_sig ms)).
Proof. exact accepted_signed. Qed.
Print Assumptions C18_accepted_signed.
Theorem C18_accepted_unsigned : forall c,
  ce_accepted c -> b_err (k_obs c) = false -> (k_signer (k_cfg c) = 0 \/ ~ In (k_type c) (k_types (k_cfg c))) ->
  exists b ms, tget (ce_key c) (b_table (k_obs c)) = Some b /\ parse_doc b = Some (JObj ms) /\
    mget s_serialized ms = None /\ mget s_serialized_hmac ms = None /\ b_calls (k_obs c) = [].
Proof. exact accepted_unsigned. Qed.
Print Assumptions C18_accepted_unsigned.
Theorem C18_accepted_error_frame : forall c,
  ce_accepted c -> b_err (k_obs c) = true -> b_pred_err (k_obs c) = false -> b_table (k_obs c) = k_pre c.
Proof. exact accepted_error_frame. Qed.
Print Assumptions C18_accepted_error_frame.

(* non-vacuity: a valid text-format configuration with a signer and a listed type, a nested payload without ID(), forwarded *)
Theorem C18_nonvacuous :
  exists r calls,
    process ex_pid ex_pdata (Some ex_cfg) (Some ex_event) (Some ex_fresh) = (r, OFwd, calls) /\
    c_signer ex_cfg = Some ex_signer /\ listed ex_cfg (ev_type ex_event) = true /\
    (forall v, ex_pdata (ev_payload ex_event) = DVal v -> wf v) /\ length calls = 1%nat.
Proof. exact ex_nonvacuous_c18. Qed.
