(* C19 — stock nodes are safe to share across pipelines and goroutines (data-race part).
   For EVERY program of the command language and EVERY contract table: when the obligation [check_program C pr ... = []]
   holds (re-evaluated on every check against the program regenerated from the six library packages, see
   coq/obligations/Obl_C19.v), then for any two threads of the program and any interleaving permitted by the mutex /
   RW-lock rules, the two threads never have a write and a conflicting access to the same lock-guarded field enabled at
   the same time -- accesses excused by a waiver (the recorded known finding KF-C19-copy-vs-formattedas) excepted,
   hence "_partial".  "No corrupted output" additionally rests on C08 / C13 / C16 (other engines).
   Assumed, not proved: the Go memory model (a data-race-free program is sequentially consistent), the completeness of
   the translator's access extraction (cross-checked on every run by the race detector in the stress driver). *)
From Coq Require Import List String.
From Verif Require Import LockLang LockSound LockExamples.
Import ListNotations.

Theorem C19_no_data_race_partial : forall C pr entries lits unsup,
  check_program C pr entries lits unsup = [] ->
  forall fna ba ta xa da fnb bb tb xb db,
    thread C (fenv_of (reachable pr entries)) fna ba -> run (fenv_of (reachable pr entries)) fna ba [] ta xa da -> is_brk xa = false ->
    thread C (fenv_of (reachable pr entries)) fnb bb -> run (fenv_of (reachable pr entries)) fnb bb [] tb xb db -> is_brk xb = false ->
  forall c f ls fa a fb b T1 T2,
    reach2 {| h1 := []; t1 := ta ++ tag fna da; h2 := []; t2 := tb ++ tag fnb db |} c ->
    guard_of C f = GLocks ls -> ls <> [] ->
    t1 c = (fa, a) :: T1 -> t2 c = (fb, b) :: T2 ->
    mem2 fa f (waived C) = false -> mem2 fb f (waived C) = false ->
    (a = EA (Wr f) /\ reads_or_writes f b) \/ (b = EA (Wr f) /\ reads_or_writes f a) -> False.
Proof. exact program_no_data_race. Qed.
Print Assumptions C19_no_data_race_partial.

(* every event of every thread is safe: guarded accesses, immutable fields written by constructors only *)
Theorem C19_every_access_guarded : forall C pr entries lits unsup,
  check_program C pr entries lits unsup = [] ->
  forall fn body, thread C (fenv_of (reachable pr entries)) fn body ->
  forall t x ds', run (fenv_of (reachable pr entries)) fn body [] t x ds' -> is_brk x = false ->
  trace_safe C [] (t ++ tag fn ds').
Proof. exact program_safe. Qed.
Print Assumptions C19_every_access_guarded.

(* the general two-thread invariant, for threads in the middle of their runs holding arbitrary compatible lock sets *)
Theorem C19_guarded_no_race : forall C c0 c f ls fa a fb b T1 T2,
  good C c0 -> reach2 c0 c -> guard_of C f = GLocks ls -> ls <> [] ->
  t1 c = (fa, a) :: T1 -> t2 c = (fb, b) :: T2 ->
  mem2 fa f (waived C) = false -> mem2 fb f (waived C) = false ->
  (a = EA (Wr f) /\ reads_or_writes f b) \/ (b = EA (Wr f) /\ reads_or_writes f a) -> False.
Proof. exact no_data_race. Qed.
Print Assumptions C19_guarded_no_race.

Theorem C19_nonvacuous :
  check_program (mini mini_good) mini_good ["Send"; "RemoveNode"]%string [] [] = [] /\
  thread (mini mini_good) fenv_good "RemoveNode" remove_good /\
  run fenv_good "RemoveNode" remove_good [] remove_trace XR [] /\
  nth_error (remove_trace ++ tag "RemoveNode" []) 3 = Some ("RemoveNode"%string, EA (User "Closer.Close")) /\
  In L (user_acquires (mini mini_good) "Closer.Close") /\
  thread (mini mini_good) fenv_good "process" (PSeq (PAct (User "Node.Process")) PRet) /\
  guard_of (mini mini_good) "Broker.nodes" = GLocks [L].
Proof. exact nonvacuous. Qed.
Theorem C19_nonvacuous_rejects_unguarded_access :
  flat_complaints (check_program (mini mini_bad_access) mini_bad_access ["Send"; "RemoveNode"; "Nodes"]%string [] []) = [("Nodes", KUnguardedRead, "Broker.nodes")]%string.
Proof. exact bad_access_rejected. Qed.

(* the wall clock is a pseudo field (clock!) of the type whose methods read it; guarded for FileSink: reading it before the sink's
   mutex is taken is rejected, after it accepted (per run: Obl_C19.v and, for C15, Obl_clock.v filesink_clock_read_under_lock) *)
Theorem C19_nonvacuous_clock_under_lock :
  flat_complaints (check_program (clock_contracts [("Process", process_clock_early)]%string) [("Process", process_clock_early)]%string ["Process"]%string [] [])
    = [("Process", KUnguardedRead, "FileSink.clock!")]%string /\
  check_program (clock_contracts [("Process", process_clock_locked)]%string) [("Process", process_clock_locked)]%string ["Process"]%string [] [] = [].
Proof. exact (conj clock_early_rejected clock_locked_accepted). Qed.
