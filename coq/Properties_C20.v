(* C20 — Reopen reaches every node of every registered pipeline.  The iteration order of the graph map and of each
   pipeline Range is the order of the list [gs]; the theorems hold for every [gs], hence for every order. *)
From Coq Require Import List NArith.
From Verif Require Import Alist Broker BrokerProofs BrokerExamples Run_Broker RunBrokerProofs RunBrokerSound.
Import ListNotations.

(* no node fails: the error is nil and every node of every pipeline of every graph had Reopen invoked *)
Theorem C20_reopen_all : forall fails gs,
  (forall o, In o (concat (concat gs)) -> fails o = false) ->
  snd (reopen_graphs fails gs) = [] /\ fst (reopen_graphs fails gs) = concat (concat gs).
Proof. exact reopen_all. Qed.
Print Assumptions C20_reopen_all.

(* for every reachable registry state and every visiting order [gs] of its graphs *)
Theorem C20_reopen_reaches_registered : forall cf ops fails gs,
  (forall o, In o (concat (concat gs)) <-> In o (all_linked_objs (run cf ops))) ->
  (forall o, In o (all_linked_objs (run cf ops)) -> fails o = false) ->
  snd (reopen_graphs fails gs) = [] /\ forall o, In o (all_linked_objs (run cf ops)) -> In o (fst (reopen_graphs fails gs)).
Proof. exact reopen_reaches_registered. Qed.
Print Assumptions C20_reopen_reaches_registered.

(* some node fails: a non-nil error ... *)
Theorem C20_reopen_error_carried : forall fails gs,
  (exists o, In o (concat (concat gs)) /\ fails o = true) -> snd (reopen_graphs fails gs) <> [].
Proof. exact reopen_error_carried. Qed.
Print Assumptions C20_reopen_error_carried.

(* ... that carries exactly the failures returned by the Reopen calls actually made *)
Theorem C20_reopen_errors_are_real : forall fails gs,
  snd (reopen_graphs fails gs) = filter fails (fst (reopen_graphs fails gs)).
Proof. exact reopen_errors_are_real. Qed.
Print Assumptions C20_reopen_errors_are_real.

(* tie between the theorems and the check: the executable acceptor that judges the implementation's observed Reopen
   (result, carried failure, set of reopened objects) accepts what the model does under every visiting order *)
Theorem C20_reopen_accepts_sound : forall b f gs,
  (forall o, In o (concat (concat gs)) <-> In o (all_linked_objs b)) ->
  let r := reopen_graphs (N.eqb f) gs in
  reopen_accepts b f (reopen_obs (nilp (snd r)) (memN f (snd r)) (sortN (distinct (fst r)))) = true.
Proof. exact reopen_accepts_sound. Qed.
Print Assumptions C20_reopen_accepts_sound.

Theorem C20_nonvacuous : snd (reopen_graphs (N.eqb 12%N) (graphs_of (run nocf h1))) = [12%N].
Proof. exact reopen_fail. Qed.

(* the tie: what the correspondence check's verdict means.  The check evaluates [mismatches] on the histories the real Broker
   produced and requires []; that holds exactly when every observed history is an execution of this model (each call's result,
   error flag, closes and registry snapshot, and each Reopen's visits, are the model's) and meets the observation-only
   oracles - so the theorems above speak about the observed histories, and nothing the model can produce is rejected. *)
Theorem C20_verdict_is_model_execution : forall cs,
  mismatches cs = [] <->
  Forall (fun c => accepted (c_close_fails c) (c_non_closers c) b0 (c_steps c) /\ oracles_ok None [] (c_steps c)) cs.
Proof. exact mismatches_nil_iff. Qed.
Print Assumptions C20_verdict_is_model_execution.
