(* RunBrokerProofs.v — the executable acceptor Run_Broker.reopen_accepts is sound for the Reopen model: whatever the
   visiting order, the observation the model produces is accepted. *)
From Coq Require Import List Bool Arith NArith ZArith Lia.
From Verif Require Import Alist SortN Broker BrokerProofs Run_Broker.
Import ListNotations.

Definition reopen_obs (ok err : bool) (reopened : list N) : bobs := Build_bobs ok err [] [] [] [] reopened.

Lemma memN_true_In x l : memN x l = true -> In x l. Proof. apply memN_In. Qed.
Lemma In_memN_true x l : In x l -> memN x l = true. Proof. apply memN_In. Qed.

Lemma filter_none {A} (p : A -> bool) l : (forall x, In x l -> p x = false) -> filter p l = [].
Proof. induction l as [|x t IH]; cbn; intros H; [reflexivity|]. rewrite (H x (or_introl eq_refl)). apply IH. intros y Hy. apply H. right. exact Hy. Qed.

Theorem reopen_accepts_sound b f gs :
  (forall o, In o (concat (concat gs)) <-> In o (all_linked_objs b)) ->
  let r := reopen_graphs (N.eqb f) gs in
  reopen_accepts b f (reopen_obs (nilp (snd r)) (memN f (snd r)) (sortN (distinct (fst r)))) = true.
Proof.
  intros Hsame r. unfold reopen_accepts, reopen_obs. cbn [ob_ok ob_err ob_reopened].
  pose proof (reopen_graphs_spec (N.eqb f) gs) as Hspec. pose proof (reopen_errors_are_real (N.eqb f) gs) as Hreal.
  fold r in Hreal. unfold r in *. clear r. destruct (reopen_graphs (N.eqb f) gs) as [calls errs] eqn:Er. cbn [fst snd] in *.
  destruct Hspec as [_ [Hfull Hsub]].
  destruct (memN f (sortN (distinct (all_linked_objs b)))) eqn:Ef.
  - apply memN_true_In in Ef. rewrite sortN_in, distinct_in in Ef.
    assert (Hne : errs <> []).
    { assert (Hx : exists o, In o (concat (concat gs)) /\ N.eqb f o = true) by (exists f; split; [apply Hsame; exact Ef|apply N.eqb_refl]).
      pose proof (reopen_error_carried (N.eqb f) gs Hx) as Hc. rewrite Er in Hc. exact Hc. }
    assert (Hall : forall x, In x errs -> x = f /\ In x calls).
    { intros x Hx. rewrite Hreal in Hx. apply filter_In in Hx as [Hin He]. apply N.eqb_eq in He. auto. }
    destruct errs as [|e0 et]; [contradiction|].
    destruct (Hall e0 (or_introl eq_refl)) as [-> Hfc].
    assert (H1 : memN f (f :: et) = true) by (cbn; rewrite N.eqb_refl; reflexivity).
    assert (H2 : memN f (sortN (distinct calls)) = true) by (apply In_memN_true; rewrite sortN_in, distinct_in; exact Hfc).
    assert (H3 : forallb (fun x => memN x (sortN (distinct (all_linked_objs b)))) (sortN (distinct calls)) = true).
    { apply forallb_forall. intros x Hx. rewrite sortN_in, distinct_in in Hx. apply In_memN_true. rewrite sortN_in, distinct_in.
      apply Hsame. apply Hsub. exact Hx. }
    cbn [nilp negb andb]. rewrite H1, H2, H3. reflexivity.
  - assert (Hno : forall o, In o (concat (concat gs)) -> N.eqb f o = false).
    { intros o Hin. destruct (N.eqb f o) eqn:E; [|reflexivity]. apply N.eqb_eq in E. subst o. exfalso.
      assert (Hm : memN f (sortN (distinct (all_linked_objs b))) = true)
        by (apply In_memN_true; rewrite sortN_in, distinct_in; apply Hsame; exact Hin).
      congruence. }
    assert (He : errs = []).
    { rewrite Hreal. apply filter_none. intros x Hx. apply Hno. apply Hsub. exact Hx. }
    rewrite (Hfull He). rewrite He. cbn [nilp andb]. apply eqNl_spec. apply canon_eq. exact Hsame.
Qed.
Print Assumptions reopen_accepts_sound.
