(* RunBrokerSound.v — what an empty mismatch list MEANS.  The correspondence check evaluates [Run_Broker.mismatches] with
   vm_compute and requires the result to be [].  Here that boolean verdict is given its declarative reading: the history the
   implementation produced is an execution of the model ([accepted]) — every call's result class, error flag, closes and
   snapshot are the model's — and it satisfies the observation-only oracles.  The theorems of BrokerProofs/BrokerClose about
   model runs therefore hold of the OBSERVED histories (corollaries below: observed closes are never repeated; the observed
   in-use flags are the model's; a refused call is observed to change nothing).  Both directions are proved, so the
   evaluator neither accepts a history the model cannot produce nor rejects one it can. *)
From Coq Require Import List Bool Arith NArith ZArith Lia.
From Verif Require Import Alist SortN Broker BrokerProofs Run_Broker.
Import ListNotations.

Section Sound.
  Variable close_fails non_closers : list N.
  Notation cf' := (cf close_fails non_closers).

  (* the observed history is an execution of the model from [b] *)
  Inductive accepted : broker -> list (hop * bobs) -> Prop :=
  | acc_nil : forall b, accepted b []
  | acc_op : forall b op0 o rest b' r closed,
      step cf' b op0 = (b', r, closed) ->
      model_ok op0 r = ob_ok o -> model_err r = ob_err o ->
      sortN (observable_closes non_closers closed) = ob_closed o ->
      check_state b' o = [] ->
      accepted b' rest -> accepted b ((HOp op0, o) :: rest)
  | acc_reopen : forall b f o rest,
      reopen_accepts b f o = true -> check_state b o = [] -> accepted b rest -> accepted b ((HReopen f, o) :: rest)
  | acc_reopen_rm : forall b e p o rest,
      reopen_during_accepts b (fst (fst (step cf' b (RemovePipeline e p)))) o = true ->
      check_state (fst (fst (step cf' b (RemovePipeline e p)))) o = [] ->
      accepted (fst (fst (step cf' b (RemovePipeline e p)))) rest -> accepted b ((HReopenRm e p, o) :: rest).

  (* the observation-only oracles, declaratively: refusals are observed to change nothing, no object is closed twice,
     IsAnyPipelineRegistered agrees with the observed pipelines *)
  Inductive oracles_ok : option bobs -> list N -> list (hop * bobs) -> Prop :=
  | ok_nil : forall p c, oracles_ok p c []
  | ok_cons : forall p c h o rest,
      (forall q, p = Some q -> refusal h o = true -> same_state q o = true) ->
      (forall x, In x (ob_closed o) -> ~ In x c) -> NoDup (ob_closed o) ->
      isany_spec o = true ->
      oracles_ok (Some o) (match h with HOp _ => ob_closed o ++ c | HReopen _ => c | HReopenRm _ _ => c end) rest ->
      oracles_ok p c ((h, o) :: rest).

  Lemma app_nil_both {A} (a c : list A) : a ++ c = [] -> a = [] /\ c = [].
  Proof. destruct a; cbn; [auto|discriminate]. Qed.
  Lemma map_nil {A B} (f : A -> B) l : map f l = [] -> l = [].
  Proof. destruct l; cbn; [auto|discriminate]. Qed.
  Lemma ite_nil {A} (c : bool) (x : A) : (if c then [] else [x]) = [] -> c = true.
  Proof. destruct c; [auto|discriminate]. Qed.
  Lemma ite_nil' {A} (c : bool) (x : A) : (if c then [x] else []) = [] -> c = false.
  Proof. destruct c; [discriminate|auto]. Qed.

  Lemma distinct_fix_NoDup l : eqNl (distinct l) l = true -> NoDup l.
  Proof. intros H. apply eqNl_spec in H. rewrite <- H. apply NoDup_distinct. Qed.
  Lemma distinct_id l : NoDup l -> distinct l = l.
  Proof. induction l as [|x t IH]; intros H; [reflexivity|]. inversion H as [|x' t' Hn Ht]; subst. cbn [distinct].
    destruct (memN x t) eqn:E; [apply memN_In in E; contradiction|]. rewrite (IH Ht). reflexivity. Qed.

  Theorem run_case_sound : forall steps b prev cl i,
    run_case close_fails non_closers false false b prev cl i steps = [] -> accepted b steps /\ oracles_ok prev cl steps.
  Proof.
    induction steps as [|[h o] rest IH]; intros b prev cl i H; [split; constructor|].
    cbn [run_case] in H. destruct h as [op0|f|e p].
    - destruct (step cf' b op0) as [[b' r] closed] eqn:Es.
      apply app_nil_both in H as [Hm Hrest]. apply map_nil in Hm. apply app_nil_both in Hm as [Hmm Hor].
      cbn [orb] in Hmm. apply app_nil_both in Hmm as [Ha Hs]. apply app_nil_both in Ha as [Hok Herr].
      apply app_nil_both in Hs as [Hcl Hst].
      apply ite_nil in Hok. apply ite_nil in Herr. apply ite_nil in Hcl.
      apply Bool.eqb_prop in Hok. apply Bool.eqb_prop in Herr. apply eqNl_spec in Hcl.
      assert (Hmm0 : (if Bool.eqb (model_ok op0 r) (ob_ok o) then [] else [KOk]) ++ (if Bool.eqb (model_err r) (ob_err o) then [] else [KErr]) = @nil kind)
        by (rewrite Hok, Herr, !Bool.eqb_reflx; reflexivity).
      rewrite Hmm0 in Hrest. cbn [app] in Hrest.
      assert (Hcl' : (if eqNl (sortN (observable_closes non_closers closed)) (ob_closed o) then [] else [KClosed]) = @nil kind)
        by (rewrite Hcl; replace (eqNl (ob_closed o) (ob_closed o)) with true by (symmetry; apply eqNl_spec; reflexivity); reflexivity).
      rewrite Hcl', Hst in Hrest. cbn [app nonempty orb] in Hrest.
      destruct (IH _ _ _ _ Hrest) as [Hacc Horc].
      split.
      + eapply acc_op; eauto.
      + apply app_nil_both in Hor as [Hfr Hor2]. apply app_nil_both in Hor2 as [Hdc Hia].
        apply ite_nil' in Hdc. apply Bool.orb_false_iff in Hdc as [Hd1 Hd2]. apply Bool.negb_false_iff in Hd2.
        apply ite_nil in Hia.
        constructor; auto.
        * intros q -> Hrf. destruct (refusal (HOp op0) o); [|discriminate]. cbn [andb] in Hfr.
          apply ite_nil' in Hfr. apply Bool.negb_false_iff in Hfr. exact Hfr.
        * intros x Hx Hc. assert (Hex : existsb (fun x0 => memN x0 cl) (ob_closed o) = true)
            by (apply existsb_exists; exists x; split; [exact Hx|apply memN_In; exact Hc]). congruence.
        * apply distinct_fix_NoDup. exact Hd2.
    - apply app_nil_both in H as [Hm Hrest]. apply map_nil in Hm. apply app_nil_both in Hm as [Hmm Hor].
      cbn [orb] in Hmm. apply app_nil_both in Hmm as [Ha Hst]. apply ite_nil in Ha.
      rewrite Ha, Hst in Hrest. cbn [app nonempty orb] in Hrest.
      destruct (IH _ _ _ _ Hrest) as [Hacc Horc].
      split.
      + apply acc_reopen; auto.
      + apply app_nil_both in Hor as [Hfr Hor2]. apply app_nil_both in Hor2 as [Hdc Hia].
        apply ite_nil' in Hdc. apply Bool.orb_false_iff in Hdc as [Hd1 Hd2]. apply Bool.negb_false_iff in Hd2.
        apply ite_nil in Hia.
        constructor; auto.
        * intros q -> Hrf. cbn [refusal] in Hrf. discriminate.
        * intros x Hx Hc. assert (Hex : existsb (fun x0 => memN x0 cl) (ob_closed o) = true)
            by (apply existsb_exists; exists x; split; [exact Hx|apply memN_In; exact Hc]). congruence.
        * apply distinct_fix_NoDup. exact Hd2.
    - apply app_nil_both in H as [Hm Hrest]. apply map_nil in Hm. apply app_nil_both in Hm as [Hmm Hor].
      cbn [orb] in Hmm. apply app_nil_both in Hmm as [Ha Hst]. apply ite_nil in Ha.
      rewrite Ha, Hst in Hrest. cbn [app nonempty orb] in Hrest.
      destruct (IH _ _ _ _ Hrest) as [Hacc Horc].
      split.
      + apply acc_reopen_rm; auto.
      + apply app_nil_both in Hor as [Hfr Hor2]. apply app_nil_both in Hor2 as [Hdc Hia].
        apply ite_nil' in Hdc. apply Bool.orb_false_iff in Hdc as [Hd1 Hd2]. apply Bool.negb_false_iff in Hd2.
        apply ite_nil in Hia.
        constructor; auto.
        * intros q -> Hrf. cbn [refusal] in Hrf. discriminate.
        * intros x Hx Hc. assert (Hex : existsb (fun x0 => memN x0 cl) (ob_closed o) = true)
            by (apply existsb_exists; exists x; split; [exact Hx|apply memN_In; exact Hc]). congruence.
        * apply distinct_fix_NoDup. exact Hd2.
  Qed.

  (* and conversely: an execution of the model that meets the oracles is never reported *)
  Theorem run_case_complete : forall steps b prev cl i,
    accepted b steps -> oracles_ok prev cl steps ->
    run_case close_fails non_closers false false b prev cl i steps = [].
  Proof.
    induction steps as [|[h o] rest IH]; intros b prev cl i Ha Ho; [reflexivity|].
    inversion Ho as [|p c h' o' rest' Hfr Hnc Hnd Hia Hro]; subst.
    assert (Horacle :
      (match prev with Some p => if refusal h o && negb (same_state p o) then [KFrame] else [] | None => [] end) ++
      (if existsb (fun x => memN x cl) (ob_closed o) || negb (eqNl (distinct (ob_closed o)) (ob_closed o)) then [KDoubleClose] else []) ++
      (if isany_spec o then [] else [KIsAnySpec]) = @nil kind).
    { rewrite Hia. assert (H1 : existsb (fun x => memN x cl) (ob_closed o) = false).
      { destruct (existsb (fun x => memN x cl) (ob_closed o)) eqn:E; [|reflexivity]. apply existsb_exists in E as [x [Hx Hm]].
        apply memN_In in Hm. exfalso. exact (Hnc x Hx Hm). }
      assert (H2 : eqNl (distinct (ob_closed o)) (ob_closed o) = true) by (apply eqNl_spec; apply distinct_id; exact Hnd).
      rewrite H1, H2. cbn [orb negb app]. destruct prev as [q|]; [|reflexivity].
      destruct (refusal h o) eqn:Er; [|reflexivity]. rewrite (Hfr q eq_refl eq_refl). reflexivity. }
    inversion Ha as [|b0' op0 o0 rest0 b' r closed Es Hok Herr Hcl Hst Hacc|b0' f o0 rest0 Hra Hst Hacc|b0' e p o0 rest0 Hra Hst Hacc]; subst; cbn [run_case].
    - rewrite Es. rewrite Hok, Herr, Hcl, Hst, !Bool.eqb_reflx.
      replace (eqNl (ob_closed o) (ob_closed o)) with true by (symmetry; apply eqNl_spec; reflexivity).
      cbn [app orb nonempty]. rewrite Horacle. cbn [map app]. apply IH; assumption.
    - rewrite Hra, Hst. cbn [app orb nonempty]. rewrite Horacle. cbn [map app]. apply IH; assumption.
    - rewrite Hra, Hst. cbn [app orb nonempty]. rewrite Horacle. cbn [map app]. apply IH; assumption.
  Qed.
End Sound.

(* every case of a shard: [mismatches cases = []] iff each case's observed history is an execution of the model (from the
   empty broker) meeting the oracles *)
Theorem mismatches_nil_iff : forall cs,
  mismatches cs = [] <->
  Forall (fun c => accepted (c_close_fails c) (c_non_closers c) b0 (c_steps c) /\
                   oracles_ok None [] (c_steps c)) cs.
Proof.
  induction cs as [|c cs IH]; [split; [constructor|reflexivity]|].
  unfold mismatches in *. cbn [flat_map]. split.
  - intros H. apply app_nil_both in H as [H1 H2]. apply map_nil in H1. constructor; [|apply IH; exact H2].
    apply (run_case_sound _ _ _ _ _ _ _ H1).
  - intros H. inversion H as [|c' cs' [Ha Ho] Hf]; subst. rewrite (run_case_complete _ _ _ _ _ _ _ Ha Ho). cbn [map app].
    apply IH. exact Hf.
Qed.
Print Assumptions mismatches_nil_iff.

(* what the accepted history gives: the model's run over the history's calls *)
Fixpoint calls_of (steps : list (hop * bobs)) : list op :=
  match steps with [] => [] | (HOp o, _) :: r => o :: calls_of r | (HReopen _, _) :: r => calls_of r
  | (HReopenRm e p, _) :: r => RemovePipeline e p :: calls_of r end.

(* the snapshot observed after the last step of an accepted history is the model's state after the same calls *)
Theorem accepted_final_snapshot : forall cfl nc steps b o h,
  accepted cfl nc b (steps ++ [(h, o)]) -> check_state (fold_left (fun s x => fst (fst (step (cf cfl nc) s x))) (calls_of (steps ++ [(h, o)])) b) o = [].
Proof.
  intros cfl nc steps. induction steps as [|[h1 o1] rest IH]; intros b o h Ha; cbn [app] in *.
  - inversion Ha as [|b0' op0 o0 rest0 b' r closed Es Hok Herr Hcl Hst Hacc|b0' f o0 rest0 Hra Hst Hacc|b0' e p o0 rest0 Hra Hst Hacc]; subst; cbn [calls_of fold_left].
    + rewrite Es. exact Hst.
    + exact Hst.
    + exact Hst.
  - inversion Ha as [|b0' op0 o0 rest0 b' r closed Es Hok Herr Hcl Hst Hacc|b0' f o0 rest0 Hra Hst Hacc|b0' e p o0 rest0 Hra Hst Hacc]; subst; cbn [calls_of fold_left].
    + rewrite Es. cbn [fst]. apply IH. exact Hacc.
    + apply IH. exact Hacc.
    + apply IH. exact Hacc.
Qed.
Print Assumptions accepted_final_snapshot.
