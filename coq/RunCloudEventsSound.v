(* RunCloudEventsSound.v — what an empty mismatch list of Run_CloudEvents MEANS.  The C18 check evaluates
   [Run_CloudEvents.mismatches] with vm_compute on what the real cloudevents.FormatterFilter produced and is green exactly
   when the result is [].  Declarative reading, both directions:

   * a Process case is accepted iff the observation IS CloudEvents.process on the case's inputs (configuration, event, the id
     the harness read back as the id source's answer): error flag, forwarded event, the document under the format's name,
     every other entry of the table, the byte strings the signer was called with; type / time / payload were seen untouched;
     and the observation-only oracles hold declaratively: the stored value parses (Json.parse_doc) to an object whose members
     are as C18 requires ([fields_decl]); if — and only if — a signer is configured and the type listed it carries
     `serialized` that base64url-decodes (Base64.decode) to exactly the bytes of the signer's one call, which parse to the
     stored document without the two signature members, and `serialized_hmac` = the harness signer's result on those bytes
     ([ser_decl]); the text format is indented and the json format one line (boolean [indent_ok], soundness only:
     [indent_ok_sound]); an error that is not the predicate's left the table exactly as it was; the document re-read after
     later Process calls is still the stored one;
   * a history on one node is accepted iff every Process step is accepted under the signer in force at that step and every
     Rotate result is the model's;
   * the fresh ids of a run are non-empty and pairwise distinct; the concurrent part saw no duplicate and no panic (those
     two counts are computed by the harness — Coq only reads them); the concurrent Rotate / Process part saw no listed-type
     event stored without a signature, no signature that verifies under none of the installed signers, no signed unlisted
     event (again counted by the harness). *)
From Coq Require Import List Bool Arith NArith Lia.
From Verif Require Import Alist Base64 Json JsonProofs Formatters CloudEvents Run_Formatters RunFormatsSound Run_CloudEvents.
Import ListNotations.
Open Scope N_scope.
Local Set Warnings "-unused-intro-pattern".

(* ------------------------------------------------------------------ reflection of the small oracles *)
Lemma list_beqb_eq a b : list_beqb a b = true <-> a = b.
Proof.
  revert b. induction a as [|x a IH]; intros [|y b]; cbn [list_beqb]; split; intros H; try reflexivity; try discriminate.
  - apply andb_true_iff in H. destruct H as [H1 H2]. apply beqb_eq in H1. apply IH in H2. subst. reflexivity.
  - injection H as -> ->. apply andb_true_iff. split; [apply beqb_eq|apply IH]; reflexivity.
Qed.
Lemma existsb_beqb x l : existsb (beqb x) l = true <-> In x l.
Proof.
  rewrite existsb_exists. split.
  - intros [y [Hy E]]. apply beqb_eq in E. subst. exact Hy.
  - intros H. exists x. split; [exact H|apply beqb_eq; reflexivity].
Qed.
Lemma nodupb_iff l : nodupb l = true <-> NoDup l.
Proof.
  induction l as [|x t IH]; cbn [nodupb]; [split; [constructor|reflexivity]|].
  rewrite andb_true_iff, negb_true_iff, IH. split.
  - intros [H1 H2]. constructor; [|exact H2]. intros Hin. apply existsb_beqb in Hin. congruence.
  - intros H. inversion H as [|? ? Hn Hd]; subst. split; [|exact Hd].
    destruct (existsb (beqb x) t) eqn:E; [|reflexivity]. apply existsb_beqb in E. contradiction.
Qed.
Lemma nonempty_iff b : nonempty b = true <-> b <> [].
Proof. destruct b; cbn; split; intros H; congruence. Qed.
Lemma forallb_nonempty l : forallb nonempty l = true <-> Forall (fun i => i <> []) l.
Proof.
  rewrite forallb_forall, Forall_forall. split; intros H x Hx; [apply nonempty_iff|apply nonempty_iff]; apply H; exact Hx.
Qed.

Lemma is_str_iff o s : is_str o s = true <-> o = Some (JStr s).
Proof.
  unfold is_str. destruct o as [[| | |x| |]|]; split; intros H; try discriminate.
  - apply beqb_eq in H. subst. reflexivity.
  - injection H as ->. apply beqb_eq. reflexivity.
Qed.
(* an omitempty string member: absent when the value is empty, the string otherwise *)
Definition absent_or_str (o : option jv) (s : bytes) : Prop := (s = [] /\ o = None) \/ (s <> [] /\ o = Some (JStr s)).
Lemma str_or_absent_iff o s : str_or_absent o s = true <-> absent_or_str o s.
Proof.
  unfold str_or_absent, absent_or_str. destruct s as [|c s].
  - destruct o; split; intros H; try discriminate; try (left; auto).
    + destruct H as [[_ H]|[H _]]; congruence.
    + reflexivity.
  - rewrite is_str_iff. split; [intros H; right; split; [discriminate|exact H]|].
    intros [[H _]|[_ H]]; [discriminate|exact H].
Qed.

(* ------------------------------------------------------------------ the stored document, declaratively *)
Definition id_decl (c : kcase) (ms : list (bytes * jv)) : Prop :=
  exists i, mget s_id ms = Some (JStr i) /\ i <> [] /\ forall want, y_id (k_payload c) = Some want -> i = sanitize want.
Lemma id_ok_iff c ms : id_ok c ms = true <-> id_decl c ms.
Proof.
  unfold id_ok, id_decl. destruct (mget s_id ms) as [[| | |i| |]|]; split; intros H; try discriminate;
    try (destruct H as [i' [E _]]; discriminate).
  - apply andb_true_iff in H. destruct H as [H1 H2]. exists i. split; [reflexivity|]. split; [apply nonempty_iff; exact H1|].
    intros want E. rewrite E in H2. apply beqb_eq. exact H2.
  - destruct H as [i' [E [Hn Hw]]]. injection E as <-. apply andb_true_iff. split; [apply nonempty_iff; exact Hn|].
    destruct (y_id (k_payload c)) as [want|]; [|reflexivity]. apply beqb_eq. apply Hw. reflexivity.
Qed.
Lemma time_is_str_iff ms : time_is_str ms = true <-> exists t, mget s_time ms = Some (JStr t).
Proof.
  unfold time_is_str. destruct (mget s_time ms) as [[| | |t| |]|]; split; intros H; try discriminate;
    try (destruct H as [t' E]; discriminate); [exists t|]; reflexivity.
Qed.
Definition data_decl (c : kcase) (ms : list (bytes * jv)) : Prop :=
  match y_data (k_payload c) with
  | DVal v => mget s_data ms = Some (jimage v)
  | DAbsent => mget s_data ms = None
  | DUnenc => False
  end.
Lemma data_ok_iff c ms : data_ok c ms = true <-> data_decl c ms.
Proof.
  unfold data_ok, data_decl. destruct (y_data (k_payload c)) as [|v|]; destruct (mget s_data ms) as [v'|]; split; intros H;
    try discriminate; try reflexivity; try contradiction.
  - apply jv_eqb_eq in H. subst. reflexivity.
  - injection H as ->. apply jv_eqb_refl.
Qed.

(* id non-empty (the payload's ID() image if it has one), source, specversion "1.0", type, a time string (that it is the
   event's instant is the harness flag b_time_ok), the format's content type, the schema or none, the data image or none *)
Definition fields_decl (k : kcfg) (c : kcase) (ms : list (bytes * jv)) : Prop :=
  id_decl c ms /\
  mget s_source ms = Some (JStr (sanitize (src_of k))) /\
  mget s_specversion ms = Some (JStr v_spec) /\
  mget s_type ms = Some (JStr (sanitize (k_type c))) /\
  (exists t, mget s_time ms = Some (JStr t)) /\
  mget s_datacontenttype ms = Some (JStr (ctype (k_format k))) /\
  absent_or_str (mget s_dataschema ms) (sanitize (schema_of k)) /\
  data_decl c ms.
Lemma fields_ok_iff k c ms : fields_ok k c ms = true <-> fields_decl k c ms.
Proof.
  unfold fields_ok, fields_decl.
  rewrite !andb_true_iff, id_ok_iff, !is_str_iff, time_is_str_iff, str_or_absent_iff, data_ok_iff. tauto.
Qed.

Lemma signs_iff k c : signs k c = true <-> k_signer k <> 0 /\ In (k_type c) (k_types k).
Proof. unfold signs. rewrite andb_true_iff, negb_true_iff, N.eqb_neq, existsb_beqb. tauto. Qed.

Definition ser_decl (k : kcfg) (c : kcase) (ms : list (bytes * jv)) (calls : list bytes) : Prop :=
  if signs k c then
    exists s u, mget s_serialized ms = Some (JStr s) /\ calls = [u] /\ Base64.decode s = Some u /\
                absent_or_str (mget s_serialized_hmac ms) (hmac_expected k u) /\
                parse_doc u = Some (JObj (drop_sig ms))
  else mget s_serialized ms = None /\ mget s_serialized_hmac ms = None /\ calls = [].
Lemma ser_ok_iff k c ms calls : ser_ok k c ms calls = true <-> ser_decl k c ms calls.
Proof.
  unfold ser_ok, ser_decl. destruct (signs k c).
  - split.
    + intros H. destruct (mget s_serialized ms) as [x|]; [|discriminate]. destruct x as [| | |s| |]; try discriminate.
      destruct calls as [|u calls]; [discriminate|]. destruct calls; [|discriminate].
      apply andb_true_iff in H. destruct H as [H H3]. apply andb_true_iff in H. destruct H as [H1 H2].
      destruct (Base64.decode s) as [u'|] eqn:Ed; [|discriminate]. apply beqb_eq in H1. subst u'.
      apply str_or_absent_iff in H2.
      destruct (parse_doc u) as [p|] eqn:Ep; [|discriminate]. destruct p as [| | | | |us]; try discriminate.
      apply jv_eqb_eq in H3. injection H3 as ->. exists s, u.
      split; [reflexivity|]. split; [reflexivity|]. split; [exact Ed|]. split; [exact H2|exact Ep].
    + intros [s [u [E1 [E2 [E3 [E4 E5]]]]]]. rewrite E1, E2, E3, E5. rewrite (proj2 (beqb_eq _ _) eq_refl).
      rewrite (proj2 (str_or_absent_iff _ _) E4). rewrite jv_eqb_refl. reflexivity.
  - split.
    + intros H. destruct (mget s_serialized ms); [discriminate|]. destruct (mget s_serialized_hmac ms); [discriminate|].
      destruct calls; [auto|discriminate].
    + intros [-> [-> ->]]. reflexivity.
Qed.

(* the indentation oracle stays a boolean; what it implies *)
Lemma indent_ok_sound f b : indent_ok f b = true -> match f with FText => ~ one_line b | _ => one_line b end.
Proof.
  unfold indent_ok. destruct f; try (apply single_line_iff).
  intros H. apply andb_true_iff in H. destruct H as [H _]. apply negb_true_iff in H. intros Ho. apply single_line_iff in Ho. congruence.
Qed.

Definition doc_decl (k : kcfg) (c : kcase) (calls : list bytes) (time_ok : bool) (stored : option bytes) : Prop :=
  exists b ms, stored = Some b /\ parse_doc b = Some (JObj ms) /\
               fields_decl k c ms /\ time_ok = true /\ ser_decl k c ms calls /\ indent_ok (k_format k) b = true.
Lemma doc_checks_nil_iff k c calls time_ok stored : doc_checks k c calls time_ok stored = [] <-> doc_decl k c calls time_ok stored.
Proof.
  unfold doc_checks, doc_decl. destruct stored as [b|].
  2:{ split; [discriminate|]. intros [b [ms [E _]]]. discriminate. }
  destruct (parse_doc b) as [p|] eqn:Ep.
  2:{ split; [discriminate|]. intros [b' [ms [E [E2 _]]]]. injection E as <-. congruence. }
  destruct p as [| | | | |ms]; try (split; [discriminate|]; intros [b' [ms' [E [E2 _]]]]; injection E as <-; congruence).
  rewrite !app_nil_iff, !ite_nil_iff, andb_true_iff, fields_ok_iff, ser_ok_iff. split.
  - intros [[H1 H2] [H3 H4]]. exists b, ms. auto 8.
  - intros [b' [ms' [E [E2 [H1 [H2 [H3 H4]]]]]]]. injection E as <-. rewrite Ep in E2. injection E2 as <-. auto.
Qed.

(* ------------------------------------------------------------------ a Process case *)
Definition ce_accepted (c : kcase) : Prop :=
  let o := k_obs c in
  let key := ce_key c in
  let mt := ce_table (fst (fst (model_ce c))) in
  let oc := snd (fst (model_ce c)) in
  (forall v, y_data (k_payload c) = DVal v -> wf v) /\
  (* the observation is the model's run, the signer's inputs included *)
  b_err o = is_err oc /\ b_out o = out_code oc /\
  tget key (b_table o) = tget key mt /\ other_than key (b_table o) = tsort (other_than key mt) /\
  b_frame o = true /\
  b_calls o = snd (model_ce c) /\
  (* success: the document C18 describes is stored *)
  (b_err o = false -> doc_decl (k_cfg c) c (b_calls o) (b_time_ok o) (tget key (b_table o))) /\
  (* an error that is not the predicate's leaves the table exactly as it was *)
  (b_err o = true -> b_pred_err o = false -> b_table o = k_pre c) /\
  (* re-read after later Process calls: still the stored document *)
  (forall x, b_final o = Some x -> x = tget key (b_table o)) /\
  b_still o = true.

Lemma ce_chk_still_iff o : ce_chk_still o = [] <-> b_still o = true.
Proof. unfold ce_chk_still. apply ite_nil_iff. Qed.
Lemma ce_chk_model_iff c : ce_chk_model c = [] <-> (forall v, y_data (k_payload c) = DVal v -> wf v).
Proof.
  unfold ce_chk_model. destruct (y_data (k_payload c)) as [|v|].
  - split; [intros _ v E; discriminate|reflexivity].
  - rewrite ite_nil_iff, wfb_iff. split; [intros H v' E; injection E as <-; exact H|intros H; apply H; reflexivity].
  - split; [intros _ v E; discriminate|reflexivity].
Qed.
Lemma ce_chk_err_iff oc o : ce_chk_err oc o = [] <-> b_err o = is_err oc.
Proof. unfold ce_chk_err. rewrite ite_nil_iff. split; [intros H; apply Bool.eqb_prop in H; auto|intros ->; apply Bool.eqb_reflx]. Qed.
Lemma ce_chk_out_iff oc o : ce_chk_out oc o = [] <-> b_out o = out_code oc.
Proof. unfold ce_chk_out. rewrite ite_nil_iff. apply N.eqb_eq. Qed.
Lemma ce_chk_doc_iff key mt o : ce_chk_doc key mt o = [] <-> tget key (b_table o) = tget key mt.
Proof. unfold ce_chk_doc. rewrite ite_nil_iff, obeqb_eq. split; auto. Qed.
Lemma ce_chk_other_iff key mt o : ce_chk_other key mt o = [] <-> other_than key (b_table o) = tsort (other_than key mt).
Proof. unfold ce_chk_other. rewrite ite_nil_iff, table_eqb_eq. split; auto. Qed.
Lemma ce_chk_frame_iff o : ce_chk_frame o = [] <-> b_frame o = true.
Proof. unfold ce_chk_frame. apply ite_nil_iff. Qed.
Lemma ce_chk_calls_iff calls o : ce_chk_calls calls o = [] <-> b_calls o = calls.
Proof. unfold ce_chk_calls. rewrite ite_nil_iff, list_beqb_eq. split; auto. Qed.
Lemma ce_chk_stored_iff c : ce_chk_stored c = [] <->
  (b_err (k_obs c) = false -> doc_decl (k_cfg c) c (b_calls (k_obs c)) (b_time_ok (k_obs c)) (tget (ce_key c) (b_table (k_obs c)))).
Proof.
  unfold ce_chk_stored. destruct (b_err (k_obs c)); cbn [negb].
  - split; [intros _ H; discriminate|reflexivity].
  - rewrite doc_checks_nil_iff. split; [intros H _; exact H|intros H; apply H; reflexivity].
Qed.
Lemma ce_chk_errstored_iff c : ce_chk_errstored c = [] <->
  (b_err (k_obs c) = true -> b_pred_err (k_obs c) = false -> b_table (k_obs c) = k_pre c).
Proof.
  unfold ce_chk_errstored. destruct (b_err (k_obs c)); cbn [andb].
  - destruct (b_pred_err (k_obs c)); cbn [negb].
    + split; [intros _ _ H; discriminate|reflexivity].
    + rewrite ite_nil_iff, table_eqb_eq. split; [intros H _ _; auto|intros H; symmetry; apply H; reflexivity].
  - split; [intros _ H; discriminate|reflexivity].
Qed.
Lemma ce_chk_final_iff c : ce_chk_final c = [] <->
  (forall x, b_final (k_obs c) = Some x -> x = tget (ce_key c) (b_table (k_obs c))).
Proof.
  unfold ce_chk_final, ce_final_of. destruct (b_final (k_obs c)) as [x|].
  - destruct (obeqb (tget (ce_key c) (b_table (k_obs c))) x) eqn:E.
    + apply obeqb_eq in E. split; [intros _ y H; injection H as <-; auto|reflexivity].
    + split; [discriminate|]. intros H. specialize (H x eq_refl). subst.
      rewrite (proj2 (obeqb_eq _ _) eq_refl) in E. discriminate.
  - rewrite (proj2 (obeqb_eq _ _) eq_refl). split; [intros _ y H; discriminate|reflexivity].
Qed.

Theorem run_ce_nil_iff c : run_ce c = [] <-> ce_accepted c.
Proof.
  unfold run_ce, ce_accepted. destruct (model_ce c) as [[e' oc] calls]. cbn [fst snd].
  rewrite !app_nil_iff, ce_chk_model_iff, ce_chk_err_iff, ce_chk_out_iff, ce_chk_doc_iff, ce_chk_other_iff, ce_chk_frame_iff,
    ce_chk_calls_iff, ce_chk_stored_iff, ce_chk_errstored_iff, ce_chk_final_iff, ce_chk_still_iff. tauto.
Qed.

(* ------------------------------------------------------------------ histories on one node *)
(* every Process step is accepted under the configuration in force when it ran; Rotate(nil) is observed refused, every other
   Rotate accepted, and it changes the signer in force; an assignment to the node's exported fields changes the configuration
   in force from the next call on *)
Inductive hist_accepted : kcfg -> list hstep -> Prop :=
| ha_nil : forall k, hist_accepted k []
| ha_proc : forall k c rest, ce_accepted (set_cfg c k) -> hist_accepted k rest -> hist_accepted k (HProc c :: rest)
| ha_rot : forall k s tag err rest,
    err = (s =? 0) -> hist_accepted (if s =? 0 then k else with_signer k s tag) rest ->
    hist_accepted k (HRot s tag err :: rest)
| ha_set : forall k k' rest, hist_accepted k' rest -> hist_accepted k (HSet k' :: rest).

Theorem run_hist_nil_iff : forall steps k i, run_hist k i steps = [] <-> hist_accepted k steps.
Proof.
  induction steps as [|st rest IH]; intros k i; [split; [constructor|reflexivity]|].
  destruct st as [c|s tag err|k']; cbn [run_hist].
  - rewrite app_nil_iff, map_nil_iff, run_ce_nil_iff, IH. split.
    + intros [H1 H2]. constructor; assumption.
    + intros H. inversion H; auto.
  - rewrite app_nil_iff, ite_nil_iff, IH. split.
    + intros [H1 H2]. constructor; [apply Bool.eqb_prop in H1; exact H1|exact H2].
    + intros H. inversion H as [| |? ? ? ? ? E H2|]; subst. split; [apply Bool.eqb_reflx|exact H2].
  - rewrite IH. split; [intros H; constructor; exact H|intros H; inversion H; assumption].
Qed.

(* ------------------------------------------------------------------ whole shards *)
Definition case_accepted (c : ccase) : Prop :=
  match c with
  | CHist _ k steps => hist_accepted k steps
  | CCe _ k => ce_accepted k
  | CFresh _ ids => Forall (fun i => i <> []) ids /\ NoDup ids
  | CConc _ _ dups panics => dups = [] /\ panics = 0
  | CConcSign _ _ unsigned bad signed_unl panics => unsigned = 0 /\ bad = 0 /\ signed_unl = 0 /\ panics = 0
  end.

Theorem run_case_nil_iff c : run_case c = [] <-> case_accepted c.
Proof.
  destruct c as [id k steps|id k|id ids|id n dups panics|id n unsigned bad sunl panics]; cbn [run_case case_accepted].
  - rewrite map_nil_iff. apply run_hist_nil_iff.
  - rewrite map_nil_iff. apply run_ce_nil_iff.
  - rewrite ite_nil_iff, andb_true_iff, forallb_nonempty, nodupb_iff. tauto.
  - rewrite ite_nil_iff, andb_true_iff, N.eqb_eq. destruct dups; split; intros [H1 H2]; try discriminate; auto.
  - rewrite app_nil_iff, !ite_nil_iff, !andb_true_iff, !N.eqb_eq. tauto.
Qed.

Theorem mismatches_nil_iff : forall cs, mismatches cs = [] <-> Forall case_accepted cs.
Proof.
  induction cs as [|c cs IH]; [split; [constructor|reflexivity]|].
  unfold mismatches in *. cbn [flat_map]. rewrite app_nil_iff, run_case_nil_iff, IH. split.
  - intros [H1 H2]. constructor; assumption.
  - intros H. inversion H; auto.
Qed.
Print Assumptions mismatches_nil_iff.

(* ------------------------------------------------------------------ what acceptance gives *)
(* an accepted, successful case of a listed type with a signer: the stored document carries serialized that decodes to the
   signer's one input, which is the stored document without its signature *)
Corollary accepted_signed c :
  ce_accepted c -> b_err (k_obs c) = false -> k_signer (k_cfg c) <> 0 -> In (k_type c) (k_types (k_cfg c)) ->
  exists b ms s u, tget (ce_key c) (b_table (k_obs c)) = Some b /\ parse_doc b = Some (JObj ms) /\
    mget s_serialized ms = Some (JStr s) /\ b_calls (k_obs c) = [u] /\ Base64.decode s = Some u /\
    parse_doc u = Some (JObj (drop_sig ms)).
Proof.
  intros [_ [_ [_ [_ [_ [_ [_ [Hd _]]]]]]]] He Hs Hl. destruct (Hd He) as [b [ms [E1 [E2 [_ [_ [Hser _]]]]]]].
  unfold ser_decl in Hser. rewrite (proj2 (signs_iff _ _) (conj Hs Hl)) in Hser.
  destruct Hser as [s [u [H1 [H2 [H3 [_ H5]]]]]]. exists b, ms, s, u. auto 8.
Qed.
(* an accepted, successful case that must not be signed carries no signature and the signer was not called *)
Corollary accepted_unsigned c :
  ce_accepted c -> b_err (k_obs c) = false -> (k_signer (k_cfg c) = 0 \/ ~ In (k_type c) (k_types (k_cfg c))) ->
  exists b ms, tget (ce_key c) (b_table (k_obs c)) = Some b /\ parse_doc b = Some (JObj ms) /\
    mget s_serialized ms = None /\ mget s_serialized_hmac ms = None /\ b_calls (k_obs c) = [].
Proof.
  intros [_ [_ [_ [_ [_ [_ [_ [Hd _]]]]]]]] He Hn. destruct (Hd He) as [b [ms [E1 [E2 [_ [_ [Hser _]]]]]]].
  unfold ser_decl in Hser. destruct (signs (k_cfg c) c) eqn:Es.
  - apply signs_iff in Es. destruct Es as [E3 E4]. destruct Hn; contradiction.
  - destruct Hser as [H1 [H2 H3]]. exists b, ms. auto 8.
Qed.
(* an accepted case that returned an error other than the predicate's kept the event's table *)
Corollary accepted_error_frame c :
  ce_accepted c -> b_err (k_obs c) = true -> b_pred_err (k_obs c) = false -> b_table (k_obs c) = k_pre c.
Proof. intros [_ [_ [_ [_ [_ [_ [_ [_ [H _]]]]]]]]]. exact H. Qed.
