(* RunConcProofs.v — the linearizability search of Run_Conc.v decides what it claims to decide:
   LFound  -> some order of the calls that respects real time replays on Broker.step with the observed results and ends in the
              observed registry (soundness);
   LNone   -> no such order exists (completeness; LBudget = the search was cut short and says nothing). *)
From Coq Require Import List Bool Arith NArith Permutation Lia.
From Verif Require Import Alist Broker Run_Broker Conc Run_Conc.
Import ListNotations.

Definition explains (final : bobs) (b : broker) (order : list cop) : Prop :=
  rt_sorted order = true /\ replay_ok final b order = true.
(* the calls [pend], started from registry state b, are linearizable w.r.t. the observed final registry *)
Definition linearizable (final : bobs) (b : broker) (pend : list cop) : Prop :=
  exists order, Permutation order pend /\ explains final b order.

Lemma forallb_perm {A} (f : A -> bool) l l' : Permutation l l' -> forallb f l = forallb f l'.
Proof.
  induction 1; cbn; auto.
  - rewrite IHPermutation. reflexivity.
  - destruct (f x), (f y); reflexivity.
  - congruence.
Qed.
Lemma eligible_perm c l l' : Permutation l l' -> eligible c l = eligible c l'.
Proof. apply forallb_perm. Qed.

Lemma rev_append_perm {A} (pre rest : list A) : Permutation (rev_append pre rest) (rev pre ++ rest).
Proof. rewrite rev_append_rev. apply Permutation_refl. Qed.

Lemma split_perm {A} (pre : list A) c rest : Permutation (rev pre ++ c :: rest) (c :: rev_append pre rest).
Proof.
  eapply Permutation_trans; [apply Permutation_sym; apply Permutation_middle|].
  apply perm_skip. apply Permutation_sym. apply rev_append_perm.
Qed.

Section Try.
  Variable final : bobs.
  Variable rec : N -> broker -> list cop -> N * lres.

  Lemma try_sound pend b :
    (forall bud b' p' bud', rec bud b' p' = (bud', LFound) -> linearizable final b' p') ->
    forall cands pre budget bud',
      Permutation (rev pre ++ cands) pend ->
      try_cands rec pend b pre cands budget = (bud', LFound) -> linearizable final b pend.
  Proof.
    intros Hrec. induction cands as [|c rest IH]; intros pre budget bud' Hperm Ht; cbn [try_cands] in Ht; [discriminate|].
    destruct (eligible c pend && matches b c) eqn:Eg.
    - destruct (rec (N.pred budget) (next_state b c) (rev_append pre rest)) as [bud1 r] eqn:Er.
      destruct r.
      + apply andb_prop in Eg as [Eel Em].
        destruct (Hrec _ _ _ _ Er) as [order' [Hp' [Hs' Hr']]].
        exists (c :: order'). split; [|split].
        * eapply Permutation_trans; [|exact Hperm]. eapply Permutation_trans; [|apply Permutation_sym; apply split_perm].
          apply perm_skip. exact Hp'.
        * cbn [rt_sorted]. rewrite Hs', andb_true_r. rewrite <- Eel. apply eligible_perm.
          eapply Permutation_trans; [|exact Hperm]. eapply Permutation_trans; [|apply Permutation_sym; apply split_perm].
          apply perm_skip. exact Hp'.
        * cbn [replay_ok]. rewrite Em, Hr'. reflexivity.
      + apply (IH (c :: pre) bud1 bud'); [|exact Ht]. cbn [rev]. rewrite <- app_assoc. exact Hperm.
      + discriminate.
    - apply (IH (c :: pre) budget bud'); [|exact Ht]. cbn [rev]. rewrite <- app_assoc. exact Hperm.
  Qed.

  Lemma try_complete pend b :
    (forall bud b' p' bud', rec bud b' p' = (bud', LNone) -> ~ linearizable final b' p') ->
    forall cands pre budget bud',
      Permutation (rev pre ++ cands) pend ->
      try_cands rec pend b pre cands budget = (bud', LNone) ->
      forall order, Permutation order pend -> explains final b order ->
      match order with [] => True | c :: _ => ~ In c cands end.
  Proof.
    intros Hrec. induction cands as [|x rest IH]; intros pre budget bud' Hperm Ht order Hpo Hex.
    - destruct order; auto.
    - cbn [try_cands] in Ht. destruct order as [|c order']; [exact I|]. intros Hin.
      destruct Hex as [Hs Hr]. cbn [rt_sorted replay_ok] in Hs, Hr.
      apply andb_prop in Hs as [Hel Hs']. apply andb_prop in Hr as [Hm Hr'].
      assert (Hel' : eligible c pend = true) by (rewrite <- Hel; apply eligible_perm; apply Permutation_sym; exact Hpo).
      destruct Hin as [->|Hin].
      + (* the search tried c itself *)
        rewrite Hel', Hm in Ht. cbn [andb] in Ht.
        destruct (rec (N.pred budget) (next_state b c) (rev_append pre rest)) as [bud1 r] eqn:Er.
        destruct r; try discriminate.
        apply (Hrec _ _ _ _ Er). exists order'. split; [|split; assumption].
        apply Permutation_cons_inv with (a := c).
        eapply Permutation_trans; [exact Hpo|]. eapply Permutation_trans; [apply Permutation_sym; exact Hperm|]. apply split_perm.
      + (* c is tried later *)
        assert (Hnext : exists budget1, try_cands rec pend b (x :: pre) rest budget1 = (bud', LNone)).
        { destruct (eligible x pend && matches b x).
          - destruct (rec (N.pred budget) (next_state b x) (rev_append pre rest)) as [bud1 r]. destruct r; try discriminate. eauto.
          - eauto. }
        destruct Hnext as [budget1 Ht1].
        assert (Hperm1 : Permutation (rev (x :: pre) ++ rest) pend) by (cbn [rev]; rewrite <- app_assoc; exact Hperm).
        specialize (IH (x :: pre) budget1 bud' Hperm1 Ht1 (c :: order') Hpo).
        cbn in IH. apply IH; [|exact Hin]. split; cbn [rt_sorted replay_ok]; [rewrite Hel, Hs'|rewrite Hm, Hr']; reflexivity.
  Qed.
End Try.

Theorem lin_sound depth : forall budget final b pend bud',
  lin depth budget final b pend = (bud', LFound) -> linearizable final b pend.
Proof.
  induction depth as [|d IH]; intros budget final b pend bud' Hl; cbn [lin] in Hl; [discriminate|].
  destruct (N.eqb budget 0); [discriminate|].
  destruct pend as [|c0 rest0].
  - destruct (final_ok b final) eqn:Ef; [|discriminate]. exists []. split; [constructor|]. split; [reflexivity|exact Ef].
  - eapply try_sound with (rec := fun bud b' p' => lin d bud final b' p') (pre := []); [|cbn; apply Permutation_refl|exact Hl].
    intros bud b' p' bud1 Hr. eapply IH. exact Hr.
Qed.

Theorem lin_complete depth : forall budget final b pend bud',
  lin depth budget final b pend = (bud', LNone) -> ~ linearizable final b pend.
Proof.
  induction depth as [|d IH]; intros budget final b pend bud' Hl; cbn [lin] in Hl; [discriminate|].
  destruct (N.eqb budget 0); [discriminate|].
  destruct pend as [|c0 rest0].
  - destruct (final_ok b final) eqn:Ef; [discriminate|]. intros [order [Hp [_ Hr]]].
    apply Permutation_sym, Permutation_nil in Hp. subst order. cbn in Hr. congruence.
  - intros [order [Hp Hex]].
    pose proof (try_complete final (fun bud b' p' => lin d bud final b' p') (c0 :: rest0) b) as Hc.
    specialize (Hc (fun bud b' p' bud1 Hr => IH _ _ _ _ _ Hr) (c0 :: rest0) [] budget bud' (Permutation_refl _) Hl order Hp Hex).
    destruct order as [|c order'].
    + apply Permutation_nil in Hp. discriminate.
    + apply Hc. eapply Permutation_in; [exact Hp|]. left. reflexivity.
Qed.

(* the verdicts of the correspondence *)
Corollary check_lin_ok c : check_lin c = [] -> linearizable (cc_final c) b0 (cc_ops c).
Proof.
  unfold check_lin. destruct (lin (S (List.length (cc_ops c))) lin_budget (cc_final c) b0 (cc_ops c)) as [bud r] eqn:E.
  cbn [snd]. destruct r; try discriminate. intros _. eapply lin_sound; eauto.
Qed.
Corollary check_lin_violation c : check_lin c = [(0%N, 10%N, KNotLinearizable)] -> ~ linearizable (cc_final c) b0 (cc_ops c).
Proof.
  unfold check_lin. destruct (lin (S (List.length (cc_ops c))) lin_budget (cc_final c) b0 (cc_ops c)) as [bud r] eqn:E.
  cbn [snd]. destruct r; try discriminate. intros _. eapply lin_complete; eauto.
Qed.

(* ================= what an empty mismatch list MEANS =================
   The correspondence evaluates [Run_Conc.mismatches cases] with vm_compute and requires []; this is literally the left-hand
   side of the equivalence below.  For every case: (1) the delivery oracle accepts every (Send, pipeline version) count --
   its rules are the verdicts ConcProofs.send_delivery_bounds / send_delivery_some prove for every timed history consistent
   with the observed intervals; (2) the calls are linearizable: some permutation in which every call is minimal, w.r.t.
   "returned before the other was invoked", among those that follow it, replayed on Broker.step from the empty registry,
   reproduces every observed result and ends in the observed final registry; (3) the search reached that conclusion within
   its budget of lin_budget nodes (an out-of-budget search yields the KLinBudget entry, so the list is not empty then: the
   budget never turns a rejected history into an accepted one, nor the other way round). *)
Definition delivery_oracle_ok (c : ccase) : Prop :=
  check_sends (kops_of (cc_ops c)) (failed_taps (cc_ops c)) 0%N (cc_sends c) = [].
Definition search_conclusive (c : ccase) : Prop :=
  snd (lin (S (List.length (cc_ops c))) lin_budget (cc_final c) b0 (cc_ops c)) <> LBudget.

Lemma flat_map_nil {A B} (f : A -> list B) l : flat_map f l = [] <-> Forall (fun x => f x = []) l.
Proof.
  induction l as [|a t IH]; cbn; [split; [constructor|reflexivity]|].
  split.
  - intros H. apply app_eq_nil in H as [Ha Ht]. constructor; [exact Ha|apply IH; exact Ht].
  - intros H. inversion H; subst. rewrite H2. cbn. apply IH. assumption.
Qed.
Lemma map_nil_iff {A B} (f : A -> B) l : map f l = [] <-> l = [].
Proof. destruct l; cbn; split; intros H; try reflexivity; discriminate. Qed.

Lemma check_lin_iff c : check_lin c = [] <-> linearizable (cc_final c) b0 (cc_ops c) /\ search_conclusive c.
Proof.
  unfold check_lin, search_conclusive.
  destruct (lin (S (List.length (cc_ops c))) lin_budget (cc_final c) b0 (cc_ops c)) as [bud r] eqn:E. cbn [snd].
  destruct r.
  - split; [intros _; split; [eapply lin_sound; eauto|discriminate]|reflexivity].
  - split; [discriminate|]. intros [Hl _]. exfalso. exact (lin_complete _ _ _ _ _ _ E Hl).
  - split; [discriminate|]. intros [_ Hc]. congruence.
Qed.

Theorem verdict_iff cs :
  mismatches cs = [] <->
  Forall (fun c => delivery_oracle_ok c /\ linearizable (cc_final c) b0 (cc_ops c) /\ search_conclusive c) cs.
Proof.
  unfold mismatches. rewrite flat_map_nil. split; intros H; eapply Forall_impl; [|exact H| |exact H]; cbn beta; intros c Hc.
  - apply map_nil_iff in Hc. unfold run_ccase in Hc. apply app_eq_nil in Hc as [Hd Hl].
    split; [exact Hd|]. apply check_lin_iff. exact Hl.
  - destruct Hc as [Hd Hl]. apply map_nil_iff. unfold run_ccase. unfold delivery_oracle_ok in Hd. rewrite Hd. cbn.
    apply check_lin_iff. exact Hl.
Qed.
