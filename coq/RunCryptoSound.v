(* RunCryptoSound.v — what an empty mismatch list of Run_Crypto MEANS (C16).
   [Run_Crypto.mismatches cs = []] holds iff, for every case: the observed history is an execution of the model Crypto.v
   from the case's initial filter state ([accepted]: every Rotate returns nothing, every rotation payload is consumed, an
   event fails exactly when there is no key in force, and otherwise EVERY value it produced is attributed by the harness to
   exactly the (key, salt, info) of [key_in_force] at that point of the history, decrypts to the original, and is framed as
   Base64.v says), equal data under equal triples gave equal digests throughout the history ([det_ok]), the values produced
   under concurrent rotation each come from one rotation, every event that was rotated part way through from its own Tags()
   callback is accepted ([cb_accepted]: options fixed at its start; values before the rotation selected in the state it started
   in, values after it in the rotated state; the next event under key_in_force of the rotated state), and the caller's slices
   were left alone.

   Leniencies, stated where they sit:
   * identities are interned by the harness before they reach Coq; it folds what the cryptography cannot tell apart: a nil and
     an empty salt / info are both [], an HKDF salt with trailing NUL bytes is the salt without them, event ids that differ
     only in trailing NUL bytes are one id (NewEventWrapper uses the id as HKDF salt = zero-padded HMAC key);
   * the attribution is an existential on the harness side ("SOME candidate triple reproduces the value; this is the first
     one found"); candidates are pairwise distinguishable after the folding above, so it is the only one;
   * the bytes of a value are shipped only for part of the values: [framed = []] claims nothing about the framing. *)
From Coq Require Import List Bool Arith NArith Lia.
From Verif Require Import Tag Base64 Crypto CryptoProofs Run_Crypto.
Import ListNotations.
Open Scope list_scope.

Lemma app_nil_both {A} (a c : list A) : a ++ c = [] -> a = [] /\ c = [].
Proof. destruct a; cbn; [auto|discriminate]. Qed.
Lemma map_nil {A B} (f : A -> B) l : map f l = [] -> l = [].
Proof. destruct l; cbn; [auto|discriminate]. Qed.
Lemma ite_nil {A} (c : bool) (x : A) : (if c then [] else [x]) = [] <-> c = true.
Proof. destruct c; split; intros; auto; discriminate. Qed.

Lemma bstr_eqb_eq a : forall b, bstr_eqb a b = true <-> a = b.
Proof.
  induction a as [|x r IH]; intros [|y r']; cbn [bstr_eqb]; split; intros H; try reflexivity; try discriminate.
  - apply andb_true_iff in H as [H1 H2]. apply N.eqb_eq in H1. apply IH in H2. subst. reflexivity.
  - injection H as -> ->. rewrite N.eqb_refl. apply IH. reflexivity.
Qed.

(* ---------- one value ---------- *)
Definition frame_ok_enc (blob framed : bstr) : Prop :=
  framed = [] \/ (frame_enc blob = framed /\ unframe_enc framed = Some blob).
Definition frame_ok_hmac (mac framed : bstr) : Prop := framed = [] \/ frame_hmac mac = framed.

(* the value observed for an operation is the model's under the triple t *)
Definition value_ok (t : N * bstr * bstr) (c : cop) (o : vobs) : Prop :=
  match t, c, o with
  | (w, _, _), CEnc _, VEnc kid rt blob framed => kid = w /\ rt = true /\ frame_ok_enc blob framed
  | (w, s, i), CHmac, VHmac kid sid iid _ mac framed => (kid = w /\ sid = s /\ iid = i) /\ frame_ok_hmac mac framed
  | _, _, _ => False
  end.

Lemma check_value_iff t c o : check_value t c o = [] <-> value_ok t c o.
Proof.
  destruct t as [[w s] i]. destruct c as [rnd|]; destruct o as [kid rt blob framed|kid sid iid did mac framed|]; cbn [check_value value_ok];
    try (split; [discriminate|contradiction]).
  - split.
    + intros H. apply app_nil_both in H as [H1 H2]. apply app_nil_both in H2 as [H2 H3].
      apply ite_nil in H1. apply N.eqb_eq in H1. apply ite_nil in H2. split; [exact H1|]. split; [exact H2|].
      destruct framed as [|b fr]; [left; reflexivity|right]. apply ite_nil in H3. apply andb_true_iff in H3 as [Ha Hb].
      apply bstr_eqb_eq in Ha. split; [exact Ha|]. destruct (unframe_enc (b :: fr)) as [bl|]; [|discriminate]. apply bstr_eqb_eq in Hb. subst. reflexivity.
    + intros (-> & -> & Hf). rewrite N.eqb_refl. cbn [app]. destruct framed as [|b fr]; [reflexivity|].
      destruct Hf as [Hf|[Ha Hb]]; [discriminate|]. rewrite Ha, Hb.
      replace (bstr_eqb (b :: fr) (b :: fr)) with true by (symmetry; apply bstr_eqb_eq; reflexivity).
      replace (bstr_eqb blob blob) with true by (symmetry; apply bstr_eqb_eq; reflexivity). reflexivity.
  - split.
    + intros H. apply app_nil_both in H as [H1 H2]. apply ite_nil in H1. apply andb_true_iff in H1 as [H1 Hi]. apply andb_true_iff in H1 as [Hk Hs].
      apply N.eqb_eq in Hk. apply bstr_eqb_eq in Hs. apply bstr_eqb_eq in Hi. split; [auto|].
      destruct framed as [|b fr]; [left; reflexivity|right]. apply ite_nil in H2. apply bstr_eqb_eq in H2. exact H2.
    + intros [(-> & -> & ->) Hf]. rewrite N.eqb_refl.
      replace (bstr_eqb s s) with true by (symmetry; apply bstr_eqb_eq; reflexivity).
      replace (bstr_eqb i i) with true by (symmetry; apply bstr_eqb_eq; reflexivity). cbn [andb app].
      destruct framed as [|b fr]; [reflexivity|]. destruct Hf as [Hf|Hf]; [discriminate|]. rewrite Hf.
      replace (bstr_eqb (b :: fr) (b :: fr)) with true by (symmetry; apply bstr_eqb_eq; reflexivity). reflexivity.
Qed.

Lemma check_values_iff t : forall vals os, check_values t vals os = [] <-> Forall2 (fun v o => value_ok t (fst v) o) vals os.
Proof.
  induction vals as [|[c m] r IH]; intros [|o r']; cbn [check_values]; split; intros H; try constructor; try discriminate; try (inversion H; fail).
  - apply app_nil_both in H as [H1 H2]. apply check_value_iff. exact H1.
  - apply app_nil_both in H as [H1 H2]. apply IH. exact H2.
  - inversion H as [|? ? ? ? Hv Hr]; subst. cbn [fst] in Hv. apply check_value_iff in Hv. rewrite Hv. apply IH. exact Hr.
Qed.

(* ---------- one step ---------- *)
Notation mstep := (step N d_enc m_derive d_hkdf d_hmac).
Notation kif := (key_in_force N m_derive).

Lemma omap_some {A B} (f : A -> option B) l : (forall a, exists b, f a = Some b) -> exists r, omap f l = Some r.
Proof.
  intros Hf. induction l as [|a t [r IH]]; [exists []; reflexivity|]. destruct (Hf a) as [b Hb]. exists (b :: r). cbn [omap]. rewrite Hb, IH. reflexivity.
Qed.

(* an event of the model fails exactly when there is no key in force *)
Lemma event_outcome st ewi vals :
  match kif st ewi with
  | Some _ => exists vs, snd (mstep st (OEvent N ewi vals)) = OutValues vs
  | None => snd (mstep st (OEvent N ewi vals)) = OutErr
  end.
Proof.
  pose proof (opts_key_in_force N d_enc m_derive d_hkdf d_hmac st ewi) as P. cbn [Crypto.step snd].
  destruct (event_opts N m_derive st ewi) as [eo|]; destruct (kif st ewi) as [t|]; try contradiction; [|reflexivity].
  destruct (omap_some (fun cm : cop * bstr => value_out N d_enc d_hkdf d_hmac st eo (fst cm) (snd cm)) vals) as [r Hr].
  { intros [c m]. eexists. apply P. }
  exists r. rewrite Hr. reflexivity.
Qed.

(* the observation of one step is what the model does in state st *)
Definition step_accept (st : fstate N) (o : op N) (ob : cobs) : Prop :=
  match o with
  | ORotate _ _ _ _ => ob = CoNone
  | ORotPayload _ _ _ _ => ob = CoConsumed
  | OEvent _ ewi vals =>
      match kif st ewi with
      | None => ob = CoErr
      | Some t => exists os, ob = CoValues os /\ Forall2 (fun v o => value_ok t (fst v) o) vals os
      end
  end.

Lemma step_mm_iff st o ob : step_mm st o ob = [] <-> step_accept st o ob.
Proof.
  unfold step_mm, step_accept. destruct o as [w s i|w s i|ewi vals].
  - cbn [Crypto.step snd]. destruct ob; split; intros H; try reflexivity; try discriminate.
  - cbn [Crypto.step snd]. destruct ob; split; intros H; try reflexivity; try discriminate.
  - pose proof (event_outcome st ewi vals) as E. destruct (kif st ewi) as [t|].
    + destruct E as [vs ->]. destruct ob as [| | | |os]; split; intros H; try discriminate; try (destruct H as [os' [H _]]; discriminate).
      * exists os. split; [reflexivity|]. apply check_values_iff. exact H.
      * destruct H as [os' [He Hf]]. injection He as <-. apply check_values_iff. exact Hf.
    + rewrite E. destruct ob; split; intros H; try reflexivity; try discriminate.
Qed.

(* ---------- determinism of the digests, over the history ---------- *)
Inductive det_ok : list (hkey * bstr) -> list vobs -> Prop :=
| det_nil : forall seen, det_ok seen []
| det_first : forall seen k s i d mac fr r,           (* first digest for this (key, salt, info, datum): recorded *)
    seen_digest (k, s, i, d) seen = None -> det_ok (((k, s, i, d), mac) :: seen) r -> det_ok seen (VHmac k s i d mac fr :: r)
| det_again : forall seen k s i d mac fr r,           (* seen before: the same digest *)
    seen_digest (k, s, i, d) seen = Some mac -> det_ok seen r -> det_ok seen (VHmac k s i d mac fr :: r)
| det_enc : forall seen k rt b fr r, det_ok seen r -> det_ok seen (VEnc k rt b fr :: r)
| det_unknown : forall seen r, det_ok seen r -> det_ok seen (VUnknown :: r).

Lemma determinism_iff : forall os seen, fst (determinism os seen) = [] <-> det_ok seen os.
Proof.
  induction os as [|o r IH]; intros seen; [split; [constructor|reflexivity]|].
  destruct o as [k rt b fr|k s i d mac fr|]; cbn [determinism].
  - rewrite IH. split; [apply det_enc|intros H; inversion H; assumption].
  - destruct (seen_digest (k, s, i, d) seen) as [m|] eqn:Es.
    + destruct (determinism r seen) as [ks sn] eqn:Ed. cbn [fst]. split.
      * intros H. apply app_nil_both in H as [H1 H2]. apply ite_nil in H1. apply bstr_eqb_eq in H1. subst m.
        apply det_again; [exact Es|]. apply IH. rewrite Ed. exact H2.
      * intros H. inversion H as [|? ? ? ? ? ? ? ? Hn Hr|? ? ? ? ? ? ? ? Hs Hr| |]; subst; [congruence|].
        rewrite Es in Hs. injection Hs as ->. replace (bstr_eqb mac mac) with true by (symmetry; apply bstr_eqb_eq; reflexivity).
        apply IH in Hr. rewrite Ed in Hr. exact Hr.
    + rewrite IH. split; [intros H; apply det_first; assumption|].
      intros H. inversion H as [|? ? ? ? ? ? ? ? Hn Hr|? ? ? ? ? ? ? ? Hs Hr| |]; subst; [assumption|congruence].
  - rewrite IH. split; [apply det_unknown|intros H; inversion H; assumption].
Qed.

Definition step_det_ok (seen : list (hkey * bstr)) (ob : cobs) : Prop :=
  match ob with CoValues os => det_ok seen os | _ => True end.
Lemma step_seen_iff ob seen : fst (step_seen ob seen) = [] <-> step_det_ok seen ob.
Proof. destruct ob; cbn [step_seen step_det_ok fst]; try (split; auto; fail). apply determinism_iff. Qed.

(* ---------- the history ---------- *)
Inductive accepted : fstate N -> list (hkey * bstr) -> list (op N * cobs) -> Prop :=
| acc_nil : forall st seen, accepted st seen []
| acc_cons : forall st seen o ob rest,
    step_accept st o ob -> step_det_ok seen ob ->
    accepted (fst (mstep st o)) (snd (step_seen ob seen)) rest ->
    accepted st seen ((o, ob) :: rest).

Theorem run_steps_nil_iff : forall steps st seen i, run_steps false st seen i steps = [] <-> accepted st seen steps.
Proof.
  induction steps as [|[o ob] rest IH]; intros st seen i; [split; [constructor|reflexivity]|].
  cbn [run_steps]. split.
  - intros H. apply app_nil_both in H as [H1 H2]. apply map_nil in H1. apply app_nil_both in H1 as [Hm Hd].
    rewrite Hm in H2. cbn [orb] in H2. constructor; [apply step_mm_iff; exact Hm|apply step_seen_iff; exact Hd|apply (IH _ _ (N.succ i)); exact H2].
  - intros H. inversion H as [|? ? ? ? ? Ha Hd Hr]; subst. apply step_mm_iff in Ha. apply step_seen_iff in Hd.
    rewrite Ha, Hd. cbn [app map orb]. apply IH. exact Hr.
Qed.

(* ---------- values under concurrent rotation, caller's slices ---------- *)
Definition one_rotation (t : N * N * N) : Prop := fst (fst t) = snd (fst t) /\ snd (fst t) = snd t.
Lemma conc_ok_iff l : forallb conc_ok l = true <-> Forall one_rotation l.
Proof.
  rewrite forallb_forall, Forall_forall. split; intros H [[w s] i] Hin; specialize (H _ Hin); unfold conc_ok, one_rotation in *; cbn [fst snd] in *.
  - apply andb_true_iff in H as [H1 H2]. apply N.eqb_eq in H1. apply N.eqb_eq in H2. auto.
  - destruct H as [-> ->]. rewrite !N.eqb_refl. reflexivity.
Qed.

(* ---------- an event rotated from its own Tags() callback ---------- *)
(* The event fails exactly when the model's head of Process does (no wrapper, or wrapper info with an empty event id).  Otherwise
   it fixed its options eo at its start, in state cb_init; every value produced BEFORE the callback is attributed to the triple
   encrypt() / hmacSha256() select under eo in state cb_init, every value produced AFTER it to the triple they select under the
   SAME eo in the rotated state (for an event with wrapper info that is the key in force at its start, whatever was rotated:
   cb_ewi_triple_fixed; for a plain event it is the rotated filter's own triple: cb_plain_triple), and the values of the next,
   plain, event to key_in_force of the rotated state. *)
Definition cb_accepted (c : cbcase) : Prop :=
  match event_opts N m_derive (cb_init c) (cb_ewi c) with
  | None => cb_obs c = CbErr
  | Some eo =>
      exists t0 t1 t2 os1 os2 os3,
        triple_of (cb_init c) eo = Some t0 /\ triple_of (cb_rotated c) eo = Some t1 /\ kif (cb_rotated c) None = Some t2 /\
        cb_obs c = CbValues os1 os2 os3 /\
        Forall2 (fun v o => value_ok t0 (fst v) o) (cb_pre c) os1 /\
        Forall2 (fun v o => value_ok t1 (fst v) o) (cb_post c) os2 /\
        Forall2 (fun v o => value_ok t2 (fst v) o) (cb_after c) os3
  end.

(* once an event has started, a wrapper is selected in every later filter state: rotations never remove one *)
Lemma triple_of_some st ewi eo st' : event_opts N m_derive st ewi = Some eo ->
  (f_wrap st <> None -> f_wrap st' <> None) -> exists t, triple_of st' eo = Some t.
Proof.
  unfold Crypto.event_opts, triple_of, sel_wrap. intros H Hw. destruct ewi as [[[id s] i]|].
  - destruct (f_wrap st) as [w|]; [|discriminate]. destruct id; [discriminate|]. injection H as <-. cbn [o_wrap orelse]. eexists. reflexivity.
  - destruct (f_wrap st) as [w|] eqn:E; [|discriminate]. injection H as <-. cbn [no_opts o_wrap orelse].
    destruct (f_wrap st') as [w'|]; [eexists; reflexivity|]. exfalso. apply Hw; [discriminate|reflexivity].
Qed.
Lemma rotate_keeps_wrapper (st : fstate N) w s i : f_wrap st <> None -> f_wrap (rotate N st w s i) <> None.
Proof. unfold rotate. cbn [f_wrap]. destruct w; cbn [orelse]; [discriminate|auto]. Qed.
Lemma started_has_wrapper st ewi eo : event_opts N m_derive st ewi = Some eo -> f_wrap st <> None.
Proof.
  unfold Crypto.event_opts. destruct ewi as [[[id s] i]|]; destruct (f_wrap st); try discriminate; intros _; discriminate.
Qed.

Lemma cb_mm_iff c : cb_mm c = [] <-> cb_accepted c.
Proof.
  unfold cb_mm, cb_accepted. destruct (event_opts N m_derive (cb_init c) (cb_ewi c)) as [eo|] eqn:Eo.
  - pose proof (started_has_wrapper _ _ _ Eo) as Hw.
    destruct (triple_of_some _ _ _ (cb_init c) Eo (fun h => h)) as [t0 E0].
    destruct (triple_of_some _ _ _ (cb_rotated c) Eo) as [t1 E1].
    { intros _. unfold cb_rotated. destruct (cb_rot c) as [[w s] i]. apply rotate_keeps_wrapper. exact Hw. }
    assert (exists t2, kif (cb_rotated c) None = Some t2) as [t2 E2].
    { unfold Crypto.key_in_force, cb_rotated. destruct (cb_rot c) as [[w s] i].
      pose proof (rotate_keeps_wrapper (cb_init c) w s i Hw) as Hr. destruct (f_wrap (rotate N (cb_init c) w s i)); [eexists; reflexivity|contradiction]. }
    rewrite E0, E1, E2. destruct (cb_obs c) as [| |os1 os2 os3]; split; intros H; try discriminate;
      try (destruct H as (? & ? & ? & ? & ? & ? & _ & _ & _ & H & _); discriminate).
    + apply app_nil_both in H as [H1 H2]. apply app_nil_both in H2 as [H2 H3].
      exists t0, t1, t2, os1, os2, os3. repeat split; try reflexivity; apply check_values_iff; assumption.
    + destruct H as (t0' & t1' & t2' & o1 & o2 & o3 & Ha & Hb & Hc & Hd & H1 & H2 & H3).
      injection Ha as <-. injection Hb as <-. injection Hc as <-. injection Hd as <- <- <-.
      apply check_values_iff in H1. apply check_values_iff in H2. apply check_values_iff in H3. rewrite H1, H2, H3. reflexivity.
  - destruct (cb_obs c); split; intros H; try reflexivity; try discriminate.
Qed.

(* what the triples of an accepted callback event are: an event WITH wrapper info is, before and after the rotation, under the key
   in force at its start; a plain event under the triple of the filter state each value is produced in; and the value the model
   produces in that state (Crypto.crun on the schedule, CryptoProofs.callback_schedule) is the value under that triple *)
Lemma cb_ewi_triple_fixed st e eo st' : event_opts N m_derive st (Some e) = Some eo -> triple_of st' eo = kif st (Some e).
Proof. exact (started_event_triple N m_derive st e eo st'). Qed.
Lemma cb_plain_triple st' : triple_of st' (no_opts N) = kif st' None.
Proof. exact (plain_event_triple N m_derive st'). Qed.
Lemma triple_of_value enc hkdf hmac st o t c m :
  triple_of st o = Some t -> value_out N enc hkdf hmac st o c m = Some (value_under N enc hkdf hmac t c m).
Proof.
  unfold triple_of. intros H. rewrite (selected_value N enc hkdf hmac st o c m). destruct (sel_wrap N st o); [|discriminate]. injection H as <-. reflexivity.
Qed.

(* an accepted callback event WITH wrapper info: every value, before and after the rotation, under key_in_force at its start *)
Theorem cb_accepted_ewi c e t :
  cb_accepted c -> cb_ewi c = Some e -> kif (cb_init c) (Some e) = Some t ->
  exists os1 os2 os3, cb_obs c = CbValues os1 os2 os3 /\
    Forall2 (fun v o => value_ok t (fst v) o) (cb_pre c) os1 /\ Forall2 (fun v o => value_ok t (fst v) o) (cb_post c) os2.
Proof.
  unfold cb_accepted. intros H He Hk. rewrite He in H.
  pose proof (opts_key_in_force N d_enc m_derive d_hkdf d_hmac (cb_init c) (Some e)) as P. rewrite Hk in P.
  destruct (event_opts N m_derive (cb_init c) (Some e)) as [eo|] eqn:Eo; [|contradiction].
  destruct H as (t0 & t1 & t2 & os1 & os2 & os3 & H0 & H1 & _ & Ho & F1 & F2 & _).
  rewrite (cb_ewi_triple_fixed _ _ _ _ Eo), Hk in H0. rewrite (cb_ewi_triple_fixed _ _ _ _ Eo), Hk in H1.
  injection H0 as <-. injection H1 as <-. exists os1, os2, os3. auto.
Qed.

Lemma flat_map_nil_iff {A B} (f : A -> list B) l : flat_map f l = [] <-> Forall (fun a => f a = []) l.
Proof.
  induction l as [|a r IH]; cbn [flat_map]; split; intros H; try constructor; try reflexivity.
  - apply app_nil_both in H. tauto.
  - apply IH. apply app_nil_both in H. tauto.
  - inversion H as [|? ? Ha Hr]; subst. rewrite Ha. apply IH. exact Hr.
Qed.

(* ---------- a rotation payload whose accessors start events on the same filter ---------- *)
(* The rotation payload was consumed; every event an accessor started is an execution of the model in the state BEFORE the rotation
   or in the state AFTER it (never in between: the rotation payload is one atomic step) - for a plain event each VALUE may be
   under the old or the new filter triple, an event with wrapper info is wholly under key_in_force of one of the two states;
   the event processed next is under the rotated state. *)
Definition hooked_accept (st0 st1 : fstate N) (h : option ewinfo * list (cop * bstr) * cobs) : Prop :=
  match h with
  | (ewi, vals, ob) =>
      step_accept st0 (OEvent N ewi vals) ob \/ step_accept st1 (OEvent N ewi vals) ob \/
      (ewi = None /\ exists t0 t1 os, kif st0 None = Some t0 /\ kif st1 None = Some t1 /\ ob = CoValues os /\
                                    Forall2 (fun v o => value_ok t0 (fst v) o \/ value_ok t1 (fst v) o) vals os)
  end.
Definition rp_accepted (c : rpcase) : Prop :=
  rp_consumed c = true /\ Forall (hooked_accept (rp_init c) (rp_rotated c)) (rp_hooked c) /\
  step_accept (rp_rotated c) (OEvent N None (rp_after c)) (rp_after_obs c).

Lemma nilb_iff {A} (l : list A) : nilb l = true <-> l = [].
Proof. destruct l; cbn; split; intros; auto; discriminate. Qed.

Lemma check_values2_iff t0 t1 : forall vals os,
  check_values2 t0 t1 vals os = true <-> Forall2 (fun v o => value_ok t0 (fst v) o \/ value_ok t1 (fst v) o) vals os.
Proof.
  induction vals as [|[c m] r IH]; intros [|o r']; cbn [check_values2]; split; intros H; try constructor; try discriminate; try (inversion H; fail); try reflexivity.
  - apply andb_true_iff in H as [H1 _]. apply orb_true_iff in H1 as [H1|H1]; apply nilb_iff in H1; apply check_value_iff in H1; cbn [fst]; auto.
  - apply andb_true_iff in H as [_ H2]. apply IH. exact H2.
  - inversion H as [|? ? ? ? Hv Hr]; subst. cbn [fst] in Hv. apply andb_true_iff. split; [|apply IH; exact Hr].
    apply orb_true_iff. destruct Hv as [Hv|Hv]; apply check_value_iff in Hv; [left|right]; apply nilb_iff; exact Hv.
Qed.

Lemma hooked_ok_iff st0 st1 h : hooked_ok st0 st1 h = true <-> hooked_accept st0 st1 h.
Proof.
  destruct h as [[ewi vals] ob]. unfold hooked_ok, hooked_accept. rewrite !orb_true_iff, !nilb_iff, !step_mm_iff.
  split; (intros [[H|H]|H]; [left; exact H|right; left; exact H|right; right]) || (intros [H|[H|H]]; [left; left; exact H|left; right; exact H|right]).
  - destruct ewi as [e|]; [discriminate|]. destruct ob as [| | | |os]; try discriminate.
    destruct (kif st0 None) as [t0|]; [|discriminate]. destruct (kif st1 None) as [t1|]; [|discriminate].
    split; [reflexivity|]. exists t0, t1, os. repeat split. apply check_values2_iff. exact H.
  - destruct H as (-> & t0 & t1 & os & -> & -> & -> & H). apply check_values2_iff. exact H.
Qed.

Lemma rp_mm_iff c : rp_mm c = [] <-> rp_accepted c.
Proof.
  unfold rp_mm, rp_accepted. split.
  - intros H. apply app_nil_both in H as [H1 H2]. apply app_nil_both in H2 as [H2 H3].
    apply ite_nil in H1. apply ite_nil in H2. apply step_mm_iff in H3. repeat split; try assumption.
    rewrite forallb_forall in H2. apply Forall_forall. intros h Hin. apply hooked_ok_iff. apply H2. exact Hin.
  - intros (H1 & H2 & H3). apply step_mm_iff in H3. rewrite H1, H3.
    replace (forallb (hooked_ok (rp_init c) (rp_rotated c)) (rp_hooked c)) with true; [reflexivity|].
    symmetry. apply forallb_forall. intros h Hin. apply hooked_ok_iff. rewrite Forall_forall in H2. apply H2. exact Hin.
Qed.

(* ---------- events with tagged fields under an override table ---------- *)
(* unless every class-level operation is none, a tagged event IS the model's event over the values whose tag resolves (Tag.v) to
   encrypt / hmac-sha256 under the override table in force; its observation is accepted only if every such value is attributed
   to the key in force for the event and every other value came out as its action says (unchanged / "[REDACTED]") *)
Lemma tstep_event ov ewi fs r : all_none ov = false -> fst (tstep ov ewi fs r) = OEvent N ewi (crypto_vals ov fs).
Proof. unfold tstep. intros ->. reflexivity. Qed.
Lemma tstep_identity ov ewi fs r : all_none ov = true -> fst (tstep ov ewi fs r) = ORotate N None None None /\ (snd (tstep ov ewi fs r) = CoNone <-> r = TrSame).
Proof. unfold tstep. intros ->. split; [reflexivity|]. destruct r; cbn [snd]; split; intros H; try reflexivity; discriminate. Qed.

Definition tobs_ok (t : N * bstr * bstr) (a : act) (o : tobs) : Prop :=
  match a, o with
  | AEncrypt, TVal v => value_ok t (CEnc []) v
  | AHmac, TVal v => value_ok t CHmac v
  | ASkip, TText true _ => True
  | ARedact, TText _ true => True
  | _, _ => False
  end.
Lemma crypto_obs_ok ov t : forall fs os,
  Forall2 (fun v o => value_ok t (fst v) o) (crypto_vals ov fs) (crypto_obs ov fs os) ->
  Forall2 (fun f o => tobs_ok t (tact ov f) o) fs os.
Proof.
  assert (U : forall (c : cop * bstr), ~ value_ok t (fst c) VUnknown).
  { intros [c m]. destruct t as [[w s] i]. destruct c; cbn; auto. }
  induction fs as [|f r IH]; intros [|o r'] H; cbn [crypto_vals crypto_obs flat_map] in H.
  - constructor.
  - exfalso. inversion H.
  - exfalso. destruct (tact ov f); cbn [app] in H; inversion H as [|? ? ? ? Hv Hr]; subst;
      try (eapply U; exact Hv); inversion Hr as [|? ? ? ? Hv2 _]; subst; eapply U; exact Hv2.
  - fold (crypto_vals ov r) in H. unfold tobs_ok at 1.
    destruct (tact ov f) eqn:Ea; destruct o as [sm rd|v]; cbn [app] in H;
      try (destruct sm); try (destruct rd); cbn [app] in H;
      try (constructor; [rewrite Ea; cbn [tobs_ok]; exact I|apply IH; exact H]);
      try (inversion H as [|? ? ? ? Hv Hr]; subst; constructor; [rewrite Ea; exact Hv|apply IH; exact Hr]);
      exfalso.
    all: try (inversion H as [|? ? ? ? Hv Hr]; subst; first [eapply U; exact Hv | inversion Hr as [|? ? ? ? Hv2 _]; subst; eapply U; exact Hv2]).
    all: try (inversion H as [|? ? ? ? Hv Hr]; subst; cbn [fst] in Hv; destruct t as [[w s] i]; cbn in Hv; exact Hv).
Qed.

Definition case_accepted (c : ccase) : Prop :=
  accepted (cc_init c) [] (cc_steps c) /\
  Forall one_rotation (cc_conc c) /\      (* every HMAC value produced under concurrent rotation comes from ONE rotation's (wrapper, salt, info) *)
  Forall cb_accepted (cc_cbs c) /\        (* the events whose own callback rotates the filter: each value under the triple the model selects *)
  Forall rp_accepted (cc_rps c) /\        (* the rotation payloads whose accessors start events: each of those wholly before or wholly after the rotation *)
  cc_caller c = true.                     (* the salt / info slices the caller configured the filters with kept their bytes *)

Theorem mismatches_nil_iff : forall cs, mismatches cs = [] <-> Forall case_accepted cs.
Proof.
  induction cs as [|c cs IH]; [split; [constructor|reflexivity]|].
  unfold mismatches in *. cbn [flat_map]. split.
  - intros H. apply app_nil_both in H as [H1 H2]. constructor; [|apply IH; exact H2].
    apply app_nil_both in H1 as [Ha Hb]. apply app_nil_both in Hb as [Hb Hc]. apply app_nil_both in Hc as [Hc Hr]. apply app_nil_both in Hr as [Hr Hd].
    apply map_nil in Ha. apply run_steps_nil_iff in Ha. apply ite_nil in Hb. apply ite_nil in Hd.
    apply conc_ok_iff in Hb. apply flat_map_nil_iff in Hc. apply flat_map_nil_iff in Hr. repeat split; try assumption.
    + eapply Forall_impl; [|exact Hc]. intros cb Hm. apply map_nil in Hm. apply cb_mm_iff. exact Hm.
    + eapply Forall_impl; [|exact Hr]. intros rp Hm. apply map_nil in Hm. apply rp_mm_iff. exact Hm.
  - intros H. inversion H as [|c' cs' (Ha & Hb & Hc & Hr & Hd) Hf]; subst.
    apply (run_steps_nil_iff _ _ _ 0%N) in Ha. apply conc_ok_iff in Hb.
    assert (Hc' : flat_map (fun cb => map (fun k => (cc_id c, (0%N, 2%N, k))) (cb_mm cb)) (cc_cbs c) = []).
    { apply flat_map_nil_iff. eapply Forall_impl; [|exact Hc]. intros cb Hm. apply cb_mm_iff in Hm. rewrite Hm. reflexivity. }
    assert (Hr' : flat_map (fun rp => map (fun k => (cc_id c, (0%N, 3%N, k))) (rp_mm rp)) (cc_rps c) = []).
    { apply flat_map_nil_iff. eapply Forall_impl; [|exact Hr]. intros rp Hm. apply rp_mm_iff in Hm. rewrite Hm. reflexivity. }
    rewrite Ha, Hb, Hc', Hr', Hd. cbn [map app]. apply IH. exact Hf.
Qed.
Print Assumptions mismatches_nil_iff.

(* what an accepted history gives: the filter state the model is in after it is the fold of its rotations (CryptoProofs.run_state),
   and every value of every accepted event is under key_in_force of the state reached by the steps before it *)
Theorem accepted_event_under_key_in_force : forall st seen pre ewi vals ob rest,
  accepted st seen (pre ++ (OEvent N ewi vals, ob) :: rest) ->
  let st' := fold_left (fun s x => fst (mstep s (fst x))) pre st in
  match kif st' ewi with
  | None => ob = CoErr
  | Some t => exists os, ob = CoValues os /\ Forall2 (fun v o => value_ok t (fst v) o) vals os
  end.
Proof.
  intros st seen pre. revert st seen. induction pre as [|[o1 ob1] r IH]; intros st seen ewi vals ob rest H; cbn [app fold_left fst] in *.
  - inversion H as [|? ? ? ? ? Ha _ _]; subst. exact Ha.
  - inversion H as [|? ? ? ? ? _ _ Hr]; subst. apply (IH _ _ _ _ _ _ Hr).
Qed.
Print Assumptions accepted_event_under_key_in_force.
