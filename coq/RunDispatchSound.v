(* RunDispatchSound.v — what an empty mismatch list MEANS for the dispatch engine.  The correspondence check evaluates
   [Run_Dispatch.mismatches] with vm_compute and requires []. Here that verdict is given its declarative reading, in both
   directions: for every case, over the pipelines and thresholds that the registry model (Broker.v) gives for the recorded
   registration history,
     - the recorded hook trace is accepted event by event ([accepts]), hence — [accepts_reach] — it is an execution of the
       dispatch model of Dispatch.v from [init roots pre], so every theorem of DispatchProofs.v about reachable states holds
       of the observed Send;
     - once everything is quiet that execution is in a terminal state;
     - the returned Status is, as multisets of complete ids / complete-sink ids / warning identities, what the model's
       collector holds, the returned error is nil exactly when the model's get_error is, and wraps the context error exactly
       when the model's context bit says so;
     - the nodes' own log of invocations and returns is the model's call log;
     - the implementation dispatches to the registry model's pipelines, and the observation-only oracles hold (first event
       well-formed, Send returned, nothing left behind, no invented entries, the no-graph contract). *)
From Coq Require Import List Bool Arith NArith ZArith Lia.
From Verif Require Import Alist Broker Dispatch DispatchProofs Run_Dispatch DispatchAcceptProofs.
Import ListNotations.

(* ---------- small helpers ---------- *)
Lemma app_nil_iff {A} (a c : list A) : a ++ c = [] <-> a = [] /\ c = [].
Proof. split; [destruct a; cbn; [auto|discriminate]|intros [-> ->]; reflexivity]. Qed.
Lemma map_nil_iff {A B} (f : A -> B) l : map f l = [] <-> l = [].
Proof. split; [destruct l; cbn; [auto|discriminate]|intros ->; reflexivity]. Qed.
Lemma ite_nil_iff {A} (c : bool) (x : A) : (if c then [] else [x]) = [] <-> c = true.
Proof. destruct c; split; auto; discriminate. Qed.
Lemma ite_nil_iff' {A} (c : bool) (x : A) : (if c then [x] else []) = [] <-> c = false.
Proof. destruct c; split; auto; discriminate. Qed.

Lemma node_eqb_spec a b : Run_Dispatch.node_eqb a b = true <-> a = b.
Proof.
  destruct a as [i o s], b as [i' o' s']. unfold Run_Dispatch.node_eqb. cbn [nid nobj nsink].
  rewrite !andb_true_iff, !N.eqb_eq, Bool.eqb_true_iff. split; [intros [[-> ->] ->]; reflexivity|intros H; inversion H; auto].
Qed.
Lemma eq_list_spec {A} (eq : A -> A -> bool) : (forall x y, eq x y = true <-> x = y) ->
  forall a b, eq_list eq a b = true <-> a = b.
Proof.
  intros Hs. induction a as [|x a IH]; intros [|y b]; cbn [eq_list]; try (split; [discriminate|intros H; discriminate]); [tauto|].
  rewrite andb_true_iff, Hs, IH. split; [intros [-> ->]; reflexivity|intros H; inversion H; auto].
Qed.
Lemma root_eqb_spec a b : root_eqb a b = true <-> a = b.
Proof.
  destruct a as [p ns], b as [p' ns']. unfold root_eqb. cbn [fst snd].
  rewrite andb_true_iff, N.eqb_eq, (eq_list_spec _ node_eqb_spec). split; [intros [-> ->]; reflexivity|intros H; inversion H; auto].
Qed.
Lemma eq_obs_spec a b : eq_obs a b = true <-> a = b.
Proof.
  destruct a as [[a1 a2] a3], b as [[b1 b2] b3]. unfold eq_obs. cbn [fst snd].
  rewrite !andb_true_iff, !eqNl_spec. split; [intros [[-> ->] ->]; reflexivity|intros H; inversion H; auto].
Qed.
Lemma is_terminal_iff s : is_terminal s = true <-> terminal s.
Proof.
  unfold is_terminal, terminal. destruct (coll s); destruct (rng s); split; try discriminate; try tauto; intros [H1 H2]; discriminate.
Qed.

(* ---------- the trace, event by event ---------- *)
Section Accepts.
  Variable beh : N -> N -> N -> outcome.
  Variable e0 : N -> N.
  Variable want : option bool.

  Inductive accepts : ast -> list ev -> ast -> Prop :=
  | acc_nil : forall a, accepts a [] a
  | acc_ev : forall a e a1 t a', feed beh e0 want a e = inl a1 -> accepts a1 t a' -> accepts a (e :: t) a'.

  Lemma run_trace_accepts tr : forall a i a', run_trace beh e0 want a i tr = (a', None) <-> accepts a tr a'.
  Proof.
    induction tr as [|e t IH]; intros a i a'; cbn [run_trace].
    - split; [intros H; inversion H; constructor|intros H; inversion H; reflexivity].
    - destruct (feed beh e0 want a e) as [a1|k] eqn:E.
      + rewrite IH. split; [intros H; econstructor; eauto|].
        intros H. inversion H as [|? ? a2 ? ? Hf Ht]; subst. rewrite E in Hf. inversion Hf; subst. exact Ht.
      + split; [discriminate|]. intros H. inversion H as [|? ? a2 ? ? Hf Ht]; subst. rewrite E in Hf. discriminate.
  Qed.

  Lemma run_trace_some tr : forall a i a' m, run_trace beh e0 want a i tr = (a', Some m) -> forall a'', ~ accepts a tr a''.
  Proof.
    intros a i a' m H a'' Ha. apply (run_trace_accepts tr a i a'') in Ha. rewrite Ha in H. discriminate.
  Qed.

  (* an accepted trace is an execution of the dispatch model *)
  Theorem accepts_reach roots c0 tr a a' : reach beh e0 roots c0 (a_st a) -> accepts a tr a' -> reach beh e0 roots c0 (a_st a').
  Proof.
    intros Hr Ha. apply (run_trace_accepts tr a 0%N a') in Ha. eapply run_trace_sound; eauto.
  Qed.
End Accepts.

(* ---------- the declarative reading of the pieces ---------- *)
Definition oracles_ok (c : dcase) : Prop :=
  d_event0_ok c = true /\                                   (* every first node's event: sent type, payload, a time, no formats *)
  returned_seen (d_trace c) = true /\                       (* Send returned *)
  (d_quiet c = true -> all_exited (d_trace c) = true /\     (* every invocation seen to start was seen to exit, *)
                       (closed_seen (d_trace c) = true \/ model_roots c = None)) /\   (* the status channel was closed *)
  d_leak c = false.                                         (* and the goroutine dump shows nothing left of this Send *)

Lemma oracle_of_nil c : oracle_of c = [] <-> oracles_ok c.
Proof.
  unfold oracle_of, oracles_ok. rewrite !app_nil_iff, !ite_nil_iff, !ite_nil_iff'.
  assert (Hq : d_quiet c && negb (all_exited (d_trace c) && (closed_seen (d_trace c) || match model_roots c with None => true | Some _ => false end)) = false <->
               (d_quiet c = true -> all_exited (d_trace c) = true /\ (closed_seen (d_trace c) = true \/ model_roots c = None))).
  { destruct (d_quiet c); cbn [andb]; [|split; [discriminate|reflexivity]].
    rewrite negb_false_iff, andb_true_iff, orb_true_iff.
    assert (Hm : match model_roots c with None => true | Some _ => false end = true <-> model_roots c = None)
      by (destruct (model_roots c); split; auto; discriminate).
    rewrite Hm. split; [intros H _; exact H|intros H; exact (H eq_refl)]. }
  rewrite Hq. tauto.
Qed.

Definition nograph_ok (c : dcase) : Prop :=
  d_err c = true /\ d_status c = ([], [], []) /\ d_nodecalls c = [] /\ (d_trace c = [EvReturned] \/ d_trace c = []) /\ d_snapshot c = None.

Lemma nograph_of_nil c : nograph_of c = [] <-> nograph_ok c.
Proof.
  unfold nograph_of, nograph_ok. rewrite ite_nil_iff, !andb_true_iff, eq_obs_spec.
  assert (H1 : match d_nodecalls c with [] => true | _ => false end = true <-> d_nodecalls c = []) by (destruct (d_nodecalls c); split; auto; discriminate).
  assert (H2 : match d_trace c with [EvReturned] | [] => true | _ => false end = true <-> (d_trace c = [EvReturned] \/ d_trace c = [])).
  { destruct (d_trace c) as [|e [|e2 t]]; try destruct e;
      (split; [first [discriminate|intros _; auto]|first [intros _; reflexivity|intros [H|H]; inversion H]]). }
  assert (H3 : match d_snapshot c with None => true | Some _ => false end = true <-> d_snapshot c = None) by (destruct (d_snapshot c); split; auto; discriminate).
  rewrite H1, H2, H3. tauto.
Qed.

Lemma reg_of_nil c roots : reg_of c roots = [] <-> d_snapshot c = Some roots.
Proof.
  unfold reg_of. destruct (d_snapshot c) as [sn|]; [|split; discriminate].
  rewrite ite_nil_iff, (eq_list_spec _ root_eqb_spec). split; [intros ->; reflexivity|intros H; inversion H; reflexivity].
Qed.

(* never more entries than registered pipelines; exactly one each when the context was never cancelled *)
Definition invented_ok (c : dcase) (roots : list root) : Prop :=
  entries_of c <= length roots /\
  (cancelled_of c = false -> returned_seen (d_trace c) = true -> entries_of c = length roots).

Lemma invented_of_nil c roots : invented_of c roots = [] <-> invented_ok c roots.
Proof.
  unfold invented_of, invented_ok. rewrite ite_nil_iff', orb_false_iff, Nat.ltb_ge.
  destruct (cancelled_of c); cbn [negb andb]; [split; [intros [H _]; split; [exact H|discriminate]|intros [H _]; auto]|].
  destruct (returned_seen (d_trace c)); cbn [andb]; [|split; [intros [H _]; split; [exact H|discriminate]|intros [H _]; auto]].
  rewrite negb_false_iff, Nat.eqb_eq. split; intros [H1 H2]; auto.
Qed.

Definition status_obs (c : dcase) : list N * list N * list N :=
  (sortN (fst (fst (d_status c))), sortN (snd (fst (d_status c))), sortN (snd (d_status c))).

Definition final_ok (c : dcase) (s : st) (rets : list (N * N * outcome)) : Prop :=
  (forall acc b, result s = Some (acc, b) ->
     (* the returned Status is what the model's collector holds, as multisets *)
     (sortN (completes acc), sortN (complete_sinks acc), sortN (warnings acc)) = status_obs c /\
     (* error nil / non-nil and wrapping of the context error are get_error's on the model's result *)
     match get_error b (fst (model_thr c)) (snd (model_thr c)) acc with
     | Some (_, cb) => d_err c = true /\ cb = d_err_ctx c
     | None => d_err c = false
     end) /\
  (* the nodes' own log of invocations / of returns is the model's *)
  sortN (map (fun cl => enc (nobj (fst cl)) (snd cl)) (clog s)) = sortN (map (fun oc => enc (fst oc) (snd oc)) (d_nodecalls c)) /\
  sortN (map enc_ret rets) = sortN (map enc_ret (d_noderets c)).

Lemma final_checks_nil c s rets : final_checks c s rets = [] <-> final_ok c s rets.
Proof.
  unfold final_checks, final_ok, status_obs. rewrite !app_nil_iff, !ite_nil_iff, !eqNl_spec.
  destruct (result s) as [[acc b]|].
  - rewrite app_nil_iff, ite_nil_iff, eq_obs_spec.
    assert (He : match get_error b (fst (model_thr c)) (snd (model_thr c)) acc with
                 | Some (_, cb) => if d_err c then if Bool.eqb cb (d_err_ctx c) then [] else [KErrCtx] else [KErr]
                 | None => if d_err c then [KErr] else []
                 end = [] <->
                 match get_error b (fst (model_thr c)) (snd (model_thr c)) acc with
                 | Some (_, cb) => d_err c = true /\ cb = d_err_ctx c
                 | None => d_err c = false
                 end).
    { destruct (get_error b (fst (model_thr c)) (snd (model_thr c)) acc) as [[k cb]|]; destruct (d_err c).
      - rewrite ite_nil_iff, Bool.eqb_true_iff. tauto.
      - split; [discriminate|intros [H _]; discriminate].
      - split; discriminate.
      - tauto. }
    rewrite He. split.
    + intros [[H1 H2] H3]. split; [|exact H3]. intros acc' b' H. inversion H; subst. auto.
    + intros [H H3]. split; [exact (H acc b eq_refl)|exact H3].
  - split; [intros [_ H]; split; [intros acc b Hx; discriminate|exact H]|intros [_ H]; auto].
Qed.

(* ---------- one case ---------- *)
Definition case_ok (c : dcase) : Prop :=
  match model_roots c with
  | None => nograph_ok c /\ oracles_ok c
  | Some roots =>
      (* [er]: the registry model's pipelines for the type, adjusted by what the nodes themselves did to the registry during
         the Send (Run_Dispatch.eff_roots; = roots when they did nothing) *)
      let er := eff_roots c roots in
      exists a,
        (* the trace is an execution of the dispatch model from those pipelines ... *)
        accepts (beh_of (d_trace c)) (e0_of (d_trace c)) (want_of c) (a0_of c er) (d_trace c) a /\
        reach (beh_of (d_trace c)) (e0_of (d_trace c)) er (d_pre c) (a_st a) /\
        (* ... complete once everything is quiet ... *)
        (d_quiet c = true -> terminal (a_st a)) /\
        (* ... whose result, call log and return log are the observed ones; *)
        final_ok c (a_st a) (a_rets a) /\
        (* the implementation dispatches to the registry model's pipelines; nothing is invented; the oracles hold *)
        d_snapshot c = Some roots /\ invented_ok c er /\ oracles_ok c
  end.

Theorem run_case_nil_iff c : run_case c = [] <-> case_ok c.
Proof.
  unfold run_case, case_ok. destruct (model_roots c) as [roots|] eqn:Er.
  - cbv zeta. destruct (run_trace (beh_of (d_trace c)) (e0_of (d_trace c)) (want_of c) (a0_of c (eff_roots c roots)) 0%N (d_trace c)) as [a [m|]] eqn:Et.
    + split; [discriminate|]. intros [a' [Ha _]]. exfalso. exact (run_trace_some _ _ _ _ _ _ _ _ Et a' Ha).
    + rewrite map_nil_iff, !app_nil_iff, reg_of_nil, invented_of_nil, oracle_of_nil, final_checks_nil.
      unfold proto_end_of. rewrite ite_nil_iff'. split.
      * intros [Hp [Hf [Hreg [Hinv Hor]]]]. exists a. split; [apply run_trace_accepts in Et; exact Et|].
        split; [apply (accepted_trace_is_execution _ _ _ _ _ _ _ Et)|].
        split; [|tauto]. intros Hq. destruct Hor as [_ [Hret _]]. rewrite Hq, Hret in Hp. cbn [andb] in Hp.
        apply negb_false_iff in Hp. apply is_terminal_iff. exact Hp.
      * intros [a' [Ha [_ [Hterm [Hf [Hreg [Hinv Hor]]]]]]].
        apply (run_trace_accepts _ _ _ _ _ 0%N a') in Ha. rewrite Et in Ha. inversion Ha; subst a'.
        split; [|tauto]. destruct (d_quiet c); cbn [andb]; [|reflexivity].
        destruct (returned_seen (d_trace c)); cbn [andb]; [|reflexivity].
        apply negb_false_iff. apply is_terminal_iff. apply Hterm. reflexivity.
  - rewrite map_nil_iff, app_nil_iff, nograph_of_nil, oracle_of_nil. tauto.
Qed.

(* ---------- every case of a shard ---------- *)
Theorem mismatches_nil_iff : forall cs, mismatches cs = [] <-> Forall case_ok cs.
Proof.
  induction cs as [|c cs IH]; [split; [constructor|reflexivity]|].
  unfold mismatches in *. cbn [flat_map]. rewrite app_nil_iff, map_nil_iff, run_case_nil_iff, IH.
  split; [intros [H1 H2]; constructor; assumption|intros H; inversion H; auto].
Qed.
Print Assumptions mismatches_nil_iff.

(* ---------- what the verdict gives, per property ---------- *)
(* C01: an accepted Send whose context was never cancelled and that is quiet has invoked exactly — as a multiset — the
   sequential traversals of the pipelines the registry model has for the type; and that is what the nodes themselves logged *)
Theorem verdict_calls_are_traversals c roots0 roots : case_ok c -> model_roots c = Some roots0 -> roots = eff_roots c roots0 -> roots_ok roots ->
  d_quiet c = true -> d_pre c = false ->
  exists a, reach (beh_of (d_trace c)) (e0_of (d_trace c)) roots false (a_st a) /\ terminal (a_st a) /\
            sortN (map (fun cl => enc (nobj (fst cl)) (snd cl)) (clog (a_st a))) = sortN (map (fun oc => enc (fst oc) (snd oc)) (d_nodecalls c)) /\
            (ctx (a_st a) = false ->
             Permutation.Permutation (clog (a_st a)) (flat_map (calls_of (beh_of (d_trace c)) (e0_of (d_trace c))) roots)).
Proof.
  intros Hok Hr -> Hroots Hq Hpre. unfold case_ok in Hok. rewrite Hr in Hok. cbv zeta in Hok.
  destruct Hok as [a [_ [Hreach [Hterm [[_ [Hcalls _]] _]]]]]. rewrite Hpre in Hreach.
  exists a. split; [exact Hreach|]. split; [exact (Hterm Hq)|]. split; [exact Hcalls|].
  intros Hc. apply send_traverses_exactly; auto.
Qed.

(* C02: the returned Status never holds more than one entry per pipeline of the registry model, and each entry is the final
   status of the sequential traversal of a pipeline of its own *)
Theorem verdict_status_never_invented c roots0 roots : case_ok c -> model_roots c = Some roots0 -> roots = eff_roots c roots0 -> roots_ok roots ->
  exists a, reach (beh_of (d_trace c)) (e0_of (d_trace c)) roots (d_pre c) (a_st a) /\
            (forall acc b, result (a_st a) = Some (acc, b) ->
               (sortN (completes acc), sortN (complete_sinks acc), sortN (warnings acc)) = status_obs c) /\
            exists reported others, Permutation.Permutation (reported ++ others) roots /\
              Permutation.Permutation (collected (a_st a)) (flat_map (final_of (beh_of (d_trace c)) (e0_of (d_trace c))) reported).
Proof.
  intros Hok Hr -> Hroots. unfold case_ok in Hok. rewrite Hr in Hok. cbv zeta in Hok.
  destruct Hok as [a [_ [Hreach [_ [[Hres _] _]]]]]. exists a. split; [exact Hreach|]. split.
  - intros acc b H. exact (proj1 (Hres acc b H)).
  - eapply status_never_invented; eauto.
Qed.

(* C03: an accepted quiet Send has left nothing behind in the model either: wait group balanced, every invocation returned *)
Theorem verdict_no_goroutine c roots0 roots : case_ok c -> model_roots c = Some roots0 -> roots = eff_roots c roots0 -> roots_ok roots -> d_quiet c = true ->
  d_leak c = false /\
  exists a, reach (beh_of (d_trace c)) (e0_of (d_trace c)) roots (d_pre c) (a_st a) /\
            wg (a_st a) = 0 /\ forall t, In t (tasks (a_st a)) -> exists f, tstage t = SDone f.
Proof.
  intros Hok Hr -> Hroots Hq. unfold case_ok in Hok. rewrite Hr in Hok. cbv zeta in Hok.
  destruct Hok as [a [_ [Hreach [Hterm [_ [_ [_ [_ [_ [_ Hleak]]]]]]]]]]. split; [exact Hleak|].
  exists a. split; [exact Hreach|]. eapply terminal_no_goroutine_reach; eauto.
Qed.
Print Assumptions verdict_calls_are_traversals.
Print Assumptions verdict_status_never_invented.
Print Assumptions verdict_no_goroutine.
