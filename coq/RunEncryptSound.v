(* RunEncryptSound.v — what an empty mismatch list of Run_Encrypt MEANS (C09, C10).
   [Run_Encrypt.mismatches cs = []] holds iff every case is accepted:
   * the observed outcome of Process is the model's ([outcome_ok]): the same event / consumed / error exactly when
     Encrypt.process says so, and a forwarded payload AGREES with the model's position by position ([agree]: same
     constructors, lengths, field names and keys, equal non-string values, equal leaf contents), with the dynamic type and
     the event metadata kept and no canary in its JSON rendering that the model's output does not expose;
   * the observation-only oracles hold ([oracles_ok]): the input event equals its deep snapshot after Process and again
     after the forwarded event was rewritten; the observed payload is clean in the sense of theorem no_leak ([cleanb]) when
     the input is in the grammar; it equals the private copy up to leaf contents (theorem shape_preserved) when the tags
     name strings; no value below an unexported field was lost.
   Leniencies, stated where they sit:
   * leaf contents are compared up to [abst]: an HMAC over a text the harness cannot know (a ciphertext, when two tags name one
     key) is compared as "some HMAC"; for the cleanliness oracle such a value gets the benefit of the doubt ([trust]);
   * the names, exported flags and tags of the OBSERVED tree are not compared (the harness prints them from the same Go type);
   * [e_snaponly] cases (Filter.IgnoreTypes where the ignore rule applies) are judged by the input-side oracles only;
   * the last oracle is exactly the known finding F10 (KF-C10-unexported-zeroed): the C10 check reports it as KNOWN-FINDING;
     [mismatches cs = []] is the stronger statement that it did not occur. *)
From Coq Require Import List Bool NArith ZArith String Lia.
From Verif Require Import Tag Encrypt EncryptSpec EncryptProofs Run_Encrypt.
Import ListNotations.
Open Scope list_scope.

Lemma app_nil_both {A} (a c : list A) : a ++ c = [] <-> a = [] /\ c = [].
Proof.
  destruct a as [|x a]; cbn [app]; split.
  - intros H. split; [reflexivity|exact H].
  - intros [_ H]. exact H.
  - discriminate.
  - intros [H _]. discriminate.
Qed.
Lemma map_nil_iff {A B} (f : A -> B) l : map f l = [] <-> l = [].
Proof. destruct l; cbn; split; intros; auto; discriminate. Qed.
Lemma ite_nil {A} (c : bool) (x : A) : (if c then [] else [x]) = [] <-> c = true.
Proof. destruct c; split; intros; auto; discriminate. Qed.
Lemma ite_nil' {A} (c : bool) (x : A) : (if c then [x] else []) = [] <-> c = false.
Proof. destruct c; split; intros; auto; discriminate. Qed.

Lemma memN_In x l : memN x l = true <-> In x l.
Proof.
  induction l as [|y r IH]; cbn [memN In]; [split; [discriminate|contradiction]|].
  rewrite orb_true_iff, IH, N.eqb_eq. split; intros [H|H]; auto.
Qed.

(* ---------- leaves ---------- *)
Lemma leaf_eqb_eq a : forall b, leaf_eqb a b = true <-> a = b.
Proof.
  induction a as [c| |k l IH|k l IH|]; intros [d| |k' l'|k' l'|]; cbn [leaf_eqb]; split; intros H; try reflexivity; try discriminate.
  - apply N.eqb_eq in H. subst. reflexivity.
  - injection H as ->. apply N.eqb_refl.
  - apply andb_true_iff in H as [H1 H2]. apply N.eqb_eq in H1. apply IH in H2. subst. reflexivity.
  - injection H as -> ->. rewrite N.eqb_refl. apply IH. reflexivity.
  - apply andb_true_iff in H as [H1 H2]. apply N.eqb_eq in H1. apply IH in H2. subst. reflexivity.
  - injection H as -> ->. rewrite N.eqb_refl. apply IH. reflexivity.
Qed.

Lemma lkind_eqb_eq a b : lkind_eqb a b = true <-> a = b.
Proof. destruct a, b; cbn; split; intros H; try reflexivity; discriminate. Qed.

(* leaf contents agree: equal up to the HMACs nobody can recompute *)
Definition leaf_agree (m o : leaf) : Prop := abst m = abst o.

Lemma leaf_kinds_iff m o : leaf_kinds m o = [] <-> leaf_agree m o.
Proof.
  unfold leaf_kinds, leaf_agree. destruct (leaf_eqb (abst m) (abst o)) eqn:E.
  - apply leaf_eqb_eq in E. split; auto.
  - split; [|intros H; apply leaf_eqb_eq in H; congruence].
    intros H. destruct (exposed o && negb (exposed m)); [discriminate|]. destruct (exposed m); discriminate.
Qed.

Lemma leaves_kinds_iff : forall ms os, leaves_kinds ms os = [] <-> Forall2 leaf_agree ms os.
Proof.
  induction ms as [|m r IH]; intros [|o r']; cbn [leaves_kinds]; split; intros H; try constructor; try discriminate; try (inversion H; fail).
  - apply app_nil_both in H as [H1 _]. apply leaf_kinds_iff. exact H1.
  - apply app_nil_both in H as [_ H2]. apply IH. exact H2.
  - inversion H as [|? ? ? ? Hl Hr]; subst. apply app_nil_both. split; [apply leaf_kinds_iff; exact Hl|apply IH; exact Hr].
Qed.

(* ---------- trees: the observed payload is the model's ---------- *)
Definition fname (f : field) : N := fst (fst (fst f)).

Inductive agree : v -> v -> Prop :=
| ag_leaf : forall lk l l', leaf_agree l l' -> agree (VLeaf lk l) (VLeaf lk l')
| ag_nilbytes : agree VNilBytes VNilBytes
| ag_leaves : forall lk ls ls', Forall2 leaf_agree ls ls' -> agree (VLeaves lk ls) (VLeaves lk ls')
| ag_other : forall z, agree (VOther z) (VOther z)
| ag_pnone : agree (VPtr None) (VPtr None)
| ag_psome : forall a b, agree a b -> agree (VPtr (Some a)) (VPtr (Some b))
| ag_slice : forall l l', Forall2 agree l l' -> agree (VSlice l) (VSlice l')
| ag_struct : forall tg tg' fs fs',
    Forall2 (fun f f' : field => fname f = fname f' /\ agree (snd f) (snd f')) fs fs' -> agree (VStruct tg fs) (VStruct tg' fs')
| ag_map : forall tg tg' l l',
    Forall2 (fun ky ky' : N * v => fst ky = fst ky' /\ agree (snd ky) (snd ky')) l l' -> agree (VMap tg l) (VMap tg' l').

Definition diffP (a : v) : Prop := forall w o, diff w a o = [] <-> agree a o.

Lemma slice_go_iff w : forall l, Forall diffP l -> forall l',
  (fix go (l l' : list v) : list (N * kind) :=
     match l, l' with
     | [], [] => []
     | a :: r, b :: r' => diff w a b ++ go r r'
     | _, _ => [(w, KShape)]
     end) l l' = [] <-> Forall2 agree l l'.
Proof.
  induction l as [|a r IH]; intros Hl [|b r']; split; intros H; try constructor; try discriminate; try (inversion H; fail);
    inversion Hl as [|? ? Ha Hr]; subst.
  - apply app_nil_both in H as [H1 _]. apply (proj1 (Ha w b)). exact H1.
  - apply app_nil_both in H as [_ H2]. apply (proj1 (IH Hr r')). exact H2.
  - inversion H as [|? ? ? ? Hab Hrr]; subst. apply app_nil_both. split; [apply (proj2 (Ha w b)); exact Hab|apply (proj2 (IH Hr r')); exact Hrr].
Qed.

Lemma struct_go_iff w : forall fs, Forall (fun f : field => diffP (snd f)) fs -> forall after fs',
  (fix go (after : bool) (fs fs' : list field) : list (N * kind) :=
     match fs, fs' with
     | [], [] => []
     | (nm, ex, _, a) :: r, (nm', _, _, b) :: r' =>
         (if N.eqb nm nm' then diff (if ex then (if after then setw w 5 else w) else setw w 4) a b else [(w, KShape)])
         ++ go (after || is_tstruct a) r r'
     | _, _ => [(w, KShape)]
     end) after fs fs' = [] <-> Forall2 (fun f f' : field => fname f = fname f' /\ agree (snd f) (snd f')) fs fs'.
Proof.
  induction fs as [|[[[nm ex] t] a] r IH]; intros Hl after [|[[[nm' ex'] t'] b] r']; split; intros H; try constructor; try discriminate; try (inversion H; fail);
    inversion Hl as [|? ? Ha Hr]; subst; cbn [snd] in Ha.
  - apply app_nil_both in H as [H1 _]. unfold fname. cbn [fst snd]. destruct (N.eqb nm nm') eqn:E; [|discriminate].
    apply N.eqb_eq in E. split; [exact E|]. exact (proj1 (Ha _ b) H1).
  - apply app_nil_both in H as [_ H2]. exact (proj1 (IH Hr _ r') H2).
  - inversion H as [|? ? ? ? [Hn Hab] Hrr]; subst. unfold fname in Hn. cbn [fst snd] in Hn, Hab. subst nm'.
    apply app_nil_both. split; [rewrite N.eqb_refl; apply (proj2 (Ha _ b)); exact Hab|apply (proj2 (IH Hr _ r')); exact Hrr].
Qed.

Lemma map_go_iff (wf : N -> v -> N) w1 : forall l, Forall (fun ky : N * v => diffP (snd ky)) l -> forall l',
  (fix go (l l' : list (N * v)) : list (N * kind) :=
     match l, l' with
     | [], [] => []
     | (k, a) :: r, (k', b) :: r' => (if N.eqb k k' then diff (wf k a) a b else [(w1, KShape)]) ++ go r r'
     | _, _ => [(w1, KShape)]
     end) l l' = [] <-> Forall2 (fun ky ky' : N * v => fst ky = fst ky' /\ agree (snd ky) (snd ky')) l l'.
Proof.
  induction l as [|[k a] r IH]; intros Hl [|[k' b] r']; split; intros H; try constructor; try discriminate; try (inversion H; fail);
    inversion Hl as [|? ? Ha Hr]; subst; cbn [snd] in Ha.
  - apply app_nil_both in H as [H1 _]. cbn [fst snd]. destruct (N.eqb k k') eqn:E; [|discriminate]. apply N.eqb_eq in E.
    split; [exact E|]. exact (proj1 (Ha _ b) H1).
  - apply app_nil_both in H as [_ H2]. apply (proj1 (IH Hr r')). exact H2.
  - inversion H as [|? ? ? ? [Hn Hab] Hrr]; subst. cbn [fst snd] in Hn, Hab. subst k'.
    apply app_nil_both. split; [rewrite N.eqb_refl; apply (proj2 (Ha _ b)); exact Hab|apply (proj2 (IH Hr r')); exact Hrr].
Qed.

Theorem diff_nil_iff : forall m, diffP m.
Proof.
  induction m as [lk l| |lk ls|z|tg fs IH| |a IH|l IH|tg l IH] using v_ind'; intros w o.
  - destruct o as [lk' l'| | | | |[|]| |]; cbn [diff]; try (split; [discriminate|intros H; inversion H]).
    destruct (lkind_eqb lk lk') eqn:E.
    + apply lkind_eqb_eq in E. subst lk'. rewrite map_nil_iff, leaf_kinds_iff. split; [apply ag_leaf|intros H; inversion H; assumption].
    + split; [discriminate|]. intros H. inversion H; subst. rewrite (proj2 (lkind_eqb_eq _ _) eq_refl) in E. discriminate.
  - destruct o as [| | | | |[|]| |]; cbn [diff]; try (split; [discriminate|intros H; inversion H]). split; [constructor|reflexivity].
  - destruct o as [|  |lk' ls'| | |[|]| |]; cbn [diff]; try (split; [discriminate|intros H; inversion H]).
    destruct (lkind_eqb lk lk') eqn:E.
    + apply lkind_eqb_eq in E. subst lk'. rewrite map_nil_iff, leaves_kinds_iff. split; [apply ag_leaves|intros H; inversion H; assumption].
    + split; [discriminate|]. intros H. inversion H; subst. rewrite (proj2 (lkind_eqb_eq _ _) eq_refl) in E. discriminate.
  - destruct o as [| | |z'| |[|]| |]; cbn [diff]; try (split; [discriminate|intros H; inversion H]).
    destruct (Z.eqb z z') eqn:E.
    + apply Z.eqb_eq in E. subst. split; [constructor|reflexivity].
    + split; [discriminate|]. intros H. inversion H; subst. rewrite Z.eqb_refl in E. discriminate.
  - destruct o as [| | | |tg' fs'|[|]| |]; cbn [diff]; try (split; [discriminate|intros H; inversion H]).
    rewrite (struct_go_iff w fs IH false fs'). split; [apply ag_struct|intros H; inversion H; assumption].
  - destruct o as [| | | | |[|]| |]; cbn [diff]; try (split; [discriminate|intros H; inversion H]). split; [constructor|reflexivity].
  - destruct o as [| | | | |[b|]| |]; cbn [diff]; try (split; [discriminate|intros H; inversion H]).
    rewrite (IH w b). split; [apply ag_psome|intros H; inversion H; assumption].
  - destruct o as [| | | | |[|]|l'|]; cbn [diff]; try (split; [discriminate|intros H; inversion H]).
    rewrite (slice_go_iff w l IH l'). split; [apply ag_slice|intros H; inversion H; assumption].
  - destruct o as [| | | | |[|]| |tg' l']; cbn [diff]; try (split; [discriminate|intros H; inversion H]).
    rewrite (map_go_iff (fun k a => match a with
                                    | VStruct _ _ => setw (if no_tag_matches tg l then setw w 3 else w) 1
                                    | _ => match nested_tags k (match tg with Some ts => ts | None => [] end) with
                                           | [] => (if no_tag_matches tg l then setw w 3 else w)
                                           | _ => setw (if no_tag_matches tg l then setw w 3 else w) 6 end
                                    end) (if no_tag_matches tg l then setw w 3 else w) l IH l').
    split; [apply ag_map|intros H; inversion H; assumption].
Qed.

Corollary diff_top_nil_iff m o : diff_top m o = [] <-> agree m o.
Proof. unfold diff_top. destruct (deref m) as [| | | | | | |[|] ?]; apply diff_nil_iff. Qed.

(* ---------- equality of trees ---------- *)
Lemma list_eqb_eq {A} (eq : A -> A -> bool) (Heq : forall a b, eq a b = true <-> a = b) : forall a b, list_eqb eq a b = true <-> a = b.
Proof.
  induction a as [|x r IH]; intros [|y r']; cbn [list_eqb]; split; intros H; try reflexivity; try discriminate.
  - apply andb_true_iff in H as [H1 H2]. apply Heq in H1. apply IH in H2. subst. reflexivity.
  - injection H as -> ->. apply andb_true_iff. split; [apply Heq; reflexivity|apply IH; reflexivity].
Qed.
Lemma opt_eqb_eq {A} (eq : A -> A -> bool) (Heq : forall a b, eq a b = true <-> a = b) : forall a b, opt_eqb eq a b = true <-> a = b.
Proof.
  intros [x|] [y|]; cbn [opt_eqb]; split; intros H; try reflexivity; try discriminate.
  - apply Heq in H. subst. reflexivity.
  - injection H as ->. apply Heq. reflexivity.
Qed.
Lemma tkey_eqb_eq a b : tkey_eqb a b = true <-> a = b.
Proof. destruct a as [p], b as [q]. cbn [tkey_eqb]. rewrite (list_eqb_eq N.eqb N.eqb_eq). split; intros H; [subst; reflexivity|injection H; auto]. Qed.
Lemma mtag_eqb_eq a b : mtag_eqb a b = true <-> a = b.
Proof.
  destruct a as [ka sa], b as [kb sb]. unfold mtag_eqb. cbn [fst snd]. rewrite andb_true_iff, (opt_eqb_eq tkey_eqb tkey_eqb_eq), String.eqb_eq.
  split; [intros [-> ->]; reflexivity|intros H; injection H; auto].
Qed.
Lemma stag_eqb_eq a b : stag_eqb a b = true <-> a = b.
Proof.
  destruct a as [ka sa], b as [kb sb]. unfold stag_eqb. cbn [fst snd].
  rewrite andb_true_iff, String.eqb_eq, (opt_eqb_eq (fun p q : N * N => N.eqb (fst p) (fst q) && N.eqb (snd p) (snd q))).
  - split; [intros [-> ->]; reflexivity|intros H; injection H; auto].
  - intros [p1 p2] [q1 q2]. cbn [fst snd]. rewrite andb_true_iff, !N.eqb_eq. split; [intros [-> ->]; reflexivity|intros H; injection H; auto].
Qed.

Definition eqP (a : v) : Prop := forall b, v_eqb a b = true <-> a = b.

Theorem v_eqb_eq : forall a, eqP a.
Proof.
  induction a as [lk l| |lk ls|z|tg fs IH| |a IH|l IH|tg l IH] using v_ind'; intros b.
  - destruct b as [lk' l'| | | | |[|]| |]; cbn [v_eqb]; try (split; discriminate).
    rewrite andb_true_iff, lkind_eqb_eq, leaf_eqb_eq. split; [intros [-> ->]; reflexivity|intros H; injection H; auto].
  - destruct b as [| | | | |[|]| |]; cbn [v_eqb]; split; intros H; try reflexivity; discriminate.
  - destruct b as [| |lk' ls'| | |[|]| |]; cbn [v_eqb]; try (split; discriminate).
    rewrite andb_true_iff, lkind_eqb_eq, (list_eqb_eq leaf_eqb leaf_eqb_eq). split; [intros [-> ->]; reflexivity|intros H; injection H; auto].
  - destruct b as [| | |z'| |[|]| |]; cbn [v_eqb]; try (split; discriminate). rewrite Z.eqb_eq. split; [intros ->; reflexivity|intros H; injection H; auto].
  - destruct b as [| | | |tg' fs'|[|]| |]; cbn [v_eqb]; try (split; discriminate).
    rewrite andb_true_iff, (opt_eqb_eq _ (list_eqb_eq stag_eqb stag_eqb_eq)).
    assert (Hgo : forall fs0, Forall (fun f : field => eqP (snd f)) fs0 -> forall fs1,
              (fix go (fs fs' : list field) : bool :=
                 match fs, fs' with
                 | [], [] => true
                 | (nm, ex, t, x) :: r, (nm', ex', t', y) :: r' => N.eqb nm nm' && Bool.eqb ex ex' && opt_eqb String.eqb t t' && v_eqb x y && go r r'
                 | _, _ => false
                 end) fs0 fs1 = true <-> fs0 = fs1).
    { induction fs0 as [|[[[nm ex] t] x] r IHr]; intros Hf [|[[[nm' ex'] t'] y] r']; split; intros H; try reflexivity; try discriminate;
        inversion Hf as [|? ? Hx Hr]; subst; cbn [snd] in Hx.
      - apply andb_true_iff in H as [H H5]. apply andb_true_iff in H as [H H4]. apply andb_true_iff in H as [H H3]. apply andb_true_iff in H as [H1 H2].
        apply N.eqb_eq in H1. apply Bool.eqb_prop in H2. apply (opt_eqb_eq String.eqb String.eqb_eq) in H3. apply Hx in H4. apply (IHr Hr) in H5. subst. reflexivity.
      - injection H as -> -> -> -> ->. rewrite N.eqb_refl, Bool.eqb_reflx. cbn [andb].
        apply andb_true_iff. split; [apply andb_true_iff; split; [apply (opt_eqb_eq String.eqb String.eqb_eq); reflexivity|apply Hx; reflexivity]|apply (IHr Hr); reflexivity]. }
    rewrite (Hgo fs IH fs'). split; [intros [-> ->]; reflexivity|intros H; injection H; auto].
  - destruct b as [| | | | |[|]| |]; cbn [v_eqb]; split; intros H; try reflexivity; discriminate.
  - destruct b as [| | | | |[y|]| |]; cbn [v_eqb]; try (split; discriminate). rewrite (IH y). split; [intros ->; reflexivity|intros H; injection H; auto].
  - destruct b as [| | | | |[|]|l'|]; cbn [v_eqb]; try (split; discriminate).
    assert (Hgo : forall l0, Forall eqP l0 -> forall l1,
              (fix go (l l' : list v) : bool := match l, l' with [], [] => true | x :: r, y :: r' => v_eqb x y && go r r' | _, _ => false end) l0 l1 = true <-> l0 = l1).
    { induction l0 as [|x r IHr]; intros Hf [|y r']; split; intros H; try reflexivity; try discriminate; inversion Hf as [|? ? Hx Hr]; subst.
      - apply andb_true_iff in H as [H1 H2]. apply Hx in H1. apply (IHr Hr) in H2. subst. reflexivity.
      - injection H as -> ->. apply andb_true_iff. split; [apply Hx; reflexivity|apply (IHr Hr); reflexivity]. }
    rewrite (Hgo l IH l'). split; [intros ->; reflexivity|intros H; injection H; auto].
  - destruct b as [| | | | |[|]| |tg' l']; cbn [v_eqb]; try (split; discriminate).
    rewrite andb_true_iff, (opt_eqb_eq _ (list_eqb_eq mtag_eqb mtag_eqb_eq)).
    assert (Hgo : forall l0, Forall (fun ky : N * v => eqP (snd ky)) l0 -> forall l1,
              (fix go (l l' : list (N * v)) : bool :=
                 match l, l' with [], [] => true | (k, x) :: r, (k', y) :: r' => N.eqb k k' && v_eqb x y && go r r' | _, _ => false end) l0 l1 = true <-> l0 = l1).
    { induction l0 as [|[k x] r IHr]; intros Hf [|[k' y] r']; split; intros H; try reflexivity; try discriminate; inversion Hf as [|? ? Hx Hr]; subst; cbn [snd] in Hx.
      - apply andb_true_iff in H as [H H3]. apply andb_true_iff in H as [H1 H2]. apply N.eqb_eq in H1. apply Hx in H2. apply (IHr Hr) in H3. subst. reflexivity.
      - injection H as -> -> ->. rewrite N.eqb_refl. cbn [andb]. apply andb_true_iff. split; [apply Hx; reflexivity|apply (IHr Hr); reflexivity]. }
    rewrite (Hgo l IH l'). split; [intros [-> ->]; reflexivity|intros H; injection H; auto].
Qed.

(* ---------- one case ---------- *)
Definition model_result (e : ecase) : result := process (cfg_of e) (e_ekey e) (e_payload e).

(* the observed outcome of Process is the model's *)
Definition outcome_ok (e : ecase) : Prop :=
  match model_result e, e_obs e with
  | RSame, ObSame | RConsumed, ObConsumed | RErr, ObErr => True
  | ROut m, ObOut o fl =>
      agree m o /\ of_sametype fl = true /\ of_meta fl = true /\ (forall c, In c (of_json fl) -> In c (canaries m))
  | _, _ => False
  end.

Definition key_used (e : ecase) (ewi : option N) : N := match ewi with Some _ => e_ekey e | None => e_key e end.

(* the observation-only oracles: input untouched and unshared; observed payload clean (no_leak) and shape-preserving
   (shape_preserved) where those theorems apply; nothing below unexported fields lost (F10) *)
Definition oracles_ok (e : ecase) : Prop :=
  e_unchanged e = true /\ e_unaliased e = true /\
  match e_payload e, e_obs e with
  | PVal ewi x, ObOut o _ =>
      spec_preserved false x o = [] /\
      (inGb (e_ov e) (CTop false) x = true -> cleanb (e_ov e) (key_used e ewi) (CTop false) (trust (key_used e ewi) o) = true) /\
      (tosb (CTop false) x = true -> erase o = erase (copyz x))
  | _, _ => True
  end.

(* configurations outside the model (IgnoreTypes where the rule applies): the input-side oracles only *)
Definition snap_ok (e : ecase) : Prop :=
  e_obs e <> ObPanic /\ (forall o fl, e_obs e = ObOut o fl -> of_sametype fl = true /\ of_meta fl = true) /\
  e_unchanged e = true /\ e_unaliased e = true.

Definition case_accepted (e : ecase) : Prop := if e_snaponly e then snap_ok e else outcome_ok e /\ oracles_ok e.

Lemma outcome_iff e :
  (match model_result e, e_obs e with
   | _, ObPanic => [(0%N, KPanic)]
   | RSame, ObSame | RConsumed, ObConsumed | RErr, ObErr => []
   | ROut m, ObOut o fl =>
       diff_top m o
       ++ (if of_sametype fl then [] else [(0%N, KType)])
       ++ (if of_meta fl then [] else [(0%N, KMeta)])
       ++ (let ok := canaries m in if forallb (fun c => memN c ok) (of_json fl) then [] else [(0%N, KCanary)])
   | RSame, _ => [(0%N, KSame)]
   | RErr, _ => [(root_shape (e_payload e), KErrMissing)]
   | _, ObErr => [(root_shape (e_payload e), KErrSpurious)]
   | RConsumed, _ | _, ObConsumed => [(0%N, KConsumed)]
   | ROut m, ObSame =>
       (* the very event came back although the model forwards a filtered copy: not "the same event is due" (C10) only - whatever the
          model protects left in plaintext (C09) *)
       (0%N, KSame) :: (match e_payload e with
                        | PVal _ x => if forallb (fun c => N.eqb c 0 || memN c (canaries m)) (canaries x) then [] else [(root_shape (e_payload e), KLeak)]
                        | _ => []
                        end)
   end) = [] <-> outcome_ok e.
Proof.
  unfold outcome_ok. destruct (model_result e) as [| | |m]; destruct (e_obs e) as [| | | |o fl]; try (split; [discriminate|contradiction]); try (split; auto; fail).
  cbn zeta. rewrite !app_nil_both, diff_top_nil_iff, !ite_nil, forallb_forall.
  split; intros (H1 & H2 & H3 & H4); repeat split; auto; intros c Hc; [apply memN_In|apply memN_In]; auto.
Qed.

Lemma oracle_tail_iff e :
  (match e_payload e, e_obs e with
   | PVal ewi x, ObOut o _ =>
       map (pair 4%N) (spec_preserved false x o)
       ++ (if inGb (e_ov e) (CTop false) x && (let k := match ewi with Some _ => e_ekey e | None => e_key e end in negb (cleanb (e_ov e) k (CTop false) (trust k o)))
           then [(root_shape (e_payload e), KSpecLeak)] else [])
       ++ (if tosb (CTop false) x && negb (v_eqb (erase o) (erase (copyz x)))
           then [(root_shape (e_payload e), KSpecShape)] else [])
   | _, _ => []
   end) = [] <->
  match e_payload e, e_obs e with
  | PVal ewi x, ObOut o _ =>
      spec_preserved false x o = [] /\
      (inGb (e_ov e) (CTop false) x = true -> cleanb (e_ov e) (key_used e ewi) (CTop false) (trust (key_used e ewi) o) = true) /\
      (tosb (CTop false) x = true -> erase o = erase (copyz x))
  | _, _ => True
  end.
Proof.
  destruct (e_payload e) as [| |ewi x]; try (split; auto; fail). destruct (e_obs e) as [| | | |o fl]; try (split; auto; fail).
  cbn zeta. fold (key_used e ewi). rewrite !app_nil_both, map_nil_iff, !ite_nil'.
  rewrite !andb_false_iff, !negb_false_iff. rewrite (v_eqb_eq (erase o) (erase (copyz x))).
  split; intros (H1 & H2 & H3); repeat split; auto.
  - intros Hg. destruct H2 as [H2|H2]; [congruence|exact H2].
  - intros Ht. destruct H3 as [H3|H3]; [congruence|exact H3].
  - destruct (inGb (e_ov e) (CTop false) x); [right; apply H2; reflexivity|left; reflexivity].
  - destruct (tosb (CTop false) x); [right; apply H3; reflexivity|left; reflexivity].
Qed.

Theorem run_case_nil_iff e : run_case e = [] <-> case_accepted e.
Proof.
  unfold run_case, case_accepted. destruct (e_snaponly e).
  - unfold snap_ok. rewrite !app_nil_both, !ite_nil. split.
    + intros (H1 & H2 & H3). repeat split; auto.
      * intros Hp. rewrite Hp in H1. discriminate.
      * destruct (e_obs e) as [| | | |o' fl']; try discriminate. injection H as _ ->. apply app_nil_both in H1 as [Ha _]. apply ite_nil in Ha. exact Ha.
      * destruct (e_obs e) as [| | | |o' fl']; try discriminate. injection H as _ ->. apply app_nil_both in H1 as [_ Hb]. apply ite_nil in Hb. exact Hb.
    + intros (H1 & H2 & H3 & H4). repeat split; auto. destruct (e_obs e) as [| | | |o fl]; try reflexivity; [contradiction H1; reflexivity|].
      destruct (H2 o fl eq_refl) as [-> ->]. reflexivity.
  - unfold run_case_full, oracles_ok. fold (model_result e). rewrite !app_nil_both, !ite_nil, outcome_iff, oracle_tail_iff. tauto.
Qed.

Theorem mismatches_nil_iff : forall cs, mismatches cs = [] <-> Forall case_accepted cs.
Proof.
  induction cs as [|e cs IH]; [split; [constructor|reflexivity]|].
  unfold mismatches in *. cbn [flat_map]. rewrite app_nil_both, map_nil_iff, run_case_nil_iff, IH.
  split; [intros [H1 H2]; constructor; assumption|intros H; inversion H; auto].
Qed.
Print Assumptions mismatches_nil_iff.

(* what acceptance gives: the theorems about the model's output hold of the OBSERVED payload up to [agree] *)
Theorem accepted_forwarded_is_model : forall e ewi x o fl,
  e_snaponly e = false -> case_accepted e -> e_payload e = PVal ewi x -> e_obs e = ObOut o fl ->
  exists m, process (cfg_of e) (e_ekey e) (PVal ewi x) = ROut m /\ agree m o /\
            m = spec (e_ov e) (key_of (cfg_of e) (e_ekey e) ewi) (CTop false) (copyz x).
Proof.
  intros e ewi x o fl Hs Ha Hp Ho. unfold case_accepted in Ha. rewrite Hs in Ha. destruct Ha as [Hout _].
  unfold outcome_ok, model_result in Hout. rewrite Hp, Ho in Hout.
  destruct (process (cfg_of e) (e_ekey e) (PVal ewi x)) as [| | |m] eqn:Er; try contradiction.
  exists m. split; [reflexivity|]. split; [apply Hout|]. apply (as_dictated _ _ _ _ _ Er).
Qed.
Print Assumptions accepted_forwarded_is_model.
