(* RunFileSinkSound.v — what an empty mismatch list MEANS for the FileSink engine.
   The correspondence check evaluates [Run_FileSink.mismatches] (and [kill_mismatches], [fsize_mismatches]) with vm_compute
   and requires the result to be [].  Here that boolean verdict is given its declarative reading:
     * [accepted]: the observed history is an execution of the model FileSink.v — after every observed call the
       acknowledgement, the listing (events without bytes erased: [vis]) (kinds, modes, contents in reading order), BytesWritten, LastCreated, the directory
       mode, the foreign files and stdout/stderr are the model's;
     * [oracles_ok]: the statements of C08 / C15 that are evaluated on the observations alone hold after every observed call;
     * [dirlog_ok]: along the directory's own event log (order of the sink's critical sections) stamps strictly increase
       and retention only ever removes the oldest-created rotated file;
     * [kill_ok]: what a directory looks like after SIGKILL — whole consecutive events ending at the last acknowledged one or
       the one after, and the listing is the model's state after the last acknowledged call OR (existential) one of the
       crash points of the next call;
     * [fsize_ok]: under failing write(2)s the whole events in the files are exactly the acknowledged ones.
   Both directions are proved: the evaluator neither accepts a history the model cannot produce nor rejects one it can.
   Ambiguity: when the harness cannot decide the MaxDuration comparison from its measured interval it chooses the reading
   t2 of that Write so that the model takes the observed branch; [accepted] is then "there is a clock reading in the
   harness's bracket with which the model produces the observations" — the case carries that reading (the witness). *)
From Coq Require Import List Bool Arith NArith ZArith Lia Sorted Setoid.
From Verif Require Import FileSink Run_FileSink.
Import ListNotations.
Open Scope Z_scope.

(* ================================================================== reflection lemmas *)
Lemma app_nil_iff {A} (a b : list A) : a ++ b = [] <-> a = [] /\ b = [].
Proof. split; [apply app_eq_nil|intros [-> ->]; reflexivity]. Qed.
Lemma map_nil_iff {A B} (f : A -> B) l : map f l = [] <-> l = [].
Proof. destruct l; cbn; split; intros H; try reflexivity; discriminate. Qed.
Lemma ite_nil_t {A} (b : bool) (x : A) : (if b then [] else [x]) = [] <-> b = true.
Proof. destruct b; split; intros H; try reflexivity; discriminate. Qed.
Lemma ite_nil_f {A} (b : bool) (x : A) : (if b then [x] else []) = [] <-> b = false.
Proof. destruct b; split; intros H; try reflexivity; discriminate. Qed.

Lemma eqNl_spec a b : eqNl a b = true <-> a = b.
Proof.
  revert b. induction a as [|x s IH]; intros [|y t]; cbn; split; intros H; try reflexivity; try discriminate.
  - apply andb_prop in H as [H1 H2]. apply N.eqb_eq in H1. apply IH in H2. congruence.
  - inversion H; subst. rewrite N.eqb_refl. apply IH. reflexivity.
Qed.
Lemma eq_list_spec {A} (eq : A -> A -> bool) (R : A -> A -> Prop) : (forall a b, eq a b = true <-> R a b) ->
  forall l1 l2, eq_list eq l1 l2 = true <-> Forall2 R l1 l2.
Proof.
  intros He. induction l1 as [|x s IH]; intros [|y t]; cbn; split; intros H; try constructor; try discriminate; try (inversion H; fail).
  - apply andb_prop in H as [H1 H2]. apply He. exact H1.
  - apply andb_prop in H as [H1 H2]. apply IH. exact H2.
  - inversion H; subst. apply andb_true_intro. split; [apply He; assumption|apply IH; assumption].
Qed.
Lemma Forall2_eq {A} (l1 l2 : list A) : Forall2 eq l1 l2 <-> l1 = l2.
Proof.
  split; [induction 1; congruence|intros ->; induction l2; constructor; auto].
Qed.
Lemma memN_In x l : memN x l = true <-> In x l.
Proof.
  unfold memN. rewrite existsb_exists. split; [intros [y [Hy E]]; apply N.eqb_eq in E; subst; exact Hy|intros H; exists x; split; [exact H|apply N.eqb_refl]].
Qed.
Lemma is_suffix_spec s l : is_suffix s l = true <-> exists k, s = skipn k l.
Proof.
  induction l as [|x t IH]; cbn [is_suffix].
  - rewrite orb_false_r, eqNl_spec. split; [intros ->; exists 0%nat; reflexivity|intros [k ->]; destruct k; reflexivity].
  - rewrite orb_true_iff, eqNl_spec, IH. split.
    + intros [->|[k ->]]; [exists 0%nat; reflexivity|exists (S k); reflexivity].
    + intros [[|k] ->]; [left; reflexivity|right; exists k; reflexivity].
Qed.

(* ================================================================== the model comparison of one observation *)
(* the observation [o] made after a call is what the model state [w] (and its acknowledgement [ok]) says *)
(* [E]: the ids of the case's empty writes — events without bytes, erased from what the model says the files hold ([vis]) *)
Definition agrees (E : list N) (w : world) (ok : bool) (o : sobs) : Prop :=
  ok = o_ok o /\
  vis E (reading (files w)) = obs_reading o /\
  model_files_vis E w = o_files o /\                          (* kinds, modes and contents, file by file in reading order *)
  bw w = o_bw o /\
  (o_lc o = -1 \/ lc w = o_lc o) /\                     (* -1: LastCreated was not observed (concurrent writers) *)
  match dirmode w with Some m => m | None => 0%N end = o_dir o /\
  model_foreign w = o_foreign o /\
  vis E (sout w) = o_out o /\ vis E (serr w) = o_err o.

Lemma fobs_lists_eq l1 l2 :
  eq_list (fun a b => N.eqb (fo_kind a) (fo_kind b) && eqNl (fo_data a) (fo_data b)) l1 l2 = true /\
  eqNl (map fo_mode l1) (map fo_mode l2) = true <-> l1 = l2.
Proof.
  revert l2. induction l1 as [|a s IH]; intros [|b t]; cbn; split; intros H; try (split; reflexivity); try reflexivity;
    try (destruct H; discriminate); try discriminate.
  - destruct H as [H1 H2]. apply andb_prop in H1 as [H1 H3]. apply andb_prop in H1 as [Hk Hd]. apply andb_prop in H2 as [Hm H4].
    apply N.eqb_eq in Hk, Hm. apply eqNl_spec in Hd. destruct (proj1 (IH t) (conj H3 H4)).
    destruct a, b; cbn in *; subst; reflexivity.
  - inversion H; subst. destruct (proj2 (IH t) eq_refl) as [E1 E2]. rewrite !N.eqb_refl, E1, E2.
    replace (eqNl (fo_data b) (fo_data b)) with true by (symmetry; apply eqNl_spec; reflexivity). split; reflexivity.
Qed.
Lemma pair_list_eq (l1 l2 : list (N * N)) :
  eq_list (fun a b => N.eqb (fst a) (fst b) && N.eqb (snd a) (snd b)) l1 l2 = true <-> l1 = l2.
Proof.
  rewrite (eq_list_spec _ eq); [apply Forall2_eq|]. intros [a1 a2] [b1 b2]. cbn. rewrite andb_true_iff, !N.eqb_eq.
  split; [intros [-> ->]; reflexivity|intros H; inversion H; auto].
Qed.

Theorem check_model_nil_iff E w ok o : check_model E w ok o = [] <-> agrees E w ok o.
Proof.
  unfold check_model, agrees. rewrite !app_nil_iff, !ite_nil_t.
  assert (Hf : (if eq_list (fun a b => N.eqb (fo_kind a) (fo_kind b) && eqNl (fo_data a) (fo_data b)) (model_files_vis E w) (o_files o)
                then if eqNl (map fo_mode (model_files_vis E w)) (map fo_mode (o_files o)) then [] else [KMode] else [KFiles]) = [] <->
               model_files_vis E w = o_files o).
  { rewrite <- fobs_lists_eq.
    destruct (eq_list _ (model_files_vis E w) (o_files o)); [|split; [discriminate|intros [H _]; discriminate]].
    rewrite ite_nil_t. tauto. }
  rewrite Hf, eqNl_spec, Z.eqb_eq, N.eqb_eq, pair_list_eq, andb_true_iff, !eqNl_spec, orb_true_iff, !Z.eqb_eq.
  split; [intros [H1 H2]; split; [apply eqb_prop; exact H1|exact H2]|intros [H1 H2]; split; [rewrite H1; apply eqb_reflx|exact H2]].
Qed.

(* ================================================================== the observation-only oracles, declaratively *)
Fixpoint writers_spec (strict : bool) (r : list N) (k : nat) (wacked : list (list N)) : Prop :=
  match wacked with
  | [] => True
  | all :: t =>
      (let mine := filter (fun x => N.eqb (x / 10000) (N.of_nat (S k))) r in      (* the events of writer k+1 in the files *)
       if strict then mine = all else exists j, mine = skipn j all) /\
      writers_spec strict r (S k) t
  end.
Lemma writers_ok_spec strict r : forall wacked k, writers_ok strict r k wacked = true <-> writers_spec strict r k wacked.
Proof.
  induction wacked as [|all t IH]; intros k; cbn [writers_ok writers_spec]; [tauto|].
  rewrite andb_true_iff, IH. unfold writer_ok. destruct strict; [rewrite eqNl_spec|rewrite is_suffix_spec]; tauto.
Qed.

Definition sink_call (o : op) (nren : N) (ob : sobs) : bool :=
  match o with Reopen _ => o_ok ob | Write _ _ _ _ _ _ _ _ => o_ok ob && N.eqb nren 0 | _ => false end.

Section Spec.
  Variables (c : cfg) (writers : N) (counts : list (list N)) (dm0 : option N).

  (* [removed] / [dirgone]: somebody has deleted the active file or the directory / the directory earlier in the history;
     [ackd]: ids acknowledged so far in order; [nren]: external renames so far *)
  Definition oracle_spec (removed dirgone : bool) (o : op) (ackd : list N) (nren : N) (ob : sobs) : Prop :=
    let r := obs_reading ob in
    (* C08: no bytes that are not a whole event *)
    ~ In 0%N r /\
    (* C08: the files read as the acknowledged sequence minus a prefix; exactly it when there is no retention limit
       (not evaluated after a deletion from outside; several writers: per writer, in its program order) *)
    (removed = false ->
       if N.eqb writers 0
       then (special c = true \/ exists k, r = skipn k ackd) /\ (special c = false -> maxFiles c = 0%N -> r = ackd)
       else (forall x, In x r -> x = 0%N \/ (1 <= x / 10000 /\ x / 10000 <= writers)%N) /\
            writers_spec false r 0 counts /\ (maxFiles c = 0%N -> writers_spec true r 0 counts)) /\
    (* C15: configured mode on every file of the sink *)
    (forall f, In f (o_files ob) -> fo_mode f = eff_mode c) /\
    (* C15: a directory the sink made (or re-made) is 0700 *)
    (match dm0, dirgone with Some _, false => True | _, _ => o_dir ob = 0%N \/ o_dir ob = dirMode end) /\
    (* C15: the name of the active file *)
    (if special c then o_files ob = []
     else if tsOnly c || negb (rotateEnabled c)
          then sink_call o nren ob = true -> removed = false -> exists f, In f (o_files ob) /\ fo_kind f = 2%N
          else forall f, In f (o_files ob) -> fo_kind f <> 2%N) /\
    (* C15: nothing in the directory that is neither base.ext, base-<stamp>.ext nor planted by the harness *)
    (forall f, In f (o_files ob) -> fo_kind f <> 9%N) /\
    (* C15: without limits no rotated file, except what external renames made *)
    (maxBytes c <= 0 -> maxDur c <= 0 -> (N.of_nat (length (filter (fun f => N.eqb (fo_kind f) 1) (o_files ob))) <= nren)%N).

  Lemma existsb_kind (k : N) fs : existsb (fun f => N.eqb (fo_kind f) k) fs = true <-> exists f, In f fs /\ fo_kind f = k.
  Proof. rewrite existsb_exists. split; intros [f [H1 H2]]; exists f; split; try exact H1; apply N.eqb_eq; exact H2. Qed.
  Lemma existsb_kind_false (k : N) fs : existsb (fun f => N.eqb (fo_kind f) k) fs = false <-> forall f, In f fs -> fo_kind f <> k.
  Proof.
    split.
    - intros H f Hf E. assert (existsb (fun f => N.eqb (fo_kind f) k) fs = true) by (apply existsb_kind; exists f; auto). congruence.
    - intros H. destruct (existsb _ fs) eqn:E; [|reflexivity]. apply existsb_kind in E as [f [H1 H2]]. exfalso. exact (H f H1 H2).
  Qed.

  Theorem oracle_nil_iff removed dirgone o ackd nren ob :
    oracle c writers counts dm0 removed dirgone o ackd nren ob = [] <-> oracle_spec removed dirgone o ackd nren ob.
  Proof.
    unfold oracle, oracle_spec. cbn zeta. rewrite !app_nil_iff.
    (* 1 torn *)
    assert (H1 : (if memN 0%N (obs_reading ob) then [KTorn] else []) = [] <-> ~ In 0%N (obs_reading ob)).
    { rewrite ite_nil_f. rewrite <- memN_In. destruct (memN 0%N (obs_reading ob)).
      - split; [discriminate|intros H; exfalso; apply H; reflexivity].
      - split; [intros _ H; discriminate|reflexivity]. }
    (* 2 the C08 block *)
    assert (H2 : (if removed then [] else
                  if N.eqb writers 0
                  then (if special c || is_suffix (obs_reading ob) ackd then [] else [KSuffix]) ++
                       (if negb (special c) && N.eqb (maxFiles c) 0 && negb (eqNl (obs_reading ob) ackd) then [KLoss] else [])
                  else (if forallb (fun x => N.eqb x 0 || known_writer writers x) (obs_reading ob) && writers_ok false (obs_reading ob) 0 counts then [] else [KOrder]) ++
                       (if N.eqb (maxFiles c) 0 && negb (writers_ok true (obs_reading ob) 0 counts) then [KLoss] else [])) = [] <->
                 (removed = false ->
                  if N.eqb writers 0
                  then (special c = true \/ exists k, obs_reading ob = skipn k ackd) /\ (special c = false -> maxFiles c = 0%N -> obs_reading ob = ackd)
                  else (forall x, In x (obs_reading ob) -> x = 0%N \/ (1 <= x / 10000 /\ x / 10000 <= writers)%N) /\
                       writers_spec false (obs_reading ob) 0 counts /\ (maxFiles c = 0%N -> writers_spec true (obs_reading ob) 0 counts))).
    { destruct removed; [split; [discriminate|reflexivity]|].
      destruct (N.eqb writers 0).
      - rewrite app_nil_iff, ite_nil_t, ite_nil_f, orb_true_iff, is_suffix_spec.
        assert (E : negb (special c) && N.eqb (maxFiles c) 0 && negb (eqNl (obs_reading ob) ackd) = false <->
                    (special c = false -> maxFiles c = 0%N -> obs_reading ob = ackd)).
        { rewrite <- eqNl_spec, <- N.eqb_eq. destruct (special c), (N.eqb (maxFiles c) 0), (eqNl (obs_reading ob) ackd); cbn; split; intros; try reflexivity; try discriminate; auto.
          specialize (H eq_refl eq_refl). discriminate. }
        rewrite E. tauto.
      - rewrite app_nil_iff, ite_nil_t, ite_nil_f, andb_true_iff, forallb_forall, (writers_ok_spec false).
        assert (E : N.eqb (maxFiles c) 0 && negb (writers_ok true (obs_reading ob) 0 counts) = false <-> (maxFiles c = 0%N -> writers_spec true (obs_reading ob) 0 counts)).
        { rewrite <- (writers_ok_spec true), <- N.eqb_eq. destruct (N.eqb (maxFiles c) 0), (writers_ok true (obs_reading ob) 0 counts); cbn; split; intros; try reflexivity; try discriminate; auto.
          specialize (H eq_refl). discriminate. }
        rewrite E.
        assert (Ek : (forall x, In x (obs_reading ob) -> N.eqb x 0 || known_writer writers x = true) <->
                     (forall x, In x (obs_reading ob) -> x = 0%N \/ (1 <= x / 10000 /\ x / 10000 <= writers)%N)).
        { split; intros H x Hx; specialize (H x Hx); unfold known_writer in *.
          - apply orb_true_iff in H as [H|H]; [left; apply N.eqb_eq; exact H|right]. apply andb_prop in H as [A B]. apply N.leb_le in A, B. auto.
          - apply orb_true_iff. destruct H as [->|[A B]]; [left; reflexivity|right]. apply andb_true_intro. split; apply N.leb_le; assumption. }
        rewrite Ek. tauto. }
    (* 3 modes *)
    assert (H3 : (if forallb (fun f => N.eqb (fo_mode f) (eff_mode c)) (o_files ob) then [] else [KModeSpec]) = [] <->
                 (forall f, In f (o_files ob) -> fo_mode f = eff_mode c)).
    { rewrite ite_nil_t, forallb_forall. split; intros H f Hf; [apply N.eqb_eq|apply N.eqb_eq]; auto. }
    (* 4 directory *)
    assert (H4 : (match dm0, dirgone with Some _, false => [] | _, _ => if N.eqb (o_dir ob) 0 || N.eqb (o_dir ob) dirMode then [] else [KDirSpec] end) = [] <->
                 (match dm0, dirgone with Some _, false => True | _, _ => o_dir ob = 0%N \/ o_dir ob = dirMode end)).
    { destruct dm0, dirgone; try tauto; rewrite ite_nil_t, orb_true_iff, !N.eqb_eq; tauto. }
    (* 5 active name *)
    assert (H5 : (if special c then match o_files ob with [] => [] | _ :: _ => [KActive] end
                  else if tsOnly c || negb (rotateEnabled c)
                       then if match o with Reopen _ => o_ok ob | Write _ _ _ _ _ _ _ _ => o_ok ob && N.eqb nren 0 | _ => false end
                               && negb removed && negb (existsb (fun f => N.eqb (fo_kind f) 2) (o_files ob)) then [KActive] else []
                       else if existsb (fun f => N.eqb (fo_kind f) 2) (o_files ob) then [KActive] else []) = [] <->
                 (if special c then o_files ob = []
                  else if tsOnly c || negb (rotateEnabled c)
                       then sink_call o nren ob = true -> removed = false -> exists f, In f (o_files ob) /\ fo_kind f = 2%N
                       else forall f, In f (o_files ob) -> fo_kind f <> 2%N)).
    { destruct (special c).
      - destruct (o_files ob); split; intros H; try reflexivity; discriminate.
      - destruct (tsOnly c || negb (rotateEnabled c)).
        + rewrite ite_nil_f. fold (sink_call o nren ob). rewrite <- existsb_kind.
          destruct (sink_call o nren ob), removed, (existsb (fun f => N.eqb (fo_kind f) 2) (o_files ob)); cbn; split; intros; try reflexivity; try discriminate; auto.
          specialize (H eq_refl eq_refl). discriminate.
        + rewrite ite_nil_f. apply existsb_kind_false. }
    (* 6 stray, 7 no limits *)
    assert (H6 : (if existsb (fun f => N.eqb (fo_kind f) 9) (o_files ob) then [KStray] else []) = [] <-> (forall f, In f (o_files ob) -> fo_kind f <> 9%N)).
    { rewrite ite_nil_f. apply existsb_kind_false. }
    assert (H7 : (if (maxBytes c <=? 0) && (maxDur c <=? 0) && N.ltb nren (N.of_nat (length (filter (fun f => N.eqb (fo_kind f) 1) (o_files ob)))) then [KNoRot] else []) = [] <->
                 (maxBytes c <= 0 -> maxDur c <= 0 -> (N.of_nat (length (filter (fun f => N.eqb (fo_kind f) 1) (o_files ob))) <= nren)%N)).
    { rewrite ite_nil_f. destruct (maxBytes c <=? 0) eqn:E1, (maxDur c <=? 0) eqn:E2; cbn [andb]; try (split; [intros _ A B; lia|reflexivity]).
      rewrite N.ltb_ge. split; [intros H _ _; exact H|intros H; apply H; lia]. }
    rewrite H1, H2, H3, H4, H5, H6, H7. tauto.
  Qed.
End Spec.

(* ================================================================== one case *)
Definition ackd_next (E : list N) (o : op) (ok : bool) (ackd : list N) : list N :=     (* empty events are not expected in the files *)
  match o with Write id _ _ _ _ _ _ _ => if ok && negb (memN id E) then ackd ++ [id] else ackd | _ => ackd end.
Definition nren_next (x : xop) (nren : N) : N := match x with XOp (ExtRename _) => N.succ nren | _ => nren end.
Definition removed_next (x : xop) (removed : bool) : bool := match x with XOp _ => removed | _ => true end.
Definition dirgone_next (x : xop) (dirgone : bool) : bool := match x with XRmDir _ => true | _ => dirgone end.

Section Case.
  Variables (c : cfg) (writers : N) (counts : list (list N)) (dm0 : option N) (E : list N).

  (* the observed history is an execution of the model from [w]: every observation is what the model says after that call *)
  Inductive accepted : world -> list (xop * option sobs) -> Prop :=
  | acc_nil : forall w, accepted w []
  | acc_unobserved : forall w x rest, accepted (xstep c w x) rest -> accepted w ((x, None) :: rest)
  | acc_observed : forall w x ob rest,
      agrees E (xstep c w x) (snd (fst (xstep3 c w x))) ob -> accepted (xstep c w x) rest -> accepted w ((x, Some ob) :: rest).

  (* the observation-only statements hold after every observed call ([ackd]: what has been acknowledged so far — by the
     implementation where the call was observed, by the model where it was not) *)
  Inductive oracles_ok : bool -> bool -> world -> list N -> N -> list (xop * option sobs) -> Prop :=
  | ok_nil : forall removed dirgone w ackd nren, oracles_ok removed dirgone w ackd nren []
  | ok_unobserved : forall removed dirgone w ackd nren x rest,
      oracles_ok (removed_next x removed) (dirgone_next x dirgone) (xstep c w x)
                 (ackd_next E (xop_clock x) (snd (fst (xstep3 c w x))) ackd) (nren_next x nren) rest ->
      oracles_ok removed dirgone w ackd nren ((x, None) :: rest)
  | ok_observed : forall removed dirgone w ackd nren x ob rest,
      oracle_spec c writers counts dm0 (removed_next x removed) (dirgone_next x dirgone) (xop_clock x)
                  (ackd_next E (xop_clock x) (o_ok ob) ackd) (nren_next x nren) ob ->
      oracles_ok (removed_next x removed) (dirgone_next x dirgone) (xstep c w x)
                 (ackd_next E (xop_clock x) (o_ok ob) ackd) (nren_next x nren) rest ->
      oracles_ok removed dirgone w ackd nren ((x, Some ob) :: rest).

  Theorem run_case_iff : forall steps div removed dirgone w ackd nren i,
    run_case c writers counts dm0 E div removed dirgone w ackd nren i steps = [] <->
    (div = false -> accepted w steps) /\ oracles_ok removed dirgone w ackd nren steps.
  Proof.
    induction steps as [|[x ob] rest IH]; intros div removed dirgone w ackd nren i.
    - cbn [run_case]. split; [intros _; split; [intros _|]; constructor|reflexivity].
    - cbn [run_case]. unfold xstep in *. destruct (xstep3 c w x) as [[w' ok] rot] eqn:Ex.
      fold (removed_next x removed). fold (dirgone_next x dirgone). fold (nren_next x nren).
      destruct ob as [ob|].
      + fold (ackd_next E (xop_clock x) (o_ok ob) ackd).
        rewrite app_nil_iff, map_nil_iff, app_nil_iff, oracle_nil_iff. split.
        * intros [[Hmm Hor] Hrest]. rewrite Hmm in Hrest. cbn [nonempty] in Hrest. rewrite orb_false_r in Hrest.
          apply IH in Hrest as [Ha Ho]. split.
          -- intros Hd. subst div. apply check_model_nil_iff in Hmm. apply acc_observed.
             ++ unfold xstep. rewrite Ex. exact Hmm.
             ++ unfold xstep. rewrite Ex. apply Ha. reflexivity.
          -- apply ok_observed; [exact Hor|unfold xstep; rewrite Ex; exact Ho].
        * intros [Ha Ho]. inversion Ho as [| |? ? ? ? ? ? ? ? Hsp Hro]; subst. unfold xstep in *. rewrite Ex in *. cbn [fst snd] in *.
          assert (Hmm : (if div then [] else check_model E w' ok ob) = []).
          { destruct div; [reflexivity|]. specialize (Ha eq_refl). inversion Ha as [| |? ? ? ? Hag Hacc]; subst.
            unfold xstep in Hag. rewrite Ex in Hag. apply check_model_nil_iff. exact Hag. }
          rewrite Hmm. cbn [nonempty]. rewrite orb_false_r. split; [split; [reflexivity|exact Hsp]|].
          apply IH. split; [|exact Hro]. intros Hd. specialize (Ha Hd). inversion Ha as [| |? ? ? ? Hag Hacc]; subst.
          unfold xstep in Hacc. rewrite Ex in Hacc. exact Hacc.
      + fold (ackd_next E (xop_clock x) ok ackd). rewrite IH. split.
        * intros [Ha Ho]. split.
          -- intros Hd. apply acc_unobserved. unfold xstep. rewrite Ex. apply Ha. exact Hd.
          -- apply ok_unobserved. unfold xstep. rewrite Ex. exact Ho.
        * intros [Ha Ho]. inversion Ho as [|? ? ? ? ? ? ? Hro|]; subst. unfold xstep in Hro. rewrite Ex in Hro. cbn [fst snd] in Hro.
          split; [|exact Hro]. intros Hd. specialize (Ha Hd). inversion Ha as [|? ? ? Hacc|]; subst.
          unfold xstep in Hacc. rewrite Ex in Hacc. exact Hacc.
  Qed.
End Case.

(* ================================================================== the directory's event log (concurrent cases) *)
Definition appeared (l : list (N * Z)) : list Z := map snd (filter (fun e => N.eqb (fst e) 1) l).
Definition finals (l : list (N * Z)) : list Z := map snd (filter (fun e => N.eqb (fst e) 3) l).
(* retention only ever removes the oldest-appeared stamped name that is still there: [fifo live l out] — starting with the
   names [live] (oldest first) the log [l] is such a history and leaves [out] *)
Inductive fifo : list Z -> list (N * Z) -> list Z -> Prop :=
| fifo_nil : forall live, fifo live [] live
| fifo_appear : forall live s t out, fifo (live ++ [s]) t out -> fifo live ((1%N, s) :: t) out
| fifo_remove : forall live s t out, fifo live t out -> fifo (s :: live) ((2%N, s) :: t) out
| fifo_other : forall live k s t out, k <> 1%N -> k <> 2%N -> fifo live t out -> fifo live ((k, s) :: t) out.
Definition dirlog_ok (l : list (N * Z)) : Prop :=
  Sorted Z.lt (appeared l) /\                                   (* stamps strictly increase in the order of appearance *)
  exists live, fifo [] l live /\ isort live = isort (finals l).  (* … and what is left is what is there at the end *)

Lemma stamps_increase_spec l : forall prev,
  stamps_increase prev l = true <-> Sorted Z.lt (match prev with Some p => p :: appeared l | None => appeared l end).
Proof.
  unfold appeared. induction l as [|[k s] t IH]; intros prev; cbn [stamps_increase filter fst].
  - destruct prev; split; intros; try reflexivity; repeat constructor.
  - destruct (N.eqb k 1); cbn [map snd].
    + rewrite andb_true_iff, (IH (Some s)). destruct prev as [p|].
      * rewrite Z.ltb_lt. split.
        -- intros [H1 H2]. constructor; [exact H2|constructor; exact H1].
        -- intros H. inversion H as [|? ? Hs Hh]; subst. inversion Hh; subst. auto.
      * tauto.
    + apply IH.
Qed.
Lemma prune_fifo_spec l : forall live out, prune_oldest_first live l = Some out <-> fifo live l out.
Proof.
  induction l as [|[k s] t IH]; intros live out; cbn [prune_oldest_first].
  - split; [intros H; inversion H; constructor|intros H; inversion H; reflexivity].
  - destruct (N.eqb k 1) eqn:E1.
    + apply N.eqb_eq in E1. subst k. rewrite IH. split; [apply fifo_appear|intros H; inversion H; subst; [assumption|congruence]].
    + apply N.eqb_neq in E1. destruct (N.eqb k 2) eqn:E2.
      * apply N.eqb_eq in E2. subst k. destruct live as [|h r].
        -- split; [discriminate|intros H; inversion H; subst; congruence].
        -- destruct (Z.eqb_spec h s) as [->|Hn].
           ++ rewrite IH. split; [apply fifo_remove|intros H; inversion H; subst; [assumption|congruence]].
           ++ split; [discriminate|intros H; inversion H; subst; congruence].
      * apply N.eqb_neq in E2. rewrite IH. split; [apply fifo_other; assumption|intros H; inversion H; subst; congruence].
Qed.
Theorem dirlog_check_nil_iff l : dirlog_check l = [] <-> dirlog_ok l.
Proof.
  unfold dirlog_check, dirlog_ok. rewrite app_nil_iff, ite_nil_t, (stamps_increase_spec l None). fold (finals l).
  destruct (prune_oldest_first [] l) as [live|] eqn:E.
  - rewrite ite_nil_t, (eq_list_spec Z.eqb eq Z.eqb_eq), Forall2_eq. split.
    + intros [H1 H2]. split; [exact H1|]. exists live. split; [apply prune_fifo_spec; exact E|exact H2].
    + intros [H1 [live' [Hf H2]]]. apply prune_fifo_spec in Hf. rewrite E in Hf. inversion Hf; subst. auto.
  - split; [intros [_ H]; discriminate|]. intros [_ [live [Hf _]]]. apply prune_fifo_spec in Hf. congruence.
Qed.

(* ================================================================== all sequential / concurrent cases of a shard *)
Definition case_ok (k : fcase) : Prop :=
  dirlog_ok (c_dirlog k) /\
  (c_model k = true -> accepted (c_cfg k) (empties_of (c_steps k)) (w_init (c_fids k) (c_dm k) (c_k0 k)) (c_steps k)) /\
  oracles_ok (c_cfg k) (c_writers k) (c_counts k) (c_dm k) (empties_of (c_steps k)) false false (w_init (c_fids k) (c_dm k) (c_k0 k)) [] 0%N (c_steps k).
Theorem mismatches_nil_iff : forall cs, mismatches cs = [] <-> Forall case_ok cs.
Proof.
  induction cs as [|k cs IH]; [split; [constructor|reflexivity]|].
  unfold mismatches in *. cbn [flat_map]. rewrite !app_nil_iff, !map_nil_iff, dirlog_check_nil_iff, run_case_iff, IH.
  unfold case_ok. split.
  - intros [[H1 [H2 H3]] H4]. constructor; [|exact H4]. split; [exact H1|]. split; [|exact H3].
    intros Hm. apply H2. rewrite Hm. reflexivity.
  - intros H. inversion H as [|? ? [H1 [H2 H3]] H4]; subst. split; [|exact H4]. split; [exact H1|]. split; [|exact H3].
    intros Hm. apply H2. destruct (c_model k); [reflexivity|discriminate].
Qed.
Print Assumptions mismatches_nil_iff.

(* ================================================================== SIGKILL cases *)
Inductive Consecutive : list N -> Prop :=        (* i, i+1, i+2, … *)
| cons_nil : Consecutive []
| cons_one : forall x, Consecutive [x]
| cons_step : forall x t, Consecutive (N.succ x :: t) -> Consecutive (x :: N.succ x :: t).
Lemma consecutive_spec r : consecutive r = true <-> Consecutive r.
Proof.
  induction r as [|x t IH]; [split; [constructor|reflexivity]|]. destruct t as [|y t']; [split; [constructor|reflexivity]|].
  change (consecutive (x :: y :: t')) with (N.eqb y (N.succ x) && consecutive (y :: t')). rewrite andb_true_iff, IH, N.eqb_eq. split.
  - intros [-> H]. constructor. exact H.
  - intros H. inversion H; subst. auto.
Qed.
(* the listing shows the model state [w]: same kinds and contents file by file (modes: see Run_FileSink.files_match) *)
Definition shows (w : world) (obs : list fobs) : Prop :=
  Forall2 (fun a b => fo_kind a = fo_kind b /\ fo_data a = fo_data b) (model_files w) obs.
Lemma files_match_spec w obs : files_match w obs = true <-> shows w obs.
Proof.
  unfold files_match, shows. apply eq_list_spec. intros a b. rewrite andb_true_iff, N.eqb_eq, eqNl_spec. tauto.
Qed.
Definition kill_ok (k : kcase) : Prop :=
  let r := concat (map fo_data (k_files k)) in
  let a := k_acks k in
  let wa := run_from (k_cfg k) (w_init [] None 0) (kwrites 1 (k_sizes k) (N.to_nat a)) in   (* the model after the acknowledged calls *)
  ~ In 0%N r /\                                                  (* only whole events *)
  Consecutive r /\                                               (* consecutive ids … *)
  match r with                                                   (* … ending at the last acknowledged one or the one in flight *)
  | [] => a = 0%N \/ maxFiles (k_cfg k) <> 0%N
  | x :: _ => (last r 0%N = a \/ last r 0%N = N.succ a) /\ (x = 1%N \/ maxFiles (k_cfg k) <> 0%N)
  end /\
  (forall f, In f (removelast (k_files k)) -> fo_mode f = eff_mode (k_cfg k)) /\
  (* the directory is the model's state after the last acknowledged call, or one of the crash points of the next call *)
  (shows wa (k_files k) \/
   exists sz rest w', skipn (N.to_nat a) (k_sizes k) = sz :: rest /\
                      In w' (crash_points (k_cfg k) wa (kwrite (N.succ a) sz)) /\ shows w' (k_files k)).

Theorem kill_check_nil_iff k : kill_check k = [] <-> kill_ok k.
Proof.
  unfold kill_check, kill_ok. cbn zeta. rewrite !app_nil_iff, ite_nil_f, !ite_nil_t.
  set (r := concat (map fo_data (k_files k))). set (a := k_acks k).
  set (wa := run_from (k_cfg k) (w_init [] None 0) (kwrites 1 (k_sizes k) (N.to_nat a))).
  assert (H1 : memN 0%N r = false <-> ~ In 0%N r).
  { rewrite <- memN_In. destruct (memN 0%N r).
    - split; [discriminate|intros H; exfalso; apply H; reflexivity].
    - split; [intros _ H; discriminate|reflexivity]. }
  assert (H2 : consecutive r && match r with
                 | [] => N.eqb a 0 || negb (N.eqb (maxFiles (k_cfg k)) 0)
                 | x :: _ => (N.eqb (last r 0%N) a || N.eqb (last r 0%N) (N.succ a)) && (N.eqb x 1 || negb (N.eqb (maxFiles (k_cfg k)) 0))
                 end = true <->
               Consecutive r /\ match r with
                 | [] => a = 0%N \/ maxFiles (k_cfg k) <> 0%N
                 | x :: _ => (last r 0%N = a \/ last r 0%N = N.succ a) /\ (x = 1%N \/ maxFiles (k_cfg k) <> 0%N)
                 end).
  { rewrite andb_true_iff, consecutive_spec.
    assert (Hn : forall m, negb (N.eqb m 0) = true <-> m <> 0%N) by (intros m; rewrite negb_true_iff; apply N.eqb_neq).
    destruct r as [|x t]; [rewrite orb_true_iff, N.eqb_eq, Hn; tauto|].
    rewrite andb_true_iff, !orb_true_iff, !N.eqb_eq, Hn. tauto. }
  assert (H3 : forallb (fun f => N.eqb (fo_mode f) (eff_mode (k_cfg k))) (removelast (k_files k)) = true <->
               (forall f, In f (removelast (k_files k)) -> fo_mode f = eff_mode (k_cfg k))).
  { rewrite forallb_forall. split; intros H f Hf; apply N.eqb_eq; auto. }
  assert (H4 : kill_model_ok k = true <->
               (shows wa (k_files k) \/
                exists sz rest w', skipn (N.to_nat a) (k_sizes k) = sz :: rest /\
                                   In w' (crash_points (k_cfg k) wa (kwrite (N.succ a) sz)) /\ shows w' (k_files k))).
  { unfold kill_model_ok. fold a. fold wa. rewrite orb_true_iff, files_match_spec.
    destruct (skipn (N.to_nat a) (k_sizes k)) as [|sz rest] eqn:Es.
    - split; [intros [H|H]; [left; exact H|discriminate]|intros [H|[sz [rest [w' [E _]]]]]; [left; exact H|discriminate]].
    - rewrite existsb_exists. split.
      + intros [H|[w' [Hin Hm]]]; [left; exact H|right]. exists sz, rest, w'. rewrite <- files_match_spec. auto.
      + intros [H|[sz' [rest' [w' [E [Hin Hs]]]]]]; [left; exact H|right]. inversion E; subst. exists w'. rewrite files_match_spec. auto. }
  rewrite H1, H2, H3, H4. tauto.
Qed.
Theorem kill_mismatches_nil_iff : forall ks, kill_mismatches ks = [] <-> Forall kill_ok ks.
Proof.
  induction ks as [|k ks IH]; [split; [constructor|reflexivity]|].
  unfold kill_mismatches in *. cbn [flat_map]. rewrite app_nil_iff, map_nil_iff, kill_check_nil_iff, IH.
  split; [intros [H1 H2]; constructor; assumption|intros H; inversion H; auto].
Qed.
Print Assumptions kill_mismatches_nil_iff.

(* ================================================================== failing write(2) cases *)
Definition fsize_ok (l : lcase) : Prop :=
  filter (fun x => negb (N.eqb x 0)) (concat (map fo_data (l_files l))) = l_acked l.   (* the whole events in the files = the acknowledged ones, in order *)
Theorem fsize_mismatches_nil_iff : forall ls, fsize_mismatches ls = [] <-> Forall fsize_ok ls.
Proof.
  induction ls as [|l ls IH]; [split; [constructor|reflexivity]|].
  unfold fsize_mismatches in *. cbn [flat_map]. rewrite app_nil_iff, map_nil_iff, IH. unfold fsize_check, fsize_ok.
  rewrite ite_nil_t, eqNl_spec. split; [intros [H1 H2]; constructor; assumption|intros H; inversion H; auto].
Qed.
Print Assumptions fsize_mismatches_nil_iff.

(* ================================================================== what an accepted history gives *)
(* the last observation of an accepted history is what the model says after running the history's operations *)
Definition xrun (c : cfg) (w : world) (steps : list (xop * option sobs)) : world := fold_left (xstep c) (map fst steps) w.
Theorem accepted_last_observation : forall c E steps w x ob,
  accepted c E w (steps ++ [(x, Some ob)]) ->
  agrees E (xstep c (xrun c w steps) x) (snd (fst (xstep3 c (xrun c w steps) x))) ob.
Proof.
  intros c E. induction steps as [|[x1 o1] rest IH]; intros w x ob Ha; cbn [app] in Ha.
  - inversion Ha; subst. assumption.
  - unfold xrun. cbn [map fst fold_left]. apply IH. inversion Ha; subst; assumption.
Qed.
Print Assumptions accepted_last_observation.

(* … so the theorems about model runs speak about the OBSERVED directory: for an accepted history of sink calls, external
   renames and pauses (no deletion from outside) on a directory path with increasing clock readings and no write fault, the
   files the harness read after the last call are the acknowledged sequence minus a prefix (FileSinkProofs.acked_suffix) *)
From Verif Require Import FileSinkProofs.
Lemma xrun_plain c (l : list (op * option sobs)) : forall w,
  fold_left (xstep c) (map (fun x => XOp (fst x)) l) w = fold_left (step c) (map fst l) w.
Proof. induction l as [|p t IH]; intros w; cbn [map fold_left]; [reflexivity|]. rewrite <- IH. reflexivity. Qed.
Theorem observed_reading_is_acked_suffix : forall c E fids dm k0 (l : list (op * option sobs)) o ob,
  special c = false -> fault_free (map fst l ++ [o]) -> clock_ok k0 (map fst l ++ [o]) ->
  accepted c E (w_init fids dm k0) (map (fun p => (XOp (fst p), snd p)) l ++ [(XOp o, Some ob)]) ->
  exists k, obs_reading ob = vis E (skipn k (acked (run c fids dm k0 (map fst l ++ [o])))).
Proof.
  intros c E fids dm k0 l o ob Hsp Hff Hclk Ha. apply accepted_last_observation in Ha. destruct Ha as [_ [Hr _]].
  assert (Ew : xstep c (xrun c (w_init fids dm k0) (map (fun p => (XOp (fst p), snd p)) l)) (XOp o) = run c fids dm k0 (map fst l ++ [o])).
  { unfold run, run_from, xrun. rewrite fold_left_app. cbn [fold_left]. unfold xstep at 1. cbn [xstep3]. fold (step c). f_equal.
    rewrite map_map. cbn [fst]. rewrite xrun_plain. reflexivity. }
  rewrite Ew in Hr. rewrite <- Hr. destruct (acked_suffix c fids dm k0 (map fst l ++ [o]) Hsp Hff Hclk) as [k Hk]. exists k. rewrite Hk. reflexivity.
Qed.
Print Assumptions observed_reading_is_acked_suffix.
