(* RunFormatsSound.v — what an empty mismatch list of Run_Formatters MEANS.  The C14 check evaluates
   [Run_Formatters.mismatches] with vm_compute on the cases the real JSONFormatter / JSONFormatterFilter / Filter / Event table
   produced and is green exactly when the result is [] (a difference in the bytes alone is also reported, as
   no-failing-input-found).  Here that boolean verdict gets its declarative reading, in both directions:

   * a Process case is accepted iff the observation IS the model's run on the case's inputs — error flag, forwarded event,
     the bytes under json, every other entry of the table — the event's type / time / payload were seen untouched, and the
     observation-only oracles hold in their declarative form: the stored value is one newline-terminated line that parses
     (Json.parse_doc) to an object with exactly created_at (a string), event_type = the type's image, payload = the payload's
     image; Go's own decoder agreed (a flag computed by the harness); an error that is not the predicate's left the table
     exactly as it was; the value re-read after later Process calls on other events is still the stored one;
   * a forced FormattedAs/Format schedule is accepted iff every observed Format result and the final table are the model
     table's — hence (FormattersProofs.lww_all) each Format returned the last value stored under exactly that name.

   No leniency is hidden in the verdict: byte-for-byte agreement with Json.render is part of acceptance.  The weaker reading
   "only the property's own observables" (what distinguishes a VIOLATION with a failing input from model drift) is
   [property_ok], implied by acceptance ([accepted_property_ok]). *)
From Coq Require Import List Bool Arith NArith Lia.
From Verif Require Import Alist Json JsonProofs Formatters FormattersProofs Run_Formatters.
Import ListNotations.
Open Scope N_scope.

(* ------------------------------------------------------------------ small reflection lemmas *)
Lemma app_nil_iff {A} (a c : list A) : a ++ c = [] <-> a = [] /\ c = [].
Proof. split; [destruct a; cbn; [auto|discriminate]|intros [-> ->]; reflexivity]. Qed.
Lemma ite_nil_iff {A} (c : bool) (x : A) : (if c then [] else [x]) = [] <-> c = true.
Proof. destruct c; split; intros H; try reflexivity; discriminate. Qed.
Lemma map_nil_iff {A B} (f : A -> B) l : map f l = [] <-> l = [].
Proof. destruct l; cbn; split; intros H; try reflexivity; discriminate. Qed.

Lemma beqb_eq a b : beqb a b = true <-> a = b.
Proof.
  revert b. induction a as [|x a IH]; intros [|y b]; cbn [beqb]; split; intros H; try reflexivity; try discriminate.
  - apply andb_true_iff in H. destruct H as [H1 H2]. apply N.eqb_eq in H1. apply IH in H2. subst. reflexivity.
  - injection H as -> ->. apply andb_true_iff. split; [apply N.eqb_refl|apply IH; reflexivity].
Qed.
Lemma obeqb_eq a b : obeqb a b = true <-> a = b.
Proof.
  destruct a as [x|]; destruct b as [y|]; cbn [obeqb]; split; intros H; try reflexivity; try discriminate.
  - apply beqb_eq in H. subst. reflexivity.
  - injection H as ->. apply beqb_eq. reflexivity.
Qed.
Lemma table_eqb_eq a b : table_eqb a b = true <-> a = b.
Proof.
  revert b. induction a as [|[f x] a IH]; intros [|[g y] b]; cbn [table_eqb]; split; intros H; try reflexivity; try discriminate.
  - apply andb_true_iff in H. destruct H as [H H3]. apply andb_true_iff in H. destruct H as [H1 H2].
    apply N.eqb_eq in H1. apply beqb_eq in H2. apply IH in H3. subst. reflexivity.
  - injection H as -> -> ->. rewrite N.eqb_refl. cbn [andb]. apply andb_true_iff. split; [apply beqb_eq|apply IH]; reflexivity.
Qed.

(* structural equality of JSON values *)
Lemma jv_eqb_true a : forall b, jv_eqb a b = true -> a = b.
Proof.
  induction a as [|x|t|s|l IHl|l IHl] using jv_ind'; intros b H; destruct b as [|y|t'|s'|m|m]; try discriminate.
  - reflexivity.
  - cbn in H. apply Bool.eqb_prop in H. subst. reflexivity.
  - cbn [jv_eqb] in H. apply beqb_eq in H. subst. reflexivity.
  - cbn [jv_eqb] in H. apply beqb_eq in H. subst. reflexivity.
  - f_equal. cbn [jv_eqb] in H. revert m H. induction IHl as [|x l Hx _ IH]; intros m H; destruct m as [|y m]; try discriminate.
    + reflexivity.
    + apply andb_true_iff in H. destruct H as [H1 H2]. f_equal; [apply Hx; exact H1|apply IH; exact H2].
  - f_equal. cbn [jv_eqb] in H. revert m H. induction IHl as [|[k x] l Hx _ IH]; intros m H; destruct m as [|[k' y] m]; try discriminate.
    + reflexivity.
    + apply andb_true_iff in H. destruct H as [H H3]. apply andb_true_iff in H. destruct H as [H1 H2].
      apply beqb_eq in H1. cbn [snd] in Hx. f_equal; [f_equal; [exact H1|apply Hx; exact H2]|apply IH; exact H3].
Qed.
Lemma jv_eqb_refl a : jv_eqb a a = true.
Proof.
  induction a as [|x|t|s|l IHl|l IHl] using jv_ind'; cbn [jv_eqb]; try reflexivity.
  - destruct x; reflexivity.
  - apply beqb_eq. reflexivity.
  - apply beqb_eq. reflexivity.
  - induction IHl as [|x l Hx _ IH]; [reflexivity|]. apply andb_true_iff. split; assumption.
  - induction IHl as [|[k x] l Hx _ IH]; [reflexivity|]. cbn [snd] in Hx. apply andb_true_iff. split; [|exact IH].
    apply andb_true_iff. split; [apply beqb_eq; reflexivity|exact Hx].
Qed.
Lemma jv_eqb_eq a b : jv_eqb a b = true <-> a = b.
Proof. split; [apply jv_eqb_true|intros ->; apply jv_eqb_refl]. Qed.

(* well-formedness is exactly its boolean *)
Lemma wf_wfb v : wf v -> wfb v = true.
Proof.
  induction v as [|b|tok|s|l IHl|l IHl] using jv_ind'; intros H; try reflexivity.
  - cbn [wfb]. destruct H as [H1 H2]. apply andb_true_iff. split; [exact H1|].
    apply forallb_forall. rewrite Forall_forall in H2. exact H2.
  - apply wf_arr in H. cbn [wfb]. induction IHl as [|x l Hx _ IH]; [reflexivity|]. destruct H as [H1 H2].
    apply andb_true_iff. split; [apply Hx; exact H1|apply IH; exact H2].
  - apply wf_obj in H. cbn [wfb]. induction IHl as [|[k x] l Hx _ IH]; [reflexivity|]. destruct H as [H1 H2]. cbn [snd] in Hx.
    apply andb_true_iff. split; [apply Hx; exact H1|apply IH; exact H2].
Qed.
Lemma wfb_iff v : wfb v = true <-> wf v.
Proof. split; [apply wfb_wf|apply wf_wfb]. Qed.

(* one newline-terminated line *)
Definition one_line (b : bytes) : Prop := exists body, b = body ++ [10] /\ ~ In 10 body.
Lemma single_line_iff b : single_line b = true <-> one_line b.
Proof.
  unfold one_line. induction b as [|c r IH].
  - split; [discriminate|]. intros [body [H _]]. destruct body; discriminate.
  - destruct r as [|c2 r].
    + cbn [single_line]. split.
      * intros H. apply N.eqb_eq in H. subst. exists []. split; [reflexivity|intros []].
      * intros [body [H Hn]]. destruct body as [|x body].
        -- cbn [app] in H. injection H as ->. reflexivity.
        -- cbn [app] in H. injection H as _ H. destruct body; discriminate.
    + change (single_line (c :: c2 :: r)) with (negb (c =? 10) && single_line (c2 :: r)). split.
      * intros H. apply andb_true_iff in H. destruct H as [H1 H2]. apply IH in H2. destruct H2 as [body [E Hn]].
        exists (c :: body). split; [cbn [app]; rewrite E; reflexivity|]. intros [Hc|Hc]; [subst; discriminate|exact (Hn Hc)].
      * intros [body [E Hn]]. destruct body as [|x body]; [destruct r; discriminate|]. cbn [app] in E. injection E as -> E.
        apply andb_true_iff. split.
        -- apply negb_true_iff. apply N.eqb_neq. intros ->. apply Hn. left. reflexivity.
        -- apply IH. exists body. split; [exact E|]. intros Hc. apply Hn. right. exact Hc.
Qed.

(* the stored line parses to exactly the three members *)
Definition members_decl (b ty : bytes) (v : jv) : Prop :=
  exists t', parse_doc b =
             Some (JObj [(k_created_at, JStr t'); (k_event_type, JStr (sanitize ty)); (k_payload, jimage v)]).
Lemma members_ok_iff b ty v : members_ok b ty v = true <-> members_decl b ty v.
Proof.
  unfold members_ok, members_decl. split.
  - intros H. destruct (parse_doc b) as [p|]; [|discriminate].
    destruct p as [| | | | |l]; try discriminate.
    destruct l as [|[k1 x1] l]; [discriminate|]. destruct x1 as [| | |t'| |]; try discriminate.
    destruct l as [|[k2 x2] l]; [discriminate|]. destruct x2 as [| | |ty'| |]; try discriminate.
    destruct l as [|[k3 v'] l]; [discriminate|]. destruct l; [|discriminate].
    apply andb_true_iff in H. destruct H as [H H5]. apply andb_true_iff in H. destruct H as [H H4].
    apply andb_true_iff in H. destruct H as [H H3]. apply andb_true_iff in H. destruct H as [H1 H2].
    apply beqb_eq in H1. apply beqb_eq in H2. apply beqb_eq in H3. apply beqb_eq in H4. apply jv_eqb_eq in H5.
    rewrite H1, H2, H3, H4, H5. exists t'. reflexivity.
  - intros [t' ->]. rewrite !(proj2 (beqb_eq _ _) eq_refl). rewrite jv_eqb_refl. reflexivity.
Qed.

(* ------------------------------------------------------------------ a Process case *)
Definition line_decl (c : pcase) (b : bytes) (v : jv) : Prop :=
  one_line b /\ members_decl b (c_type c) v /\ o_decode (c_obs c) = 1.

Definition proc_accepted (c : pcase) : Prop :=
  let o := c_obs c in
  (* the harness handed over a JSON value *)
  (forall v, c_payload c = Some v -> wf v) /\
  (* the observation is the model's run *)
  o_err o = is_err (snd (model_proc c)) /\
  o_out o = out_code (snd (model_proc c)) /\
  tget fmt_json (o_table o) = tget fmt_json (ev_fmt (fst (model_proc c))) /\
  others (o_table o) = tsort (others (ev_fmt (fst (model_proc c)))) /\
  (* type, time and payload were seen untouched *)
  o_frame o = true /\
  (* success for an encodable event: the line the property describes is stored *)
  (writes c = true -> o_err o = false -> forall t v, c_time c = Some t -> c_payload c = Some v ->
     exists b, tget fmt_json (o_table o) = Some b /\ line_decl c b v) /\
  (* an error that is not the predicate's (and any call of Filter) leaves the table exactly as it was *)
  ((o_err o = true /\ o_pred_err o = false) \/ writes c = false -> o_table o = c_pre c) /\
  (* re-read after later Process calls on other events: still the stored value *)
  (forall x, o_final o = Some x -> x = tget fmt_json (o_table o)) /\
  (* ... and so are the payload, type, time and the other entries *)
  o_still o = true.

Lemma chk_still_iff o : chk_still o = [] <-> o_still o = true.
Proof. unfold chk_still. apply ite_nil_iff. Qed.
Lemma chk_model_iff c : chk_model c = [] <-> (forall v, c_payload c = Some v -> wf v).
Proof.
  unfold chk_model. destruct (c_payload c) as [v|].
  - rewrite ite_nil_iff, wfb_iff. split; [intros H v' E; injection E as <-; exact H|intros H; apply H; reflexivity].
  - split; [intros _ v E; discriminate|reflexivity].
Qed.
Lemma chk_err_iff oc o : chk_err oc o = [] <-> o_err o = is_err oc.
Proof. unfold chk_err. rewrite ite_nil_iff. split; [intros H; apply Bool.eqb_prop in H; auto|intros ->; apply Bool.eqb_reflx]. Qed.
Lemma chk_out_iff oc o : chk_out oc o = [] <-> o_out o = out_code oc.
Proof. unfold chk_out. rewrite ite_nil_iff. apply N.eqb_eq. Qed.
Lemma chk_bytes_iff t o : chk_bytes t o = [] <-> tget fmt_json (o_table o) = tget fmt_json t.
Proof. unfold chk_bytes. rewrite ite_nil_iff, obeqb_eq. split; auto. Qed.
Lemma chk_other_iff t o : chk_other t o = [] <-> others (o_table o) = tsort (others t).
Proof. unfold chk_other. rewrite ite_nil_iff, table_eqb_eq. split; auto. Qed.
Lemma chk_frame_iff o : chk_frame o = [] <-> o_frame o = true.
Proof. unfold chk_frame. apply ite_nil_iff. Qed.

Lemma chk_line_iff c : chk_line c = [] <->
  (writes c = true -> o_err (c_obs c) = false -> forall t v, c_time c = Some t -> c_payload c = Some v ->
     exists b, tget fmt_json (o_table (c_obs c)) = Some b /\ line_decl c b v).
Proof.
  unfold chk_line, line_decl. destruct (writes c) eqn:Ew; cbn [andb].
  2:{ split; [intros _ H; discriminate|reflexivity]. }
  destruct (o_err (c_obs c)) eqn:Ee; cbn [negb].
  { split; [intros _ _ H; discriminate|reflexivity]. }
  destruct (c_time c) as [t|].
  2:{ split; [intros _ _ _ t v H; discriminate|reflexivity]. }
  destruct (c_payload c) as [v|].
  2:{ split; [intros _ _ _ t' v H1 H2; discriminate|reflexivity]. }
  destruct (tget fmt_json (o_table (c_obs c))) as [b|].
  - rewrite !app_nil_iff, !ite_nil_iff, single_line_iff, members_ok_iff, N.eqb_eq. split.
    + intros [H1 [H2 H3]] _ _ t' v' _ E. injection E as <-. exists b. auto.
    + intros H. destruct (H eq_refl eq_refl t v eq_refl eq_refl) as [b' [E [H1 [H2 H3]]]]. injection E as <-. auto.
  - split; [discriminate|]. intros H. destruct (H eq_refl eq_refl t v eq_refl eq_refl) as [b' [E _]]. discriminate.
Qed.

Lemma chk_errstored_iff c : chk_errstored c = [] <->
  ((o_err (c_obs c) = true /\ o_pred_err (c_obs c) = false) \/ writes c = false -> o_table (c_obs c) = c_pre c).
Proof.
  unfold chk_errstored. destruct ((o_err (c_obs c) && negb (o_pred_err (c_obs c))) || negb (writes c)) eqn:E.
  - rewrite ite_nil_iff, table_eqb_eq. split; [intros H _; auto|]. intros H. symmetry. apply H.
    apply orb_true_iff in E. destruct E as [E|E].
    + apply andb_true_iff in E. destruct E as [E1 E2]. apply negb_true_iff in E2. left. auto.
    + apply negb_true_iff in E. right. exact E.
  - split; [|reflexivity]. intros _ H. exfalso. apply orb_false_iff in E. destruct E as [E1 E2]. apply negb_false_iff in E2.
    destruct H as [[H1 H2]|H]; [rewrite H1, H2 in E1; discriminate|congruence].
Qed.

Lemma chk_final_iff c : chk_final c = [] <-> (forall x, o_final (c_obs c) = Some x -> x = tget fmt_json (o_table (c_obs c))).
Proof.
  unfold chk_final, final_of. destruct (o_final (c_obs c)) as [x|].
  - destruct (obeqb (tget fmt_json (o_table (c_obs c))) x) eqn:E.
    + apply obeqb_eq in E. split; [intros _ y H; injection H as <-; auto|reflexivity].
    + split; [discriminate|]. intros H. specialize (H x eq_refl). subst.
      rewrite (proj2 (obeqb_eq _ _) eq_refl) in E. discriminate.
  - rewrite (proj2 (obeqb_eq _ _) eq_refl). split; [intros _ y H; discriminate|reflexivity].
Qed.

Theorem run_proc_nil_iff c : run_proc c = [] <-> proc_accepted c.
Proof.
  unfold run_proc, proc_accepted. destruct (model_proc c) as [e' oc]. cbn [fst snd].
  rewrite !app_nil_iff, chk_model_iff, chk_err_iff, chk_out_iff, chk_bytes_iff, chk_other_iff, chk_frame_iff,
    chk_line_iff, chk_errstored_iff, chk_final_iff, chk_still_iff. tauto.
Qed.

(* ------------------------------------------------------------------ a forced FormattedAs / Format schedule *)
(* the observed schedule is an execution of the model table from [t] ending in the observed final table *)
Inductive table_accepted : table -> list (N * top * option (option bytes)) -> table -> Prop :=
| ta_nil : forall t final, tsort t = final -> table_accepted t [] final
| ta_step : forall t g o r rest final,
    r = snd (tstep t o) -> table_accepted (fst (tstep t o)) rest final -> table_accepted t ((g, o, r) :: rest) final.

Lemma chk_step_iff m r : chk_step m r = true <-> r = m.
Proof.
  destruct m as [x|]; destruct r as [y|]; cbn [chk_step]; split; intros H; try reflexivity; try discriminate.
  - apply obeqb_eq in H. subst. reflexivity.
  - injection H as ->. apply obeqb_eq. reflexivity.
Qed.

Theorem run_table_nil_iff : forall ops t i final, run_table t i ops final = [] <-> table_accepted t ops final.
Proof.
  induction ops as [|[[g o] r] rest IH]; intros t i final.
  - cbn [run_table]. rewrite ite_nil_iff, table_eqb_eq. split; [intros H; constructor; exact H|intros H; inversion H; assumption].
  - cbn [run_table]. destruct (tstep t o) as [t' m] eqn:E. rewrite app_nil_iff, ite_nil_iff, chk_step_iff, IH. split.
    + intros [H1 H2]. constructor; rewrite E; cbn [fst snd]; assumption.
    + intros H. inversion H as [|? ? ? ? ? ? H1 H2]; subst. rewrite E in *. cbn [fst snd] in *. auto.
Qed.

(* what acceptance gives: the observed Format results are the model's, hence last-writer-wins *)
Definition ops_of (l : list (N * top * option (option bytes))) : list top := map (fun x => snd (fst x)) l.
Definition results_of (l : list (N * top * option (option bytes))) : list (option (option bytes)) := map snd l.
Theorem table_accepted_results : forall ops t final,
  table_accepted t ops final -> results_of ops = snd (trun t (ops_of ops)) /\ final = tsort (fst (trun t (ops_of ops))).
Proof.
  induction ops as [|[[g o] r] rest IH]; intros t final H; inversion H as [|? ? ? ? ? ? H1 H2]; subst.
  - cbn. auto.
  - cbn [ops_of results_of map fst snd trun]. destruct (tstep t o) as [t1 m] eqn:E. cbn [fst snd] in *.
    destruct (IH _ _ H2) as [I1 I2]. unfold ops_of, results_of in *.
    destruct (trun t1 (map (fun x => snd (fst x)) rest)) as [t2 rs] eqn:E2. cbn [fst snd] in *. rewrite I1. auto.
Qed.
(* every observed Format(f) returned the last value stored under exactly f before it (the initial entry if none) *)
Corollary table_accepted_lww : forall ops t final pre g f r post,
  table_accepted t ops final -> ops = pre ++ (g, TGet f, r) :: post ->
  r = Some (last_write f (tget f t) (ops_of pre)).
Proof.
  intros ops t final pre g f r post H ->. destruct (table_accepted_results _ _ _ H) as [Hr _].
  destruct (lww_all t (ops_of (pre ++ (g, TGet f, r) :: post))) as [Hl _].
  unfold ops_of in *. rewrite map_app in *. cbn [map fst snd] in *.
  specialize (Hl (map (fun x => snd (fst x)) pre) f (map (fun x => snd (fst x)) post) eq_refl).
  rewrite <- Hr in Hl. unfold results_of in Hl. rewrite map_app in Hl. cbn [map snd] in Hl.
  rewrite app_nth2 in Hl by (rewrite !map_length; lia). rewrite !map_length, Nat.sub_diag in Hl. cbn [nth] in Hl. exact Hl.
Qed.

(* ------------------------------------------------------------------ whole shards *)
Definition case_accepted (c : fcase) : Prop :=
  match c with
  | CProc _ p => proc_accepted p
  | CTable _ init ops final => table_accepted init ops final
  end.

Theorem run_case_nil_iff c : run_case c = [] <-> case_accepted c.
Proof.
  destruct c as [id p|id init ops final]; cbn [run_case case_accepted]; rewrite map_nil_iff.
  - apply run_proc_nil_iff.
  - apply run_table_nil_iff.
Qed.

Theorem mismatches_nil_iff : forall cs, mismatches cs = [] <-> Forall case_accepted cs.
Proof.
  induction cs as [|c cs IH]; [split; [constructor|reflexivity]|].
  unfold mismatches in *. cbn [flat_map]. rewrite app_nil_iff, run_case_nil_iff, IH. split.
  - intros [H1 H2]. constructor; assumption.
  - intros H. inversion H; auto.
Qed.
Print Assumptions mismatches_nil_iff.

(* ------------------------------------------------------------------ the property's own observables *)
(* The part of acceptance that does not mention Json.render's bytes: what must hold for the run to be free of a VIOLATION
   with a failing input.  A tree whose bytes differ from the model's while this holds on every case is model drift (e.g. a
   formatter that does not escape '<': still one line that parses to the same members). *)
Definition property_ok (c : pcase) : Prop :=
  let o := c_obs c in
  o_err o = is_err (snd (model_proc c)) /\ o_out o = out_code (snd (model_proc c)) /\
  others (o_table o) = tsort (others (ev_fmt (fst (model_proc c)))) /\ o_frame o = true /\
  (writes c = true -> o_err o = false -> forall t v, c_time c = Some t -> c_payload c = Some v ->
     exists b, tget fmt_json (o_table o) = Some b /\ line_decl c b v) /\
  ((o_err o = true /\ o_pred_err o = false) \/ writes c = false -> o_table o = c_pre c) /\
  (forall x, o_final o = Some x -> x = tget fmt_json (o_table o)) /\ o_still o = true.
Theorem accepted_property_ok c : proc_accepted c -> property_ok c.
Proof. unfold proc_accepted, property_ok. tauto. Qed.
(* the kinds the engine treats as drift are exactly the byte comparison: without it the verdict is property_ok *)
Theorem property_kinds_nil_iff c :
  (forall v, c_payload c = Some v -> wf v) ->
  (List.filter (fun k => match k with KBytes => false | _ => true end) (run_proc c) = [] <-> property_ok c).
Proof.
  intros Hwf. unfold run_proc, property_ok. destruct (model_proc c) as [e' oc]. cbn [fst snd].
  rewrite !filter_app, !app_nil_iff.
  assert (Hm : List.filter (fun k => match k with KBytes => false | _ => true end) (chk_model c) = []).
  { apply chk_model_iff in Hwf. rewrite Hwf. reflexivity. }
  assert (Hb : List.filter (fun k => match k with KBytes => false | _ => true end) (chk_bytes (ev_fmt e') (c_obs c)) = []).
  { unfold chk_bytes. destruct (obeqb _ _); reflexivity. }
  assert (Hf : forall l, (forall k, In k l -> k <> KBytes) ->
               List.filter (fun k => match k with KBytes => false | _ => true end) l = l).
  { induction l as [|k l IH]; intros H; [reflexivity|]. cbn [List.filter].
    destruct k; try (f_equal; apply IH; intros k' Hk'; apply H; right; exact Hk'). exfalso. apply (H KBytes); [left|]; reflexivity. }
  rewrite Hm, Hb.
  rewrite (Hf (chk_err oc (c_obs c))) by (unfold chk_err; intros k Hk; destruct (Bool.eqb _ _); [destruct Hk|destruct Hk as [<-|[]]; discriminate]).
  rewrite (Hf (chk_out oc (c_obs c))) by (unfold chk_out; intros k Hk; destruct (_ =? _); [destruct Hk|destruct Hk as [<-|[]]; discriminate]).
  rewrite (Hf (chk_other (ev_fmt e') (c_obs c))) by (unfold chk_other; intros k Hk; destruct (table_eqb _ _); [destruct Hk|destruct Hk as [<-|[]]; discriminate]).
  rewrite (Hf (chk_frame (c_obs c))) by (unfold chk_frame; intros k Hk; destruct (o_frame _); [destruct Hk|destruct Hk as [<-|[]]; discriminate]).
  rewrite (Hf (chk_line c)).
  2:{ unfold chk_line. intros k Hk. destruct (writes c && negb (o_err (c_obs c))); [|destruct Hk].
      destruct (c_time c); [|destruct Hk]. destruct (c_payload c); [|destruct Hk].
      destruct (tget fmt_json (o_table (c_obs c))); [|destruct Hk as [<-|[]]; discriminate].
      repeat (apply in_app_or in Hk; destruct Hk as [Hk|Hk]);
        match type of Hk with In _ (if ?x then _ else _) => destruct x; [destruct Hk|destruct Hk as [<-|[]]; discriminate] end. }
  rewrite (Hf (chk_errstored c)).
  2:{ unfold chk_errstored. intros k Hk. destruct (_ || _); [|destruct Hk]. destruct (table_eqb _ _); [destruct Hk|destruct Hk as [<-|[]]; discriminate]. }
  rewrite (Hf (chk_final c)).
  2:{ unfold chk_final. intros k Hk. destruct (obeqb _ _); [destruct Hk|]. destruct Hk as [<-|Hk]; [discriminate|].
      destruct (writes c && negb (o_err (c_obs c))); [|destruct Hk].
      destruct (c_time c); [|destruct Hk]. destruct (c_payload c); [|destruct Hk]. destruct (final_of (c_obs c)); [|destruct Hk].
      apply in_app_or in Hk; destruct Hk as [Hk|Hk];
        match type of Hk with In _ (if ?x then _ else _) => destruct x; [destruct Hk|destruct Hk as [<-|[]]; discriminate] end. }
  rewrite (Hf (chk_still (c_obs c))) by (unfold chk_still; intros k Hk; destruct (o_still _); [destruct Hk|destruct Hk as [<-|[]]; discriminate]).
  rewrite chk_err_iff, chk_out_iff, chk_other_iff, chk_frame_iff, chk_line_iff, chk_errstored_iff, chk_final_iff, chk_still_iff. tauto.
Qed.
Print Assumptions property_kinds_nil_iff.
