(* RunGatedSound.v — what an empty mismatch list of Run_Gated MEANS.
   The correspondence check of C11 / C17 evaluates [Run_Gated.mismatches] (sequential histories) and
   [Run_Gated.conc_mismatches] (concurrent senders, blocked-Send scenarios) with vm_compute and requires [].  Here that boolean
   verdict gets its declarative reading:
     [accepted]    the observed history is an execution of the model Gated.v: every call's result, returned composite,
                   ComposeFrom arguments, payloads handed to the Sender and the VerifGated snapshot are the model's;
     [oracles_ok]  the observation-only oracles hold (stated over the observations alone);
     [conc_ok]     the concurrent oracle, declaratively.
   Both directions are proved: the evaluator neither accepts a history the model cannot produce nor rejects one it can. *)
From Coq Require Import List Bool Arith NArith ZArith Lia.
From Verif Require Import Gated Run_Gated.
Import ListNotations.
Local Open Scope N_scope.

(* ---------- small tools ---------- *)
Lemma app_nil_both {A} (a c : list A) : a ++ c = [] <-> a = [] /\ c = [].
Proof. split; [destruct a; cbn; [auto|discriminate]|intros [-> ->]; reflexivity]. Qed.
Lemma map_nil {A B} (f : A -> B) l : map f l = [] <-> l = [].
Proof. split; [destruct l; cbn; [auto|discriminate]|intros ->; reflexivity]. Qed.
Lemma ite_nil {A} (c : bool) (x : A) : (if c then [] else [x]) = [] <-> c = true.
Proof. destruct c; split; auto; discriminate. Qed.
Lemma ite_nil' {A} (c : bool) (x : A) : (if c then [x] else []) = [] <-> c = false.
Proof. destruct c; split; auto; discriminate. Qed.

Lemma pair_eqb_eq a b : pair_eqb a b = true <-> a = b.
Proof.
  destruct a as [a1 a2], b as [b1 b2]. unfold pair_eqb. cbn [fst snd]. rewrite andb_true_iff, !N.eqb_eq.
  split; [intros [-> ->]; reflexivity|intros H; injection H as -> ->; auto].
Qed.
Lemma eq_list_eq {A} (eq : A -> A -> bool) : (forall x y, eq x y = true <-> x = y) -> forall a c, eq_list eq a c = true <-> a = c.
Proof.
  intros He. induction a as [|x s IH]; intros [|y t]; cbn [eq_list]; try (split; [discriminate|discriminate]); [split; reflexivity|].
  rewrite andb_true_iff, He, IH. split; [intros [-> ->]; reflexivity|intros H; injection H as -> ->; auto].
Qed.
Lemma pairs_eq a c : eq_list pair_eqb a c = true <-> a = c.
Proof. apply eq_list_eq, pair_eqb_eq. Qed.
Lemma pairss_eq a c : eq_list (eq_list pair_eqb) a c = true <-> a = c.
Proof. apply eq_list_eq, pairs_eq. Qed.
Lemma gated_eqb_eq a b : gated_eqb a b = true <-> a = b.
Proof.
  destruct a as [a1 [a2 a3]], b as [b1 [b2 b3]]. unfold gated_eqb. cbn [fst snd]. rewrite !andb_true_iff, !N.eqb_eq, Z.eqb_eq.
  split; [intros [[-> ->] ->]; reflexivity|intros H; injection H as -> -> ->; auto].
Qed.
Lemma gateds_eq a c : eq_list gated_eqb a c = true <-> a = c.
Proof. apply eq_list_eq, gated_eqb_eq. Qed.

Lemma memN_In x l : memN x l = true <-> In x l.
Proof. unfold memN. rewrite existsb_exists. split; [intros [y [Hy He]]; apply N.eqb_eq in He; subst; exact Hy|intros H; exists x; split; [exact H|apply N.eqb_refl]]. Qed.
Lemma nodupb_NoDup l : nodupb l = true <-> NoDup l.
Proof.
  induction l as [|x t IH]; cbn [nodupb]; [split; [constructor|reflexivity]|].
  rewrite andb_true_iff, negb_true_iff, IH. split.
  - intros [Hn Ht]. constructor; [|exact Ht]. intros Hin. apply memN_In in Hin. congruence.
  - intros H. inversion H as [|? ? Hn Ht]; subst. split; [|exact Ht]. destruct (memN x t) eqn:E; [apply memN_In in E; contradiction|reflexivity].
Qed.
Lemma nonempty_false {A} (l : list A) : nonempty l = false <-> l = [].
Proof. destruct l; split; auto; discriminate. Qed.

(* ================= sequential histories ================= *)

(* the observed history is an execution of the model from [s] under configuration [c] *)
Inductive accepted (c : gcfg) : gst -> list (hop * gobs) -> Prop :=
| acc_nil : forall s, accepted c s []
| acc_step : forall s h o rest s' r,
    step (env_of (cfg_at c o)) s (op_of h (o_now o)) = (s', r) ->
    res_code r = o_res o ->                              (* the result is the model's *)
    res_comp r = o_comp o ->                             (* ... and so is the composite returned *)
    composed_of (produced s s') = o_compose o ->         (* ComposeFrom was called with exactly the model's groups, in order *)
    sent_of (produced s s') = o_sent o ->                (* the Sender was handed exactly the model's composites, in order *)
    model_gated s' = o_gated o ->                        (* what is still gated: ids, sizes, expiries, order *)
    accepted c s' rest -> accepted c s ((h, o) :: rest).

Definition flush_op (h : hop) : bool := match h with HFlushAll | HClose => true | _ => false end.
Definition composed_nums (o : gobs) : list N := map snd (concat (o_compose o)).
Definition accepted_now (h : hop) (o : gobs) : list N :=
  match h with HEv _ _ n => if N.eqb (o_res o) 1 || N.eqb (o_res o) 2 then [n] else [] | _ => [] end.
(* accepted events not yet handed to composition nor dropped by a FlushAll without Broker, after this call *)
Definition next_pend (c : gcfg) (h : hop) (o : gobs) (st : ostate) : list N :=
  let pend1 := filter (fun n => negb (memN n (composed_nums o))) (os_pend st ++ accepted_now h o) in
  if flush_op h && negb (c_broker c) && N.eqb (o_res o) 4 then [] else pend1.
Definition next_ostate (c : gcfg) (h : hop) (o : gobs) (st : ostate) : ostate :=
  {| os_composed := composed_nums o ++ os_composed st; os_pend := next_pend c h o st |}.

Lemma oracle_state c h o st : snd (oracle c h o st) = next_ostate c h o st.
Proof. reflexivity. Qed.

(* the observation-only oracles of one call, over the observations alone *)
Record oracle_ok (c : gcfg) (h : hop) (o : gobs) (st : ostate) : Prop := {
  (* C17: after a successful Process no expired group is gated; after a successful FlushAll / Close nothing is *)
  ok_linger1 : o_res o = 1 \/ o_res o = 2 -> forall g, In g (o_gated o) -> (o_now o <= snd (snd g))%Z;
  ok_linger2 : flush_op h = true -> o_res o = 4 -> o_gated o = [];
  (* C11: no event is handed to composition twice *)
  ok_dup1 : NoDup (composed_nums o);
  ok_dup2 : forall n, In n (composed_nums o) -> ~ In n (os_composed st);
  (* C11: every ComposeFrom argument is non-empty, of one id, in arrival order; a composite is returned only with result 2 *)
  ok_order1 : forall a, In a (o_compose o) -> pure_ordered a = true;
  ok_order2 : o_comp o <> [] -> o_res o = 2;
  (* C11: what is gated is exactly the accepted events not yet composed / dropped (by count) *)
  ok_lost : lenN (next_pend c h o st) = gated_total (o_gated o);
  (* C11: a non-Gateable event, and only it, comes back as the very event *)
  ok_ident : match h with HPlain _ => o_res o = 0 | _ => o_res o <> 0 end;
  (* C11: an event without id is rejected and nothing is composed *)
  ok_emptyid : match h with HEv 0 _ _ => o_res o = 3 /\ o_compose o = [] | _ => True end;
  ok_sent_gateable : o_sent_gateable o = false;
  ok_index : o_index_ok o = true;
  ok_sent_stale : o_sent_stale o = false;
  ok_mutated : o_mutated o = false
}.

Lemma oracle_spec c h o st : fst (oracle c h o st) = [] <-> oracle_ok c h o st.
Proof.
  unfold oracle. cbn [fst]. fold (composed_nums o). fold (accepted_now h o). fold (flush_op h).
  change (if flush_op h && negb (c_broker c) && N.eqb (o_res o) 4 then []
          else filter (fun n => negb (memN n (composed_nums o))) (os_pend st ++ accepted_now h o)) with (next_pend c h o st).
  rewrite !app_nil_both, !ite_nil, !ite_nil'.
  split.
  - intros [H1 [H2 [H3 [H4 [H5 [H6 [H7 [H8 [H9 [H9' H10]]]]]]]]]]. constructor.
    + intros Hr g Hg. apply andb_false_iff in H1 as [H1|H1].
      * exfalso. destruct Hr as [Hr|Hr]; rewrite Hr in H1; discriminate.
      * apply negb_false_iff in H1. rewrite forallb_forall in H1. specialize (H1 g Hg). apply negb_true_iff, Z.ltb_ge in H1. exact H1.
    + intros Hf Hr. rewrite Hf, Hr in H2. cbn in H2. apply nonempty_false. exact H2.
    + apply andb_true_iff in H3 as [H3 _]. apply nodupb_NoDup, H3.
    + intros n Hn Hc. apply andb_true_iff in H3 as [_ H3]. apply negb_true_iff in H3.
      assert (Hx : existsb (fun n0 => memN n0 (os_composed st)) (composed_nums o) = true); [|congruence].
      apply existsb_exists. exists n. split; [exact Hn|apply memN_In, Hc].
    + intros a Ha. apply andb_true_iff in H4 as [H4 _]. rewrite forallb_forall in H4. apply H4, Ha.
    + intros Hc. apply andb_true_iff in H4 as [_ H4]. apply orb_true_iff in H4 as [H4|H4]; [apply N.eqb_eq, H4|].
      apply negb_true_iff, nonempty_false in H4. contradiction.
    + apply N.eqb_eq, H5.
    + destruct h; try (destruct (N.eqb (o_res o) 0) eqn:E; [discriminate|apply N.eqb_neq, E]).
      destruct (N.eqb (o_res o) 0) eqn:E; [apply N.eqb_eq, E|discriminate].
    + destruct h as [id fl n| | | |]; try exact I. destruct id; [|exact I]. destruct (N.eqb (o_res o) 3 && negb (nonempty (o_compose o))) eqn:E; [|discriminate].
      apply andb_true_iff in E as [E1 E2]. split; [apply N.eqb_eq, E1|apply nonempty_false, negb_true_iff, E2].
    + exact H8.
    + exact H9.
    + exact H9'.
    + exact H10.
  - intros [L1 L2 D1 D2 O1 O2 Lo Id Em Sg Ix St Mu]. repeat split.
    + destruct (N.eqb (o_res o) 1 || N.eqb (o_res o) 2) eqn:Er; [|reflexivity]. cbn [andb]. apply negb_false_iff, forallb_forall.
      intros g Hg. apply negb_true_iff, Z.ltb_ge. apply L1; [|exact Hg]. apply orb_true_iff in Er as [Er|Er]; apply N.eqb_eq in Er; auto.
    + destruct (flush_op h) eqn:Ef; [|reflexivity]. destruct (N.eqb (o_res o) 4) eqn:Er; [|reflexivity]. cbn [andb].
      apply nonempty_false, L2; [reflexivity|apply N.eqb_eq, Er].
    + apply andb_true_iff. split; [apply nodupb_NoDup, D1|]. apply negb_true_iff. destruct (existsb _ _) eqn:E; [|reflexivity].
      apply existsb_exists in E as [n [Hn Hm]]. apply memN_In in Hm. exfalso. exact (D2 n Hn Hm).
    + apply andb_true_iff. split; [apply forallb_forall; exact O1|]. destruct (o_comp o) as [|x t] eqn:Ec; [apply orb_true_r|].
      rewrite O2 by discriminate. reflexivity.
    + apply N.eqb_eq, Lo.
    + destruct h; try (apply N.eqb_neq in Id; rewrite Id; reflexivity). rewrite Id. reflexivity.
    + destruct h as [id fl n| | | |]; try reflexivity. destruct id; [|reflexivity]. destruct Em as [E1 E2]. rewrite E1, E2. reflexivity.
    + exact Sg.
    + exact Ix.
    + exact St.
    + exact Mu.
Qed.

Inductive oracles_ok (c : gcfg) : ostate -> list (hop * gobs) -> Prop :=
| ok_nil : forall st, oracles_ok c st []
| ok_cons : forall st h o rest, oracle_ok (cfg_at c o) h o st -> oracles_ok c (next_ostate (cfg_at c o) h o st) rest -> oracles_ok c st ((h, o) :: rest).

Theorem run_case_sound c : forall steps s st i,
  run_case c false s st i steps = [] -> accepted c s steps /\ oracles_ok c st steps.
Proof.
  induction steps as [|[h o] rest IH]; intros s st i H; [split; constructor|].
  cbn [run_case] in H. destruct (step (env_of (cfg_at c o)) s (op_of h (o_now o))) as [s' r] eqn:Es.
  pose proof (oracle_spec (cfg_at c o) h o st) as Hos. pose proof (oracle_state (cfg_at c o) h o st) as Hst.
  destruct (oracle (cfg_at c o) h o st) as [ks st']. cbn [fst snd] in Hos, Hst. subst st'.
  apply app_nil_both in H as [Hm Hrest]. apply map_nil, app_nil_both in Hm as [Hmm Hks].
  rewrite Hmm in Hrest. cbn [orb nonempty] in Hrest. destruct (IH _ _ _ Hrest) as [Ha Ho].
  apply app_nil_both in Hmm as [H1 Hmm]. apply app_nil_both in Hmm as [H2 Hmm]. apply app_nil_both in Hmm as [H3 Hmm].
  apply app_nil_both in Hmm as [H4 H5]. apply ite_nil in H1, H2, H3, H4, H5.
  split.
  - eapply acc_step; eauto; [apply N.eqb_eq, H1|apply pairs_eq, H2|apply pairss_eq, H3|apply pairss_eq, H4|apply gateds_eq, H5].
  - constructor; [apply Hos, Hks|exact Ho].
Qed.

Theorem run_case_complete c : forall steps s st i,
  accepted c s steps -> oracles_ok c st steps -> run_case c false s st i steps = [].
Proof.
  induction steps as [|[h o] rest IH]; intros s st i Ha Ho; [reflexivity|].
  inversion Ha as [|s0 h0 o0 rest0 s' r Es H1 H2 H3 H4 H5 Hacc]; subst. inversion Ho as [|st0 h0 o0 rest0 Hok Hro]; subst.
  cbn [run_case]. rewrite Es.
  pose proof (oracle_spec (cfg_at c o) h o st) as Hos. pose proof (oracle_state (cfg_at c o) h o st) as Hst.
  destruct (oracle (cfg_at c o) h o st) as [ks st']. cbn [fst snd] in Hos, Hst. subst st'.
  apply Hos in Hok. subst ks.
  assert (Hmm : (if N.eqb (res_code r) (o_res o) then [] else [KRes]) ++ (if eq_list pair_eqb (res_comp r) (o_comp o) then [] else [KComp]) ++
                (if eq_list (eq_list pair_eqb) (composed_of (produced s s')) (o_compose o) then [] else [KCompose]) ++
                (if eq_list (eq_list pair_eqb) (sent_of (produced s s')) (o_sent o) then [] else [KSent]) ++
                (if eq_list gated_eqb (model_gated s') (o_gated o) then [] else [KGated]) = @nil kind).
  { rewrite (proj2 (N.eqb_eq _ _) H1), (proj2 (pairs_eq _ _) H2), (proj2 (pairss_eq _ _) H3), (proj2 (pairss_eq _ _) H4), (proj2 (gateds_eq _ _) H5). reflexivity. }
  rewrite Hmm. cbn [app map orb nonempty]. apply IH; assumption.
Qed.

Definition ostate0 : ostate := {| os_composed := []; os_pend := [] |}.

(* [mismatches cases = []] iff every case's observed history is an execution of the model from the empty filter that meets the
   oracles *)
Theorem mismatches_nil_iff : forall cs,
  mismatches cs = [] <-> Forall (fun c => accepted (g_cfg c) s0 (g_steps c) /\ oracles_ok (g_cfg c) ostate0 (g_steps c)) cs.
Proof.
  induction cs as [|c cs IH]; [split; [constructor|reflexivity]|].
  unfold mismatches in *. cbn [flat_map]. rewrite app_nil_both, map_nil, IH. split.
  - intros [H1 H2]. constructor; [apply (run_case_sound _ _ _ _ _ H1)|exact H2].
  - intros H. inversion H as [|c' cs' [Ha Ho] Hf]; subst. split; [apply run_case_complete; assumption|exact Hf].
Qed.
Print Assumptions mismatches_nil_iff.

(* what acceptance gives: the last snapshot observed is the model's state after the same calls *)
Theorem accepted_final_gated c : forall steps s h o,
  accepted c s (steps ++ [(h, o)]) ->
  model_gated (fold_left (fun s x => fst (step (env_of (cfg_at c (snd x))) s (op_of (fst x) (o_now (snd x))))) (steps ++ [(h, o)]) s) = o_gated o.
Proof.
  induction steps as [|[h1 o1] rest IH]; intros s h o Ha; cbn [app] in *;
    inversion Ha as [|s0 h0 o0 rest0 s' r Es H1 H2 H3 H4 H5 Hacc]; subst; cbn [fold_left fst snd]; rewrite Es; cbn [fst].
  - exact H5.
  - apply IH. exact Hacc.
Qed.
Print Assumptions accepted_final_gated.

(* ================= concurrent senders / blocked-Send scenarios ================= *)

Definition cev : Type := N * N * N * list (N * N).      (* (id, number, result code, composite) *)
Definition is_acc (r : N) : Prop := r = 1 \/ r = 2.
Lemma is_acc_b r : N.eqb r 1 || N.eqb r 2 = true <-> is_acc r.
Proof. unfold is_acc. rewrite orb_true_iff, !N.eqb_eq. reflexivity. Qed.

Record conc_ok (o : cobs) : Prop := {
  (* C11: no event is handed to composition twice, none is sent twice *)
  ck_dup1 : NoDup (map snd (concat (co_compose o)));
  ck_dup2 : NoDup (map snd (concat (co_sent o)));
  (* Broker set, no faults: every composite built was sent or returned to a flush event; nothing else was sent *)
  ck_sent1 : forall a, In a (co_compose o) -> In a (co_sent o) \/ exists id n, In (id, n, 2, a) (co_events o);
  ck_sent2 : forall a, In a (co_sent o) -> In a (co_compose o);
  ck_calls : co_calls_ok o = true;
  (* every composite is non-empty, of one id, and keeps each thread's program order *)
  ck_order : forall a, In a (co_compose o) -> a <> [] /\ (forall p, In p a -> fst p = fst (hd (0, 0) a)) /\ thread_ordered a = true;
  (* every accepted event was composed (exactly once, by ck_dup1), and two accepted events of one thread and one id are never
     composed in the wrong order *)
  ck_lost : forall id n r comp, In (id, n, r, comp) (co_events o) -> is_acc r ->
      exists k, call_of n (index_calls 0 (co_compose o)) = Some k /\
        forall id2 n2 r2 comp2, In (id2, n2, r2, comp2) (co_events o) -> id = id2 -> thread_of n = thread_of n2 -> n < n2 -> is_acc r2 ->
          exists k2, call_of n2 (index_calls 0 (co_compose o)) = Some k2 /\ k <= k2;
  (* the composite a flush event gets back is one of the composites built and ends with that event; nothing else gets one *)
  ck_comp : forall id n r comp, In (id, n, r, comp) (co_events o) ->
      (r = 2 -> In comp (co_compose o) /\ snd (last comp (0, 0)) = n) /\ (r <> 2 -> comp = []);
  ck_emptyid : forall id n r comp, In (id, n, r, comp) (co_events o) -> id = 0 -> r = 3;
  (* only events of the case, under their own id, are ever composed *)
  ck_conc : forall p, In p (concat (co_compose o)) -> exists r comp, In (fst p, snd p, r, comp) (co_events o);
  (* C17: the final FlushAll succeeds and leaves nothing gated *)
  ck_final : co_final_res o = 4 /\ co_final_gated o = [];
  ck_sg : co_sent_gateable o = false;
  ck_mut : co_mutated o = false
}.

Lemma existsb_pairs a l : existsb (eq_list pair_eqb a) l = true <-> In a l.
Proof.
  rewrite existsb_exists. split; [intros [x [Hx He]]; apply pairs_eq in He; subst; exact Hx|intros H; exists a; split; [exact H|apply pairs_eq; reflexivity]].
Qed.

Lemma chk_sent1 (o : cobs) :
  forallb (fun a => existsb (eq_list pair_eqb a) (co_sent o) ||
                    existsb (fun e : cev => let '(_, _, r, comp) := e in N.eqb r 2 && eq_list pair_eqb a comp) (co_events o)) (co_compose o) = true <->
  (forall a, In a (co_compose o) -> In a (co_sent o) \/ exists id n, In (id, n, 2, a) (co_events o)).
Proof.
  rewrite forallb_forall. split; intros H a Ha; specialize (H a Ha).
  - apply orb_true_iff in H as [H|H]; [left; apply existsb_pairs, H|right].
    apply existsb_exists in H as [[[[id n] r] comp] [He Hb]]. apply andb_true_iff in Hb as [Hr Hc]. apply N.eqb_eq in Hr. apply pairs_eq in Hc. subst.
    exists id, n. exact He.
  - apply orb_true_iff. destruct H as [H|[id [n H]]]; [left; apply existsb_pairs, H|right].
    apply existsb_exists. exists (id, n, 2, a). split; [exact H|]. rewrite N.eqb_refl. apply pairs_eq. reflexivity.
Qed.

Lemma chk_sent2 (o : cobs) :
  forallb (fun a => existsb (eq_list pair_eqb a) (co_compose o)) (co_sent o) = true <-> (forall a, In a (co_sent o) -> In a (co_compose o)).
Proof. rewrite forallb_forall. split; intros H a Ha; apply existsb_pairs, H, Ha. Qed.

Lemma chk_order (o : cobs) :
  forallb (fun a => nonempty a && forallb (fun p => N.eqb (fst p) (match a with q :: _ => fst q | [] => 0 end)) a && thread_ordered a) (co_compose o) = true <->
  (forall a, In a (co_compose o) -> a <> [] /\ (forall p, In p a -> fst p = fst (hd (0, 0) a)) /\ thread_ordered a = true).
Proof.
  rewrite forallb_forall. split; intros H a Ha; specialize (H a Ha).
  - apply andb_true_iff in H as [H H3]. apply andb_true_iff in H as [H1 H2]. split; [destruct a; [discriminate|discriminate]|].
    split; [|exact H3]. intros p Hp. rewrite forallb_forall in H2. specialize (H2 p Hp). apply N.eqb_eq in H2. destruct a; [destruct Hp|exact H2].
  - destruct H as [H1 [H2 H3]]. rewrite H3. destruct a as [|q t]; [contradiction|]. cbn [nonempty andb]. rewrite andb_true_r.
    apply forallb_forall. intros p Hp. apply N.eqb_eq. apply (H2 p Hp).
Qed.

Lemma chk_lost (o : cobs) :
  forallb (fun e : cev => let '(id, n, r, _) := e in
     if N.eqb r 1 || N.eqb r 2 then
       match call_of n (index_calls 0 (co_compose o)) with
       | None => false
       | Some k => forallb (fun e2 : cev => let '(id2, n2, r2, _) := e2 in
                     negb (N.eqb id id2 && N.eqb (thread_of n) (thread_of n2) && N.ltb n n2 && (N.eqb r2 1 || N.eqb r2 2)) ||
                     match call_of n2 (index_calls 0 (co_compose o)) with Some k2 => N.leb k k2 | None => false end) (co_events o)
       end
     else true) (co_events o) = true <->
  (forall id n r comp, In (id, n, r, comp) (co_events o) -> is_acc r ->
      exists k, call_of n (index_calls 0 (co_compose o)) = Some k /\
        forall id2 n2 r2 comp2, In (id2, n2, r2, comp2) (co_events o) -> id = id2 -> thread_of n = thread_of n2 -> n < n2 -> is_acc r2 ->
          exists k2, call_of n2 (index_calls 0 (co_compose o)) = Some k2 /\ k <= k2).
Proof.
  rewrite forallb_forall. split.
  - intros H id n r comp He Hr. specialize (H _ He). cbn beta iota in H. rewrite (proj2 (is_acc_b r) Hr) in H.
    destruct (call_of n (index_calls 0 (co_compose o))) as [k|]; [|discriminate]. exists k. split; [reflexivity|].
    intros id2 n2 r2 comp2 He2 Hid Ht Hn Hr2. rewrite forallb_forall in H. specialize (H _ He2). cbn beta iota in H.
    subst id2. rewrite N.eqb_refl, Ht, N.eqb_refl, (proj2 (N.ltb_lt _ _) Hn), (proj2 (is_acc_b r2) Hr2) in H. cbn [andb negb orb] in H.
    destruct (call_of n2 (index_calls 0 (co_compose o))) as [k2|]; [|discriminate]. exists k2. split; [reflexivity|apply N.leb_le, H].
  - intros H [[[id n] r] comp] He. cbn beta iota. destruct (N.eqb r 1 || N.eqb r 2) eqn:Er; [|reflexivity].
    destruct (H id n r comp He (proj1 (is_acc_b r) Er)) as [k [Hk H2]]. rewrite Hk. apply forallb_forall.
    intros [[[id2 n2] r2] comp2] He2. cbn beta iota.
    destruct (N.eqb id id2 && N.eqb (thread_of n) (thread_of n2) && N.ltb n n2 && (N.eqb r2 1 || N.eqb r2 2)) eqn:Eg; [|reflexivity].
    cbn [negb orb]. apply andb_true_iff in Eg as [Eg E4]. apply andb_true_iff in Eg as [Eg E3]. apply andb_true_iff in Eg as [E1 E2].
    apply N.eqb_eq in E1, E2. apply N.ltb_lt in E3. apply is_acc_b in E4.
    destruct (H2 id2 n2 r2 comp2 He2 E1 E2 E3 E4) as [k2 [Hk2 Hle]]. rewrite Hk2. apply N.leb_le, Hle.
Qed.

Lemma chk_comp (o : cobs) :
  forallb (fun e : cev => let '(id, n, r, comp) := e in
     if N.eqb r 2 then existsb (fun a => eq_list pair_eqb a comp) (co_compose o) && N.eqb (snd (last comp (0, 0))) n
     else negb (nonempty comp)) (co_events o) = true <->
  (forall id n r comp, In (id, n, r, comp) (co_events o) ->
      (r = 2 -> In comp (co_compose o) /\ snd (last comp (0, 0)) = n) /\ (r <> 2 -> comp = [])).
Proof.
  rewrite forallb_forall. split.
  - intros H id n r comp He. specialize (H _ He). cbn beta iota in H. destruct (N.eqb r 2) eqn:Er.
    + apply N.eqb_eq in Er. split; [|intros Hn; contradiction]. intros _. apply andb_true_iff in H as [H1 H2]. split; [|apply N.eqb_eq, H2].
      apply existsb_exists in H1 as [a [Ha Hc]]. apply pairs_eq in Hc. subst. exact Ha.
    + apply N.eqb_neq in Er. split; [intros Hr; contradiction|]. intros _. apply negb_true_iff, nonempty_false in H. exact H.
  - intros H [[[id n] r] comp] He. cbn beta iota. destruct (H id n r comp He) as [H1 H2]. destruct (N.eqb r 2) eqn:Er.
    + apply N.eqb_eq in Er. destruct (H1 Er) as [Hin Hl]. apply andb_true_iff. split; [|apply N.eqb_eq, Hl].
      apply existsb_exists. exists comp. split; [exact Hin|apply pairs_eq; reflexivity].
    + apply N.eqb_neq in Er. rewrite (H2 Er). reflexivity.
Qed.

Lemma chk_emptyid (o : cobs) :
  forallb (fun e : cev => let '(id, n, r, _) := e in if N.eqb id 0 then N.eqb r 3 else true) (co_events o) = true <->
  (forall id n r comp, In (id, n, r, comp) (co_events o) -> id = 0 -> r = 3).
Proof.
  rewrite forallb_forall. split.
  - intros H id n r comp He Hid. specialize (H _ He). cbn beta iota in H. subst id. cbn in H. apply N.eqb_eq, H.
  - intros H [[[id n] r] comp] He. cbn beta iota. destruct (N.eqb id 0) eqn:Ei; [|reflexivity]. apply N.eqb_eq in Ei. apply N.eqb_eq. eapply H; eauto.
Qed.

Lemma chk_conc (o : cobs) :
  forallb (fun p => existsb (fun e : cev => let '(id, n, _, _) := e in N.eqb id (fst p) && N.eqb n (snd p)) (co_events o)) (concat (co_compose o)) = true <->
  (forall p, In p (concat (co_compose o)) -> exists r comp, In (fst p, snd p, r, comp) (co_events o)).
Proof.
  rewrite forallb_forall. split; intros H p Hp; specialize (H p Hp).
  - apply existsb_exists in H as [[[[id n] r] comp] [He Hb]]. apply andb_true_iff in Hb as [H1 H2]. apply N.eqb_eq in H1, H2. subst. eauto.
  - destruct H as [r [comp He]]. apply existsb_exists. exists (fst p, snd p, r, comp). split; [exact He|]. rewrite !N.eqb_refl. reflexivity.
Qed.

Theorem conc_check_spec o : conc_check o = [] <-> conc_ok o.
Proof.
  unfold conc_check. rewrite !app_nil_both, !ite_nil, !ite_nil'.
  rewrite chk_order, chk_lost, chk_comp, chk_emptyid, chk_conc. rewrite !andb_true_iff, chk_sent1, chk_sent2, !nodupb_NoDup, N.eqb_eq, negb_true_iff, nonempty_false.
  split.
  - intros [[D1 D2] [[S1 S2] [C [O [L [Cm [E [Cc [F [Sg Mu]]]]]]]]]]. constructor; assumption.
  - intros [D1 D2 S1 S2 C O L Cm E Cc F Sg Mu].
    exact (conj (conj D1 D2) (conj (conj S1 S2) (conj C (conj O (conj L (conj Cm (conj E (conj Cc (conj F (conj Sg Mu)))))))))).
Qed.

(* [conc_mismatches cases = []] iff every concurrent case meets the declarative oracle *)
Theorem conc_mismatches_nil_iff : forall cs, conc_mismatches cs = [] <-> Forall (fun c => conc_ok (cc_obs c)) cs.
Proof.
  induction cs as [|c cs IH]; [split; [constructor|reflexivity]|].
  unfold conc_mismatches in *. cbn [flat_map]. rewrite app_nil_both, map_nil, IH, conc_check_spec. split.
  - intros [H1 H2]. constructor; assumption.
  - intros H. inversion H; subst. split; assumption.
Qed.
Print Assumptions conc_mismatches_nil_iff.
