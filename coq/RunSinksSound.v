(* RunSinksSound.v — what an empty mismatch list of Run_Sinks MEANS (C13).
   [Run_Sinks.mismatches cases = []] iff every case is accepted in the declarative sense below: the observation is what the
   model Sinks.v produces on the case's inputs (writer.Sink, FileSink) / is one of the outcomes the model allows (ChannelSink:
   select may take any arm that is ready within the slack of the earliest one — the timing-ambiguous choice is read off the
   observation), and the observation-only statement of C13 holds.  The engine reports the kind KFsRetryPrefix (finding
   KF-C13-filesink-retry-leaves-prefix) as KNOWN-FINDING instead of VIOLATION; that leniency is stated too:
   [mismatches_modulo_known_nil_iff] is the same equivalence with the known shape admitted. *)
From Coq Require Import List Bool Arith NArith ZArith Lia.
From Verif Require Import Sinks SinksProofs Run_Sinks.
Import ListNotations.

(* ---------- small tools ---------- *)
Lemma app_nil_both {A} (a c : list A) : a ++ c = [] <-> a = [] /\ c = [].
Proof. split; [destruct a; cbn; [auto|discriminate]|intros [-> ->]; reflexivity]. Qed.
Lemma map_nil {A B} (f : A -> B) l : map f l = [] <-> l = [].
Proof. split; [destruct l; cbn; [auto|discriminate]|intros ->; reflexivity]. Qed.
Lemma ite_nil {A} (c : bool) (x : A) : (if c then [] else [x]) = [] <-> c = true.
Proof. destruct c; split; auto; discriminate. Qed.
Lemma ite_nil' {A} (c : bool) (x : A) : (if c then [x] else []) = [] <-> c = false.
Proof. destruct c; split; auto; discriminate. Qed.

Lemma eq_list_eq {A} (eq : A -> A -> bool) : (forall x y, eq x y = true <-> x = y) -> forall a c, eq_list eq a c = true <-> a = c.
Proof.
  intros He. induction a as [|x s IH]; intros [|y t]; cbn [eq_list]; try (split; [discriminate|discriminate]); [split; reflexivity|].
  rewrite andb_true_iff, He, IH. split; [intros [-> ->]; reflexivity|intros H; injection H as -> ->; auto].
Qed.
Lemma eqNl_eq a c : eqNl a c = true <-> a = c.
Proof. apply eq_list_eq. intros x y. apply N.eqb_eq. Qed.
Lemma eqNll_eq a c : eq_list eqNl a c = true <-> a = c.
Proof. apply eq_list_eq, eqNl_eq. Qed.
Lemma call_eqb_eq a b : call_eqb a b = true <-> a = b.
Proof.
  destruct a as [a1 a2], b as [b1 b2]. unfold call_eqb. cbn [fst snd]. rewrite andb_true_iff, eqNl_eq, N.eqb_eq.
  split; [intros [-> ->]; reflexivity|intros H; injection H as -> ->; auto].
Qed.
Lemma calls_eq a c : eq_list call_eqb a c = true <-> a = c.
Proof. apply eq_list_eq, call_eqb_eq. Qed.
Lemma memN_In x l : memN x l = true <-> In x l.
Proof. unfold memN. rewrite existsb_exists. split; [intros [y [Hy He]]; apply N.eqb_eq in He; subst; exact Hy|intros H; exists x; split; [exact H|apply N.eqb_refl]]. Qed.
Lemma nodupb_NoDup l : nodupb l = true <-> NoDup l.
Proof.
  induction l as [|x t IH]; cbn [nodupb]; [split; [constructor|reflexivity]|].
  rewrite andb_true_iff, negb_true_iff, IH. split.
  - intros [Hn Ht]. constructor; [|exact Ht]. intros Hin. apply memN_In in Hin. congruence.
  - intros H. inversion H as [|? ? Hn Ht]; subst. split; [|exact Ht]. destruct (memN x t) eqn:E; [apply memN_In in E; contradiction|reflexivity].
Qed.
Lemma subsetb_incl a b : subsetb a b = true <-> incl a b.
Proof. unfold subsetb, incl. rewrite forallb_forall. split; intros H x Hx; apply memN_In, H, Hx. Qed.

(* ================= CW: one writer.Sink.Process call ================= *)
Definition stored (c : wcase) : option (list N) := match w_event c with Some t => lookup (eff_format (w_fmt c)) t | None => None end.

Record w_ok (c : wcase) : Prop := {
  (* the result and the Write calls seen are exactly the model's *)
  wk_model : writer_process (w_fmt c) (w_wnil c) (w_event c) (writer_of (w_beh c)) = (match wo_res (w_obs c) with 0 => SOk | 1 => SErr | _ => SPanic end, wo_calls (w_obs c))%N;
  wk_res : (wo_res (w_obs c) <= 2)%N;
  (* the statement of C13 on the observations alone *)
  wk_spec : match stored c with
            | Some val => (wo_res (w_obs c) = 0%N -> received (wo_calls (w_obs c)) = val /\ (length (wo_calls (w_obs c)) <= 1)%nat) /\
                          (forall cl, In cl (wo_calls (w_obs c)) -> fst cl = val)
            | None => wo_res (w_obs c) <> 0%N /\ wo_calls (w_obs c) = []
            end
}.

Lemma res_code_inv r n : res_code r = n <-> (r = match n with 0 => SOk | 1 => SErr | _ => SPanic end /\ n <= 2)%N.
Proof.
  destruct r; cbn [res_code]; split; try (intros <-; split; [reflexivity|lia]);
    intros [H Hn]; destruct n as [|[p|p|]]; try discriminate; try reflexivity; lia.
Qed.

Theorem check_w_spec c : check_w c = [] <-> w_ok c.
Proof.
  unfold check_w. fold (stored c). destruct (writer_process (w_fmt c) (w_wnil c) (w_event c) (writer_of (w_beh c))) as [r calls] eqn:Ew.
  rewrite !app_nil_both, !ite_nil, N.eqb_eq, calls_eq, res_code_inv.
  assert (Hspec : (match stored c with
     | Some val => (if N.eqb (wo_res (w_obs c)) 0 then eqNl (received (wo_calls (w_obs c))) val && Nat.leb (length (wo_calls (w_obs c))) 1 else true) &&
                   forallb (fun cl => eqNl (fst cl) val) (wo_calls (w_obs c))
     | None => negb (N.eqb (wo_res (w_obs c)) 0) && match wo_calls (w_obs c) with [] => true | _ => false end end) = true <->
     match stored c with
     | Some val => (wo_res (w_obs c) = 0%N -> received (wo_calls (w_obs c)) = val /\ (length (wo_calls (w_obs c)) <= 1)%nat) /\
                   (forall cl, In cl (wo_calls (w_obs c)) -> fst cl = val)
     | None => wo_res (w_obs c) <> 0%N /\ wo_calls (w_obs c) = [] end).
  { destruct (stored c) as [val|].
    - rewrite andb_true_iff, forallb_forall. split; intros [H1 H2]; (split; [|intros cl Hcl; apply eqNl_eq || apply (proj2 (eqNl_eq _ _)); apply H2, Hcl]).
      + intros Hr. rewrite Hr in H1. cbn in H1. apply andb_true_iff in H1 as [Ha Hb]. split; [apply eqNl_eq, Ha|apply Nat.leb_le, Hb].
      + destruct (N.eqb (wo_res (w_obs c)) 0) eqn:E; [|reflexivity]. apply N.eqb_eq in E. destruct (H1 E) as [Ha Hb].
        apply andb_true_iff. split; [apply eqNl_eq, Ha|apply Nat.leb_le, Hb].
    - rewrite andb_true_iff, negb_true_iff, N.eqb_neq. split; intros [H1 H2]; (split; [exact H1|]); destruct (wo_calls (w_obs c)); try reflexivity; discriminate. }
  rewrite Hspec. split.
  - intros [[Hr Hn] [Hc Hs]]. subst. constructor; [exact Ew|exact Hn|exact Hs].
  - intros [Hm Hn Hs]. rewrite Ew in Hm. injection Hm as -> ->. repeat split; assumption.
Qed.

(* ================= CC: concurrent writer.Sink.Process calls ================= *)
Definition ok_calls (c : ccase) : list N := map fst (filter (fun p => N.eqb (snd p) 0) (co_res (cc_obs c))).

Record c_ok (c : ccase) : Prop := {
  (* the stream is the concatenation of whole values, in some order of the calls (writes_contiguous) ... *)
  ck_stream : co_stream (cc_obs c) = concat (map (cval c) (co_order (cc_obs c)));
  (* ... each successful call exactly once, no other *)
  ck_nodup : NoDup (co_order (cc_obs c));
  ck_set : forall i, In i (co_order (cc_obs c)) <-> In i (ok_calls c);
  (* a call succeeds iff its event carries the format *)
  ck_res : forall i v, In (i, v) (cc_calls c) -> In (i, match v with Some _ => 0 | None => 1 end)%N (co_res (cc_obs c));
  ck_order : thread_ordered (co_order (cc_obs c)) = true;
  ck_overlap : co_overlap (cc_obs c) = false
}.

Theorem check_c_spec c : check_c c = [] <-> c_ok c.
Proof.
  unfold check_c. fold (ok_calls c). rewrite !app_nil_both, !ite_nil, ite_nil', eqNl_eq, !andb_true_iff, nodupb_NoDup, !subsetb_incl.
  assert (Hres : forallb (fun p => match snd p with
                        | Some _ => existsb (fun q => N.eqb (fst q) (fst p) && N.eqb (snd q) 0) (co_res (cc_obs c))
                        | None => existsb (fun q => N.eqb (fst q) (fst p) && N.eqb (snd q) 1) (co_res (cc_obs c)) end) (cc_calls c) = true <->
                 (forall i v, In (i, v) (cc_calls c) -> In (i, match v with Some _ => 0 | None => 1 end)%N (co_res (cc_obs c)))).
  { rewrite forallb_forall. split.
    - intros H i v Hin. specialize (H _ Hin). cbn [fst snd] in H. destruct v; apply existsb_exists in H as [[q1 q2] [Hq Hb]];
        apply andb_true_iff in Hb as [H1 H2]; apply N.eqb_eq in H1, H2; cbn [fst snd] in *; subst; exact Hq.
    - intros H [i v] Hin. specialize (H i v Hin). cbn [fst snd]. destruct v; apply existsb_exists; eexists; (split; [exact H|]); cbn [fst snd]; rewrite !N.eqb_refl; reflexivity. }
  rewrite Hres. split.
  - intros [H1 [[[H2 H3] H4] [H5 [H6 H7]]]]. constructor; try assumption. intros i. split; [apply H3|apply H4].
  - intros [H1 H2 H3 H4 H5 H6]. repeat split; try assumption; intros i Hi; apply H3, Hi.
Qed.

(* ================= CF: one FileSink.Process call ================= *)
Definition f_path (c : fcase) : pathkind := match f_kind c with 0 => PNull | 1 | 6 | 8 => PStdout | 2 | 7 | 9 => PStderr | _ => PFile end%N.
Definition f_failing (c : fcase) : bool := match f_kind c with 4 | 6 | 7 | 8 | 9 => true | _ => false end%N.
Definition f_env (c : fcase) : fsenv :=
  {| fs_open_ok := negb (N.eqb (f_kind c) 5); fs_w1 := writer_of (if f_failing c then WFail0 else WOk); fs_reopen_ok := true;
     fs_w2 := writer_of (if f_failing c then WFail0 else WOk) |}.

(* the result is the model's and the bytes that arrived are the bytes the model's Write calls delivered *)
Definition f_ok (c : fcase) : Prop :=
  exists r calls, filesink_process (f_path c) (f_fmt c) (f_table c) (f_env c) = (r, calls) /\
                  res_code r = fo_res (f_obs c) /\ received calls = fo_bytes (f_obs c).

Theorem check_f_spec c : check_f c = [] <-> f_ok c.
Proof.
  unfold check_f, f_ok. fold (f_path c). fold (f_failing c). fold (f_env c).
  destruct (filesink_process (f_path c) (f_fmt c) (f_table c) (f_env c)) as [r calls].
  rewrite app_nil_both, !ite_nil, N.eqb_eq, eqNl_eq. split.
  - intros [H1 H2]. exists r, calls. auto.
  - intros [r' [calls' [He [H1 H2]]]]. injection He as <- <-. auto.
Qed.

(* ================= CH: one ChannelSink.Process call in a timed scenario ================= *)
Definition h_env (c : hcase) : tenv := {| t0 := 0; timeout := h_timeout c; chan_at := h_chan_at c; ctx_at := h_ctx_at c |}.
Definition arm_of_code (n : N) : option arm := match n with 0 => Some ASent | 1 => Some ACtx | 2 => Some ATimeout | _ => None end%N.

(* select may have taken [a]: it was ready no later than [slack] after the earliest ready arm.  With slack 0 this is exactly
   Sinks.may_choose; the harness' scenarios keep competing arms either within a few ms (both admitted) or seconds apart. *)
Definition within_slack (T : tenv) (slack : Z) (a : arm) : Prop := exists tx, arm_time T a = Some tx /\ (tx <= ret_time T + slack)%Z.

Record h_ok (c : hcase) : Prop := {
  hk_arm : exists a, arm_of_code (ho_arm (h_obs c)) = Some a /\
     (* exactly one of: the very event handed over and success / nothing handed over and an error *)
     (match a with ASent => ho_delivered (h_obs c) = true /\ ho_same (h_obs c) = true | _ => ho_delivered (h_obs c) = false end) /\
     (* the arm is one the timed model allows (the timing-ambiguous choice is read off the observation) *)
     within_slack (h_env c) (h_slack c) a /\
     (* a timeout error only once the timeout has elapsed *)
     (a = ATimeout -> (h_timeout c <= ho_latency (h_obs c))%Z);
  hk_latency : (ho_latency (h_obs c) <= 50 * (ret_time (h_env c) + 20000))%Z
}.

Theorem check_h_spec c : check_h c = [] <-> h_ok c.
Proof.
  unfold check_h. fold (h_env c). fold (arm_of_code (ho_arm (h_obs c))).
  rewrite !app_nil_both, ite_nil. split.
  - intros [H1 [H2 [H3 H4]]]. apply ite_nil, Z.leb_le in H4. constructor; [|exact H4].
    destruct (arm_of_code (ho_arm (h_obs c))) as [a|]; [|discriminate]. exists a. split; [reflexivity|].
    split; [destruct a; [apply andb_true_iff in H1; exact H1|apply negb_true_iff, H1|apply negb_true_iff, H1]|].
    split.
    + destruct (arm_time (h_env c) a) as [tx|] eqn:Et; [|discriminate]. apply ite_nil, Z.leb_le in H2. exists tx. split; [exact Et|exact H2].
    + intros ->. apply ite_nil', Z.ltb_ge in H3. exact H3.
  - intros [[a [Ha [Hd [[tx [Ht Hs]] He]]]] Hl]. rewrite Ha. repeat split.
    + destruct a; [destruct Hd as [-> ->]; reflexivity|rewrite Hd; reflexivity|rewrite Hd; reflexivity].
    + rewrite Ht. apply ite_nil, Z.leb_le, Hs.
    + destruct a; try reflexivity. apply ite_nil', Z.ltb_ge, He. reflexivity.
    + apply ite_nil, Z.leb_le, Hl.
Qed.

Lemma omin_le_l a b x : a = Some x -> (omin a b <= x)%Z.
Proof. intros ->. cbn. lia. Qed.
Lemma omin_le_r a b : (omin a b <= b)%Z.
Proof. destruct a; cbn; lia. Qed.
Lemma ret_time_le T a tx : arm_time T a = Some tx -> (ret_time T <= tx)%Z.
Proof.
  unfold ret_time. destruct a; intros H.
  - apply omin_le_l, H.
  - etransitivity; [apply omin_le_r|]. apply omin_le_l, H.
  - cbn in H. injection H as <-. etransitivity; [apply omin_le_r|]. apply omin_le_r.
Qed.
(* with no slack, "within slack" is the model's may_choose *)
Theorem within_slack_0 T a : within_slack T 0 a <-> may_choose T a.
Proof.
  unfold within_slack, may_choose. split.
  - intros [tx [Ht Hs]]. rewrite Ht. f_equal. pose proof (ret_time_le T a tx Ht). lia.
  - intros H. exists (ret_time T). split; [exact H|lia].
Qed.

(* ================= CG: simultaneous ChannelSink.Process calls, k free slots, nobody draining ================= *)
Record g_ok (c : gcase) : Prop := {
  gk_hung : go_hung (g_obs c) = 0%N /\ lenN (go_calls (g_obs c)) = lenN (g_ctxs c);        (* every call returned *)
  gk_sent : (countN 0 (map fst (go_calls (g_obs c))) <= N.min (g_free c) (lenN (g_ctxs c)))%N;   (* at most k deliveries *)
  (* everybody else: the error of whichever is shorter for that caller, timeout or its own context *)
  gk_arms : forall ctx r, In (ctx, r) (combine (g_ctxs c) (go_calls (g_obs c))) -> fst r = 0%N \/ fst r = g_err_arm (g_timeout c) ctx;
  gk_delivered : go_delivered_ok (g_obs c) = true;
  gk_early : go_early (g_obs c) = false;
  (* no caller blocked longer than the shorter of the two (+ slack), measured from its own entry *)
  gk_latency : forall ctx r, In (ctx, r) (combine (g_ctxs c) (go_calls (g_obs c))) -> (snd r <= g_bound (g_timeout c) ctx + g_slack c)%Z
}.
Theorem check_g_spec c : check_g c = [] <-> g_ok c.
Proof.
  unfold check_g. rewrite !app_nil_both, !ite_nil, ite_nil', !andb_true_iff, !N.eqb_eq, N.leb_le, !forallb_forall. split.
  - intros [[H1 H1'] [[H2 H3] [H4 [H5 H6]]]]. constructor; try assumption; try (split; assumption).
    + intros ctx r Hin. specialize (H3 _ Hin). cbn [fst snd] in H3. apply orb_true_iff in H3 as [H3|H3]; apply N.eqb_eq in H3; auto.
    + intros ctx r Hin. specialize (H6 _ Hin). cbn [fst snd] in H6. apply Z.leb_le, H6.
  - intros [[H1 H1'] H2 H3 H4 H5 H6]. repeat split; try assumption.
    + intros [ctx r] Hin. cbn [fst snd]. apply orb_true_iff. destruct (H3 ctx r Hin) as [H|H]; [left|right]; apply N.eqb_eq, H.
    + intros [ctx r] Hin. cbn [fst snd]. apply Z.leb_le, (H6 ctx r Hin).
Qed.

(* ================= CP: FileSink.Process under part-way failing writes ================= *)
Definition p_env (L : N) (fresh : bool) (sz : N) : fsenv :=
  {| fs_open_ok := true; fs_w1 := limited (L - sz); fs_reopen_ok := true; fs_w2 := limited (if fresh then L else 0) |}.
Definition p_expect (fresh : bool) (calls : list wcall) : list (list N) :=
  filter nonnil (if fresh then map taken calls else [concat (map taken calls)]).
Definition p_next_size (fresh : bool) (sz : N) (calls : list wcall) : N :=
  match calls with
  | [_; c2] => if fresh then lenN (taken c2) else sz + lenN (concat (map taken calls))
  | _ => sz + lenN (concat (map taken calls)) end%N.

(* the observation-only statement: on success exactly the value, in one piece, in one file ([strict]); or, admitting finding
   KF-C13-filesink-retry-leaves-prefix, also: the whole value in the file written last and a prefix of it before *)
Definition p_oracle (strict : bool) (val : list N) (o : pobs) : Prop :=
  po_res o = 0%N ->
  po_deltas o = filter nonnil [val] \/
  (strict = false /\ last (po_deltas o) [] = val /\ is_prefix (concat (removelast (po_deltas o))) val = true).

Inductive p_accepted (strict : bool) (L : N) (fresh : bool) : N -> list (list N * pobs) -> Prop :=
| pa_nil : forall sz, p_accepted strict L fresh sz []
| pa_step : forall sz val o rest r calls,
    filesink_process PFile 0 [(json_fmt, val)] (p_env L fresh sz) = (r, calls) ->
    res_code r = po_res o -> p_expect fresh calls = po_deltas o ->          (* result and per-file bytes are the model's *)
    p_oracle strict val o ->
    p_accepted strict L fresh (p_next_size fresh sz calls) rest -> p_accepted strict L fresh sz ((val, o) :: rest).

Definition drop_known (l : list (N * kind)) : list (N * kind) :=
  filter (fun x => match snd x with KFsRetryPrefix => false | _ => true end) l.

Lemma run_p_spec (strict : bool) L fresh : forall steps sz i,
  (if strict then run_p L fresh false sz i steps else drop_known (run_p L fresh false sz i steps)) = [] <-> p_accepted strict L fresh sz steps.
Proof.
  induction steps as [|[val o] rest IH]; intros sz i.
  - cbn. destruct strict; split; constructor || reflexivity.
  - cbn [run_p]. fold (p_env L fresh sz).
    destruct (filesink_process PFile 0 [(json_fmt, val)] (p_env L fresh sz)) as [r calls] eqn:Ef.
    fold (p_expect fresh calls). fold (p_next_size fresh sz calls).
    set (mm := (if N.eqb (res_code r) (po_res o) then [] else [KFsRes]) ++ (if eq_list eqNl (p_expect fresh calls) (po_deltas o) then [] else [KFsBytes])).
    set (orc := if N.eqb (po_res o) 0 then
                  if eq_list eqNl (po_deltas o) (filter nonnil [val]) then []
                  else if eqNl (last (po_deltas o) []) val && is_prefix (concat (removelast (po_deltas o))) val then [KFsRetryPrefix] else [KFsTorn]
                else []).
    assert (Hmm : mm = [] <-> res_code r = po_res o /\ p_expect fresh calls = po_deltas o).
    { unfold mm. rewrite app_nil_both, !ite_nil, N.eqb_eq, eqNll_eq. reflexivity. }
    assert (Horc : (if strict then orc else filter (fun k => match k with KFsRetryPrefix => false | _ => true end) orc) = [] <-> p_oracle strict val o).
    { unfold orc, p_oracle. destruct (N.eqb (po_res o) 0) eqn:Er.
      - apply N.eqb_eq in Er. destruct (eq_list eqNl (po_deltas o) (filter nonnil [val])) eqn:E1.
        + apply eqNll_eq in E1. destruct strict; cbn; split; auto.
        + assert (Hne : po_deltas o <> filter nonnil [val]) by (intros Hc; apply eqNll_eq in Hc; congruence).
          destruct (eqNl (last (po_deltas o) []) val && is_prefix (concat (removelast (po_deltas o))) val) eqn:E2.
          * apply andb_true_iff in E2 as [Ea Eb]. apply eqNl_eq in Ea. destruct strict; cbn [filter].
            -- split; [discriminate|]. intros H. destruct (H Er) as [Hc|[Hc _]]; [contradiction|discriminate].
            -- split; [|reflexivity]. intros _ _. right. auto.
          * assert (Hno : forall st : bool, (po_res o = 0%N -> po_deltas o = filter nonnil [val] \/
                     st = false /\ last (po_deltas o) [] = val /\ is_prefix (concat (removelast (po_deltas o))) val = true) -> False).
            { intros st H. destruct (H Er) as [Hc|[_ [Ha Hb]]]; [contradiction|]. apply (proj2 (eqNl_eq _ _)) in Ha. rewrite Ha, Hb in E2. discriminate. }
            destruct strict; cbn [filter]; (split; [discriminate|intros H; exfalso; eapply Hno; exact H]).
      - apply N.eqb_neq in Er. destruct strict; cbn; split; auto; intros _ Hc; contradiction. }
    assert (Hsplit : forall tl, (if strict then map (fun k => (i, k)) (mm ++ orc) ++ tl else drop_known (map (fun k => (i, k)) (mm ++ orc) ++ tl)) = [] <->
              mm = [] /\ (if strict then orc else filter (fun k => match k with KFsRetryPrefix => false | _ => true end) orc) = [] /\
              (if strict then tl else drop_known tl) = []).
    { intros tl. destruct strict.
      - rewrite app_nil_both, map_nil, app_nil_both. tauto.
      - unfold drop_known. rewrite filter_app, map_app, filter_app, !app_nil_both.
        assert (Hm : filter (fun x : N * kind => match snd x with KFsRetryPrefix => false | _ => true end) (map (fun k => (i, k)) mm) = [] <-> mm = []).
        { unfold mm. destruct (N.eqb (res_code r) (po_res o)), (eq_list eqNl (p_expect fresh calls) (po_deltas o)); cbn; split; auto; discriminate. }
        assert (Ho : filter (fun x : N * kind => match snd x with KFsRetryPrefix => false | _ => true end) (map (fun k => (i, k)) orc) = [] <->
                     filter (fun k => match k with KFsRetryPrefix => false | _ => true end) orc = []).
        { generalize orc. clear. intros l. induction l as [|k t IHt]; [split; reflexivity|]. cbn [map filter snd]. destruct k; try (split; discriminate). exact IHt. }
        rewrite Hm, Ho. tauto. }
    rewrite Hsplit, Hmm, Horc. split.
    + intros [[H1 H2] [H3 H4]]. assert (Hd : (false || match mm with [] => false | _ :: _ => true end) = false) by (replace mm with (@nil kind) by (symmetry; apply Hmm; auto); reflexivity).
      rewrite Hd in H4. econstructor; eauto. apply (IH _ (N.succ i)). exact H4.
    + intros H. inversion H as [|sz0 val0 o0 rest0 r0 calls0 Ef0 H1 H2 H3 H4]; subst. rewrite Ef in Ef0. injection Ef0 as <- <-.
      split; [split; assumption|]. split; [exact H3|].
      assert (Hd : (false || match mm with [] => false | _ :: _ => true end) = false) by (replace mm with (@nil kind) by (symmetry; apply Hmm; auto); reflexivity).
      rewrite Hd. apply (IH _ (N.succ i)). exact H4.
Qed.

Definition p_ok (strict : bool) (c : pcase) : Prop := p_accepted strict (p_limit c) (p_fresh c) 0 (p_steps c).

(* ================= all kinds of case ================= *)
Definition case_ok (strict : bool) (c : scase) : Prop :=
  match c with CW x => w_ok x | CC x => c_ok x | CF x => f_ok x | CH x => h_ok x | CP x => p_ok strict x | CG x => g_ok x end.

Lemma zmap_nil {A} (l : list A) : map (fun k => (0%N, k)) l = [] <-> l = [].
Proof. apply map_nil. Qed.

Lemma check_spec_strict c : snd (check c) = [] <-> case_ok true c.
Proof.
  destruct c as [x|x|x|x|x|x]; cbn [check snd case_ok]; rewrite ?zmap_nil.
  - apply check_w_spec.
  - apply check_c_spec.
  - apply check_f_spec.
  - apply check_h_spec.
  - unfold check_p, p_ok. apply (run_p_spec true).
  - apply check_g_spec.
Qed.

(* [mismatches cases = []] iff every case is accepted (strictly: without the known finding's shape) *)
Theorem mismatches_nil_iff : forall cs, mismatches cs = [] <-> Forall (fun ic => case_ok true (snd ic)) cs.
Proof.
  induction cs as [|[i c] cs IH]; [split; [constructor|reflexivity]|].
  unfold mismatches in *. cbn [flat_map fst snd]. pose proof (check_spec_strict c) as Hc. destruct (check c) as [opk ks]. cbn [snd] in Hc.
  rewrite app_nil_both, map_nil, Hc, IH. split; [intros [H1 H2]; constructor; assumption|intros H; inversion H; subst; split; assumption].
Qed.
Print Assumptions mismatches_nil_iff.

(* what the engine actually requires: no mismatch other than the known finding's kind.  That is the same acceptance with the
   known shape (whole value in the file written last, a prefix of it before) admitted on success. *)
Definition modulo_known (l : list (N * (N * N * kind))) : list (N * (N * N * kind)) :=
  filter (fun x => match snd (snd x) with KFsRetryPrefix => false | _ => true end) l.

Lemma check_spec_lenient c :
  filter (fun x : N * kind => match snd x with KFsRetryPrefix => false | _ => true end) (snd (check c)) = [] <-> case_ok false c.
Proof.
  assert (Hz : forall l : list kind, (forall k, In k l -> k <> KFsRetryPrefix) ->
               filter (fun x : N * kind => match snd x with KFsRetryPrefix => false | _ => true end) (map (fun k => (0%N, k)) l) = [] <-> l = []).
  { intros l Hl. destruct l as [|k t]; [split; reflexivity|]. cbn [map filter snd]. pose proof (Hl k (or_introl eq_refl)) as Hk.
    destruct k; try (split; discriminate). contradiction. }
  destruct c as [x|x|x|x|x|x]; cbn [check snd case_ok].
  - rewrite Hz; [apply check_w_spec|]. intros k Hk. unfold check_w in Hk. destruct (writer_process _ _ _ _) as [r calls].
    repeat (apply in_app_or in Hk as [Hk|Hk]); repeat match type of Hk with In _ (if ?b then _ else _) => destruct b end; cbn in Hk; intuition (subst; discriminate).
  - rewrite Hz; [apply check_c_spec|]. intros k Hk. unfold check_c in Hk.
    repeat (apply in_app_or in Hk as [Hk|Hk]); repeat match type of Hk with In _ (if ?b then _ else _) => destruct b end; cbn in Hk; intuition (subst; discriminate).
  - rewrite Hz; [apply check_f_spec|]. intros k Hk. unfold check_f in Hk. destruct (filesink_process _ _ _ _) as [r calls].
    repeat (apply in_app_or in Hk as [Hk|Hk]); repeat match type of Hk with In _ (if ?b then _ else _) => destruct b end; cbn in Hk; intuition (subst; discriminate).
  - rewrite Hz; [apply check_h_spec|]. intros k Hk. unfold check_h in Hk.
    repeat (apply in_app_or in Hk as [Hk|Hk]);
      repeat match type of Hk with
             | In _ (if ?b then _ else _) => destruct b
             | In _ (match ?b with _ => _ end) => destruct b
             end; cbn in Hk; intuition (subst; discriminate).
  - unfold check_p, p_ok. apply (run_p_spec false).
  - rewrite Hz; [apply check_g_spec|]. intros k Hk. unfold check_g in Hk.
    repeat (apply in_app_or in Hk as [Hk|Hk]); repeat match type of Hk with In _ (if ?b then _ else _) => destruct b end; cbn in Hk; intuition (subst; discriminate).
Qed.

Theorem mismatches_modulo_known_nil_iff : forall cs, modulo_known (mismatches cs) = [] <-> Forall (fun ic => case_ok false (snd ic)) cs.
Proof.
  induction cs as [|[i c] cs IH]; [split; [constructor|reflexivity]|].
  unfold mismatches, modulo_known in *. cbn [flat_map fst snd]. rewrite filter_app, app_nil_both, IH.
  pose proof (check_spec_lenient c) as Hc. destruct (check c) as [opk ks]. cbn [snd] in Hc.
  assert (Hf : filter (fun x : N * (N * N * kind) => match snd (snd x) with KFsRetryPrefix => false | _ => true end)
                 (map (fun k : N * kind => (i, (fst k, opk, snd k))) ks) = [] <->
               filter (fun x : N * kind => match snd x with KFsRetryPrefix => false | _ => true end) ks = []).
  { clear. induction ks as [|[j k] t IHt]; [split; reflexivity|]. cbn [map filter fst snd]. destruct k; try (split; discriminate). exact IHt. }
  rewrite Hf, Hc. split; [intros [H1 H2]; constructor; assumption|intros H; inversion H; subst; split; assumption].
Qed.
Print Assumptions mismatches_modulo_known_nil_iff.
