(* Run_Broker.v — executable comparison of the registry model with observations of the real Broker.
   A case is a history of operations, each paired with what the harness observed on the implementation
   right after the call.  [mismatches] lists every point where the model disagrees with the observation,
   tagged with the kind of observable, and every point where an observation-only oracle of a property fails. *)
From Coq Require Import List Bool Arith NArith ZArith.
From Verif Require Import Alist Broker.
Import ListNotations.

Inductive hop := HOp (o : op) | HReopen (fail : N)
  | HReopenRm (ety pid : N) (* Broker.Reopen during which a node's Reopen callback removes pipeline (ety, pid): re-entrant
                               mutation of the registry while it is being walked *).

(* per event type of the case's universe *)
Record tobs := { t_ety : N; t_isany : bool; t_deliv : list N; t_thr : Z * bool; t_thrs : Z * bool }.
Record bobs := {
  ob_ok : bool;                       (* call reported success (RemovePipelineAndNodes: returned true; Reopen: nil) *)
  ob_err : bool;                      (* an error value was returned (Reopen: it carries the injected failure) *)
  ob_closed : list N;                 (* objects whose Close ran during the call, sorted *)
  ob_nodes : list (N * (N * bool));   (* registered nodes sorted by id: (id, (object, in use)) *)
  ob_pipes : list (N * (N * list N)); (* registered pipelines sorted: (type, (pipeline id, linked objects)) *)
  ob_types : list tobs;
  ob_reopened : list N;               (* Reopen: objects whose Reopen ran, sorted, distinct *)
}.

Inductive kind := KOk | KErr | KClosed | KNodeSet | KNodeObj | KInUse | KPipes | KIsAny | KDeliv | KThr | KReopen
                | KFrame (* observation-only: a refused call changed the observable state *)
                | KDoubleClose (* observation-only: an object was closed twice in the history *)
                | KIsAnySpec (* observation-only: IsAnyPipelineRegistered disagrees with the observed pipelines *).

Section Sort.
  Context {A : Type} (leb : A -> A -> bool).
  Fixpoint ins (x : A) (l : list A) : list A :=
    match l with [] => [x] | y :: t => if leb x y then x :: l else y :: ins x t end.
  Fixpoint isort (l : list A) : list A := match l with [] => [] | x :: t => ins x (isort t) end.
End Sort.

Definition model_nodes (b : broker) : list (N * (N * bool)) :=
  isort (fun a c => N.leb (fst a) (fst c)) (map (fun kv => (fst kv, (nu_obj (snd kv), in_use (snd kv)))) (b_nodes b)).
Definition pipe_leb (a c : N * (N * list N)) : bool :=
  N.ltb (fst a) (fst c) || (N.eqb (fst a) (fst c) && N.leb (fst (snd a)) (fst (snd c))).
Definition model_pipes (b : broker) : list (N * (N * list N)) :=
  isort pipe_leb (map (fun kp => (fst (fst kp), (snd (fst kp), map fst (p_objs (snd kp))))) (b_pipes b)).

Definition eqb_zb (a c : Z * bool) : bool := Z.eqb (fst a) (fst c) && Bool.eqb (snd a) (snd c).
Fixpoint eq_list {A} (eq : A -> A -> bool) (a c : list A) : bool :=
  match a, c with [] , [] => true | x :: s, y :: t => eq x y && eq_list eq s t | _, _ => false end.

Definition opkind (h : hop) : N :=
  match h with
  | HOp (RegisterNode _ _ _ _) => 1 | HOp (RemoveNode _) => 2 | HOp (RegisterPipeline _ _ _ _) => 3
  | HOp (RemovePipeline _ _) => 4 | HOp (RemovePipelineAndNodes _ _) => 5
  | HOp (SetThr _ _) => 6 | HOp (SetThrSinks _ _) => 7 | HReopen _ => 8 | HReopenRm _ _ => 9
  end%N.

(* does the model say the call succeeded / returned an error value *)
Definition model_ok (o : op) (r : rclass) : bool :=
  match o, r with
  | _, ROk => true
  | RemovePipelineAndNodes _ _, RCloseErr => true      (* "true along with any errors" *)
  | _, _ => false
  end.
Definition model_err (r : rclass) : bool := match r with ROk => false | _ => true end.

Definition check_types (b : broker) (obs : list tobs) : list kind :=
  flat_map (fun t =>
    (if Bool.eqb (is_any b (t_ety t)) (t_isany t) then [] else [KIsAny]) ++
    (if eqNl (sortN (concat (deliveries b (t_ety t)))) (t_deliv t) then [] else [KDeliv]) ++
    (if eqb_zb (get_thr b (t_ety t)) (t_thr t) && eqb_zb (get_thr_sinks b (t_ety t)) (t_thrs t) then [] else [KThr])) obs.

Definition check_state (b : broker) (o : bobs) : list kind :=
  (if eqNl (map fst (model_nodes b)) (map fst (ob_nodes o)) then
     (if eqNl (map (fun x => fst (snd x)) (model_nodes b)) (map (fun x => fst (snd x)) (ob_nodes o)) then [] else [KNodeObj]) ++
     (if eq_list Bool.eqb (map (fun x => snd (snd x)) (model_nodes b)) (map (fun x => snd (snd x)) (ob_nodes o)) then [] else [KInUse])
   else [KNodeSet]) ++
  (if eq_list (fun a c => N.eqb (fst a) (fst c) && N.eqb (fst (snd a)) (fst (snd c)) && eqNl (snd (snd a)) (snd (snd c)))
        (model_pipes b) (ob_pipes o) then [] else [KPipes]) ++
  check_types b (ob_types o).

(* what Reopen may do, whatever the iteration order (proved sound for every order in BrokerProofs.reopen_accepts_sound) *)
Definition reopen_accepts (b : broker) (fail : N) (o : bobs) : bool :=
  let all := sortN (distinct (all_linked_objs b)) in
  if memN fail all then
    negb (ob_ok o) && ob_err o && memN fail (ob_reopened o) && forallb (fun x => memN x all) (ob_reopened o)
  else ob_ok o && eqNl (ob_reopened o) all.

(* Reopen while pipeline (ety, pid) is removed from inside a node's Reopen: no node fails, so the call succeeds; every
   object of the pipelines that stay registered throughout ([b'] = after the removal) is reached; nothing outside the
   registry as it was at the start ([b]) is. *)
Definition reopen_during_accepts (b b' : broker) (o : bobs) : bool :=
  ob_ok o && negb (ob_err o) &&
  forallb (fun x => memN x (ob_reopened o)) (sortN (distinct (all_linked_objs b'))) &&
  forallb (fun x => memN x (sortN (distinct (all_linked_objs b)))) (ob_reopened o).

(* observation-only oracles *)
Definition same_state (a c : bobs) : bool :=
  eq_list (fun x y => N.eqb (fst x) (fst y) && N.eqb (fst (snd x)) (fst (snd y)) && Bool.eqb (snd (snd x)) (snd (snd y))) (ob_nodes a) (ob_nodes c) &&
  eq_list (fun x y => N.eqb (fst x) (fst y) && N.eqb (fst (snd x)) (fst (snd y)) && eqNl (snd (snd x)) (snd (snd y))) (ob_pipes a) (ob_pipes c) &&
  eq_list (fun x y => Bool.eqb (t_isany x) (t_isany y) && eqNl (t_deliv x) (t_deliv y)) (ob_types a) (ob_types c).
Definition nilp (l : list N) : bool := match l with [] => true | _ => false end.
Definition refusal (h : hop) (o : bobs) : bool :=
  match h with
  | HOp (RegisterNode _ _ _ _) | HOp (RemoveNode _) | HOp (RegisterPipeline _ _ _ _) => negb (ob_ok o) && nilp (ob_closed o)
  | HOp (RemovePipelineAndNodes _ _) => negb (ob_ok o)
  | _ => false
  end.
Definition isany_spec (o : bobs) : bool :=
  forallb (fun t => Bool.eqb (t_isany t) (existsb (fun p => N.eqb (fst p) (t_ety t)) (ob_pipes o))) (ob_types o).

Section Case.
  Variable close_fails : list N.
  Variable non_closers : list N.   (* objects that do not implement Closer: the controller "closes" them silently, without error *)
  Definition observable_closes (l : list N) : list N := filter (fun o => negb (memN o non_closers)) l.
  Definition cf (o : N) : bool := memN o close_fails && negb (memN o non_closers).

  Definition nonempty {A} (l : list A) : bool := match l with [] => false | _ => true end.

  (* [div] = the model has already disagreed with the implementation earlier in this history: from then on only
     the observation-only oracles and the API-visible results are evaluated (the model's snapshot is no longer the
     implementation's).  [adiv] = an API-visible result (success / error of a call) has disagreed: the implementation has
     then accepted or refused a different history, so the model is not compared at all any more.  A disagreement on the
     snapshot alone (linked objects, in-use flags) leaves the calls' results - and so the specified registry - the same:
     Reopen and later results are still compared against the model, which is how a registry whose internals went wrong
     without any call reporting it is caught at the call that exposes it. *)
  Fixpoint run_case (div adiv : bool) (b : broker) (prev : option bobs) (closed_so_far : list N) (i : N) (steps : list (hop * bobs))
    : list (N * N * kind) :=
    match steps with
    | [] => []
    | (h, o) :: rest =>
        let tag := map (fun k => (i, opkind h, k)) in
        let oracle :=
          (match prev with
           | Some p => if refusal h o && negb (same_state p o) then [KFrame] else []
           | None => [] end) ++
          (if existsb (fun x => memN x closed_so_far) (ob_closed o) || negb (eqNl (distinct (ob_closed o)) (ob_closed o)) then [KDoubleClose] else []) ++
          (if isany_spec o then [] else [KIsAnySpec]) in
        match h with
        | HOp op0 =>
            let '(b', r, closed) := step cf b op0 in
            let amm := if adiv then [] else
                 (if Bool.eqb (model_ok op0 r) (ob_ok o) then [] else [KOk]) ++
                 (if Bool.eqb (model_err r) (ob_err o) then [] else [KErr]) in
            let mm := amm ++ (if div then [] else
                 (if eqNl (sortN (observable_closes closed)) (ob_closed o) then [] else [KClosed]) ++
                 check_state b' o) in
            tag (mm ++ oracle)
            ++ run_case (div || nonempty mm) (adiv || nonempty amm) b' (Some o) (ob_closed o ++ closed_so_far) (N.succ i) rest
        | HReopen f =>
            let amm := if adiv then [] else (if reopen_accepts b f o then [] else [KReopen]) in
            let mm := amm ++ (if div then [] else check_state b o) in
            tag (mm ++ oracle)
            ++ run_case (div || nonempty mm) adiv b (Some o) closed_so_far (N.succ i) rest
        | HReopenRm ety pid =>
            let b' := fst (fst (step cf b (RemovePipeline ety pid))) in
            let amm := if adiv then [] else (if reopen_during_accepts b b' o then [] else [KReopen]) in
            let mm := amm ++ (if div then [] else check_state b' o) in
            tag (mm ++ oracle)
            ++ run_case (div || nonempty mm) adiv b' (Some o) closed_so_far (N.succ i) rest
        end
    end.
End Case.

Record bcase := { c_id : N; c_close_fails : list N; c_non_closers : list N; c_steps : list (hop * bobs) }.
Definition mismatches (cs : list bcase) : list (N * (N * N * kind)) :=
  flat_map (fun c => map (fun m => (c_id c, m)) (run_case (c_close_fails c) (c_non_closers c) false false b0 None [] 0%N (c_steps c))) cs.

(* coverage vector of a case: which result classes the model went through (for the evidence) *)
Fixpoint classes (cfl : list N) (b : broker) (steps : list (hop * bobs)) : list rclass :=
  match steps with
  | [] => []
  | (HOp o, _) :: rest => let '(b', r, _) := step (cf cfl []) b o in r :: classes cfl b' rest
  | (HReopen _, _) :: rest => classes cfl b rest
  | (HReopenRm e p, _) :: rest => classes cfl (fst (fst (step (cf cfl []) b (RemovePipeline e p)))) rest
  end.
