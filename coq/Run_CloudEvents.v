(* Run_CloudEvents.v — executable comparison of CloudEvents.v with observations of the real cloudevents.FormatterFilter.
   A case carries the configuration, the event (type, time text, the payload's ID() and the JSON image of its data as the
   harness built them), the id the harness read back from the emitted document when a fresh one was drawn (the oracle's
   answer), the table before the call, and the observations: result, table after, the signer's recorded inputs. *)
From Coq Require Import List Bool Arith NArith.
From Verif Require Import Alist Base64 Json Formatters CloudEvents Run_Formatters.
Import ListNotations.
Open Scope N_scope.

Record kpayload := { y_id : option bytes; y_data : dimage }.
Record kcfg := {
  k_nil : bool;                 (* a nil *FormatterFilter *)
  k_source : option bytes; k_schema : option bytes; k_format : cformat;
  k_pred : N;                   (* 0 absent 1 true 2 false, anything else: an error *)
  k_signer : N;                 (* 0 absent 1 succeeds 2 fails 3 succeeds with an empty result
                                   4 honours the context: fails with ctx.Err() when the context handed to Process is done,
                                     succeeds like 1 otherwise *)
  k_tag : bytes;                (* prefix of the harness signer's result *)
  k_types : list bytes }.
Record cobs := {
  b_err : bool; b_out : N; b_table : table; b_frame : bool;
  b_calls : list bytes;         (* the byte strings the signer was called with, in order *)
  b_time_ok : bool;
  b_pred_err : bool;            (* the predicate was invoked during the call and returned an error *)
  b_final : option (option bytes); (* None: unchanged (compared by the harness with its copy); Some x: the value under the format's name re-read after later Process calls on other events (same
                                   and other goroutines) *)
  b_still : bool;               (* when re-read later: payload, type, time and every OTHER entry of the table are unchanged *)
  b_later : N }.                (* number of later Process calls after which it was first seen changed; 0: never *)           (* Go's time parser reads the stored document's time member back as the event's instant
                                   (true when nothing is stored) *)
Record kcase := {
  k_cfg : kcfg;
  k_ctx_done : bool;   (* the context handed to Process was already done (cancelled, past deadline, custom Err() <> nil): the
                          model ignores the context except through the answer of a signer that honours it *)
  k_evnil : bool; k_type : bytes; k_time : option bytes; k_payload : kpayload; k_pre : table;
  k_fresh : bytes; k_obs : cobs }.

(* a history on ONE FormatterFilter: Process calls (each with its own event) and Rotate calls *)
Inductive hstep :=
| HProc (c : kcase)                              (* the k_cfg of c is ignored: the configuration is the history's state *)
| HRot (signer : N) (tag : bytes) (err : bool)   (* Rotate(signer of that kind; 0 = nil), observed: an error was returned *)
| HSet (k : kcfg).                               (* the caller assigned exported fields of the node (or continues with a copy of
                                                    the struct): k is the whole configuration in force from now on *)

Inductive ccase :=
| CHist (id : N) (k : kcfg) (steps : list hstep)
| CCe (id : N) (c : kcase)
| CFresh (id : N) (ids : list bytes)       (* all fresh ids the sequential part of the run observed *)
| CConc (id : N) (events : N) (dups : list bytes) (panics : N)
     (* one shared FormatterFilter used by several goroutines at once on payloads without ID(): number of events, the ids
        that were handed out more than once (computed by the harness), Process calls that panicked *)
| CConcSign (id : N) (events unsigned bad_hmac signed_unlisted panics : N).
     (* one shared FormatterFilter with a signer configured throughout: some goroutines Rotate among a few harness signers
        continuously while others Process events of a listed and of an unlisted type.  Counted by the harness: forwarded
        listed-type events whose stored document carries no serialized / serialized_hmac; listed-type events whose
        serialized_hmac is the result of none of the signers ever installed on the decoded serialized bytes (or whose
        serialized does not decode / is not the document minus the signature); unlisted-type events that carry a signature;
        panics *)

Inductive kind :=
| KErr | KFwd
| KDoc          (* the bytes stored under the format's name differ from the model's document *)
| KOther        (* another entry of the table changed / the document is stored under another name *)
| KFrame        (* observation-only: type, time or payload altered *)
| KSignIn       (* the signer was not called with exactly the unsigned document, or was called when it must not be *)
| KParse        (* observation-only: the stored value is not a JSON document *)
| KFields       (* observation-only: id/source/specversion/type/time/data/datacontentype/dataschema are not as required *)
| KSer          (* observation-only: serialized does not decode to the signer's input, serialized_hmac is not the signer's
                   result on it, or an event that must not be signed carries them *)
| KIndent       (* observation-only: the text format is not indented / the json format is not one line *)
| KErrStored    (* observation-only: Process returned an error that is not the predicate's (invalid configuration, empty id,
                   unencodable data, failed signing), yet the event's format table is not exactly what it was before *)
| KStoredMutated (* observation-only: the stored document changed after Process had returned; step = later Process calls it took *)
| KFresh        (* observation-only: a fresh id is empty or was used twice *)
| KModel.

(* the harness signer: a deterministic function of the bytes it is given *)
Definition sumN (b : bytes) : N := fold_left N.add b 0.
Definition wsum (b : bytes) : N := fold_left (fun acc x => (acc * 31 + x) mod 1000003) b 7.
Definition sig_fn (tag b : bytes) : bytes :=
  tag ++ [65 + sumN b mod 26; 97 + N.of_nat (length b) mod 26; 48 + wsum b mod 10; 48 + (wsum b / 10) mod 10].
Definition signer_of (k : kcfg) (ctx_done : bool) : option (bytes -> sres) :=
  if k_signer k =? 0 then None
  else if k_signer k =? 1 then Some (fun b => SigOk (sig_fn (k_tag k) b))
  else if k_signer k =? 4 then Some (fun b => if ctx_done then SigErr else SigOk (sig_fn (k_tag k) b))
  else if k_signer k =? 2 then Some (fun _ => SigErr)
  else Some (fun _ => SigOk []).

Definition cfg_of (k : kcfg) (ctx_done : bool) : option cfg :=
  if k_nil k then None else
  Some {| c_source := k_source k; c_schema := k_schema k; c_format := k_format k; c_pred := pred_opt (k_pred k);
          c_signer := signer_of k ctx_done; c_sign_types := k_types k |}.
Definition ev_of (c : kcase) : option (event kpayload) :=
  if k_evnil c then None else
  Some {| ev_type := k_type c; ev_time := k_time c; ev_payload := k_payload c; ev_fmt := k_pre c |}.

Definition model_ce (c : kcase) : option (event kpayload) * outcome * list bytes :=
  process y_id y_data (cfg_of (k_cfg c) (k_ctx_done c)) (ev_of c) (Some (k_fresh c)).

Fixpoint mget (k : bytes) (ms : list (bytes * jv)) : option jv :=
  match ms with [] => None | (k', v) :: t => if beqb k k' then Some v else mget k t end.
Definition is_str (o : option jv) (s : bytes) : bool := match o with Some (JStr x) => beqb x s | _ => false end.
Definition str_or_absent (o : option jv) (s : bytes) : bool :=
  match s with [] => match o with None => true | _ => false end | _ => is_str o s end.
Fixpoint list_beqb (a b : list bytes) : bool :=
  match a, b with [], [] => true | x :: a', y :: b' => beqb x y && list_beqb a' b' | _, _ => false end.
Fixpoint nodupb (l : list bytes) : bool :=
  match l with [] => true | x :: t => negb (existsb (beqb x) t) && nodupb t end.

Definition other_than (f : N) (t : table) : table := List.filter (fun kv => negb (fst kv =? f)) t.
Definition opkind (c : kcase) : N :=
  match cfg_of (k_cfg c) false with
  | Some cf => if valid cf then (match k_format (k_cfg c) with FText => 2 | _ => 1 end) else 3
  | None => 3
  end.

(* C18's statement about the stored document, evaluated on the observation alone (given the configuration and the event) *)
Definition id_ok (c : kcase) (ms : list (bytes * jv)) : bool :=
  match mget s_id ms with
  | Some (JStr i) => nonempty i && match y_id (k_payload c) with Some want => beqb i (sanitize want) | None => true end
  | _ => false
  end.
Definition time_is_str (ms : list (bytes * jv)) : bool := match mget s_time ms with Some (JStr _) => true | _ => false end.
Definition data_ok (c : kcase) (ms : list (bytes * jv)) : bool :=
  match y_data (k_payload c), mget s_data ms with
  | DVal v, Some v' => jv_eqb v' (jimage v)
  | DAbsent, None => true
  | _, _ => false
  end.
Definition src_of (k : kcfg) : bytes := match k_source k with Some s => s | None => [] end.
Definition schema_of (k : kcfg) : bytes := match k_schema k with Some s => s | None => [] end.
Definition fields_ok (k : kcfg) (c : kcase) (ms : list (bytes * jv)) : bool :=
  id_ok c ms
  && is_str (mget s_source ms) (sanitize (src_of k))
  && is_str (mget s_specversion ms) v_spec
  && is_str (mget s_type ms) (sanitize (k_type c))
  && time_is_str ms
  && is_str (mget s_datacontenttype ms) (ctype (k_format k))
  && str_or_absent (mget s_dataschema ms) (sanitize (schema_of k))
  && data_ok c ms.

Definition drop_sig (ms : list (bytes * jv)) : list (bytes * jv) :=
  List.filter (fun kv => negb (beqb (fst kv) s_serialized || beqb (fst kv) s_serialized_hmac)) ms.
(* must this event be signed: a signer is configured and the type is listed *)
Definition signs (k : kcfg) (c : kcase) : bool := negb (k_signer k =? 0) && existsb (beqb (k_type c)) (k_types k).
Definition hmac_expected (k : kcfg) (u : bytes) : bytes :=
  sanitize (if (k_signer k =? 1) || (k_signer k =? 4) then sig_fn (k_tag k) u else []).
Definition ser_ok (k : kcfg) (c : kcase) (ms : list (bytes * jv)) (calls : list bytes) : bool :=
  if signs k c then
    match mget s_serialized ms, calls with
    | Some (JStr s), [u] =>
        (* serialized decodes to the bytes the signer was given ... *)
        (match Base64.decode s with Some u' => beqb u' u | None => false end)
        (* ... serialized_hmac is the signer's result on them ... *)
        && str_or_absent (mget s_serialized_hmac ms) (hmac_expected k u)
        (* ... and they are the unsigned document: the stored one without the two signature members *)
        && (match parse_doc u with Some (JObj us) => jv_eqb (JObj us) (JObj (drop_sig ms)) | _ => false end)
    | _, _ => false
    end
  else
    match mget s_serialized ms, mget s_serialized_hmac ms, calls with None, None, [] => true | _, _, _ => false end.

(* "indented for the text format": more than one line, every further line starts with the indent or closes the object;
   the json format is one line *)
Fixpoint lines_ok (first : bool) (b : bytes) : bool :=
  match b with
  | [] => true
  | 10 :: rest =>
      match rest with
      | [] => true
      | 32 :: 32 :: _ => lines_ok false rest
      | 125 :: _ => lines_ok false rest
      | _ => false
      end
  | _ :: rest => lines_ok first rest
  end.
Definition indent_ok (f : cformat) (b : bytes) : bool :=
  match f with
  | FText => negb (single_line b) && lines_ok true b
  | _ => single_line b
  end.

Definition doc_checks (k : kcfg) (c : kcase) (calls : list bytes) (time_ok : bool) (stored : option bytes) : list kind :=
  match stored with
  | Some b =>
      match parse_doc b with
      | Some (JObj ms) =>
          (if fields_ok k c ms && time_ok then [] else [KFields]) ++
          (if ser_ok k c ms calls then [] else [KSer]) ++
          (if indent_ok (k_format k) b then [] else [KIndent])
      | _ => [KParse]
      end
  | None => [KParse]
  end.

(* ---- the checks of one Process case, one named function per observable (RunCloudEventsSound.v gives each its meaning) ---- *)
Definition ce_key (c : kcase) : N := fmt_key (k_format (k_cfg c)).
Definition ce_table (e' : option (event kpayload)) : table := match e' with Some ev => ev_fmt ev | None => [] end.
Definition ce_chk_model (c : kcase) : list kind :=
  match y_data (k_payload c) with DVal v => if wfb v then [] else [KModel] | _ => [] end.
Definition ce_chk_err (oc : outcome) (o : cobs) : list kind := if Bool.eqb (is_err oc) (b_err o) then [] else [KErr].
Definition ce_chk_out (oc : outcome) (o : cobs) : list kind := if b_out o =? out_code oc then [] else [KFwd].
Definition ce_chk_doc (key : N) (mt : table) (o : cobs) : list kind :=
  if obeqb (tget key mt) (tget key (b_table o)) then [] else [KDoc].
Definition ce_chk_other (key : N) (mt : table) (o : cobs) : list kind :=
  if table_eqb (tsort (other_than key mt)) (other_than key (b_table o)) then [] else [KOther].
Definition ce_chk_frame (o : cobs) : list kind := if b_frame o then [] else [KFrame].
Definition ce_chk_calls (calls : list bytes) (o : cobs) : list kind := if list_beqb calls (b_calls o) then [] else [KSignIn].
(* observation-only: whenever the node reports success, what is stored must be the document the property describes *)
Definition ce_chk_stored (c : kcase) : list kind :=
  let o := k_obs c in
  if negb (b_err o) then doc_checks (k_cfg c) c (b_calls o) (b_time_ok o) (tget (ce_key c) (b_table o)) else [].
(* observation-only: an error other than the predicate's leaves the format table exactly as it was — in particular an event
   whose signing failed does not carry the unsigned document *)
Definition ce_chk_errstored (c : kcase) : list kind :=
  let o := k_obs c in
  if b_err o && negb (b_pred_err o) then (if table_eqb (k_pre c) (b_table o) then [] else [KErrStored]) else [].
(* observation-only: the stored document is still the same when re-read after later Process calls on other events; if it is
   not, the oracle is run again on what is there now *)
Definition ce_final_of (c : kcase) : option bytes :=
  match b_final (k_obs c) with None => tget (ce_key c) (b_table (k_obs c)) | Some x => x end.
Definition ce_chk_final (c : kcase) : list kind :=
  let o := k_obs c in
  if obeqb (tget (ce_key c) (b_table o)) (ce_final_of c) then []
  else KStoredMutated :: (if negb (b_err o) then doc_checks (k_cfg c) c (b_calls o) true (ce_final_of c) else []).

Definition ce_chk_still (o : cobs) : list kind := if b_still o then [] else [KStoredMutated].

Definition run_ce (c : kcase) : list kind :=
  let '(e', oc, calls) := model_ce c in
  let o := k_obs c in
  ce_chk_model c ++ ce_chk_err oc o ++ ce_chk_out oc o ++ ce_chk_doc (ce_key c) (ce_table e') o ++
  ce_chk_other (ce_key c) (ce_table e') o ++ ce_chk_frame o ++ ce_chk_calls calls o ++
  ce_chk_stored c ++ ce_chk_errstored c ++ ce_chk_final c ++ ce_chk_still o.

Definition set_cfg (c : kcase) (k : kcfg) : kcase :=
  {| k_cfg := k; k_ctx_done := k_ctx_done c; k_evnil := k_evnil c; k_type := k_type c; k_time := k_time c; k_payload := k_payload c; k_pre := k_pre c;
     k_fresh := k_fresh c; k_obs := k_obs c |}.
Definition with_signer (k : kcfg) (s : N) (tag : bytes) : kcfg :=
  {| k_nil := k_nil k; k_source := k_source k; k_schema := k_schema k; k_format := k_format k; k_pred := k_pred k;
     k_signer := s; k_tag := tag; k_types := k_types k |}.
(* the configuration (signer included) is the node's only state: every event is judged under the configuration in force when
   it is processed *)
Fixpoint run_hist (k : kcfg) (i : N) (steps : list hstep) : list (N * N * kind) :=
  match steps with
  | [] => []
  | HProc c :: rest => map (fun x => (i, 6, x)) (run_ce (set_cfg c k)) ++ run_hist k (N.succ i) rest
  | HRot s tag err :: rest =>
      let refused := s =? 0 in
      (if Bool.eqb err refused then [] else [(i, 6, KErr)]) ++
      run_hist (if refused then k else with_signer k s tag) (N.succ i) rest
  | HSet k' :: rest => run_hist k' (N.succ i) rest
  end.

Definition run_case (c : ccase) : list (N * (N * N * kind)) :=
  match c with
  | CHist id k steps => map (fun m => (id, m)) (run_hist k 0 steps)
  | CCe id k => map (fun x => (id, (match x with KStoredMutated => b_later (k_obs k) | _ => 0 end, opkind k, x))) (run_ce k)
  | CFresh id ids => if forallb nonempty ids && nodupb ids then [] else [(id, (0, 4, KFresh))]
  | CConcSign id n unsigned bad signed_unl panics =>
      (if unsigned =? 0 then [] else [(id, (0, 5, KSer))]) ++
      (if (bad =? 0) && (signed_unl =? 0) && (panics =? 0) then [] else [(id, (1, 5, KSer))])
  | CConc id n dups panics =>
      if (match dups with [] => true | _ => false end) && (panics =? 0) then [] else [(id, (0, 5, KFresh))]
  end.
Definition mismatches (cs : list ccase) : list (N * (N * N * kind)) := flat_map run_case cs.
