(* Run_Conc.v — executable comparison for concurrent Broker histories (C04).
   A case = the registry calls of 2..8 goroutines with their [invocation, return] instants (ticks of one atomic counter)
   and observed results, the Sends of concurrent sender goroutines with what each delivered to (per pipeline version:
   every successful RegisterPipeline lists a fresh "tap" node first, whose object counts the Sends it saw), and the
   registry observed after all goroutines joined.  Two oracles:
     * delivery: for every Send and every pipeline version the observed count must lie within the bounds that
       ConcProofs.send_delivery_bounds proves for every interleaving consistent with the observed intervals
       (Conc.must1 / Conc.must0), at most one version per pipeline id, nothing across event types;
     * linearizability: some order of the calls that respects real time (a call that returned before another was invoked
       comes first) replayed on the sequential model Broker.step reproduces every observed result and the final registry. *)
From Coq Require Import List Bool Arith NArith ZArith.
From Verif Require Import Alist Broker Run_Broker Conc.
Import ListNotations.

Record cop := { co_op : op; co_inv : N; co_ret : N; co_ok : bool; co_err : bool; co_closed : list N (* sorted *) }.
Record csend := { cs_ety : N; cs_inv : N; cs_ret : N; cs_seen : list N (* tap objects that saw this Send, with multiplicity *) }.
Record ccase := { cc_id : N; cc_ops : list cop; cc_sends : list csend; cc_final : bobs }.

Inductive ckind2 :=
| KLost            (* a pipeline certainly registered for the whole Send was not delivered to *)
| KGhost           (* delivery to a pipeline certainly not registered (removed / replaced before, registered after, never registered) *)
| KTwice           (* one Send delivered twice to one pipeline version *)
| KTwoVersions     (* one Send delivered to two versions of one pipeline id *)
| KWrongType       (* delivery to a pipeline of another event type *)
| KNeither         (* a pipeline that was registered throughout and at most overwritten meanwhile got no delivery in any version *)
| KNotLinearizable (* no order of the calls consistent with real time explains the results and the final registry *)
| KLinBudget.      (* the search ran out of budget: inconclusive, not a violation *)

(* ---------- delivery oracle ---------- *)
(* a successful call that changes the mapping of pipeline key (ety, pid): Some tap = Store of that version, None = Delete *)
Record kop := { ko_ety : N; ko_pid : N; ko_tap : option N; ko_inv : N; ko_ret : N }.
Definition tap_of (ids : list N) : N := match ids with x :: _ => x | [] => 0%N end.
Definition kops_of (ops : list cop) : list kop :=
  flat_map (fun c =>
    if co_ok c then
      match co_op c with
      | RegisterPipeline pid ety ids _ => [{| ko_ety := ety; ko_pid := pid; ko_tap := Some (tap_of ids); ko_inv := co_inv c; ko_ret := co_ret c |}]
      | RemovePipeline ety pid => [{| ko_ety := ety; ko_pid := pid; ko_tap := None; ko_inv := co_inv c; ko_ret := co_ret c |}]
      | RemovePipelineAndNodes ety pid => [{| ko_ety := ety; ko_pid := pid; ko_tap := None; ko_inv := co_inv c; ko_ret := co_ret c |}]
      | _ => []
      end
    else []) ops.
(* taps of registrations that failed: never stored *)
Definition failed_taps (ops : list cop) : list N :=
  flat_map (fun c => match co_op c with
                     | RegisterPipeline _ _ ids _ => if co_ok c then [] else [tap_of ids]
                     | _ => [] end) ops.

Definition same_key (a b : kop) : bool := N.eqb (ko_ety a) (ko_ety b) && N.eqb (ko_pid a) (ko_pid b).
Definition same_kop (a b : kop) : bool := N.eqb (ko_inv a) (ko_inv b) && N.eqb (ko_ret a) (ko_ret b).
Definition as_obs (o : kop) : obs_op :=
  {| oo_lab := match ko_tap o with Some v => EnvStore (ko_pid o) v | None => EnvDelete (ko_pid o) end; oo_inv := ko_inv o; oo_ret := ko_ret o |}.
Definition countN (x : N) (l : list N) : nat := List.length (filter (N.eqb x) l).

(* a version (tap) that is stored by more than one successful call -- a pipeline registered again exactly as it is -- has no
   single registration interval: the delivery bounds (proved for unique versions) are not applied to it; the linearizability
   oracle covers those histories *)
Definition stores_of (v : N) (ks : list kop) : nat :=
  List.length (filter (fun o => match ko_tap o with Some v' => N.eqb v' v | None => false end) ks).
Definition check_send (ks : list kop) (failed : list N) (i : N) (s : csend) : list (N * N * ckind2) :=
  let tag := map (fun k => (i, 9%N, k)) in
  tag (flat_map (fun r =>
    match ko_tap r with
    | None => []
    | Some v =>
        if Nat.ltb 1 (stores_of v ks) then [] else
        let c := countN v (cs_seen s) in
        if negb (N.eqb (ko_ety r) (cs_ety s)) then (if Nat.ltb 0 c then [KWrongType] else []) else
        let others := map as_obs (filter (fun o => same_key o r && negb (same_kop o r)) ks) in
        (if must1 (ko_inv r) (ko_ret r) (cs_inv s) (cs_ret s) others && Nat.eqb c 0 then [KLost] else []) ++
        (if must0 (ko_inv r) (ko_ret r) (cs_inv s) (cs_ret s) others && Nat.ltb 0 c then [KGhost] else []) ++
        (if Nat.ltb 1 c then [KTwice] else []) ++
        (if must_some (ko_inv r) (ko_ret r) (cs_inv s) (cs_ret s) others &&
            Nat.eqb (fold_left (fun n o => if same_key o r then match ko_tap o with Some v' => n + countN v' (cs_seen s) | None => n end else n) ks 0)%nat 0
         then [KNeither] else []) ++
        (* two versions of one id in one Send *)
        (if Nat.ltb 0 c && existsb (fun o => same_key o r && negb (same_kop o r) &&
                                             match ko_tap o with Some v' => negb (N.eqb v' v) && Nat.ltb 0 (countN v' (cs_seen s)) | None => false end) ks
         then [KTwoVersions] else [])
    end) ks ++
  (* a tap that only ever occurred in FAILED registrations was never stored *)
  (if existsb (fun t => Nat.eqb (stores_of t ks) 0 && Nat.ltb 0 (countN t (cs_seen s))) failed then [KGhost] else [])).

Fixpoint check_sends (ks : list kop) (failed : list N) (i : N) (ss : list csend) : list (N * N * ckind2) :=
  match ss with [] => [] | s :: t => check_send ks failed i s ++ check_sends ks failed (N.succ i) t end.

(* ---------- linearizability oracle ---------- *)
Inductive lres := LFound | LNone | LBudget.
Definition nocf (_ : N) : bool := false.

(* c may be linearized next: nothing still pending returned before c was invoked *)
Definition eligible (c : cop) (pend : list cop) : bool := forallb (fun d => negb (N.ltb (co_ret d) (co_inv c))) pend.
Definition matches (b : broker) (c : cop) : bool :=
  let '(_, r, closed) := step nocf b (co_op c) in
  Bool.eqb (model_ok (co_op c) r) (co_ok c) && Bool.eqb (model_err r) (co_err c) && eqNl (sortN closed) (co_closed c).
Definition next_state (b : broker) (c : cop) : broker := fst (fst (step nocf b (co_op c))).
Definition final_ok (b : broker) (final : bobs) : bool := match check_state b final with [] => true | _ => false end.

(* the candidates of one search node: cands are tried in turn, pre holds the ones already passed over (in reverse);
   rec is the search on the remaining calls (one level down) *)
Fixpoint try_cands (rec : N -> broker -> list cop -> N * lres) (pend : list cop) (b : broker)
         (pre cands : list cop) (budget : N) {struct cands} : N * lres :=
  match cands with
  | [] => (budget, LNone)
  | c :: rest =>
      if eligible c pend && matches b c then
        let '(bud', r) := rec (N.pred budget) (next_state b c) (rev_append pre rest) in
        match r with
        | LFound => (bud', LFound)
        | LBudget => (bud', LBudget)
        | LNone => try_cands rec pend b (c :: pre) rest bud'
        end
      else try_cands rec pend b (c :: pre) rest budget
  end.

(* depth-first search over the linear extensions of the real-time order, pruned by the observed results; depth > number
   of pending calls; budget = number of search nodes still allowed *)
Fixpoint lin (depth : nat) (budget : N) (final : bobs) (b : broker) (pend : list cop) : N * lres :=
  match depth with
  | O => (budget, LBudget)
  | S d =>
      if N.eqb budget 0 then (0%N, LBudget) else
      match pend with
      | [] => (budget, if final_ok b final then LFound else LNone)
      | _ => try_cands (fun bud b' p' => lin d bud final b' p') pend b [] pend budget
      end
  end.

(* what the search decides: some order of the calls that respects real time (every call is minimal, w.r.t. "returned
   before the other was invoked", among those still to come) replays on the model with the observed results and ends in
   the observed registry *)
Fixpoint rt_sorted (order : list cop) : bool :=
  match order with [] => true | c :: t => eligible c (c :: t) && rt_sorted t end.
Fixpoint replay_ok (final : bobs) (b : broker) (order : list cop) : bool :=
  match order with [] => final_ok b final | c :: t => matches b c && replay_ok final (next_state b c) t end.

Definition lin_budget : N := 200000%N.
Definition check_lin (c : ccase) : list (N * N * ckind2) :=
  match snd (lin (S (List.length (cc_ops c))) lin_budget (cc_final c) b0 (cc_ops c)) with
  | LFound => []
  | LNone => [(0%N, 10%N, KNotLinearizable)]
  | LBudget => [(0%N, 10%N, KLinBudget)]
  end.

Definition run_ccase (c : ccase) : list (N * N * ckind2) :=
  check_sends (kops_of (cc_ops c)) (failed_taps (cc_ops c)) 0%N (cc_sends c) ++ check_lin c.

Definition mismatches (cs : list ccase) : list (N * (N * N * ckind2)) :=
  flat_map (fun c => map (fun m => (cc_id c, m)) (run_ccase c)) cs.

(* coverage vector: per case (number of calls, number of sends, how many (send, version) pairs were certain-one /
   certain-zero / ambiguous) *)
Definition certainty (c : ccase) : nat * nat * nat :=
  let ks := kops_of (cc_ops c) in
  fold_left (fun acc s =>
    fold_left (fun acc r =>
      match ko_tap r with
      | None => acc
      | Some _ =>
          if negb (N.eqb (ko_ety r) (cs_ety s)) then acc else
          let others := map as_obs (filter (fun o => same_key o r && negb (same_kop o r)) ks) in
          let '(a1, a0, am) := acc in
          if must1 (ko_inv r) (ko_ret r) (cs_inv s) (cs_ret s) others then (S a1, a0, am)
          else if must0 (ko_inv r) (ko_ret r) (cs_inv s) (cs_ret s) others then (a1, S a0, am)
          else (a1, a0, S am)
      end) ks acc) (cc_sends c) (0, 0, 0)%nat.
