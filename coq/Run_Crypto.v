(* Run_Crypto.v — executable comparison of Crypto.v with observations of the real encrypt.Filter (C16).
   Keys, salts, infos, event ids and data are interned: wrapper j is the key j, the wrapper derived from base b for the
   event id [e] is b * 1000 + e, a salt / info / datum is the one-element byte string [id] ([] = empty or nil).
   A case is a history of operations on ONE filter; for every value an event produced the harness reports which
   candidate (key, salt, info) reproduces it (independent decryption / recomputation), whether the decrypted bytes are
   the original ones, and the raw blob / mac together with the framed text. *)
From Coq Require Import List Bool NArith String Ascii.
From Verif Require Import Tag Base64 Crypto.
Import ListNotations.
Open Scope list_scope.

(* byte strings of the observations are written as hexadecimal text (cheap to parse) *)
Definition hexval (a : ascii) : N :=
  let n := N_of_ascii a in if N.leb 97 n then (n - 87)%N else (n - 48)%N.
Fixpoint unhex (s : string) : bstr :=
  match s with
  | String a (String b r) => (hexval a * 16 + hexval b)%N :: unhex r
  | _ => []
  end.

Inductive vobs :=
| VEnc (kid : N) (roundtrip : bool) (blob framed : bstr)       (* the key that decrypts; plaintext = original; marshalled blob; text *)
| VHmac (kid : N) (sid iid : bstr) (did : N) (mac framed : bstr) (* the triple that reproduces the digest; datum id; mac; text *)
| VUnknown.                                                      (* no candidate reproduces the value *)
Inductive cobs := CoNone | CoConsumed | CoErr | CoPanic | CoValues (l : list vobs).

(* An event whose own Tags() callback rotates the filter part way through: the deterministic stand-in for a rotation scheduled
   between the head of Process and a value, or between two values, of ONE event.  As a schedule of Crypto.crun:
     AStart tid cb_ewi ; AVal tid ... (cb_pre) ; ARot cb_rot ; AVal tid ... (cb_post)
   followed by a plain event (cb_after) on the same filter, which shows that the rotation was applied.  Any initial filter state
   (salt / info absent, empty or set), any rotation (introducing, emptying or changing salt, info, wrapper), events with and
   without per-event wrapper info. *)
Inductive cbobs := CbErr | CbPanic | CbValues (pre post after : list vobs).
Record cbcase := {
  cb_init : fstate N;
  cb_ewi : option ewinfo;
  cb_pre : list (cop * bstr);                          (* the values produced before the callback runs *)
  cb_rot : option N * option bstr * option bstr;       (* what the callback rotates: wrapper, salt, info (None = left alone) *)
  cb_post : list (cop * bstr);                         (* the values of the same event produced after it *)
  cb_after : list (cop * bstr);                        (* the values of a plain event processed next *)
  cb_obs : cbobs;
}.

(* A rotation PAYLOAD whose accessors (Wrapper(), HmacSalt(), HmacInfo()) have side effects: each starts an event on the SAME filter
   on another goroutine and waits a bounded time for it - the dual of the Tags() callback: here the rotation is the operation in
   flight and the events are scheduled into it.  A rotation payload is ONE atomic step of the model (Crypto.step / cstep ARot), so
   whatever an accessor starts is ordered wholly before or wholly after it: an event with wrapper info is under key_in_force of
   the old or of the new state; every value of a plain event is under the old or the new filter triple (value_atomic_plain: a
   plain event takes each value's triple from one state); the event processed next is under the new state. *)
Record rpcase := {
  rp_init : fstate N;
  rp_rot : option N * option bstr * option bstr;
  rp_consumed : bool;                                               (* Process of the rotation payload returned (nil, nil) *)
  rp_hooked : list (option ewinfo * list (cop * bstr) * cobs);      (* the events the accessors started, with what they produced *)
  rp_after : list (cop * bstr);
  rp_after_obs : cobs;
}.

Record ccase := {
  cc_id : N;
  cc_init : fstate N;
  cc_steps : list (op N * cobs);
  cc_conc : list (N * N * N);    (* under concurrent rotation j -> (wrapper j, salt j, info j): indices attributed to each HMAC value *)
  cc_cbs : list cbcase;          (* events rotated from their own Tags() callback *)
  cc_rps : list rpcase;          (* rotation payloads whose accessors start events on the same filter *)
  cc_caller : bool;              (* the salt / info slices the caller configured the filters of this case with still hold the caller's bytes *)
}.

Inductive kind :=
| CKTriple        (* the value was produced under another (key, salt, info) than key_in_force *)
| CKRoundTrip     (* decrypting with the key in force does not give back the original bytes *)
| CKFrame         (* "encrypted:" ++ base64url(blob) (Base64.encode) is not the text produced, or does not decode back *)
| CKHmac          (* "hmac-sha256:" ++ base64url(mac) is not the text produced *)
| CKDeterminism   (* observation-only: equal data under equal (key, salt, info) gave different digests *)
| CKErr           (* error / no error differs *)
| CKConsumed      (* rotation payload not consumed *)
| CKPanic
| CKCallerSlice   (* observation-only: a rotation wrote into a salt / info slice owned by the caller *)
| CKAtomic.       (* observation-only: a value produced under concurrent rotation mixes components of different rotations *)

Definition d_enc (k : N) (rnd m : bstr) : bstr := [].
Definition d_hkdf (k : N) (s i : bstr) : bstr := [].
Definition d_hmac (k m : bstr) : bstr := [].
Definition m_derive (k : N) (id : bstr) : N := (k * 1000 + hd 0 id)%N.

Fixpoint bstr_eqb (a b : bstr) : bool :=
  match a, b with [], [] => true | x :: r, y :: r' => N.eqb x y && bstr_eqb r r' | _, _ => false end.

Definition check_value (t : N * bstr * bstr) (c : cop) (o : vobs) : list kind :=
  match t, c, o with
  | (w, _, _), CEnc _, VEnc kid rt blob framed =>
      (if N.eqb kid w then [] else [CKTriple]) ++ (if rt then [] else [CKRoundTrip]) ++
      (match framed with
       | [] => []                                        (* the harness did not ship the bytes of this value *)
       | _ => if bstr_eqb (frame_enc blob) framed && match unframe_enc framed with Some b => bstr_eqb b blob | None => false end then [] else [CKFrame]
       end)
  | (w, s, i), CHmac, VHmac kid sid iid _ mac framed =>
      (if N.eqb kid w && bstr_eqb sid s && bstr_eqb iid i then [] else [CKTriple]) ++
      (match framed with [] => [] | _ => if bstr_eqb (frame_hmac mac) framed then [] else [CKHmac] end)
  | _, _, _ => [CKTriple]
  end.

Fixpoint check_values (t : N * bstr * bstr) (vals : list (cop * bstr)) (os : list vobs) : list kind :=
  match vals, os with
  | [], [] => []
  | (c, _) :: r, o :: r' => check_value t c o ++ check_values t r r'
  | _, _ => [CKTriple]
  end.

(* observation-only: digests seen so far, keyed by (key, salt, info, datum) *)
Definition hkey := (N * bstr * bstr * N)%type.
Definition hkey_eqb (a b : hkey) : bool :=
  match a, b with (k, s, i, d), (k', s', i', d') => N.eqb k k' && bstr_eqb s s' && bstr_eqb i i' && N.eqb d d' end.
Fixpoint seen_digest (h : hkey) (l : list (hkey * bstr)) : option bstr :=
  match l with [] => None | (h', m) :: r => if hkey_eqb h h' then Some m else seen_digest h r end.
Fixpoint determinism (os : list vobs) (seen : list (hkey * bstr)) : list kind * list (hkey * bstr) :=
  match os with
  | [] => ([], seen)
  | VHmac kid sid iid did mac _ :: r =>
      let h := (kid, sid, iid, did) in
      match seen_digest h seen with
      | Some m => let (ks, sn) := determinism r seen in ((if bstr_eqb m mac then [] else [CKDeterminism]) ++ ks, sn)
      | None => determinism r ((h, mac) :: seen)
      end
  | _ :: r => determinism r seen
  end.

(* what the model says about ONE observed step (state before it: st) *)
Definition step_mm (st : fstate N) (o : op N) (ob : cobs) : list kind :=
  match ob, snd (step N d_enc m_derive d_hkdf d_hmac st o), o with
  | CoPanic, _, _ => [CKPanic]
  | CoNone, OutNone, _ | CoConsumed, OutConsumed, _ | CoErr, OutErr, _ => []
  | CoValues os, OutValues _, OEvent _ ewi vals =>
      match key_in_force N m_derive st ewi with Some t => check_values t vals os | None => [CKErr] end
  | _, OutConsumed, _ | CoConsumed, _, _ => [CKConsumed]
  | _, _, _ => [CKErr]
  end.
Definition step_seen (ob : cobs) (seen : list (hkey * bstr)) : list kind * list (hkey * bstr) :=
  match ob with CoValues os => determinism os seen | _ => ([], seen) end.

Fixpoint run_steps (div : bool) (st : fstate N) (seen : list (hkey * bstr)) (i : N) (steps : list (op N * cobs)) : list (N * kind) :=
  match steps with
  | [] => []
  | (o, ob) :: rest =>
      let st' := fst (step N d_enc m_derive d_hkdf d_hmac st o) in
      let mm := if div then [] else step_mm st o ob in
      map (pair i) (mm ++ fst (step_seen ob seen))
      ++ run_steps (div || match mm with [] => false | _ => true end) st' (snd (step_seen ob seen)) (N.succ i) rest
  end.

Definition conc_ok (t : N * N * N) : bool := match t with (w, s, i) => N.eqb w s && N.eqb s i end.

(* the (wrapper, salt, info) that encrypt() / hmacSha256() select in filter state st for an event started with options o *)
Definition triple_of (st : fstate N) (o : evopts N) : option (N * bstr * bstr) :=
  match sel_wrap N st o with Some w => Some (w, sel_salt N st o, sel_info N st o) | None => None end.
Definition cb_rotated (c : cbcase) : fstate N := match cb_rot c with (w, s, i) => rotate N (cb_init c) w s i end.

(* the event fixes its options at its start (state cb_init); its values before the callback are produced in state cb_init,
   those after it in state cb_rotated - under the SAME options; the next event is wholly under cb_rotated *)
Definition cb_mm (c : cbcase) : list kind :=
  match cb_obs c, event_opts N m_derive (cb_init c) (cb_ewi c) with
  | CbPanic, _ => [CKPanic]
  | CbErr, None => []
  | CbValues os1 os2 os3, Some eo =>
      match triple_of (cb_init c) eo, triple_of (cb_rotated c) eo, key_in_force N m_derive (cb_rotated c) None with
      | Some t0, Some t1, Some t2 =>
          check_values t0 (cb_pre c) os1 ++ check_values t1 (cb_post c) os2 ++ check_values t2 (cb_after c) os3
      | _, _, _ => [CKErr]
      end
  | _, _ => [CKErr]
  end.

(* ---------- rotation payloads with side effects ---------- *)
Definition nilb {A} (l : list A) : bool := match l with [] => true | _ => false end.
Definition rp_rotated (c : rpcase) : fstate N := match rp_rot c with (w, s, i) => rotate N (rp_init c) w s i end.
Fixpoint check_values2 (t0 t1 : N * bstr * bstr) (vals : list (cop * bstr)) (os : list vobs) : bool :=
  match vals, os with
  | [], [] => true
  | (c, _) :: r, o :: r' => (nilb (check_value t0 c o) || nilb (check_value t1 c o)) && check_values2 t0 t1 r r'
  | _, _ => false
  end.
Definition hooked_ok (st0 st1 : fstate N) (h : option ewinfo * list (cop * bstr) * cobs) : bool :=
  match h with
  | (ewi, vals, ob) =>
      nilb (step_mm st0 (OEvent N ewi vals) ob) || nilb (step_mm st1 (OEvent N ewi vals) ob) ||
      match ewi, ob, key_in_force N m_derive st0 None, key_in_force N m_derive st1 None with
      | None, CoValues os, Some t0, Some t1 => check_values2 t0 t1 vals os
      | _, _, _, _ => false
      end
  end.
Definition rp_mm (c : rpcase) : list kind :=
  (if rp_consumed c then [] else [CKConsumed])
  ++ (if forallb (hooked_ok (rp_init c) (rp_rotated c)) (rp_hooked c) then [] else [CKAtomic])
  ++ step_mm (rp_rotated c) (OEvent N None (rp_after c)) (rp_after_obs c).

(* ---------- events whose fields carry their own class tags, under FilterOperationOverrides ----------
   The harness hands over the override table in force at the event, and per filtered value the TEXT of its class tag (a struct
   tag, or "classification,filter" of a PointerTag) with its datum; Tag.v resolves the operation.  [tstep] turns such an event into a
   step of the history: the values whose resolved action is encrypt / hmac are the model's values (to be attributed to the key in
   force for THAT event - the per-event wrapper when the payload carries wrapper info, whatever the class-level operations are);
   a value whose action is skip must come out unchanged, one whose action is redact as "[REDACTED]".  With every class-level
   operation none, Process returns the very event before it looks at anything: an identity step of the model.
   Precondition kept by the harness: the filter of a case with such events has a wrapper from the start (the model's head of
   Process knows nothing of the class-level "a wrapper is required" scan; Encrypt.v / C09 cover it). *)
Record tfield := { tf_tag : string; tf_data : bstr }.
Inductive tobs := TText (same redacted : bool) | TVal (v : vobs).
Inductive tres := TrErr | TrPanic | TrSame | TrConsumed | TrOut (l : list tobs).
Definition tact (ov : overrides) (f : tfield) : act := Tag.action (resolve_string ov (tf_tag f)).
Definition crypto_vals (ov : overrides) (fs : list tfield) : list (cop * bstr) :=
  flat_map (fun f => match tact ov f with AEncrypt => [(CEnc [], tf_data f)] | AHmac => [(CHmac, tf_data f)] | _ => [] end) fs.
(* the observations of the crypto values; anything that is not as the action says adds an unattributable value *)
Fixpoint crypto_obs (ov : overrides) (fs : list tfield) (os : list tobs) : list vobs :=
  match fs, os with
  | [], [] => []
  | f :: r, o :: r' =>
      (match tact ov f, o with
       | AEncrypt, TVal v | AHmac, TVal v => [v]
       | AEncrypt, _ | AHmac, _ => [VUnknown]
       | ASkip, TText true _ => []
       | ARedact, TText _ true => []
       | _, _ => [VUnknown; VUnknown]
       end) ++ crypto_obs ov r r'
  | _, _ => [VUnknown; VUnknown]
  end.
Definition tstep (ov : overrides) (ewi : option ewinfo) (fs : list tfield) (r : tres) : op N * cobs :=
  if all_none ov then (ORotate N None None None, match r with TrSame => CoNone | TrPanic => CoPanic | _ => CoErr end)
  else (OEvent N ewi (crypto_vals ov fs),
        match r with
        | TrErr => CoErr | TrPanic => CoPanic | TrConsumed | TrSame => CoConsumed
        | TrOut os => CoValues (crypto_obs ov fs os)
        end).

Definition mismatches (cs : list ccase) : list (N * (N * N * kind)) :=
  flat_map (fun c =>
    map (fun m => (cc_id c, (fst m, 0%N, snd m))) (run_steps false (cc_init c) [] 0%N (cc_steps c))
    ++ (if forallb conc_ok (cc_conc c) then [] else [(cc_id c, (0%N, 1%N, CKAtomic))])
    ++ flat_map (fun cb => map (fun k => (cc_id c, (0%N, 2%N, k))) (cb_mm cb)) (cc_cbs c)
    ++ flat_map (fun rp => map (fun k => (cc_id c, (0%N, 3%N, k))) (rp_mm rp)) (cc_rps c)
    ++ (if cc_caller c then [] else [(cc_id c, (0%N, 0%N, CKCallerSlice))])) cs.
