(* Run_Dispatch.v — executable trace acceptor: replays the hook trace recorded during one Broker.Send through the
   step function of Dispatch.v and compares what Send returned with what the model computes.

   A case carries: the registration history that produced the registry (run through Broker.v to obtain the pipelines
   "registered at that moment" and the thresholds), the event type sent, the recorded trace, the harness nodes' own log
   of Process invocations, and the returned Status / error.  [mismatches] reports
     (a) a recorded event that is not an enabled step of the model,
     (b) a trace that is not complete although every node has returned (an invocation never exited, the channel was
         never closed, Send never returned) — the leak / hang detector,
     (c) a returned Status or error that differs from the model's collector result and get_error.
   After the first disagreement the model is no longer consulted for that case; observation-only oracles keep running.
   Soundness of the acceptor w.r.t. the step relation is proved in DispatchAcceptProofs.v. *)
From Coq Require Import List Bool Arith NArith ZArith.
From Verif Require Import Alist Broker Dispatch.
Import ListNotations.

Inductive ev :=
| EvCancel                                  (* the harness cancelled the context (recorded before cancel() is called) *)
| EvStart (p : N)                           (* root.start *)
| EvCall (p k : N) (obj : N) (ein : N)      (* node.call: object about to be invoked, identity of the event passed *)
| EvRet (p k : N) (o : outcome)             (* node.ret *)
| EvDelivered (p k : N)                     (* send.delivered *)
| EvAborted (p k : N)                       (* send.aborted *)
| EvExit (p k : N)                          (* task.exit *)
| EvWait                                    (* wg.wait *)
| EvClose                                   (* chan.close *)
| EvCtxDone                                 (* collector.ctxdone *)
| EvClosedSeen                              (* collector.recv, ok = false *)
| EvRecv (cs sk ws : list N)                (* collector.recv, ok = true: the Status received *)
| EvReturned.                               (* harness: Send has returned *)

Inductive kind :=
| KCall        (* C01: a root start / Process call / return that the model does not allow here (order, at most once) *)
| KChain       (* C01: a node was given another event than the one its predecessor returned (or than Send's event) *)
| KSkipped     (* C01: the Range loop ended with pipelines unstarted although the context was live *)
| KCalls       (* C01: the nodes' own log of invocations and returns differs from the calls / returns of the accepted trace *)
| KEvent0      (* C01, observation only: the event given to a first node lacks type / payload / time / empty format table *)
| KRegistry    (* C01: the pipelines the implementation holds for the type differ from the registry model's *)
| KRecv        (* C02: the collector received a Status that is not the sender's *)
| KAbortLive   (* C02: a status was dropped although the context was not done *)
| KStatus      (* C02: returned Status differs from what the collector was handed *)
| KErr         (* C02: error nil / non-nil differs from get_error *)
| KErrCtx      (* C02: the error does / does not wrap the context's error *)
| KNoGraph     (* C02: Send for a type without graph must fail and do nothing *)
| KInvented    (* C02, observation only: more Status entries than registered pipelines, or, uncancelled, not exactly one each *)
| KProto       (* C03: a protocol event (hand-off, exit, wait, close, collector) that is not enabled in the model *)
| KLeak        (* C03: every node has returned, yet an invocation never exited or the channel was never closed *)
| KHang.       (* C03: Send did not return *)

Definition evkind (e : ev) : N :=
  match e with
  | EvCancel => 1 | EvStart _ => 2 | EvCall _ _ _ _ => 3 | EvRet _ _ _ => 4 | EvDelivered _ _ => 5 | EvAborted _ _ => 6
  | EvExit _ _ => 7 | EvWait => 8 | EvClose => 9 | EvCtxDone => 10 | EvClosedSeen => 11 | EvRecv _ _ _ => 12 | EvReturned => 13
  end%N.

Record dcase := {
  d_id : N;
  d_hist : list op;                        (* registration history, run through Broker.v *)
  d_ety : N;                               (* event type sent *)
  d_snapshot : option (list root);         (* the implementation's pipelines for the type, sorted by id (None: no graph) *)
  d_during : list op;                      (* registry calls made by the nodes themselves, from inside Process, while this Send
                                              was fanning out (in the order they were made) *)
  d_pre : bool;                            (* the context was cancelled before Send was called *)
  d_trace : list ev;
  d_quiet : bool;                          (* every harness node returned and the grace period passed: the trace is final *)
  d_leak : bool;                           (* goroutine dump after Send returned and all nodes returned: a goroutine created
                                              under this Send (library or context-package code) is still there *)
  d_nodecalls : list (N * N);              (* the nodes' own log: (object, event given) per Process invocation *)
  d_noderets : list (N * N * outcome);     (* the nodes' own log: (object, event given, what it returned) per return *)
  d_event0_ok : bool;                      (* every first-node event carried the sent type, payload, a time, no formats *)
  d_status : list N * list N * list N;     (* returned Status: Complete(), CompleteSinks(), warning identities *)
  d_err : bool;                            (* err <> nil *)
  d_err_ctx : bool;                        (* errors.Is(err, ctx.Err()) with ctx.Err() <> nil *)
}.

(* ---------- helpers ---------- *)
Definition outcome_eqb (a b : outcome) : bool :=
  match a, b with
  | OPass x, OPass y => N.eqb x y | ODrop, ODrop => true | OErr x, OErr y => N.eqb x y | _, _ => false
  end.

Fixpoint lookup_ret (p k : N) (tr : list ev) : outcome :=
  match tr with
  | [] => ODrop
  | EvRet p' k' o :: t => if N.eqb p p' && N.eqb k k' then o else lookup_ret p k t
  | _ :: t => lookup_ret p k t
  end.
Fixpoint lookup_e0 (p : N) (tr : list ev) : N :=
  match tr with
  | [] => 0%N
  | EvCall p' k _ ein :: t => if N.eqb p p' && N.eqb k 0 then ein else lookup_e0 p t
  | _ :: t => lookup_e0 p t
  end.
(* the event each pipeline's first node was given (checked separately to carry the sent type, payload, time, no formats) *)
Definition e0_of (tr : list ev) : N -> N := fun p => lookup_e0 p tr.
(* the behaviour the harness nodes exhibited during this Send *)
Definition beh_of (tr : list ev) : N -> N -> N -> outcome := fun p k _ => lookup_ret p k tr.

Fixpoint find_task (p k : N) (ts : list task) : option nat :=
  match ts with
  | [] => None
  | t :: r => if N.eqb (tpipe t) p && N.eqb (tpos t) k then Some 0 else option_map S (find_task p k r)
  end.
Fixpoint find_root (p : N) (rs : list root) : option nat :=
  match rs with
  | [] => None
  | r :: t => if N.eqb (fst r) p then Some 0 else option_map S (find_root p t)
  end.

Definition enc (a b : N) : N := (a * 4294967296 + b)%N.
Definition msg_obs (m : msg) : list N * list N * list N :=
  match m with
  | MWarn e => ([], [], [e])
  | MComplete n sk => ([n], (if sk then [n] else []), [])
  end.
Definition eq_obs (a b : list N * list N * list N) : bool :=
  eqNl (fst (fst a)) (fst (fst b)) && eqNl (snd (fst a)) (snd (fst b)) && eqNl (snd a) (snd b).

Definition node_eqb (a b : node) : bool := N.eqb (nid a) (nid b) && N.eqb (nobj a) (nobj b) && Bool.eqb (nsink a) (nsink b).
Fixpoint eq_list {A} (eq : A -> A -> bool) (a c : list A) : bool :=
  match a, c with [], [] => true | x :: s, y :: t => eq x y && eq_list eq s t | _, _ => false end.
Definition root_eqb (a b : root) : bool := N.eqb (fst a) (fst b) && eq_list node_eqb (snd a) (snd b).
Fixpoint ins_root (x : root) (l : list root) : list root :=
  match l with [] => [x] | y :: t => if N.leb (fst x) (fst y) then x :: l else y :: ins_root x t end.
Definition sort_roots (l : list root) : list root := fold_right ins_root [] l.

(* ---------- the acceptor ---------- *)
Record ast := {
  a_st : st;
  a_recv : nat;       (* statuses the collector has acknowledged *)
  a_pend : bool;      (* the collector left its loop; its read of ctx.Err() is placed after the cancellation still to come *)
  a_rets : list (N * N * outcome);   (* (object, event given, outcome) of every node return accepted so far *)
}.

Section Accept.
  Variable beh : N -> N -> N -> outcome.
  Variable e0 : N -> N.
  (* the value of ctx.Err() <> nil that the returned error exhibits, when there is an error to look at *)
  Variable want_ctx : option bool.

  Definition ex (l : label) (a : ast) (k : kind) : ast + kind :=
    match exec beh e0 l (a_st a) with
    | Some s' => inl {| a_st := s'; a_recv := a_recv a; a_pend := a_pend a; a_rets := a_rets a |}
    | None => inr k
    end.

  (* the collector has left its loop: place the read of ctx.Err() *)
  Definition place_return (a : ast) : ast + kind :=
    let now := ctx (a_st a) in
    match want_ctx with
    | None => ex LReturn a KProto
    | Some w =>
        if Bool.eqb w now then ex LReturn a KProto
        else if w then inl {| a_st := a_st a; a_recv := a_recv a; a_pend := true; a_rets := a_rets a |}   (* cancelled between loop exit and return *)
        else inr KErrCtx                                                              (* done at loop exit, yet not wrapped *)
    end.

  Definition with_task (p k : N) (a : ast) (bad : kind) (f : nat -> task -> ast + kind) : ast + kind :=
    match find_task p k (tasks (a_st a)) with
    | Some i => match nth_error (tasks (a_st a)) i with Some t => f i t | None => inr bad end
    | None => inr bad
    end.

  Definition feed (a : ast) (e : ev) : ast + kind :=
    match e with
    | EvCancel =>
        match ex LCancel a KProto with
        | inl a' => if a_pend a' then ex LReturn {| a_st := a_st a'; a_recv := a_recv a'; a_pend := false; a_rets := a_rets a' |} KProto else inl a'
        | inr k => inr k
        end
    | EvStart p =>
        match rng (a_st a) with
        | RRange rem => match find_root p rem with Some j => ex (LStart j) a KCall | None => inr KCall end
        | _ => inr KCall
        end
    | EvCall p k obj ein =>
        with_task p k a KCall (fun i t =>
          match tnodes t with
          | n :: _ => if negb (N.eqb (nobj n) obj) then inr KCall
                      else if negb (N.eqb (tev t) ein) then inr KChain
                      else ex (LCall i) a KCall
          | [] => inr KCall
          end)
    | EvRet p k o =>
        with_task p k a KCall (fun i t =>
          if outcome_eqb o (beh p k (tev t)) then
            match tnodes t with
            | n :: _ => ex (LRet i) {| a_st := a_st a; a_recv := a_recv a; a_pend := a_pend a;
                                       a_rets := (nobj n, tev t, o) :: a_rets a |} KCall
            | [] => inr KCall
            end
          else inr KCall)
    | EvDelivered p k => with_task p k a KProto (fun i _ => ex (LHandoff i) a KProto)
    | EvAborted p k =>
        with_task p k a KProto (fun i t =>
          match tstage t with
          | SSend _ => if ctx (a_st a) then ex (LAbort i) a KProto else inr KAbortLive
          | _ => inr KProto
          end)
    | EvExit p k => with_task p k a KProto (fun i _ => ex (LExit i) a KProto)
    | EvWait =>
        match rng (a_st a) with
        | RRange (_ :: _) => if ctx (a_st a) then ex LWait a KProto else inr KSkipped
        | _ => ex LWait a KProto
        end
    | EvClose => ex LClose a KProto
    | EvCtxDone => match ex LCollCancel a KProto with inl a' => place_return a' | inr k => inr k end
    | EvClosedSeen => match ex LCollClosed a KProto with inl a' => place_return a' | inr k => inr k end
    | EvRecv cs sk ws =>
        match coll (a_st a) with
        | CCollect acc =>
            match nth_error acc (a_recv a) with
            | Some m => if eq_obs (msg_obs m) (cs, sk, ws)
                        then inl {| a_st := a_st a; a_recv := S (a_recv a); a_pend := a_pend a; a_rets := a_rets a |} else inr KRecv
            | None => inr KRecv
            end
        | _ => inr KRecv
        end
    | EvReturned =>
        if a_pend a then inr KErrCtx                       (* wraps a context error although no cancellation preceded the return *)
        else match coll (a_st a) with CRet => inl a | _ => inr KProto end
    end.

  Fixpoint run_trace (a : ast) (i : N) (tr : list ev) : ast * option (N * N * kind) :=
    match tr with
    | [] => (a, None)
    | e :: t =>
        match feed a e with
        | inl a' => run_trace a' (N.succ i) t
        | inr k => (a, Some (i, evkind e, k))
        end
    end.
End Accept.

(* ---------- observation-only completeness of a trace (the leak detector) ---------- *)
Definition pk_eqb (a b : N * N) : bool := N.eqb (fst a) (fst b) && N.eqb (snd a) (snd b).
Definition started_of (tr : list ev) : list (N * N) :=
  flat_map (fun e => match e with EvStart p => [(p, 0%N)] | EvCall p k _ _ => [(p, k)] | _ => [] end) tr.
Definition exited_of (tr : list ev) : list (N * N) :=
  flat_map (fun e => match e with EvExit p k => [(p, k)] | _ => [] end) tr.
Definition has_ev (f : ev -> bool) (tr : list ev) : bool := existsb f tr.
Definition all_exited (tr : list ev) : bool :=
  forallb (fun s => existsb (pk_eqb s) (exited_of tr)) (started_of tr).
Definition closed_seen (tr : list ev) : bool := has_ev (fun e => match e with EvClose => true | _ => false end) tr.
Definition returned_seen (tr : list ev) : bool := has_ev (fun e => match e with EvReturned => true | _ => false end) tr.

(* ---------- one case ---------- *)
Definition nocf : N -> bool := fun _ => false.
Definition model_roots (c : dcase) : option (list root) :=
  option_map sort_roots (roots_of_broker (run nocf (d_hist c)) (d_ety c)).
Definition model_thr (c : dcase) : Z * Z := thresholds_of (run nocf (d_hist c)) (d_ety c).

(* The pipelines this Send may traverse when nodes changed the registry during the fan-out.  Range's contract (sync.Map): a
   pipeline present from beginning to end is visited exactly once; one removed or added while the Range runs may or may
   not be visited.  The observation (was it started?) is fed to the model as the oracle's answer:
     - pipelines registered before the Send that are still there afterwards, unchanged: must be traversed;
     - pipelines registered before that the nodes removed (or replaced) during the Send: traversed iff the trace started them;
     - pipelines the nodes added during the Send: traversed iff the trace started them. *)
Definition after_roots (c : dcase) : list root :=
  match roots_of_broker (run nocf (d_hist c ++ d_during c)) (d_ety c) with Some rs => rs | None => [] end.
Definition was_started (p : N) (tr : list ev) : bool :=
  existsb (fun e => match e with EvStart q => N.eqb p q | _ => false end) tr.
Definition eff_roots (c : dcase) (roots : list root) : list root :=
  match d_during c with
  | [] => roots
  | _ =>
      let after := after_roots c in
      sort_roots
        (filter (fun r => existsb (root_eqb r) after || was_started (fst r) (d_trace c)) roots ++
         filter (fun r => negb (existsb (fun q => N.eqb (fst q) (fst r)) roots) && was_started (fst r) (d_trace c)) after)
  end.

Definition end_kind := 0%N.

Definition enc_out (o : outcome) : N := match o with ODrop => 0 | OPass e => 2 * e + 1 | OErr x => 2 * x + 2 end%N.
Definition enc_ret (r : N * N * outcome) : N := enc (enc (fst (fst r)) (snd (fst r))) (enc_out (snd r)).

Definition final_checks (c : dcase) (s : st) (rets : list (N * N * outcome)) : list kind :=
  match result s with
  | Some (acc, b) =>
      (if eq_obs (sortN (completes acc), sortN (complete_sinks acc), sortN (warnings acc))
                 (sortN (fst (fst (d_status c))), sortN (snd (fst (d_status c))), sortN (snd (d_status c))) then [] else [KStatus]) ++
      (match get_error b (fst (model_thr c)) (snd (model_thr c)) acc with
       | Some (_, cb) => if d_err c then (if Bool.eqb cb (d_err_ctx c) then [] else [KErrCtx]) else [KErr]
       | None => if d_err c then [KErr] else []
       end)
  | None => []
  end ++
  (if eqNl (sortN (map (fun cl => enc (nobj (fst cl)) (snd cl)) (clog s))) (sortN (map (fun oc => enc (fst oc) (snd oc)) (d_nodecalls c)))
   then [] else [KCalls]) ++
  (if eqNl (sortN (map enc_ret rets)) (sortN (map enc_ret (d_noderets c))) then [] else [KCalls]).

Definition is_terminal (s : st) : bool :=
  match coll s, rng s with CRet, RClosed => true | _, _ => false end.

(* observation-only oracles *)
Definition oracle_of (c : dcase) : list kind :=
  (if d_event0_ok c then [] else [KEvent0]) ++
  (if returned_seen (d_trace c) then [] else [KHang]) ++
  (if d_quiet c && negb (all_exited (d_trace c) && (closed_seen (d_trace c) || match model_roots c with None => true | _ => false end))
   then [KLeak] else []) ++
  (if d_leak c then [KLeak] else []).

(* no graph: Send must return an error, an empty Status, and invoke nothing *)
Definition nograph_of (c : dcase) : list kind :=
  if d_err c && eq_obs (d_status c) ([], [], []) && match d_nodecalls c with [] => true | _ => false end
     && match d_trace c with [EvReturned] | [] => true | _ => false end
     && match d_snapshot c with None => true | Some _ => false end
  then [] else [KNoGraph].

Definition reg_of (c : dcase) (roots : list root) : list kind :=
  match d_snapshot c with
  | Some sn => if eq_list root_eqb roots sn then [] else [KRegistry]
  | None => [KRegistry]
  end.

Definition entries_of (c : dcase) : nat := length (fst (fst (d_status c))) + length (snd (d_status c)).
Definition cancelled_of (c : dcase) : bool :=
  d_pre c || has_ev (fun e => match e with EvCancel => true | _ => false end) (d_trace c).
Definition invented_of (c : dcase) (roots : list root) : list kind :=
  if Nat.ltb (length roots) (entries_of c) ||
     (negb (cancelled_of c) && returned_seen (d_trace c) && negb (Nat.eqb (entries_of c) (length roots)))
  then [KInvented] else [].

(* observation only: the returned error against the thresholds the history set and the returned Status itself
   (evaluated when the trace has diverged from the model, e.g. a Send that never entered the dispatch protocol) *)
Definition errobs_of (c : dcase) : list kind :=
  if returned_seen (d_trace c) &&
     negb (Bool.eqb (d_err c) (Z.ltb (Z.of_nat (length (fst (fst (d_status c))))) (fst (model_thr c)) ||
                               Z.ltb (Z.of_nat (length (snd (fst (d_status c))))) (snd (model_thr c))))
  then [KErr] else [].

(* observation only (evaluated when the trace has diverged from the model): a Send whose context was never cancelled and that
   returned must have started every pipeline the registry model has for the type *)
Definition started_count (tr : list ev) : nat :=
  length (filter (fun e => match e with EvStart _ => true | _ => false end) tr).
Definition skipobs_of (c : dcase) (roots : list root) : list kind :=
  if negb (cancelled_of c) && returned_seen (d_trace c) && Nat.ltb (started_count (d_trace c)) (length roots)
  then [KSkipped] else [].

Definition proto_end_of (c : dcase) (s : st) : list kind :=
  if d_quiet c && returned_seen (d_trace c) && negb (is_terminal s) then [KProto] else [].

Definition want_of (c : dcase) : option bool := if d_err c then Some (d_err_ctx c) else None.
Definition a0_of (c : dcase) (roots : list root) : ast :=
  {| a_st := init roots (d_pre c); a_recv := 0; a_pend := false; a_rets := [] |}.

Definition run_case (c : dcase) : list (N * N * kind) :=
  let n := N.of_nat (length (d_trace c)) in
  let tagE := map (fun k => (n, end_kind, k)) in
  match model_roots c with
  | None => tagE (nograph_of c ++ oracle_of c)
  | Some roots =>
      (* the trace is replayed over the pipelines the registration history registered (registry model), adjusted by what the
         nodes themselves did to the registry during the Send *)
      let er := eff_roots c roots in
      match run_trace (beh_of (d_trace c)) (e0_of (d_trace c)) (want_of c) (a0_of c er) 0%N (d_trace c) with
      | (_, Some m) => m :: tagE (reg_of c roots ++ invented_of c er ++ errobs_of c ++ skipobs_of c er ++ oracle_of c)
      | (a, None) =>
          tagE (proto_end_of c (a_st a) ++ final_checks c (a_st a) (a_rets a) ++ reg_of c roots ++ invented_of c er ++ oracle_of c)
      end
  end.

Definition mismatches (cs : list dcase) : list (N * (N * N * kind)) :=
  flat_map (fun c => map (fun m => (d_id c, m)) (run_case c)) cs.

(* literals the harness prints *)
Definition nd (id obj : N) (sink : bool) : node := {| nid := id; nobj := obj; nsink := sink |}.
