(* Run_Encrypt.v — executable comparison of the walker model with observations of the real encrypt.Filter.
   A case = configuration, payload tree, and what the harness observed: the result class of Process and, when an
   event was forwarded, its payload projected back to a tree with symbolic leaves (the harness decrypts / recomputes
   with the candidate keys to classify every string), plus observation flags.  [mismatches] lists, per case, every
   disagreement tagged (defect-shape code of the position, payload class, kind). *)
From Coq Require Import List Bool NArith ZArith String.
From Verif Require Import Tag Encrypt EncryptSpec.
Import ListNotations.
Open Scope list_scope.

Record oflags := {
  of_sametype : bool;      (* reflect.TypeOf(out.Payload) == reflect.TypeOf(in.Payload) *)
  of_meta : bool;          (* Type, CreatedAt and Formatted of the forwarded event equal the input's; a new *Event *)
  of_json : list N;        (* canaries whose text occurs in json.Marshal(out.Payload) *)
}.
Inductive obs := ObSame | ObConsumed | ObErr | ObPanic | ObOut (x : v) (fl : oflags).

Record ecase := {
  e_id : N;
  e_class : N;             (* payload class, for statistics only *)
  e_ov : overrides;
  e_wrap : bool;
  e_key : N;               (* interned id of the filter's key *)
  e_ekey : N;              (* interned id of the key derived for this event (EventWrapperInfo payloads) *)
  e_encfail : list N;      (* indices of the Encrypt calls that the harness wrapper fails *)
  e_hmacfail : bool;       (* the wrapper is of a kind NewDerivedReader rejects: every HMAC fails *)
  e_payload : payload;
  e_unchanged : bool;      (* deep snapshot of the input event before Process = after Process *)
  e_unaliased : bool;      (* after a forwarded event was rewritten from top to bottom (Formatted entries added / overwritten, every
                              string, slice element, map entry and pointer target of its payload) the input still equals its snapshot *)
  e_snaponly : bool;       (* the configuration uses Filter.IgnoreTypes at positions where the rule applies (outside the model):
                              only the observation-only oracles on the INPUT (snapshot, panic, event metadata, type) are evaluated *)
  e_obs : obs;
}.

Inductive kind :=
| KErrMissing      (* the model fails (a step failed), the implementation forwarded / consumed something *)
| KErrSpurious     (* the implementation failed where the model forwards *)
| KSame            (* "the same event is returned" differs *)
| KConsumed        (* rotation payload: (nil, nil) differs *)
| KPanic
| KLeak            (* a value the model protects is readable in the output *)
| KOp              (* protected in both, but not by the operation / key the tag dictates *)
| KOver            (* a value the model leaves alone was altered *)
| KShape           (* constructor, length, key or field name differs *)
| KNonStr          (* a non-string value differs *)
| KType            (* dynamic type of the payload changed *)
| KMeta            (* event metadata changed *)
| KCanary          (* protected canary text found in the JSON rendering of the output *)
| KMutated         (* observation-only: the input event was modified *)
| KAliased         (* observation-only: writing to the forwarded event changes the input event: they share data *)
| KUnexp           (* observation-only: value of an unexported field not preserved (F10) *)
| KSpecLeak        (* observation-only: the observed output is not clean (EncryptSpec.cleanb, the predicate of theorem no_leak) *)
| KSpecShape.      (* observation-only: the observed output is not the private copy up to leaf contents (theorem shape_preserved) *)

Fixpoint leaf_eqb (a b : leaf) : bool :=
  match a, b with
  | Plain c, Plain d => N.eqb c d
  | Redacted, Redacted | Opaque, Opaque => true
  | Enc k l, Enc k' l' | Hmac k l, Hmac k' l' => N.eqb k k' && leaf_eqb l l'
  | _, _ => false
  end.
(* an HMAC can be re-computed by the harness only over a text it knows *)
Fixpoint abst (l : leaf) : leaf :=
  match l with
  | Hmac k (Plain c) => Hmac k (Plain c)
  | Hmac k Redacted => Hmac k Redacted
  | Hmac _ Opaque => Hmac 0 Opaque      (* ... nor over the rendering of a container a pointer tag names, nor over a text of an earlier key generation *)
  | Hmac _ _ => Hmac 0 Opaque
  | Enc k l' => Enc k (abst l')
  | _ => l
  end.
Definition lkind_eqb (a b : lkind) : bool :=
  match a, b with LStr, LStr | LBytes, LBytes | LWStr, LWStr | LWBytes, LWBytes => true | _, _ => false end.


(* structural equality of trees (tags and field attributes included) *)
Definition opt_eqb {A} (eq : A -> A -> bool) (a b : option A) : bool :=
  match a, b with None, None => true | Some x, Some y => eq x y | _, _ => false end.
Fixpoint list_eqb {A} (eq : A -> A -> bool) (a b : list A) : bool :=
  match a, b with [], [] => true | x :: r, y :: r' => eq x y && list_eqb eq r r' | _, _ => false end.
Definition tkey_eqb (a b : tkey) : bool :=
  match a, b with TPath p, TPath q => list_eqb N.eqb p q end.
Definition mtag_eqb (a b : mtag) : bool := opt_eqb tkey_eqb (fst a) (fst b) && String.eqb (snd a) (snd b).
Definition stag_eqb (a b : stag) : bool :=
  opt_eqb (fun p q : N * N => N.eqb (fst p) (fst q) && N.eqb (snd p) (snd q)) (fst a) (fst b) && String.eqb (snd a) (snd b).
Fixpoint v_eqb (a b : v) {struct a} : bool :=
  match a, b with
  | VLeaf lk l, VLeaf lk' l' => lkind_eqb lk lk' && leaf_eqb l l'
  | VNilBytes, VNilBytes => true
  | VLeaves lk ls, VLeaves lk' ls' => lkind_eqb lk lk' && list_eqb leaf_eqb ls ls'
  | VOther z, VOther z' => Z.eqb z z'
  | VPtr None, VPtr None => true
  | VPtr (Some x), VPtr (Some y) => v_eqb x y
  | VSlice l, VSlice l' =>
      (fix go (l l' : list v) : bool := match l, l' with [], [] => true | x :: r, y :: r' => v_eqb x y && go r r' | _, _ => false end) l l'
  | VStruct tg fs, VStruct tg' fs' =>
      opt_eqb (list_eqb stag_eqb) tg tg' &&
      (fix go (fs fs' : list field) : bool :=
         match fs, fs' with
         | [], [] => true
         | (nm, ex, t, x) :: r, (nm', ex', t', y) :: r' => N.eqb nm nm' && Bool.eqb ex ex' && opt_eqb String.eqb t t' && v_eqb x y && go r r'
         | _, _ => false
         end) fs fs'
  | VMap tg l, VMap tg' l' =>
      opt_eqb (list_eqb mtag_eqb) tg tg' &&
      (fix go (l l' : list (N * v)) : bool :=
         match l, l' with [], [] => true | (k, x) :: r, (k', y) :: r' => N.eqb k k' && v_eqb x y && go r r' | _, _ => false end) l l'
  | _, _ => false
  end.

Definition leaf_kinds (m o : leaf) : list kind :=
  if leaf_eqb (abst m) (abst o) then []
  else if exposed o && negb (exposed m) then [KLeak]
  else if exposed m then [KOver]
  else [KOp].

Fixpoint leaves_kinds (ms os : list leaf) : list kind :=
  match ms, os with
  | [], [] => []
  | m :: r, o :: r' => leaf_kinds m o ++ leaves_kinds r r'
  | _, _ => [KShape]
  end.

(* defect-shape codes of a position (first one met on the way down):
   0 none, 1 below a struct stored by value in a map (F8a), 2 below a non-Taggable map payload (F8b),
   3 below a Taggable map none of whose tags names an existing key (F8c), 4 below an unexported field (F10),
   5 in a struct field that follows a Taggable struct field of the same struct (withIgnoreTaggable leaking to siblings),
   6 in a nested map that a pointer tag "/k/k2" of the enclosing Taggable map goes through *)
Definition is_tstruct (x : v) : bool := match deref x with VStruct (Some _) _ => true | _ => false end.
Definition setw (w code : N) : N := if N.eqb w 0 then code else w.
Definition no_tag_matches (tg : option (list mtag)) (l : list (N * v)) : bool :=
  match tg with
  | Some ts => negb (existsb (fun ky => match key_tags (fst ky) ts with [] => false | _ => true end) l)
  | None => false
  end.

Fixpoint diff (w : N) (m o : v) {struct m} : list (N * kind) :=
  match m, o with
  | VLeaf lk l, VLeaf lk' l' => if lkind_eqb lk lk' then map (pair w) (leaf_kinds l l') else [(w, KShape)]
  | VNilBytes, VNilBytes => []
  | VLeaves lk ls, VLeaves lk' ls' => if lkind_eqb lk lk' then map (pair w) (leaves_kinds ls ls') else [(w, KShape)]
  | VOther z, VOther z' => if Z.eqb z z' then [] else [(w, KNonStr)]
  | VPtr None, VPtr None => []
  | VPtr (Some a), VPtr (Some b) => diff w a b
  | VSlice l, VSlice l' =>
      (fix go (l l' : list v) : list (N * kind) :=
         match l, l' with
         | [], [] => []
         | a :: r, b :: r' => diff w a b ++ go r r'
         | _, _ => [(w, KShape)]
         end) l l'
  | VStruct _ fs, VStruct _ fs' =>
      (fix go (after : bool) (fs fs' : list field) : list (N * kind) :=
         match fs, fs' with
         | [], [] => []
         | (nm, ex, _, a) :: r, (nm', _, _, b) :: r' =>
             (if N.eqb nm nm' then diff (if ex then (if after then setw w 5 else w) else setw w 4) a b else [(w, KShape)])
             ++ go (after || is_tstruct a) r r'
         | _, _ => [(w, KShape)]
         end) false fs fs'
  | VMap tg l, VMap _ l' =>
      let w1 := if no_tag_matches tg l then setw w 3 else w in
      (fix go (l l' : list (N * v)) : list (N * kind) :=
         match l, l' with
         | [], [] => []
         | (k, a) :: r, (k', b) :: r' =>
             (if N.eqb k k' then diff (match a with
                                       | VStruct _ _ => setw w1 1
                                       | _ => match nested_tags k (match tg with Some ts => ts | None => [] end) with [] => w1 | _ => setw w1 6 end
                                       end) a b else [(w1, KShape)]) ++ go r r'
         | _, _ => [(w1, KShape)]
         end) l l'
  | _, _ => [(w, KShape)]
  end.

Definition diff_top (m o : v) : list (N * kind) :=
  match deref m with
  | VMap None _ => diff 2 m o
  | _ => diff 0 m o
  end.

(* the first defect shape occurring anywhere in a payload (for results that have no position: a missing error) *)
Definition firstnz (a b : N) : N := if N.eqb a 0 then b else a.
Fixpoint shape_in (x : v) : N :=
  match x with
  | VStruct _ fs =>
      (fix go (after : bool) (fs : list field) : N :=
         match fs with
         | [] => 0%N
         | f :: r => firstnz (firstnz (shape_in (snd f)) (if after then 5%N else 0%N)) (go (after || is_tstruct (snd f)) r)
         end) false fs
  | VPtr (Some y) => shape_in y
  | VSlice l => fold_right (fun y acc => firstnz (shape_in y) acc) 0%N l
  | VMap tg l =>
      if no_tag_matches tg l then 3%N
      else fold_right (fun (ky : N * v) acc => firstnz (match snd ky with VStruct _ _ => 1%N | _ => shape_in (snd ky) end) acc) 0%N l
  | _ => 0%N
  end.
Definition root_shape (p : payload) : N :=
  match p with
  | PVal _ x => match deref x with VMap None _ => 2%N | _ => shape_in x end
  | _ => 0%N
  end.

Fixpoint memN (x : N) (l : list N) : bool := match l with [] => false | y :: r => N.eqb x y || memN x r end.

(* canaries readable in a tree *)
Definition leaf_canaries (l : leaf) : list N := match l with Plain c => [c] | _ => [] end.
Fixpoint canaries (x : v) : list N :=
  match x with
  | VLeaf _ l => leaf_canaries l
  | VLeaves _ ls => flat_map leaf_canaries ls
  | VStruct _ fs => flat_map (fun f : field => canaries (snd f)) fs
  | VPtr (Some y) => canaries y
  | VSlice l => flat_map canaries l
  | VMap _ l => flat_map (fun ky => canaries (snd ky)) l
  | _ => []
  end.

(* observation-only (C10, F10): values of the input that the forwarded copy does not preserve although no
   classification asked for it: non-string values and container lengths; only positions below unexported fields can
   differ when the model agrees, they are reported as KUnexp *)
Fixpoint spec_preserved (unexp : bool) (i o : v) {struct i} : list kind :=
  let k := if unexp then [KUnexp] else [] in
  match i, o with
  | VLeaf _ a, VLeaf _ b => if unexp && negb (leaf_eqb a b) then [KUnexp] else []
  | VOther z, VOther z' => if Z.eqb z z' then [] else k
  | VLeaves _ ls, VLeaves _ ls' => if Nat.eqb (List.length ls) (List.length ls') then [] else k
  | VPtr (Some a), VPtr (Some b) => spec_preserved unexp a b
  | VSlice l, VSlice l' =>
      (fix go (l l' : list v) : list kind :=
         match l, l' with a :: r, b :: r' => spec_preserved unexp a b ++ go r r' | [], [] => [] | _, _ => k end) l l'
  | VStruct _ fs, VStruct _ fs' =>
      (fix go (fs fs' : list field) : list kind :=
         match fs, fs' with
         | (_, ex, _, a) :: r, (_, _, _, b) :: r' => spec_preserved (unexp || negb ex) a b ++ go r r'
         | [], [] => []
         | _, _ => k
         end) fs fs'
  | VMap _ l, VMap _ l' =>
      (fix go (l l' : list (N * v)) : list kind :=
         match l, l' with (_, a) :: r, (_, b) :: r' => spec_preserved unexp a b ++ go r r' | [], [] => [] | _, _ => k end) l l'
  | VNilBytes, VNilBytes | VPtr None, VPtr None => []
  | _, _ => k
  end.

(* an HMAC over a text the harness does not know (e.g. over a ciphertext, when two tags name one key) cannot be
   attributed to a key: the observation-only oracles give it the benefit of the doubt *)
Fixpoint trust_leaf (key : N) (l : leaf) : leaf :=
  match l with Hmac 0 Opaque => Hmac key Opaque | Enc k l' => Enc k (trust_leaf key l') | _ => l end.
Fixpoint trust (key : N) (x : v) : v :=
  match x with
  | VLeaf lk l => VLeaf lk (trust_leaf key l)
  | VLeaves lk ls => VLeaves lk (map (trust_leaf key) ls)
  | VStruct tg fs => VStruct tg (map (fun f : field => match f with (nm, ex, t, y) => (nm, ex, t, trust key y) end) fs)
  | VPtr (Some y) => VPtr (Some (trust key y))
  | VSlice l => VSlice (map (trust key) l)
  | VMap tg l => VMap tg (map (fun ky : N * v => (fst ky, trust key (snd ky))) l)
  | _ => x
  end.

Definition cfg_of (e : ecase) : cfg :=
  {| c_ov := e_ov e; c_wrap := e_wrap e; c_key := e_key e;
     c_encfail := fun i => memN i (e_encfail e); c_hmacfail := fun _ => e_hmacfail e |}.

Definition dedup_kinds (l : list (N * kind)) : list (N * kind) := l.

Definition run_case_full (e : ecase) : list (N * kind) :=
  let r := process (cfg_of e) (e_ekey e) (e_payload e) in
  (match r, e_obs e with
   | _, ObPanic => [(0%N, KPanic)]
   | RSame, ObSame | RConsumed, ObConsumed | RErr, ObErr => []
   | ROut m, ObOut o fl =>
       diff_top m o
       ++ (if of_sametype fl then [] else [(0%N, KType)])
       ++ (if of_meta fl then [] else [(0%N, KMeta)])
       ++ (let ok := canaries m in if forallb (fun c => memN c ok) (of_json fl) then [] else [(0%N, KCanary)])
   | RSame, _ => [(0%N, KSame)]                      (* nil / zero payload or the pass-through configuration: the very event is due,
                                                       whatever kind the payload is (also a rotation payload: nothing is rotated) *)
   | RErr, _ => [(root_shape (e_payload e), KErrMissing)]
   | _, ObErr => [(root_shape (e_payload e), KErrSpurious)]
   | RConsumed, _ | _, ObConsumed => [(0%N, KConsumed)]
   | ROut m, ObSame =>
       (* the very event came back although the model forwards a filtered copy: not "the same event is due" (C10) only - whatever the
          model protects left in plaintext (C09) *)
       (0%N, KSame) :: (match e_payload e with
                        | PVal _ x => if forallb (fun c => N.eqb c 0 || memN c (canaries m)) (canaries x) then [] else [(root_shape (e_payload e), KLeak)]
                        | _ => []
                        end)
   end)
  ++ (if e_unchanged e then [] else [(0%N, KMutated)])
  ++ (match e_payload e, e_obs e with
      | PVal ewi x, ObOut o _ =>
          map (pair 4%N) (spec_preserved false x o)
          ++ (if inGb (e_ov e) (CTop false) x && (let k := match ewi with Some _ => e_ekey e | None => e_key e end in negb (cleanb (e_ov e) k (CTop false) (trust k o)))
              then [(root_shape (e_payload e), KSpecLeak)] else [])
          ++ (if tosb (CTop false) x && negb (v_eqb (erase o) (erase (copyz x)))
              then [(root_shape (e_payload e), KSpecShape)] else [])
      | _, _ => []
      end).

Definition run_case (e : ecase) : list (N * kind) :=
  if e_snaponly e then
    (match e_obs e with
     | ObPanic => [(0%N, KPanic)]
     | ObOut _ fl => (if of_sametype fl then [] else [(0%N, KType)]) ++ (if of_meta fl then [] else [(0%N, KMeta)])
     | _ => []
     end) ++ (if e_unchanged e then [] else [(0%N, KMutated)]) ++ (if e_unaliased e then [] else [(0%N, KAliased)])
  else run_case_full e ++ (if e_unaliased e then [] else [(0%N, KAliased)]).

Definition mismatches (cs : list ecase) : list (N * (N * N * kind)) :=
  flat_map (fun e => map (fun m => (e_id e, (fst m, e_class e, snd m))) (run_case e)) cs.

(* coverage vector: result class of the model per case (0 same, 1 consumed, 2 error, 3 forwarded) *)
Definition rclass (e : ecase) : N :=
  match process (cfg_of e) (e_ekey e) (e_payload e) with RSame => 0 | RConsumed => 1 | RErr => 2 | ROut _ => 3 end%N.
