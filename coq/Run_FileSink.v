(* Run_FileSink.v — executable comparison of the FileSink model with observations of the real FileSink.
   A case is a configuration, an initial directory and a history of operations, each optionally paired with what the
   harness observed on the implementation right after the call.  [mismatches] lists every point where the model
   disagrees with an observation (tagged with the kind of observable) and every point where an observation-only
   oracle of C08 / C15 fails on the observations alone. *)
From Coq Require Import List Bool Arith NArith ZArith.
From Verif Require Import FileSink.
Import ListNotations.
Open Scope Z_scope.

(* one file of the sink's name space as listed by the harness; kind 1 = base-<stamp>.ext, 2 = base.ext.
   [o_files] lists them by ascending stamp with the plain name last (stamps themselves are not compared). *)
Record fobs := { fo_kind : N; fo_mode : N; fo_data : list N }.
Record sobs := {
  o_ok : bool;                     (* Process / Reopen returned nil *)
  o_files : list fobs;
  o_foreign : list (N * N);        (* (id, mode) of the files outside the sink's name space, in the order they were planted *)
  o_bw : Z;                        (* FileSink.BytesWritten *)
  o_lc : Z;                        (* FileSink.LastCreated (ns, same origin as the readings fed to the model) *)
  o_dir : N;                       (* permission bits of the directory, 0 = it does not exist *)
  o_out : list N; o_err : list N;  (* chunks seen on os.Stdout / os.Stderr *)
}.

Inductive kind :=
  | KOk       (* acknowledgement differs *)
  | KRead     (* the concatenation of the sink's files in reading order differs *)
  | KFiles    (* which files exist / how the data is split over them differs *)
  | KMode | KBw | KLc | KDir | KForeign | KStd
  (* observation-only oracles *)
  | KTorn     (* C08: bytes that are not a whole event *)
  | KSuffix   (* C08: the files do not read as a suffix of the acknowledged sequence *)
  | KLoss     (* C08: no retention limit, yet the files do not read as exactly the acknowledged sequence *)
  | KOrder    (* C08: concurrent writers: a writer's events appear out of its program order / twice *)
  | KModeSpec (* C15: a file of the sink does not have the configured mode *)
  | KDirSpec  (* C15: directory created by the sink is not 0700 *)
  | KActive   (* C15: naming of the active file contradicts the mode *)
  | KNoRot    (* C15: a rotated file exists although neither limit is set *)
  | KStray    (* C15: the directory holds a file that is neither base.ext, base-<stamp>.ext nor one the harness planted *)
  | KStampOrder (* C15: a file that appeared later in the directory carries a stamp that is not larger *)
  | KPruneOrder (* C15/C08: retention removed a file although an older-created rotated file is still there *)
  | KCrash    (* C08/C15: the directory left by SIGKILL is none of the model's crash points *)
  | KHyp.     (* informational, never reported: the readings fed do not satisfy clock_ok *)

Fixpoint eqNl (a b : list N) : bool :=
  match a, b with [], [] => true | x :: s, y :: t => N.eqb x y && eqNl s t | _, _ => false end.
Fixpoint eq_list {A} (eq : A -> A -> bool) (a c : list A) : bool :=
  match a, c with [] , [] => true | x :: s, y :: t => eq x y && eq_list eq s t | _, _ => false end.
Definition memN (x : N) (l : list N) : bool := existsb (N.eqb x) l.
Fixpoint is_suffix (s l : list N) : bool :=
  eqNl s l || match l with [] => false | _ :: t => is_suffix s t end.

Definition name_kind (n : name) : N := match n with NForeign _ => 0 | NStamp _ => 1 | NPlain => 2 end%N.
Definition model_files (w : world) : list fobs :=
  map (fun f => {| fo_kind := name_kind (f_name f); fo_mode := f_mode f; fo_data := f_data f |}) (reading_files (files w)).
Definition model_foreign (w : world) : list (N * N) :=
  map (fun f => (match f_name f with NForeign k => k | _ => 0%N end, f_mode f)) (foreign_files (files w)).
Definition obs_reading (o : sobs) : list N := concat (map fo_data (o_files o)).

Definition opkind (x : xop) : N :=
  match x with
  | XOp (Write _ _ _ _ _ _ _ _) => 1 | XOp (Reopen _) => 2 | XOp (ExtRename _) => 3 | XOp (Pause _) => 4
  | XRmDir _ => 5 | XRmActive _ => 6 | XAppend _ _ _ => 8
  end%N.

(* An event whose formatted value is empty has no bytes: it is acknowledged, it makes the sink open and rotate like any other
   write, but nothing of it can be seen in a file.  [E] = the ids of the empty writes of the case; the comparison erases them
   from what the model says the files hold. *)
Definition vis (E : list N) (l : list N) : list N := filter (fun x => negb (memN x E)) l.
Definition visf (E : list N) (f : fobs) : fobs := {| fo_kind := fo_kind f; fo_mode := fo_mode f; fo_data := vis E (fo_data f) |}.
Definition model_files_vis (E : list N) (w : world) : list fobs := map (visf E) (model_files w).

Definition check_model (E : list N) (w : world) (ok : bool) (o : sobs) : list kind :=
  (if Bool.eqb ok (o_ok o) then [] else [KOk]) ++
  (if eqNl (vis E (reading (files w))) (obs_reading o) then [] else [KRead]) ++
  (if eq_list (fun a b => N.eqb (fo_kind a) (fo_kind b) && eqNl (fo_data a) (fo_data b)) (model_files_vis E w) (o_files o) then
     (if eqNl (map fo_mode (model_files_vis E w)) (map fo_mode (o_files o)) then [] else [KMode])
   else [KFiles]) ++
  (if bw w =? o_bw o then [] else [KBw]) ++
  (if (o_lc o =? -1) || (lc w =? o_lc o) then [] else [KLc])   (* -1: not observed (concurrent writers) *) ++
  (if N.eqb (match dirmode w with Some m => m | None => 0%N end) (o_dir o) then [] else [KDir]) ++
  (if eq_list (fun a b => N.eqb (fst a) (fst b) && N.eqb (snd a) (snd b)) (model_foreign w) (o_foreign o) then [] else [KForeign]) ++
  (if eqNl (vis E (sout w)) (o_out o) && eqNl (vis E (serr w)) (o_err o) then [] else [KStd]).

(* ids of concurrent writers are writer * 10000 + sequence number; [nth (k-1) wacked] lists the ids whose Process returned
   nil to writer k (1-based), in its program order *)
Definition writer_ok (strict : bool) (r : list N) (k : nat) (all : list N) : bool :=
  let mine := filter (fun x => N.eqb (x / 10000) (N.of_nat (S k))) r in
  if strict then eqNl mine all else is_suffix mine all.
Fixpoint writers_ok (strict : bool) (r : list N) (k : nat) (wacked : list (list N)) : bool :=
  match wacked with [] => true | all :: t => writer_ok strict r k all && writers_ok strict r (S k) t end.
Definition known_writer (nw : N) (x : N) : bool := N.leb 1 (x / 10000) && N.leb (x / 10000) nw.

Section Case.
  Variable c : cfg.
  Variable writers : N.          (* 0: one writer, acknowledgement order known; n > 0: n concurrent writers *)
  Variable counts : list (list N).   (* concurrent writers: the acknowledged ids of each writer in its program order *)
  Variable dm0 : option N.
  Variable empties : list N.     (* ids of the writes whose formatted value is empty *)

  (* the properties evaluated on the observations alone *)
  (* [removed]: somebody has deleted the directory / the active file earlier in this history.  From then on the statement of
     C08 is not evaluated (external deletion is outside its quantifier: acknowledged events are simply gone) *)
  Definition oracle (removed dirgone : bool) (o : op) (ackd : list N) (nren : N) (ob : sobs) : list kind :=
    let r := obs_reading ob in
    (if memN 0%N r then [KTorn] else []) ++
    (if removed then [] else if N.eqb writers 0 then
       (if special c || is_suffix r ackd then [] else [KSuffix]) ++
       (if negb (special c) && N.eqb (maxFiles c) 0 && negb (eqNl r ackd) then [KLoss] else [])
     else (if forallb (fun x => N.eqb x 0 || known_writer writers x) r && writers_ok false r 0 counts then [] else [KOrder]) ++
          (if N.eqb (maxFiles c) 0 && negb (writers_ok true r 0 counts) then [KLoss] else [])) ++
    (if forallb (fun f => N.eqb (fo_mode f) (eff_mode c)) (o_files ob) then [] else [KModeSpec]) ++
    (match dm0, dirgone with
     | Some _, false => []
     | _, _ => if N.eqb (o_dir ob) 0 || N.eqb (o_dir ob) dirMode then [] else [KDirSpec]   (* the sink made (or re-made) it *)
     end) ++
    (let has_plain := existsb (fun f => N.eqb (fo_kind f) 2) (o_files ob) in
     (* a successful Reopen leaves the plain name in place; so does a successful Process unless somebody has renamed the
        active file away since (the descriptor follows the renamed file until the next Reopen or rotation) *)
     let sink_call := match o with Reopen _ => o_ok ob | Write _ _ _ _ _ _ _ _ => o_ok ob && N.eqb nren 0 | _ => false end in
     if special c then (match o_files ob with [] => [] | _ => [KActive] end)
     else if tsOnly c || negb (rotateEnabled c) then (if sink_call && negb removed && negb has_plain then [KActive] else [])
     else (if has_plain then [KActive] else [])) ++
    (if existsb (fun f => N.eqb (fo_kind f) 9) (o_files ob) then [KStray] else []) ++
    (if (maxBytes c <=? 0) && (maxDur c <=? 0) &&
        N.ltb nren (N.of_nat (length (filter (fun f => N.eqb (fo_kind f) 1) (o_files ob)))) then [KNoRot] else []).

  Definition nonempty {A} (l : list A) : bool := match l with [] => false | _ => true end.

  (* [div]: the model has already disagreed with the implementation earlier in this history; from then on only the
     observation-only oracles are evaluated *)
  Fixpoint run_case (div removed dirgone : bool) (w : world) (ackd : list N) (nren : N) (i : N) (steps : list (xop * option sobs))
    : list (N * N * kind) :=
    match steps with
    | [] => []
    | (x, ob) :: rest =>
        let '(w', ok, _) := xstep3 c w x in
        let o := xop_clock x in
        let nren' := match x with XOp (ExtRename _) => N.succ nren | _ => nren end in
        let removed' := match x with XOp _ => removed | _ => true end in
        let dirgone' := match x with XRmDir _ => true | _ => dirgone end in
        match ob with
        | None =>
            let ackd' := match o with Write id _ _ _ _ _ _ _ => if ok && negb (memN id empties) then ackd ++ [id] else ackd | _ => ackd end in
            run_case div removed' dirgone' w' ackd' nren' (N.succ i) rest
        | Some ob =>
            let ackd' := match o with Write id _ _ _ _ _ _ _ => if o_ok ob && negb (memN id empties) then ackd ++ [id] else ackd | _ => ackd end in
            let mm := if div then [] else check_model empties w' ok ob in
            map (fun k => (i, opkind x, k)) (mm ++ oracle removed' dirgone' o ackd' nren' ob)
            ++ run_case (div || nonempty mm) removed' dirgone' w' ackd' nren' (N.succ i) rest
        end
    end.
End Case.

(* ---- the directory's own event log of a concurrent case (kernel order = order of the sink's critical sections):
   (1, s) a name with stamp s appeared (created, or renamed to), (2, s) it was removed, (3, s) it is there at the end ---- *)
Fixpoint stamps_increase (prev : option Z) (l : list (N * Z)) : bool :=
  match l with
  | [] => true
  | (k, s) :: t =>
      if N.eqb k 1 then (match prev with Some p => p <? s | None => true end) && stamps_increase (Some s) t
      else stamps_increase prev t
  end.
(* retention may only ever remove the oldest-created rotated file that is still there: [live] in order of appearance *)
Fixpoint prune_oldest_first (live : list Z) (l : list (N * Z)) : option (list Z) :=
  match l with
  | [] => Some live
  | (k, s) :: t =>
      if N.eqb k 1 then prune_oldest_first (live ++ [s]) t
      else if N.eqb k 2 then
        match live with
        | h :: r => if h =? s then prune_oldest_first r t else None
        | [] => None
        end
      else prune_oldest_first live t
  end.
Definition dirlog_check (l : list (N * Z)) : list kind :=
  (if stamps_increase None l then [] else [KStampOrder]) ++
  match prune_oldest_first [] l with
  | None => [KPruneOrder]
  | Some live =>
      let finals := map snd (filter (fun e => N.eqb (fst e) 3) l) in
      if eq_list Z.eqb (isort live) (isort finals) then [] else [KPruneOrder]
  end.

Record fcase := {
  c_id : N; c_cfg : cfg; c_fids : list N; c_dm : option N; c_k0 : Z;
  c_writers : N; c_counts : list (list N);
  c_model : bool;                         (* false: only the observation-only oracles are evaluated *)
  c_dirlog : list (N * Z);
  c_steps : list (xop * option sobs)
}.
Definition empties_of (steps : list (xop * option sobs)) : list N :=
  flat_map (fun s => match fst s with XOp (Write id size _ _ _ _ _ _) => if size =? 0 then [id] else [] | _ => [] end) steps.
Definition mismatches (cs : list fcase) : list (N * (N * N * kind)) :=
  flat_map (fun k => map (fun m => (c_id k, (0%N, 7%N, m))) (dirlog_check (c_dirlog k)) ++ map (fun m => (c_id k, m))
     (run_case (c_cfg k) (c_writers k) (c_counts k) (c_dm k) (empties_of (c_steps k)) (negb (c_model k)) false false (w_init (c_fids k) (c_dm k) (c_k0 k)) [] 0%N 0%N (c_steps k))) cs.

(* ---- coverage vector: which branches of the model the cases reached (for the evidence) ---- *)
Record cov := { v_steps : N; v_rot : N; v_rot_size : N; v_rot_time : N; v_rot_fail : N; v_pruned : N;
                v_open_existing : N; v_extren : N; v_clock_ok : N; v_cases : N }.
Definition cov0 := {| v_steps := 0; v_rot := 0; v_rot_size := 0; v_rot_time := 0; v_rot_fail := 0; v_pruned := 0;
                      v_open_existing := 0; v_extren := 0; v_clock_ok := 0; v_cases := 0 |}%N.
Definition b2n (b : bool) : N := if b then 1%N else 0%N.
Definition cov_step (c : cfg) (w : world) (o : op) (a : cov) : cov :=
  let '(w', ok, rot) := step3 c w o in
  let w1 := match o with Write _ _ t1 _ _ _ _ _ => do_open c w t1 | _ => w end in
  let t2 := match o with Write _ _ _ t2 _ _ _ _ => t2 | _ => 0 end in
  let size_due := rot && (maxBytes c <=? bw w1) && (0 <? maxBytes c) in
  let nstamp (x : world) := N.of_nat (length (stamps_of (files x))) in
  {| v_steps := v_steps a + 1; v_rot := v_rot a + b2n rot; v_rot_size := v_rot_size a + b2n size_due;
     v_rot_time := v_rot_time a + b2n (rot && negb size_due); v_rot_fail := v_rot_fail a + b2n (rot && negb ok);
     v_pruned := v_pruned a + N.of_nat (length (pruned w')) - N.of_nat (length (pruned w));
     v_open_existing := v_open_existing a +
        b2n (match o with Reopen _ => negb (special c) && has_name (newFileName c 0) (files w) | _ => false end);
     v_extren := v_extren a + b2n (match o with ExtRename _ => match active_file w with Some _ => true | None => false end | _ => false end);
     v_clock_ok := v_clock_ok a; v_cases := v_cases a |}%N.
Fixpoint cov_ops (c : cfg) (w : world) (ops : list xop) (a : cov) : cov :=
  match ops with
  | [] => a
  | XOp o :: r => cov_ops c (step c w o) r (cov_step c w o a)
  | x :: r => cov_ops c (xstep c w x) r a
  end.
Definition cov_list (a : cov) : list N :=
  [v_cases a; v_steps a; v_rot a; v_rot_size a; v_rot_time a; v_rot_fail a; v_pruned a; v_open_existing a; v_extren a; v_clock_ok a].
Definition coverage (cs : list fcase) : list N :=
  cov_list (fold_left (fun a k =>
    let a1 := cov_ops (c_cfg k) (w_init (c_fids k) (c_dm k) (c_k0 k)) (map fst (c_steps k)) a in
    {| v_steps := v_steps a1; v_rot := v_rot a1; v_rot_size := v_rot_size a1; v_rot_time := v_rot_time a1; v_rot_fail := v_rot_fail a1;
       v_pruned := v_pruned a1; v_open_existing := v_open_existing a1; v_extren := v_extren a1;
       v_clock_ok := (v_clock_ok a1 + b2n (clock_okb (c_k0 k) (map (fun s => xop_clock (fst s)) (c_steps k))))%N; v_cases := (v_cases a1 + 1)%N |}) cs cov0).

(* ---- SIGKILL cases: the child wrote events 1, 2, 3, … (event i has [nth (i-1) k_sizes] bytes) one after the other and
   acknowledged each on a pipe after Process returned; it was killed at an arbitrary instant.  [k_acks] acknowledgements
   reached the parent, so the child died after Process number k_acks returned and before Process number k_acks + 2 began. ---- *)
Record kcase := { k_id : N; k_cfg : cfg; k_acks : N; k_sizes : list Z; k_files : list fobs }.
(* r = [i; i+1; …; m] *)
Fixpoint consecutive (r : list N) : bool :=
  match r with x :: ((y :: _) as t) => N.eqb y (N.succ x) && consecutive t | _ => true end.
Definition kwrite (i : N) (size : Z) : op :=
  let t := (Z.of_N i * 10)%Z in Write i size (t + 1) (t + 2) (t + 3) (t + 4) (t + 5) nofault.
Fixpoint kwrites (i : N) (sizes : list Z) (n : nat) : list op :=
  match n, sizes with S m, sz :: r => kwrite i sz :: kwrites (N.succ i) r m | _, _ => [] end.
(* modes are not compared here: open() is one step of the model but OpenFile + Chmod in the code, so the newest file may
   be caught between the two; the modes of all older files are checked by KModeSpec below *)
Definition files_match (w : world) (obs : list fobs) : bool :=
  eq_list (fun a b => N.eqb (fo_kind a) (fo_kind b) && eqNl (fo_data a) (fo_data b)) (model_files w) obs.
(* the directory found after the kill must be the state after the last acknowledged call or one of the crash points
   (FileSink.crash_points: after each atomic file-system step) of the next call — the last of which is its normal end *)
Definition kill_model_ok (k : kcase) : bool :=
  let a := N.to_nat (k_acks k) in
  let wa := run_from (k_cfg k) (w_init [] None 0) (kwrites 1 (k_sizes k) a) in
  files_match wa (k_files k) ||
  match skipn a (k_sizes k) with
  | sz :: _ => existsb (fun w' => files_match w' (k_files k)) (crash_points (k_cfg k) wa (kwrite (N.succ (k_acks k)) sz))
  | [] => false
  end.
Definition kill_check (k : kcase) : list kind :=
  let r := concat (map fo_data (k_files k)) in
  let a := k_acks k in
  (if memN 0%N r then [KTorn] else []) ++
  (if consecutive r &&
      match r with
      | [] => N.eqb a 0 || negb (N.eqb (maxFiles (k_cfg k)) 0)
      | x :: _ => let m := last r 0%N in (N.eqb m a || N.eqb m (N.succ a)) && (N.eqb x 1 || negb (N.eqb (maxFiles (k_cfg k)) 0))
      end then [] else [if N.eqb (maxFiles (k_cfg k)) 0 then KLoss else KSuffix]) ++
  (if forallb (fun f => N.eqb (fo_mode f) (eff_mode (k_cfg k))) (removelast (k_files k)) then [] else [KModeSpec]) ++
  (if kill_model_ok k then [] else [KCrash]).
Definition kill_mismatches (ks : list kcase) : list (N * (N * N * kind)) :=
  flat_map (fun k => map (fun m => (k_id k, (0%N, 1%N, m))) (kill_check k)) ks.

(* where the kill landed: 0 = in the state after the last acknowledged call; j > 0 = at the j-th crash point of the next call
   (the last one being its normal end); 999 = nowhere (KCrash) *)
Fixpoint find_index {A} (p : A -> bool) (l : list A) (i : N) : N :=
  match l with [] => 999%N | x :: t => if p x then i else find_index p t (N.succ i) end.
Definition kill_position (k : kcase) : N :=
  let a := N.to_nat (k_acks k) in
  let wa := run_from (k_cfg k) (w_init [] None 0) (kwrites 1 (k_sizes k) a) in
  match skipn a (k_sizes k) with
  | sz :: _ =>
      let pts := crash_points (k_cfg k) wa (kwrite (N.succ (k_acks k)) sz) in
      let j := find_index (fun w' => files_match w' (k_files k)) pts 1%N in
      if N.eqb j 999 then (if files_match wa (k_files k) then 0%N else 999%N)
      else if N.eqb j (N.of_nat (length pts)) then 1000%N      (* the call completed; only the acknowledgement was cut off *)
      else if files_match wa (k_files k) then 0%N else j
  | [] => 999%N
  end.
Definition kill_positions (ks : list kcase) : list N := map kill_position ks.

(* ---- failing write(2): a child whose files may not grow beyond RLIMIT_FSIZE processed events 1, 2, 3, …; [l_acked] are the
   ones whose Process returned nil.  Whatever fails: every acknowledged event is in the files, whole, once, in order (no
   retention limit in these cases), and nothing else is, apart from bytes that are not a whole event (chunk 0: what a failed
   attempt may leave behind — FileSinkProofs.write_ack_present, retry_leaves_partial). ---- *)
Record lcase := { l_id : N; l_cfg : cfg; l_acked : list N; l_failed : N; l_files : list fobs }.
Definition fsize_check (l : lcase) : list kind :=
  let r := filter (fun x => negb (N.eqb x 0)) (concat (map fo_data (l_files l))) in
  if eqNl r (l_acked l) then [] else [KLoss].
Definition fsize_mismatches (ls : list lcase) : list (N * (N * N * kind)) :=
  flat_map (fun l => map (fun m => (l_id l, (0%N, 1%N, m))) (fsize_check l)) ls.
