(* Run_Formatters.v — executable comparison of Formatters.v / Json.v with observations of the real JSONFormatter,
   JSONFormatterFilter, Filter and Event.FormattedAs/Format.  A case carries the inputs (node, predicate outcome, event type,
   time text, the JSON image of the payload as the harness built it — None when the payload was built from an unencodable
   class —, the format table before the call) and what the harness observed after the call. *)
From Coq Require Import List Bool Arith NArith.
From Verif Require Import Alist Json Formatters.
Import ListNotations.
Open Scope N_scope.

Inductive fnode := NFormatter | NFormatterFilter (pred : N) | NFilter (pred : N).   (* pred: 0 absent 1 true 2 false, anything else: an error (3 = (false, err), 4 = (true, err)) *)

Record fobs := {
  o_err : bool;        (* an error value was returned *)
  o_out : N;           (* returned event: 0 nil, 1 the very event handed in, 2 some other event *)
  o_table : table;     (* Event.Formatted after the call, sorted by format id *)
  o_frame : bool;      (* Type, CreatedAt and the deep snapshot of the payload are what they were before the call *)
  o_decode : N;        (* Go's own decode of the stored json line vs. the expected image: 0 n/a, 1 equal, 2 different *)
  o_pred_err : bool;   (* the predicate was invoked during the call and returned an error *)
  o_final : option (option bytes);  (* None: unchanged (the harness compared it with its copy); Some x: Format("json") of the same event re-read later: after every later Process call of the batch (other
                              events, same goroutine) and after a closing round of Process calls from this and other goroutines *)
  o_still : bool;      (* when re-read later: payload (deep snapshot, identity of error values), type, time and every OTHER entry of
                          the table are still what they were right after the call *)
  o_later : N;         (* number of later Process calls (on other events) after which the stored value was first seen changed;
                          0 when it never changed *)
}.
Record pcase := {
  c_node : fnode; c_type : bytes; c_time : option bytes; c_payload : option jv; c_pre : table; c_obs : fobs }.

Inductive fcase :=
| CProc (id : N) (c : pcase)
| CTable (id : N) (init : table) (ops : list (N * top * option (option bytes))) (final : table).
         (* a forced schedule: (goroutine, operation, result observed for Format) in execution order *)

Inductive kind :=
| KErr | KFwd            (* error / forwarding disagree with the model *)
| KBytes                 (* the bytes stored under json differ from the model's rendering *)
| KOther                 (* another format's entry changed *)
| KFrame                 (* observation-only: type, time or payload were altered *)
| KLine                  (* observation-only: the stored value is not one newline-terminated line *)
| KParse                 (* observation-only: parsing the stored line does not give exactly created_at, event_type, payload
                            with the time, the type and the JSON image of the payload *)
| KDecode                (* observation-only: Go's own decoder disagrees with the expected image *)
| KErrStored             (* observation-only: Process returned an error that is not the predicate's, yet the event's format
                            table is not exactly what it was before the call (a failed event must not carry a new line: the
                            same *Event is seen by other pipelines and by whoever kept it) *)
| KStoredMutated         (* observation-only: the value stored under json changed after Process had returned (it must stay the
                            line that was stored, whatever is formatted afterwards); the step of the mismatch is the number of
                            later Process calls it took *)
| KLww                   (* format table: a Format result or the final table is not last-writer-wins *)
| KModel.                (* the harness handed over a value outside the model's grammar (harness defect) *)

Definition nodekind (n : fnode) : N := match n with NFormatter => 1 | NFormatterFilter _ => 2 | NFilter _ => 3 end.
Definition pred_fn {E} (p : N) : E -> pres := fun _ => if p =? 1 then PTrue else if p =? 2 then PFalse else PErr.
Definition pred_opt {E} (p : N) : option (E -> pres) := if p =? 0 then None else Some (pred_fn p).

Definition obeqb (a b : option bytes) : bool :=
  match a, b with Some x, Some y => beqb x y | None, None => true | _, _ => false end.
Fixpoint tins (x : N * bytes) (l : table) : table :=
  match l with [] => [x] | y :: t => if fst x <=? fst y then x :: l else y :: tins x t end.
Fixpoint tsort (l : table) : table := match l with [] => [] | x :: t => tins x (tsort t) end.
Fixpoint table_eqb (a b : table) : bool :=
  match a, b with
  | [], [] => true
  | (f, x) :: a', (g, y) :: b' => (f =? g) && beqb x y && table_eqb a' b'
  | _, _ => false
  end.
Definition others (t : table) : table := List.filter (fun kv => negb (fst kv =? fmt_json)) t.

(* the stored value is exactly one line *)
Fixpoint single_line (b : bytes) : bool :=
  match b with [] => false | [c] => c =? 10 | c :: r => negb (c =? 10) && single_line r end.
(* C14's statement about the stored bytes, evaluated on the observation alone: exactly the three members, the type and the
   payload's image; created_at must be a string here — that it denotes the event's instant is checked by the harness with
   Go's time parser (o_decode), since time syntax is not modelled *)
Definition members_ok (b ty : bytes) (v : jv) : bool :=
  match parse_doc b with
  | Some (JObj [(k1, JStr _); (k2, JStr ty'); (k3, v')]) =>
      beqb k1 k_created_at && beqb k2 k_event_type && beqb k3 k_payload &&
      beqb ty' (sanitize ty) && jv_eqb v' (jimage v)
  | _ => false
  end.

Definition ev0 (c : pcase) : event (option jv) :=
  {| ev_type := c_type c; ev_time := c_time c; ev_payload := c_payload c; ev_fmt := c_pre c |}.
Definition model_proc (c : pcase) : event (option jv) * outcome :=
  match c_node c with
  | NFormatter => json_formatter (fun p => p) (ev0 c)
  | NFormatterFilter p => json_formatter_filter (fun p => p) (pred_opt p) (ev0 c)
  | NFilter p => Formatters.filter (pred_fn p) (ev0 c)
  end.

(* ---- the checks of one Process case, one named function per observable (RunFormatsSound.v gives each its meaning) ---- *)
Definition writes (c : pcase) : bool := match c_node c with NFilter _ => false | _ => true end.
Definition is_err (oc : outcome) : bool := match oc with OErr => true | _ => false end.
Definition out_code (oc : outcome) : N := match oc with OFwd => 1 | _ => 0 end.

Definition chk_model (c : pcase) : list kind :=
  match c_payload c with Some v => if wfb v then [] else [KModel] | None => [] end.
Definition chk_err (oc : outcome) (o : fobs) : list kind := if Bool.eqb (is_err oc) (o_err o) then [] else [KErr].
Definition chk_out (oc : outcome) (o : fobs) : list kind := if o_out o =? out_code oc then [] else [KFwd].
Definition chk_bytes (t : table) (o : fobs) : list kind :=
  if obeqb (tget fmt_json t) (tget fmt_json (o_table o)) then [] else [KBytes].
Definition chk_other (t : table) (o : fobs) : list kind :=
  if table_eqb (tsort (others t)) (others (o_table o)) then [] else [KOther].
Definition chk_frame (o : fobs) : list kind := if o_frame o then [] else [KFrame].
(* observation-only: whenever the node reports success for an encodable event, what it stored must be the line the property
   describes *)
Definition chk_line (c : pcase) : list kind :=
  let o := c_obs c in
  if writes c && negb (o_err o) then
    match c_time c, c_payload c, tget fmt_json (o_table o) with
    | Some t, Some v, Some b =>
        (if single_line b then [] else [KLine]) ++
        (if members_ok b (c_type c) v then [] else [KParse]) ++
        (if o_decode o =? 1 then [] else [KDecode])
    | Some _, Some _, None => [KParse]          (* success reported but nothing is stored under json *)
    | _, _, _ => []
    end
  else [].
(* observation-only: an error other than the predicate's leaves the format table exactly as it was; Filter never writes *)
Definition chk_errstored (c : pcase) : list kind :=
  let o := c_obs c in
  if (o_err o && negb (o_pred_err o)) || negb (writes c) then
    (if table_eqb (c_pre c) (o_table o) then [] else [KErrStored])
  else [].
(* observation-only: the stored value is still the same when re-read after later Process calls on other events; if it is
   not, the property's oracle is run again on what is there now *)
Definition final_of (o : fobs) : option bytes := match o_final o with None => tget fmt_json (o_table o) | Some x => x end.
Definition chk_final (c : pcase) : list kind :=
  let o := c_obs c in
  if obeqb (tget fmt_json (o_table o)) (final_of o) then []
  else KStoredMutated ::
       (if writes c && negb (o_err o) then
          match c_time c, c_payload c, final_of o with
          | Some t, Some v, Some b =>
              (if single_line b then [] else [KLine]) ++ (if members_ok b (c_type c) v then [] else [KParse])
          | _, _, _ => []
          end
        else []).

Definition chk_still (o : fobs) : list kind := if o_still o then [] else [KStoredMutated].

Definition run_proc (c : pcase) : list kind :=
  let '(e', oc) := model_proc c in
  let o := c_obs c in
  chk_model c ++ chk_err oc o ++ chk_out oc o ++ chk_bytes (ev_fmt e') o ++ chk_other (ev_fmt e') o ++ chk_frame o ++
  chk_line c ++ chk_errstored c ++ chk_final c ++ chk_still o.

(* one step of a forced FormattedAs / Format schedule: the observed result must be the model's *)
Definition chk_step (m r : option (option bytes)) : bool :=
  match m, r with
  | Some x, Some y => obeqb x y
  | None, None => true
  | _, _ => false
  end.
Fixpoint run_table (t : table) (i : N) (ops : list (N * top * option (option bytes))) (final : table) : list (N * N * kind) :=
  match ops with
  | [] => if table_eqb (tsort t) final then [] else [(i, 4, KLww)]
  | (g, o, r) :: rest =>
      let '(t', m) := tstep t o in
      (if chk_step m r then [] else [(i, 4, KLww)]) ++ run_table t' (N.succ i) rest final
  end.

Definition run_case (c : fcase) : list (N * (N * N * kind)) :=
  match c with
  | CProc id p =>
      map (fun k => (id, (match k with KStoredMutated => o_later (c_obs p) | _ => 0 end, nodekind (c_node p), k))) (run_proc p)
  | CTable id init ops final => map (fun m => (id, m)) (run_table init 0 ops final)
  end.
Definition mismatches (cs : list fcase) : list (N * (N * N * kind)) := flat_map run_case cs.
