(* Run_Gated.v — executable comparison of the gated.Filter model with observations of the real filter.
   A sequential case is a configuration (broker set?, Expiration, fault oracles) and a history of calls, each paired
   with the clock reading the harness' NowFunc returned during the call and what was observed: the result, the
   arguments of every ComposeFrom call, every payload the harness Sender received, and the VerifGated snapshot.
   [mismatches] lists every disagreement with the model and every failure of an observation-only oracle.
   A concurrent case is evaluated by observation-only oracles ([conc_mismatches]). *)
From Coq Require Import List Bool Arith NArith ZArith.
From Verif Require Import Gated.
Import ListNotations.
Open Scope N_scope.

Inductive hop := HEv (id : N) (flush : bool) (n : N) | HPlain (n : N) | HFlushAll | HClose
  | HOther (m : N).      (* another exported method of the Filter: 1 Reopen, 2 Type, 3 Now *)

Record gobs := {
  o_now : Z;                        (* what NowFunc returned during this call *)
  o_exp : Z;                        (* Filter.Expiration as the harness last set it before this call (an exported field: it may change between calls) *)
  o_broker : bool;                  (* whether Filter.Broker was set at the time of this call (exported too: nil -> set, set -> another, set -> nil) *)
  o_res : N;                        (* 0 the very event came back unchanged, 1 (nil,nil) withheld, 2 composite, 3 error, 4 nil (FlushAll/Close) *)
  o_comp : list (N * N);            (* composite returned: the (id, number) of the events it was composed from *)
  o_compose : list (list (N * N));  (* arguments of the ComposeFrom calls made during the call, in order *)
  o_sent : list (list (N * N));     (* payloads handed to Sender.Send during the call, in order *)
  o_sent_gateable : bool;           (* some payload handed to Send was itself Gateable *)
  o_gated : list (N * (N * Z));     (* VerifGated after the call: (id, (#events, expiry)) in list order *)
  o_index_ok : bool;                (* VerifGated: the id index has exactly one entry per listed group, pointing at it *)
  o_sent_stale : bool;              (* a payload reached a Sender that was not the filter's Broker at the time of the call *)
  o_mutated : bool                  (* some slice handed to ComposeFrom earlier (the harness composite keeps the very slice, no copy) no longer
                                       holds the events it held when it was handed over *)
}.

Inductive kind :=
  | KRes | KComp | KCompose | KSent | KGated               (* model vs implementation *)
  | KLinger        (* observation-only, C17: an expired group is still gated after a successful Process / something is gated after FlushAll/Close *)
  | KDup           (* observation-only, C11: an event was handed to composition twice *)
  | KOrder         (* observation-only, C11: a composite mixes ids or is not in arrival order *)
  | KLost          (* observation-only, C11: accepted events not yet composed/dropped <> what is gated *)
  | KIdent         (* observation-only, C11: a non-Gateable event did not come back as the very same event *)
  | KEmptyId       (* observation-only, C11: an event without an id was not rejected *)
  | KSentGateable  (* observation-only, C11: a Gateable composite reached the Broker *)
  | KIndex         (* observation-only: the id index and the ordered list of groups disagree *)
  | KSentStale     (* observation-only: a composite went to a Broker the Filter no longer (or not yet) had: the Broker field was cached *)
  | KCompositeMutated (* observation-only, C11: the events of a composite changed after it was built (its slice is shared with a later group) *)
  | KConc.         (* concurrent oracle *)

Definition pair_eqb (a b : N * N) : bool := N.eqb (fst a) (fst b) && N.eqb (snd a) (snd b).
Fixpoint eq_list {A} (eq : A -> A -> bool) (a c : list A) : bool :=
  match a, c with [], [] => true | x :: s, y :: t => eq x y && eq_list eq s t | _, _ => false end.
Definition evp (e : ev) : N * N := (eid e, en e).
Definition memN (x : N) (l : list N) : bool := existsb (N.eqb x) l.
Definition nonempty {A} (l : list A) : bool := match l with [] => false | _ => true end.
Definition lenN {A} (l : list A) : N := N.of_nat (length l).

Record gcfg := { c_broker : bool; c_exp : Z; c_cfail_len : N; c_cgate_len : N; c_sfail : N }.

Definition env_of (c : gcfg) : env :=
  {| broker_set := c_broker c; expiration_cfg := c_exp c;
     compose := fun evs => let n := lenN evs in
                  if negb (N.eqb (c_cfail_len c) 0) && N.eqb n (c_cfail_len c) then CFail
                  else if negb (N.eqb (c_cgate_len c) 0) && N.eqb n (c_cgate_len c) then CGateable else COk;
     send_fails := fun k => negb (N.eqb (c_sfail c) 0) && N.eqb (N.succ k) (c_sfail c) |}.

(* the configuration in force during a call: the case's fault oracles, with the Broker (set or not) and the Expiration the filter had at that moment *)
Definition cfg_at (c : gcfg) (o : gobs) : gcfg :=
  {| c_broker := o_broker o; c_exp := o_exp o; c_cfail_len := c_cfail_len c; c_cgate_len := c_cgate_len c; c_sfail := c_sfail c |}.

Definition op_of (h : hop) (now : Z) : op :=
  match h with
  | HEv id flush n => Proc id flush n (fun _ => now) now
  | HPlain _ => NonGateable
  | HFlushAll => FlushAll
  | HClose => Close
  | HOther _ => Other
  end.

Definition opkind (h : hop) : N :=
  match h with
  | HEv 0 _ _ => 6 | HEv _ false _ => 1 | HEv _ true _ => 2 | HPlain _ => 3 | HFlushAll => 4 | HClose => 5 | HOther _ => 8
  end.

Definition res_code (r : res) : N := match r with RPass => 0 | RWithheld => 1 | RComposite _ => 2 | RErr => 3 | RNil => 4 end.
Definition res_comp (r : res) : list (N * N) := match r with RComposite evs => map evp evs | _ => [] end.

(* expected ComposeFrom arguments / Send payloads of a step = what the step added to the log, oldest first *)
Fixpoint composed_of (l : list entry) : list (list (N * N)) :=
  match l with
  | [] => []
  | LOut DFlushDrop _ _ :: t => composed_of t
  | LOut _ _ evs :: t => composed_of t ++ [map evp evs]
  | LArr _ :: t => composed_of t
  end.
Fixpoint sent_of (l : list entry) : list (list (N * N)) :=
  match l with
  | [] => []
  | LOut (DSent | DSendErr) _ evs :: t => sent_of t ++ [map evp evs]
  | _ :: t => sent_of t
  end.
Definition model_gated (s : gst) : list (N * (N * Z)) := map (fun g => (gid g, (lenN (gevs g), gexp g))) (groups s).
Definition gated_eqb (a b : N * (N * Z)) : bool :=
  N.eqb (fst a) (fst b) && N.eqb (fst (snd a)) (fst (snd b)) && Z.eqb (snd (snd a)) (snd (snd b)).

(* ---------- observation-only oracles ---------- *)
Fixpoint increasing (l : list N) : bool :=
  match l with x :: ((y :: _) as t) => N.ltb x y && increasing t | _ => true end.
Definition pure_ordered (arg : list (N * N)) : bool :=
  match arg with
  | [] => false                               (* a group is never empty *)
  | (i, _) :: _ => forallb (fun p => N.eqb (fst p) i) arg && increasing (map snd arg)
  end.
Fixpoint nodupb (l : list N) : bool := match l with [] => true | x :: t => negb (memN x t) && nodupb t end.
Definition gated_total (g : list (N * (N * Z))) : N := fold_right (fun x a => fst (snd x) + a) 0 g.

Record ostate := { os_composed : list N; os_pend : list N }.

Definition oracle (c : gcfg) (h : hop) (o : gobs) (st : ostate) : list kind * ostate :=
  let args := concat (o_compose o) in
  let nums := map snd args in
  let accepted_now := match h with HEv _ _ n => if N.eqb (o_res o) 1 || N.eqb (o_res o) 2 then [n] else [] | _ => [] end in
  let pend1 := filter (fun n => negb (memN n nums)) (os_pend st ++ accepted_now) in
  let flush_op := match h with HFlushAll | HClose => true | _ => false end in
  let pend2 := if flush_op && negb (c_broker c) && N.eqb (o_res o) 4 then [] else pend1 in
  let ks :=
    (if (N.eqb (o_res o) 1 || N.eqb (o_res o) 2) && negb (forallb (fun g => negb (Z.ltb (snd (snd g)) (o_now o))) (o_gated o)) then [KLinger] else []) ++
    (if flush_op && N.eqb (o_res o) 4 && nonempty (o_gated o) then [KLinger] else []) ++
    (if nodupb nums && negb (existsb (fun n => memN n (os_composed st)) nums) then [] else [KDup]) ++
    (if forallb pure_ordered (o_compose o) && (N.eqb (o_res o) 2 || negb (nonempty (o_comp o))) then [] else [KOrder]) ++
    (if N.eqb (lenN pend2) (gated_total (o_gated o)) then [] else [KLost]) ++
    (match h with HPlain _ => if N.eqb (o_res o) 0 then [] else [KIdent] | _ => if N.eqb (o_res o) 0 then [KIdent] else [] end) ++
    (match h with HEv 0 _ _ => if N.eqb (o_res o) 3 && negb (nonempty (o_compose o)) then [] else [KEmptyId] | _ => [] end) ++
    (if o_sent_gateable o then [KSentGateable] else []) ++
    (if o_index_ok o then [] else [KIndex]) ++
    (if o_sent_stale o then [KSentStale] else []) ++
    (if o_mutated o then [KCompositeMutated] else []) in
  (ks, {| os_composed := nums ++ os_composed st; os_pend := pend2 |}).

(* ---------- one case ---------- *)
Fixpoint run_case (c : gcfg) (div : bool) (s : gst) (st : ostate) (i : N) (steps : list (hop * gobs)) : list (N * N * kind) :=
  match steps with
  | [] => []
  | (h, o) :: rest =>
      let E := env_of (cfg_at c o) in
      let '(s', r) := step E s (op_of h (o_now o)) in
      let new := produced s s' in
      let mm := if div then [] else
        (if N.eqb (res_code r) (o_res o) then [] else [KRes]) ++
        (if eq_list pair_eqb (res_comp r) (o_comp o) then [] else [KComp]) ++
        (if eq_list (eq_list pair_eqb) (composed_of new) (o_compose o) then [] else [KCompose]) ++
        (if eq_list (eq_list pair_eqb) (sent_of new) (o_sent o) then [] else [KSent]) ++
        (if eq_list gated_eqb (model_gated s') (o_gated o) then [] else [KGated]) in
      let '(ks, st') := oracle (cfg_at c o) h o st in
      map (fun k => (i, opkind h, k)) (mm ++ ks) ++ run_case c (div || nonempty mm) s' st' (N.succ i) rest
  end.

Record gcase := { g_id : N; g_cfg : gcfg; g_steps : list (hop * gobs) }.
Definition mismatches (cs : list gcase) : list (N * (N * N * kind)) :=
  flat_map (fun c => map (fun m => (g_id c, m)) (run_case (g_cfg c) false s0 {| os_composed := []; os_pend := [] |} 0 (g_steps c))) cs.

(* coverage vector of a case (for the evidence): the destinations groups left the gate to *)
Definition dest_code (d : dest) : N :=
  match d with DReturned => 1 | DSent => 2 | DNoBroker => 3 | DFlushDrop => 4 | DCompose => 5 | DGateable => 6 | DSendErr => 7 end.

(* ---------- concurrent senders: observation-only ----------
   Threads process their events in program order; event numbers are thread*1000 + position, so within a thread
   numbers increase in program order.  After all threads joined the harness calls FlushAll (Broker set, no faults)
   and records every ComposeFrom argument in call order (ComposeFrom runs under the filter's mutex). *)
Record cobs := {
  co_events : list (N * N * N * list (N * N));  (* (id, number, result code, composite) per Process call *)
  co_compose : list (list (N * N));            (* every ComposeFrom argument, in call order *)
  co_sent : list (list (N * N));               (* every payload handed to Sender.Send, in call order *)
  co_calls_ok : bool;                          (* every FlushAll / Close made by a thread returned nil *)
  co_final_res : N;                            (* result of the final FlushAll *)
  co_final_gated : list (N * (N * Z));
  co_sent_gateable : bool;
  co_mutated : bool                            (* a slice handed to ComposeFrom changed afterwards (checked after all threads joined) *)
}.
Record ccase := { cc_id : N; cc_obs : cobs }.

Definition thread_of (n : N) : N := n / 1000.
(* position of every composed event: (number, index of the call) *)
Fixpoint index_calls (i : N) (calls : list (list (N * N))) : list (N * N) :=
  match calls with [] => [] | a :: t => map (fun p => (snd p, i)) a ++ index_calls (N.succ i) t end.
Definition call_of (n : N) (idx : list (N * N)) : option N :=
  match find (fun p => N.eqb (fst p) n) idx with Some p => Some (snd p) | None => None end.

(* within one composite, events of the same thread keep their program order *)
Fixpoint thread_ordered (arg : list (N * N)) : bool :=
  match arg with
  | [] => true
  | p :: t => forallb (fun q => negb (N.eqb (thread_of (snd p)) (thread_of (snd q))) || N.ltb (snd p) (snd q)) t && thread_ordered t
  end.

Definition conc_check (o : cobs) : list kind :=
  let nums := map snd (concat (co_compose o)) in
  let idx := index_calls 0 (co_compose o) in
  let evs := co_events o in
  (if nodupb nums && nodupb (map snd (concat (co_sent o))) then [] else [KDup]) ++
  (* Broker set, no faults: every composite built was either returned to a flush event or sent through the Broker, and
     nothing else was sent; FlushAll / Close succeed *)
  (if forallb (fun a => existsb (eq_list pair_eqb a) (co_sent o) || existsb (fun e => let '(_, _, r, comp) := e in N.eqb r 2 && eq_list pair_eqb a comp) evs) (co_compose o)
      && forallb (fun a => existsb (eq_list pair_eqb a) (co_compose o)) (co_sent o) then [] else [KSent]) ++
  (if co_calls_ok o then [] else [KRes]) ++
  (* purity and per-thread order inside every composite *)
  (if forallb (fun a => nonempty a && forallb (fun p => N.eqb (fst p) (match a with q :: _ => fst q | [] => 0 end)) a && thread_ordered a) (co_compose o)
   then [] else [KOrder]) ++
  (* every accepted event was composed exactly once (the final FlushAll leaves nothing); events of one thread and one id
     are never reordered across composites *)
  (if forallb (fun e => let '(id, n, r, _) := e in
        if N.eqb r 1 || N.eqb r 2 then
          match call_of n idx with
          | None => false
          | Some k => forallb (fun e2 => let '(id2, n2, r2, _) := e2 in
                        negb (N.eqb id id2 && N.eqb (thread_of n) (thread_of n2) && N.ltb n n2 && (N.eqb r2 1 || N.eqb r2 2)) ||
                        match call_of n2 idx with Some k2 => N.leb k k2 | None => false end) evs
          end
        else true) evs then [] else [KLost]) ++
  (* a composite returned to a flush event is one of the ComposeFrom arguments and ends with that event *)
  (if forallb (fun e => let '(id, n, r, comp) := e in
        if N.eqb r 2 then existsb (fun a => eq_list pair_eqb a comp) (co_compose o) && N.eqb (snd (last comp (0, 0))) n
        else negb (nonempty comp)) evs then [] else [KComp]) ++
  (* ids: empty id rejected, every composed event is an event of the case with that id *)
  (if forallb (fun e => let '(id, n, r, _) := e in if N.eqb id 0 then N.eqb r 3 else true) evs then [] else [KEmptyId]) ++
  (if forallb (fun p => existsb (fun e => let '(id, n, _, _) := e in N.eqb id (fst p) && N.eqb n (snd p)) evs) (concat (co_compose o)) then [] else [KConc]) ++
  (if N.eqb (co_final_res o) 4 && negb (nonempty (co_final_gated o)) then [] else [KLinger]) ++
  (if co_sent_gateable o then [KSentGateable] else []) ++
  (if co_mutated o then [KCompositeMutated] else []).

Definition conc_mismatches (cs : list ccase) : list (N * (N * N * kind)) :=
  flat_map (fun c => map (fun k => (cc_id c, (0, 7, k))) (conc_check (cc_obs c))) cs.
