(* Run_Sinks.v — executable comparison of the sink models (Sinks.v) with observations of writer.Sink, FileSink and
   ChannelSink made by harness/cmd/sinksh.  Four kinds of case:
     CW  one writer.Sink.Process call (format table x configured format x writer behaviour);
     CC  n concurrent writer.Sink.Process calls on one sink (the received stream is split back into whole values);
     CF  one FileSink.Process call (regular file, /dev/null, /dev/stdout, /dev/stderr, a destination whose writes fail,
         a directory that cannot be created);
     CH  one ChannelSink.Process call in a timed scenario (when the channel can take the event, when the context is done). *)
From Coq Require Import List Bool Arith NArith ZArith.
From Verif Require Import Sinks.
Import ListNotations.

Inductive kind :=
  | KRes | KCalls                  (* writer.Sink: model vs implementation *)
  | KSpec                          (* writer.Sink, observation-only: success without exactly the stored bytes / bytes without the format *)
  | KConcStream | KConcSet | KConcRes | KConcOrder | KOverlap   (* concurrent calls *)
  | KFsRes | KFsBytes              (* FileSink *)
  | KFsRetryPrefix                 (* FileSink, observation-only: success, the whole value is contiguous in the file written last, but a
                                      proper prefix of it was left at the end of the previous file by the failed first attempt *)
  | KFsTorn                        (* FileSink, observation-only: success although the value is in no file in one piece / other bytes were written *)
  | KChanExactlyOne | KChanArm | KChanEarly | KChanLatency      (* ChannelSink *)
  | KChanHang.                     (* ChannelSink, concurrent callers: a Process call did not return within the watchdog *)

Fixpoint eq_list {A} (eq : A -> A -> bool) (a c : list A) : bool :=
  match a, c with [], [] => true | x :: s, y :: t => eq x y && eq_list eq s t | _, _ => false end.
Definition eqNl := eq_list N.eqb.
Definition memN (x : N) (l : list N) : bool := existsb (N.eqb x) l.
Fixpoint nodupb (l : list N) : bool := match l with [] => true | x :: t => negb (memN x t) && nodupb t end.
Definition subsetb (a b : list N) : bool := forallb (fun x => memN x b) a.

(* ---------- writer behaviours the harness implements ---------- *)
Inductive wbeh := WOk | WFail0 | WFailHalf | WFailFull | WShortHalf | WShort0 | WOver.
Definition writer_of (b : wbeh) : writer := fun buf =>
  let n := lenN buf in
  match b with
  | WOk => (n, false) | WFail0 => (0%N, true) | WFailHalf => (N.div n 2, true) | WFailFull => (n, true)
  | WShortHalf => (N.div n 2, false) | WShort0 => (0%N, false) | WOver => (N.succ n, false)
  end.

Definition res_code (r : sres) : N := match r with SOk => 0 | SErr => 1 | SPanic => 2 end%N.
Definition call_eqb (a b : wcall) : bool := eqNl (fst a) (fst b) && N.eqb (snd a) (snd b).

(* ---------- CW ---------- *)
Record wobs := { wo_res : N;               (* 0 (nil,nil)  1 error  2 panic  3 anything else *)
                 wo_calls : list wcall }.  (* the Write calls the harness writer saw: buffer, n returned *)
Record wcase := { w_fmt : N; w_wnil : bool; w_event : option table; w_beh : wbeh; w_obs : wobs }.

Definition check_w (c : wcase) : list kind :=
  let '(r, calls) := writer_process (w_fmt c) (w_wnil c) (w_event c) (writer_of (w_beh c)) in
  let o := w_obs c in
  (if N.eqb (res_code r) (wo_res o) then [] else [KRes]) ++
  (if eq_list call_eqb calls (wo_calls o) then [] else [KCalls]) ++
  (* the statement itself, on the observations alone *)
  (let stored := match w_event c with Some t => lookup (eff_format (w_fmt c)) t | None => None end in
   let got := received (wo_calls o) in
   let ok :=
     match stored with
     | Some val => (if N.eqb (wo_res o) 0 then eqNl got val && Nat.leb (length (wo_calls o)) 1 else true) &&
                   forallb (fun cl => eqNl (fst cl) val) (wo_calls o)
     | None => negb (N.eqb (wo_res o) 0) && match wo_calls o with [] => true | _ => false end
     end in
   if ok then [] else [KSpec]).

(* ---------- CC ---------- *)
Record cobs := { co_res : list (N * N);    (* (call number, result code) *)
                 co_stream : list N;       (* everything the destination received *)
                 co_order : list N;        (* the call numbers of the whole values found in the stream, in stream order *)
                 co_overlap : bool }.      (* a Write was entered while another Write was in progress *)
Record ccase := { cc_fmt : N; cc_calls : list (N * option (list N)); cc_obs : cobs }.   (* call number = thread*1000 + k *)

Definition cval (c : ccase) (i : N) : list N :=
  match find (fun p => N.eqb (fst p) i) (cc_calls c) with Some (_, Some v) => v | _ => [] end.
Fixpoint thread_ordered (l : list N) : bool :=
  match l with
  | [] => true
  | x :: t => forallb (fun y => negb (N.eqb (x / 1000) (y / 1000)) || N.ltb x y) t && thread_ordered t
  end.

Definition check_c (c : ccase) : list kind :=
  let o := cc_obs c in
  let oks := map fst (filter (fun p => N.eqb (snd p) 0) (co_res o)) in
  (if eqNl (co_stream o) (concat (map (cval c) (co_order o))) then [] else [KConcStream]) ++
  (if nodupb (co_order o) && subsetb (co_order o) oks && subsetb oks (co_order o) then [] else [KConcSet]) ++
  (if forallb (fun p => match snd p with
                        | Some _ => existsb (fun q => N.eqb (fst q) (fst p) && N.eqb (snd q) 0) (co_res o)
                        | None => existsb (fun q => N.eqb (fst q) (fst p) && N.eqb (snd q) 1) (co_res o) end) (cc_calls c)
   then [] else [KConcRes]) ++
  (if thread_ordered (co_order o) then [] else [KConcOrder]) ++
  (if co_overlap o then [KOverlap] else []).

(* ---------- CF ---------- *)
Record fobs := { fo_res : N; fo_bytes : list N }.     (* result code; bytes that arrived at the destination during the call *)
(* f_kind: 0 /dev/null, 1 /dev/stdout, 2 /dev/stderr, 3 regular file, 4 file whose writes fail (ENOSPC), 5 directory cannot be created,
   6 / 7 /dev/stdout / /dev/stderr while os.Stdout / os.Stderr is an fd on /dev/full (every write fails with ENOSPC), 8 / 9 the same with a closed file *)
Record fcase := { f_kind : N; f_fmt : N; f_table : table; f_obs : fobs }.

Definition check_f (c : fcase) : list kind :=
  let pk := match f_kind c with 0 => PNull | 1 | 6 | 8 => PStdout | 2 | 7 | 9 => PStderr | _ => PFile end%N in
  let failing := match f_kind c with 4 | 6 | 7 | 8 | 9 => true | _ => false end%N in
  let F := {| fs_open_ok := negb (N.eqb (f_kind c) 5);
              fs_w1 := writer_of (if failing then WFail0 else WOk); fs_reopen_ok := true;
              fs_w2 := writer_of (if failing then WFail0 else WOk) |} in
  let '(r, calls) := filesink_process pk (f_fmt c) (f_table c) F in
  (if N.eqb (res_code r) (fo_res (f_obs c)) then [] else [KFsRes]) ++
  (if eqNl (received calls) (fo_bytes (f_obs c)) then [] else [KFsBytes]).

(* ---------- CH ---------- *)
Record hobs := { ho_arm : N;          (* 0 sent (nil error)  1 context error  2 timeout error  3 anything else *)
                 ho_delivered : bool; (* the channel received an event from this call *)
                 ho_same : bool;      (* ... and it is the very event passed to Process *)
                 ho_latency : Z }.    (* microseconds *)
Record hcase := { h_timeout : Z; h_chan_at : option Z; h_ctx_at : option Z; h_slack : Z; h_obs : hobs }.   (* microseconds, t0 = 0 *)

Definition check_h (c : hcase) : list kind :=
  let T := {| t0 := 0; timeout := h_timeout c; chan_at := h_chan_at c; ctx_at := h_ctx_at c |} in
  let o := h_obs c in
  let a := match ho_arm o with 0 => Some ASent | 1 => Some ACtx | 2 => Some ATimeout | _ => None end%N in
  (* never both, never neither, and the very event *)
  (if (match a with Some ASent => ho_delivered o && ho_same o | Some _ => negb (ho_delivered o) | None => false end) then [] else [KChanExactlyOne]) ++
  (* the arm taken was ready no later than [slack] after the earliest ready arm (scenarios keep competing arms either within a
     few ms of each other — both acceptable — or seconds apart) *)
  (match a with
   | Some x => match arm_time T x with
               | Some tx => if Z.leb tx (ret_time T + h_slack c) then [] else [KChanArm]
               | None => [KChanArm] end
   | None => [] end) ++
  (* a timeout error is never reported before the timeout has elapsed (time.After never fires early) *)
  (match a with Some ATimeout => if Z.ltb (ho_latency o) (h_timeout c) then [KChanEarly] else [] | _ => [] end) ++
  (* generous: the call took no more than 50x the time at which it should have returned (+ 50 x 20 ms; all times in microseconds so that sub-millisecond timeouts are exact) *)
  (if Z.leb (ho_latency o) (50 * (ret_time T + 20000)) then [] else [KChanLatency]).

(* ---------- CP: FileSink.Process with writes that fail part-way (RLIMIT_FSIZE = limit bytes per file) ----------
   The harness child process lowers RLIMIT_FSIZE, so a write(2) that would take a file beyond [p_limit] bytes accepts only what
   still fits and fails (EFBIG).  [p_fresh]: rotation with time-stamped names is on, so reopen() opens a fresh, empty file;
   otherwise reopen() reopens the same (full) file.  After every call the harness lists, in file-name (= creation) order,
   the bytes the call added to each file. *)
Definition limited (room : N) : writer := fun buf => if N.leb (lenN buf) room then (lenN buf, false) else (room, true).
Record pobs := { po_res : N; po_deltas : list (list N) }.
Record pcase := { p_limit : N; p_fresh : bool; p_steps : list (list N * pobs) }.

Definition nonnil (l : list N) : bool := match l with [] => false | _ => true end.
Fixpoint is_prefix (p l : list N) : bool :=
  match p, l with [], _ => true | x :: p', y :: l' => N.eqb x y && is_prefix p' l' | _, [] => false end.

Fixpoint run_p (L : N) (fresh div : bool) (sz : N) (i : N) (steps : list (list N * pobs)) : list (N * kind) :=
  match steps with
  | [] => []
  | (val, o) :: rest =>
      let room := (L - sz)%N in
      let F := {| fs_open_ok := true; fs_w1 := limited room; fs_reopen_ok := true; fs_w2 := limited (if fresh then L else 0%N) |} in
      let '(r, calls) := filesink_process PFile 0 [(json_fmt, val)] F in
      let ts := map taken calls in
      let expect := filter nonnil (if fresh then ts else [concat ts]) in
      let sz' := match calls with
                 | [_; c2] => if fresh then lenN (taken c2) else (sz + lenN (concat ts))%N
                 | _ => (sz + lenN (concat ts))%N end in
      let mm := if div then [] else
        (if N.eqb (res_code r) (po_res o) then [] else [KFsRes]) ++
        (if eq_list eqNl expect (po_deltas o) then [] else [KFsBytes]) in
      let oracle :=
        if N.eqb (po_res o) 0%N then
          if eq_list eqNl (po_deltas o) (filter nonnil [val]) then []          (* exactly the value, in one piece, in one file *)
          else if eqNl (last (po_deltas o) []) val && is_prefix (concat (removelast (po_deltas o))) val then [KFsRetryPrefix]
          else [KFsTorn]
        else [] in
      map (fun k => (i, k)) (mm ++ oracle) ++ run_p L fresh (div || match mm with [] => false | _ => true end) sz' (N.succ i) rest
  end.
Definition check_p (c : pcase) : list (N * kind) := run_p (p_limit c) (p_fresh c) false 0%N 0%N (p_steps c).

(* ---------- CG: n simultaneous ChannelSink.Process calls on a buffered channel with k free slots, nobody draining ----------
   Every call must return within the bound: at most k callers hand their event over (success), every other caller gets the
   timeout error once the timeout has elapsed; the channel then holds exactly the events of the callers that reported success. *)
Record gobs := { go_calls : list (N * Z);  (* per caller, in caller order: (0 sent | 1 context error | 2 timeout error | 3 anything else, time from ITS OWN entry
                                             to its return in microseconds); callers that never returned are absent *)
                 go_hung : N;             (* callers that had not returned when the watchdog fired *)
                 go_delivered_ok : bool;  (* the channel holds exactly the very events of the callers that reported success (besides the prefill) *)
                 go_early : bool }.       (* some timeout error came back before the timeout had elapsed *)
Record gcase := { g_free : N; g_timeout : Z;
                  g_ctxs : list (option Z);   (* one per caller: its own context expires this long after ITS entry (None = never) *)
                  g_slack : Z;                (* how much later than the bound a return is still put down to scheduling *)
                  g_obs : gobs }.

Definition countN (x : N) (l : list N) : N := N.of_nat (length (filter (N.eqb x) l)).
(* the shorter of timeout and the caller's context, and the error a caller that cannot hand over must get *)
Definition g_bound (T : Z) (ctx : option Z) : Z := match ctx with Some d => Z.min d T | None => T end.
Definition g_err_arm (T : Z) (ctx : option Z) : N := match ctx with Some d => if Z.ltb d T then 1 else 2 | None => 2 end%N.
Definition check_g (c : gcase) : list kind :=
  let o := g_obs c in
  let per := combine (g_ctxs c) (go_calls o) in
  (if N.eqb (go_hung o) 0 && N.eqb (lenN (go_calls o)) (lenN (g_ctxs c)) then [] else [KChanHang]) ++
  (* at most k hand-overs; every other caller gets the error of whichever is shorter for IT *)
  (if N.leb (countN 0 (map fst (go_calls o))) (N.min (g_free c) (lenN (g_ctxs c))) &&
      forallb (fun p => N.eqb (fst (snd p)) 0 || N.eqb (fst (snd p)) (g_err_arm (g_timeout c) (fst p))) per then [] else [KChanArm]) ++
  (if go_delivered_ok o then [] else [KChanExactlyOne]) ++
  (if go_early o then [KChanEarly] else []) ++
  (* never blocking longer than the shorter of the two: every caller is back within its bound + slack of ITS OWN entry — the callers
     wait concurrently, so a caller that needs 2 x, 3 x its bound was queued behind the others *)
  (if forallb (fun p => Z.leb (snd (snd p)) (g_bound (g_timeout c) (fst p) + g_slack c)) per then [] else [KChanLatency]).

(* ---------- all together ---------- *)
Inductive scase := CW (c : wcase) | CC (c : ccase) | CF (c : fcase) | CH (c : hcase) | CP (c : pcase) | CG (c : gcase).
Definition check (c : scase) : N * list (N * kind) :=
  let z := map (fun k => (0%N, k)) in
  match c with CW x => (1%N, z (check_w x)) | CC x => (2%N, z (check_c x)) | CF x => (3%N, z (check_f x)) | CH x => (4%N, z (check_h x))
             | CP x => (5%N, check_p x) | CG x => (6%N, z (check_g x)) end.

(* (case, (call index, sink kind, kind)) *)
Definition mismatches (cs : list (N * scase)) : list (N * (N * N * kind)) :=
  flat_map (fun ic => let '(opk, ks) := check (snd ic) in map (fun k => (fst ic, (fst k, opk, snd k))) ks) cs.
