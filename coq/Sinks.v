(* Sinks.v — models of sinks/writer (writer.Sink), the format selection and special paths of FileSink.Process, and
   sinks/channel (ChannelSink) for C13.
   Format names are N (0 = "" = unset, [json_fmt] = eventlogger.JSONFormat); bytes are N; an event is its Formatted table
   (None = nil *Event).  Everything external is an oracle argument: the io.Writer's answer to a Write call, the outcome of
   FileSink's open / rotate / reopen, which arms of ChannelSink's select become ready and when. *)
From Coq Require Import List Bool Arith NArith ZArith.
Import ListNotations.

Definition json_fmt : N := 1%N.
Definition table := list (N * list N).          (* Event.Formatted: format name -> bytes *)

Fixpoint lookup (f : N) (t : table) : option (list N) :=
  match t with [] => None | (k, v) :: r => if N.eqb k f then Some v else lookup f r end.

(* Sink.Format / FileSink.Format: JSON when unset *)
Definition eff_format (f : N) : N := if N.eqb f 0 then json_fmt else f.

Inductive sres := SOk | SErr | SPanic.

(* an io.Writer answers a Write(b) with (n, err?) *)
Definition writer := list N -> N * bool.
Definition lenN {A} (l : list A) : N := N.of_nat (length l).

(* one Write call: the buffer handed over and how many bytes of it the writer reports written *)
Definition wcall : Type := list N * N.

(* bytes.Reader.WriteTo: nothing to write -> no call; otherwise ONE Write of the whole remaining buffer;
   n > len panics, n < len without error is io.ErrShortWrite *)
Definition write_to (w : writer) (b : list N) : sres * list wcall :=
  match b with
  | [] => (SOk, [])
  | _ => let '(n, err) := w b in
         if N.ltb (lenN b) n then (SPanic, [(b, n)])
         else if err then (SErr, [(b, n)])
         else if N.eqb n (lenN b) then (SOk, [(b, n)]) else (SErr, [(b, n)])
  end.

(* ---------- writer.Sink.Process ---------- *)
Definition writer_process (fmt : N) (wnil : bool) (e : option table) (w : writer) : sres * list wcall :=
  if wnil then (SErr, []) else
  match e with
  | None => (SErr, [])
  | Some t =>
      match lookup (eff_format fmt) t with
      | None => (SErr, [])
      | Some val => write_to w val
      end
  end.

(* ---------- FileSink.Process: format selection, special paths, the single retry ---------- *)
Inductive pathkind := PNull | PStdout | PStderr | PFile.

Record fsenv := {
  fs_open_ok : bool;       (* open() (when no file is open) and rotate() succeed *)
  fs_w1 : writer;          (* the destination's answer to the first Write *)
  fs_reopen_ok : bool;     (* reopen() succeeds *)
  fs_w2 : writer           (* the answer to the retried Write *)
}.

Definition filesink_process (k : pathkind) (fmt : N) (t : table) (F : fsenv) : sres * list wcall :=
  match k with
  | PNull => (SOk, [])                                (* '/dev/null' just returns success, before looking at the event *)
  | _ =>
      match lookup (eff_format fmt) t with
      | None => (SErr, [])
      | Some val =>
          let special := match k with PFile => false | _ => true end in
          if negb special && negb (fs_open_ok F) then (SErr, []) else
          match write_to (fs_w1 F) val with
          | (SOk, c1) => (SOk, c1)
          | (SPanic, c1) => (SPanic, c1)
          | (SErr, c1) =>
              if special then (SErr, c1)               (* reopen is a no-op, fs.f is nil: the retry fails without writing *)
              else if fs_reopen_ok F then
                let '(r2, c2) := write_to (fs_w2 F) val in (r2, c1 ++ c2)
              else (SErr, c1)
          end
      end
  end.

(* bytes that reached the destination through a list of calls *)
Definition taken (c : wcall) : list N := firstn (N.to_nat (snd c)) (fst c).
Definition received (cs : list wcall) : list N := concat (map taken cs).

(* ---------- n concurrent writer.Sink.Process calls: interleavings ----------
   Thread i has looked up [vals i] (None = the format is absent).  Atomic steps of a thread: look up, acquire the sink's
   mutex, hand over one byte at a time to an accepting destination (so that other threads can be scheduled in the middle of
   a write), release.  A schedule is any list of thread numbers; a step of a thread that cannot move is a no-op. *)
Inductive pc := PStart | PWant (val : list N) | PWriting (rest : list N) | PDone (r : sres).

Record cstate := { pcs : nat -> pc; holder : option nat; stream : list N; order : list nat }.

Definition upd (f : nat -> pc) (i : nat) (p : pc) : nat -> pc := fun j => if Nat.eqb j i then p else f j.

Definition cstep (vals : nat -> option (list N)) (s : cstate) (i : nat) : cstate :=
  match pcs s i with
  | PStart =>
      match vals i with
      | None => {| pcs := upd (pcs s) i (PDone SErr); holder := holder s; stream := stream s; order := order s |}
      | Some v => {| pcs := upd (pcs s) i (PWant v); holder := holder s; stream := stream s; order := order s |}
      end
  | PWant v =>
      match holder s with
      | Some _ => s                                    (* blocked on the mutex *)
      | None => {| pcs := upd (pcs s) i (PWriting v); holder := Some i; stream := stream s; order := order s ++ [i] |}
      end
  | PWriting (b :: rest) => {| pcs := upd (pcs s) i (PWriting rest); holder := holder s; stream := stream s ++ [b]; order := order s |}
  | PWriting [] => {| pcs := upd (pcs s) i (PDone SOk); holder := None; stream := stream s; order := order s |}
  | PDone _ => s
  end.

Definition c0 : cstate := {| pcs := fun _ => PStart; holder := None; stream := []; order := [] |}.
Definition crun (vals : nat -> option (list N)) (sched : list nat) : cstate := fold_left (cstep vals) sched c0.
Definition val_of (vals : nat -> option (list N)) (i : nat) : list N := match vals i with Some v => v | None => [] end.

(* ---------- ChannelSink.Process ----------
   One select over: send on the channel, ctx.Done(), time.After(timeout).  The call starts at [t0]; [chan_at] is the earliest
   instant (>= t0) at which the send can complete (None = never: full and not drained), [ctx_at] the instant the context is
   done (None = never; may lie before t0).  select blocks until some arm is ready and then takes any arm that is ready. *)
Inductive arm := ASent | ACtx | ATimeout.
Record tenv := { t0 : Z; timeout : Z; chan_at : option Z; ctx_at : option Z }.

Definition arm_time (T : tenv) (a : arm) : option Z :=
  match a with
  | ASent => option_map (Z.max (t0 T)) (chan_at T)
  | ACtx => option_map (Z.max (t0 T)) (ctx_at T)
  | ATimeout => Some (t0 T + timeout T)%Z
  end.
Definition omin (a : option Z) (b : Z) : Z := match a with Some x => Z.min x b | None => b end.
(* the instant the call returns: the earliest instant at which an arm is ready (the timer always becomes ready) *)
Definition ret_time (T : tenv) : Z := omin (arm_time T ASent) (omin (arm_time T ACtx) (t0 T + timeout T)%Z).
(* the arms select may take *)
Definition may_choose (T : tenv) (a : arm) : Prop := arm_time T a = Some (ret_time T).
Definition may_chooseb (T : tenv) (a : arm) : bool := match arm_time T a with Some x => Z.eqb x (ret_time T) | None => false end.

(* what the caller and the channel see: (event handed to the channel, result) *)
Definition chan_outcome (ev : N) (a : arm) : option N * sres :=
  match a with ASent => (Some ev, SOk) | ACtx => (None, SErr) | ATimeout => (None, SErr) end.
