(* SinksExamples.v — concrete instances showing the hypotheses of the C13 theorems are met non-trivially. *)
From Coq Require Import List Bool NArith ZArith.
From Verif Require Import Sinks SinksProofs.
Import ListNotations.

Definition tab : table := [(1, [74; 10]); (2, [88; 89; 90])]%N.
Definition w_ok : writer := fun b => (lenN b, false).
Definition w_short : writer := fun b => (N.div (lenN b) 2, false).
Definition w_fail : writer := fun _ => (0%N, true).

Example writer_examples :
  writer_process 0 false (Some tab) w_ok = (SOk, [([74; 10], 2)])%N /\
  writer_process 2 false (Some tab) w_ok = (SOk, [([88; 89; 90], 3)])%N /\
  writer_process 3 false (Some tab) w_ok = (SErr, []) /\
  writer_process 2 false (Some tab) w_short = (SErr, [([88; 89; 90], 1)])%N /\
  writer_process 2 false (Some tab) w_fail = (SErr, [([88; 89; 90], 0)])%N.
Proof. repeat split. Qed.

(* three threads (the third lacks the format); a schedule in which thread 1 takes the mutex between the bytes of thread 0 *)
Definition vals3 (i : nat) : option (list N) := match i with 0 => Some [1; 2; 3]%N | 1 => Some [7; 8]%N | _ => None end.
Definition sched3 : list nat := [0; 1; 0; 2; 0; 1; 0; 1; 2; 0; 0; 1; 1; 1; 1; 1]%nat.
Example conc_example :
  holder (crun vals3 sched3) = None /\ stream (crun vals3 sched3) = [1; 2; 3; 7; 8]%N /\ order (crun vals3 sched3) = [0; 1]%nat /\
  pcs (crun vals3 sched3) 2 = PDone SErr.
Proof. repeat split. Qed.

(* channel: drained at 5 with timeout 50 -> sent at 5; full for ever, context done at 20, timeout 50 -> context error at 20;
   nothing ready -> timeout at 50 *)
Example chan_examples :
  may_choose {| t0 := 0; timeout := 50; chan_at := Some 5%Z; ctx_at := None |} ASent /\
  may_choose {| t0 := 0; timeout := 50; chan_at := None; ctx_at := Some 20%Z |} ACtx /\
  may_choose {| t0 := 0; timeout := 50; chan_at := None; ctx_at := None |} ATimeout /\
  ~ may_choose {| t0 := 0; timeout := 50; chan_at := Some 5%Z; ctx_at := None |} ATimeout.
Proof. repeat split. intros H. discriminate H. Qed.

Example c13_inhabited :
  fst (writer_process 0 false (Some tab) w_ok) = SOk /\ fst (writer_process 2 false (Some tab) w_short) = SErr /\
  holder (crun vals3 sched3) = None /\ stream (crun vals3 sched3) = [1; 2; 3; 7; 8]%N /\
  may_choose {| t0 := 0; timeout := 50; chan_at := None; ctx_at := Some 20%Z |} ACtx.
Proof. repeat split. Qed.
