(* SinksProofs.v — theorems about the sink models of Sinks.v (C13). *)
From Coq Require Import List Bool Arith NArith ZArith Lia.
From Verif Require Import Sinks.
Import ListNotations.

(* ================= one Write call ================= *)

Lemma firstn_lenN {A} (l : list A) : firstn (N.to_nat (lenN l)) l = l.
Proof. unfold lenN. rewrite Nat2N.id. apply firstn_all. Qed.

Lemma write_to_ok_iff w b cs : write_to w b = (SOk, cs) <->
  (b = [] /\ cs = []) \/ (b <> [] /\ w b = (lenN b, false) /\ cs = [(b, lenN b)]).
Proof.
  unfold write_to. destruct b as [|x t].
  - split; [intros H; injection H as <-; left; split; reflexivity|intros [[_ ->]|[H _]]; [reflexivity|contradiction]].
  - destruct (w (x :: t)) as [n err] eqn:Ew. split.
    + intros H. right. split; [discriminate|].
      destruct (N.ltb (lenN (x :: t)) n) eqn:El; [discriminate|]. destruct err; [discriminate|].
      destruct (N.eqb n (lenN (x :: t))) eqn:En; [|discriminate]. apply N.eqb_eq in En. subst n. injection H as <-. split; reflexivity.
    + intros [[H _]|[_ [H ->]]]; [discriminate|]. injection H as -> ->. rewrite N.ltb_irrefl, N.eqb_refl. reflexivity.
Qed.

(* at most one call, and it is handed exactly the buffer *)
Lemma write_to_calls w b : snd (write_to w b) = [] \/ exists n, snd (write_to w b) = [(b, n)].
Proof.
  unfold write_to. destruct b as [|x t]; [left; reflexivity|]. right. destruct (w (x :: t)) as [n err]. exists n.
  destruct (N.ltb (lenN (x :: t)) n); [reflexivity|]. destruct err; [reflexivity|]. destruct (N.eqb n (lenN (x :: t))); reflexivity.
Qed.

Lemma write_to_ok_received w b cs : write_to w b = (SOk, cs) -> received cs = b.
Proof.
  intros H. apply write_to_ok_iff in H as [[-> ->]|[_ [_ ->]]]; [reflexivity|].
  unfold received, taken. cbn [map concat fst snd]. rewrite firstn_lenN. apply app_nil_r.
Qed.

(* ================= writer.Sink ================= *)

(* success <-> a writer is configured, the event exists, it carries bytes for the configured format (JSON when unset) and the
   writer accepted exactly those bytes (in one call; nothing to write needs no call) *)
Theorem writer_success_iff fmt wnil e w :
  fst (writer_process fmt wnil e w) = SOk <->
  wnil = false /\ exists t val, e = Some t /\ lookup (eff_format fmt) t = Some val /\ (val = [] \/ w val = (lenN val, false)).
Proof.
  unfold writer_process. destruct wnil; [split; [discriminate|intros [H _]; discriminate]|].
  destruct e as [t|]; [|split; [discriminate|intros [_ [t [v [H _]]]]; discriminate]].
  destruct (lookup (eff_format fmt) t) as [val|] eqn:El; [|split; [discriminate|intros [_ [t' [v [H [H2 _]]]]]; injection H as <-; congruence]].
  split.
  - intros H. split; [reflexivity|]. exists t, val. split; [reflexivity|]. split; [exact El|].
    destruct (write_to w val) as [r cs] eqn:Ew. cbn [fst] in H. subst r. apply write_to_ok_iff in Ew as [[-> _]|[_ [Hw _]]]; [left; reflexivity|right; exact Hw].
  - intros [_ [t' [v [H [H2 H3]]]]]. injection H as <-. rewrite El in H2. injection H2 as <-.
    destruct H3 as [->|Hw]; [reflexivity|]. destruct val as [|x r]; [reflexivity|].
    assert (Hx : write_to w (x :: r) = (SOk, [(x :: r, lenN (x :: r))])) by (apply write_to_ok_iff; right; split; [discriminate|split; [exact Hw|reflexivity]]).
    rewrite Hx. reflexivity.
Qed.

(* on success the destination received exactly the stored bytes, through at most one Write call of the whole value *)
Theorem writer_success_writes fmt wnil e w cs : writer_process fmt wnil e w = (SOk, cs) ->
  exists t val, e = Some t /\ lookup (eff_format fmt) t = Some val /\ received cs = val /\ (cs = [] \/ cs = [(val, lenN val)]).
Proof.
  unfold writer_process. destruct wnil; [discriminate|]. destruct e as [t|]; [|discriminate].
  destruct (lookup (eff_format fmt) t) as [val|] eqn:El; [|discriminate]. intros H. exists t, val. split; [reflexivity|]. split; [exact El|].
  split; [eapply write_to_ok_received; eauto|]. apply write_to_ok_iff in H as [[_ ->]|[_ [_ ->]]]; [left|right]; reflexivity.
Qed.

(* whatever happens the sink hands the writer nothing but the whole stored value, at most once; and nothing at all when the
   writer or the event is missing or the event carries no bytes for the format *)
Theorem writer_only_the_value fmt wnil e w :
  snd (writer_process fmt wnil e w) = [] \/
  exists t val n, e = Some t /\ lookup (eff_format fmt) t = Some val /\ snd (writer_process fmt wnil e w) = [(val, n)].
Proof.
  unfold writer_process. destruct wnil; [left; reflexivity|]. destruct e as [t|]; [|left; reflexivity].
  destruct (lookup (eff_format fmt) t) as [val|] eqn:El; [|left; reflexivity].
  destruct (write_to_calls w val) as [H|[n H]]; [left; exact H|right; exists t, val, n; split; [reflexivity|split; [exact El|exact H]]].
Qed.

Theorem writer_absent_format_error fmt e w t : e = Some t -> lookup (eff_format fmt) t = None -> writer_process fmt false e w = (SErr, []).
Proof. intros -> H. unfold writer_process. rewrite H. reflexivity. Qed.

Theorem writer_failed_write_error fmt t val w n : lookup (eff_format fmt) t = Some val -> val <> [] -> w val = (n, true) ->
  fst (writer_process fmt false (Some t) w) <> SOk.
Proof.
  intros Hl Hv Hw H. apply writer_success_iff in H as [_ [t' [v [He [H2 H3]]]]]. injection He as <-. rewrite Hl in H2. injection H2 as <-.
  destruct H3 as [H3|H3]; [contradiction|]. rewrite Hw in H3. discriminate.
Qed.

Theorem writer_short_write_error fmt t val w n : lookup (eff_format fmt) t = Some val -> w val = (n, false) -> (n < lenN val)%N ->
  fst (writer_process fmt false (Some t) w) = SErr.
Proof.
  intros Hl Hw Hn. unfold writer_process. rewrite Hl. unfold write_to. destruct val as [|x r]; [cbn in Hn; lia|]. rewrite Hw.
  destruct (N.ltb (lenN (x :: r)) n) eqn:E1; [apply N.ltb_lt in E1; lia|]. destruct (N.eqb n (lenN (x :: r))) eqn:E2; [apply N.eqb_eq in E2; lia|reflexivity].
Qed.

(* JSON when unset *)
Theorem default_format_json wnil e w : writer_process 0 wnil e w = writer_process json_fmt wnil e w.
Proof. reflexivity. Qed.

(* ================= FileSink.Process ================= *)

Theorem filesink_default_format_json k t F : filesink_process k 0 t F = filesink_process k json_fmt t F.
Proof. reflexivity. Qed.

(* /dev/null: success without looking at the event; stdout / stderr never touch open, rotate or reopen *)
Theorem filesink_devnull_bypass fmt t F : filesink_process PNull fmt t F = (SOk, []).
Proof. reflexivity. Qed.

Definition is_std (k : pathkind) : bool := match k with PStdout | PStderr => true | _ => false end.

Theorem filesink_std_bypass k fmt t F F' : is_std k = true -> fs_w1 F = fs_w1 F' -> filesink_process k fmt t F = filesink_process k fmt t F'.
Proof.
  intros Hk Hw. destruct k; try discriminate; unfold filesink_process; destruct (lookup (eff_format fmt) t); try reflexivity;
    cbn [negb andb]; rewrite Hw; reflexivity.
Qed.

Theorem filesink_absent_format_error k fmt t F : k <> PNull -> lookup (eff_format fmt) t = None -> filesink_process k fmt t F = (SErr, []).
Proof. intros Hk H. destruct k; [contradiction| | |]; unfold filesink_process; rewrite H; reflexivity. Qed.

(* success (other than /dev/null) <-> the format is present and a Write — the first, or for a regular file the one retried after
   a successful reopen — was handed the whole value and accepted exactly it (nothing to write needs no call) *)
Theorem filesink_success_iff k fmt t F : k <> PNull ->
  (fst (filesink_process k fmt t F) = SOk <->
   exists val, lookup (eff_format fmt) t = Some val /\ (k = PFile -> fs_open_ok F = true) /\
     (val = [] \/ fs_w1 F val = (lenN val, false) \/
      (k = PFile /\ fst (write_to (fs_w1 F) val) = SErr /\ fs_reopen_ok F = true /\ fs_w2 F val = (lenN val, false)))).
Proof.
  intros Hk. unfold filesink_process.
  assert (Hw : forall w val, fst (write_to w val) = SOk <-> (val = [] \/ w val = (lenN val, false))).
  { intros w val. destruct (write_to w val) as [r cs] eqn:Ew. cbn [fst]. split.
    - intros ->. apply write_to_ok_iff in Ew as [[-> _]|[_ [H _]]]; [left; reflexivity|right; exact H].
    - intros [->|H]; [cbn in Ew; injection Ew as <- _; reflexivity|]. destruct val as [|x r0]; [cbn in Ew; injection Ew as <- _; reflexivity|].
      assert (Hx : write_to w (x :: r0) = (SOk, [(x :: r0, lenN (x :: r0))])) by (apply write_to_ok_iff; right; split; [discriminate|split; [exact H|reflexivity]]).
      rewrite Hx in Ew. injection Ew as <- _. reflexivity. }
  destruct (lookup (eff_format fmt) t) as [val|] eqn:El.
  2:{ destruct k; [contradiction| | |]; (split; [discriminate|intros [v [H _]]; discriminate]). }
  destruct k; [contradiction| | |]; cbn [negb andb].
  - (* stdout *) pose proof (Hw (fs_w1 F) val) as H1. destruct (write_to (fs_w1 F) val) as [r1 c1]. cbn [fst] in H1. destruct r1; cbn [fst].
    + split; [intros _; exists val; split; [reflexivity|]; split; [discriminate|]; destruct (proj1 H1 eq_refl) as [H|H]; [left|right; left]; exact H|reflexivity].
    + split; [discriminate|]. intros [v [Hv [_ [H|[H|[H _]]]]]]; injection Hv as <-; [apply H1; left; exact H|apply H1; right; exact H|discriminate].
    + split; [discriminate|]. intros [v [Hv [_ [H|[H|[H _]]]]]]; injection Hv as <-; [apply H1; left; exact H|apply H1; right; exact H|discriminate].
  - (* stderr *) pose proof (Hw (fs_w1 F) val) as H1. destruct (write_to (fs_w1 F) val) as [r1 c1]. cbn [fst] in H1. destruct r1; cbn [fst].
    + split; [intros _; exists val; split; [reflexivity|]; split; [discriminate|]; destruct (proj1 H1 eq_refl) as [H|H]; [left|right; left]; exact H|reflexivity].
    + split; [discriminate|]. intros [v [Hv [_ [H|[H|[H _]]]]]]; injection Hv as <-; [apply H1; left; exact H|apply H1; right; exact H|discriminate].
    + split; [discriminate|]. intros [v [Hv [_ [H|[H|[H _]]]]]]; injection Hv as <-; [apply H1; left; exact H|apply H1; right; exact H|discriminate].
  - (* regular file *) destruct (fs_open_ok F) eqn:Eo; cbn [negb].
    2:{ split; [discriminate|]. intros [v [_ [H _]]]. specialize (H eq_refl). discriminate. }
    pose proof (Hw (fs_w1 F) val) as H1. destruct (write_to (fs_w1 F) val) as [r1 c1] eqn:E1. cbn [fst] in H1. destruct r1; cbn [fst].
    + split; [intros _; exists val; split; [reflexivity|]; split; [reflexivity|]; destruct (proj1 H1 eq_refl) as [H|H]; [left|right; left]; exact H|reflexivity].
    + destruct (fs_reopen_ok F) eqn:Er.
      * pose proof (Hw (fs_w2 F) val) as H2. destruct (write_to (fs_w2 F) val) as [r2 c2]. cbn [fst] in H2 |- *. split.
        -- intros H. exists val. split; [reflexivity|]. split; [reflexivity|]. destruct (proj1 H2 H) as [Hx|Hx]; [left; exact Hx|].
           right. right. repeat split; try assumption; try reflexivity. rewrite E1. reflexivity.
        -- intros [v [Hv [_ [H|[H|[_ [_ [_ H]]]]]]]]; injection Hv as <-; [apply H2; left; exact H| |apply H2; right; exact H].
           assert (Hc : SErr = SOk) by (apply H1; right; exact H). discriminate.
      * cbn [fst]. split; [discriminate|]. intros [v [Hv [_ [H|[H|[_ [_ [H _]]]]]]]]; injection Hv as <-; try discriminate.
        -- assert (Hc : SErr = SOk) by (apply H1; left; exact H). discriminate.
        -- assert (Hc : SErr = SOk) by (apply H1; right; exact H). discriminate.
    + split; [discriminate|]. intros [v [Hv [_ [H|[H|[_ [H _]]]]]]]; injection Hv as <-; try discriminate.
      * assert (Hc : SPanic = SOk) by (apply H1; left; exact H). discriminate.
      * assert (Hc : SPanic = SOk) by (apply H1; right; exact H). discriminate.
      * rewrite E1 in H. discriminate.
Qed.

(* every Write FileSink makes is handed the whole stored value of the configured format, nothing else *)
Theorem filesink_only_the_value k fmt t F c : In c (snd (filesink_process k fmt t F)) -> lookup (eff_format fmt) t = Some (fst c).
Proof.
  unfold filesink_process. destruct k; [intros []| | |]; destruct (lookup (eff_format fmt) t) as [val|] eqn:El; try (intros []); cbn [negb andb].
  - destruct (write_to_calls (fs_w1 F) val) as [H|[n H]]; destruct (write_to (fs_w1 F) val) as [r1 c1]; cbn [snd] in H; subst c1;
      destruct r1; cbn [snd]; intros Hc; cbn [In] in Hc; try contradiction; destruct Hc as [<-|Hc]; try contradiction; reflexivity.
  - destruct (write_to_calls (fs_w1 F) val) as [H|[n H]]; destruct (write_to (fs_w1 F) val) as [r1 c1]; cbn [snd] in H; subst c1;
      destruct r1; cbn [snd]; intros Hc; cbn [In] in Hc; try contradiction; destruct Hc as [<-|Hc]; try contradiction; reflexivity.
  - destruct (fs_open_ok F); cbn [negb]; [|intros []].
    assert (Hin : forall w c0, In c0 (snd (write_to w val)) -> fst c0 = val).
    { intros w c0. destruct (write_to_calls w val) as [H|[n H]]; rewrite H; [intros []|intros [<-|[]]; reflexivity]. }
    pose proof (Hin (fs_w1 F)) as H1. destruct (write_to (fs_w1 F) val) as [r1 c1]. cbn [snd] in H1. destruct r1; cbn [snd].
    + intros Hc. rewrite (H1 c Hc). reflexivity.
    + destruct (fs_reopen_ok F); cbn [snd]; [|intros Hc; rewrite (H1 c Hc); reflexivity].
      pose proof (Hin (fs_w2 F)) as H2. destruct (write_to (fs_w2 F) val) as [r2 c2]. cbn [snd] in H2 |- *.
      intros Hc. apply in_app_or in Hc as [Hc|Hc]; [rewrite (H1 c Hc)|rewrite (H2 c Hc)]; reflexivity.
    + intros Hc. rewrite (H1 c Hc). reflexivity.
Qed.

(* FileSink: when success is reported and no Write failed after taking part of the value, the destination received exactly the value *)
Theorem filesink_success_received k fmt t F cs : filesink_process k fmt t F = (SOk, cs) -> k <> PNull ->
  (forall val, lookup (eff_format fmt) t = Some val -> fst (write_to (fs_w1 F) val) = SErr -> fst (fs_w1 F val) = 0%N) ->
  exists val, lookup (eff_format fmt) t = Some val /\ received cs = val.
Proof.
  intros H Hk Hclean. unfold filesink_process in H. destruct (lookup (eff_format fmt) t) as [val|] eqn:El.
  2:{ destruct k; try contradiction; discriminate. }
  exists val. split; [reflexivity|]. specialize (Hclean val eq_refl).
  assert (Hw1 : forall c1, write_to (fs_w1 F) val = (SOk, c1) -> received c1 = val) by (intros c1; apply write_to_ok_received).
  assert (Hc1 : forall c1, write_to (fs_w1 F) val = (SErr, c1) -> received c1 = []).
  { intros c1 E1. rewrite E1 in Hclean. specialize (Hclean eq_refl). unfold write_to in E1. destruct val as [|x r]; [discriminate|].
    destruct (fs_w1 F (x :: r)) as [n err]. cbn [fst] in Hclean. subst n. cbn in E1.
    destruct err; injection E1 as <-; reflexivity. }
  destruct k; [contradiction| | |]; cbn [negb andb] in H.
  - destruct (write_to (fs_w1 F) val) as [r1 c1] eqn:E1. destruct r1; try discriminate. injection H as <-. apply Hw1. reflexivity.
  - destruct (write_to (fs_w1 F) val) as [r1 c1] eqn:E1. destruct r1; try discriminate. injection H as <-. apply Hw1. reflexivity.
  - destruct (fs_open_ok F); cbn [negb] in H; [|discriminate].
    destruct (write_to (fs_w1 F) val) as [r1 c1] eqn:E1. destruct r1; try discriminate.
    + injection H as <-. apply Hw1. reflexivity.
    + destruct (fs_reopen_ok F); [|discriminate]. destruct (write_to (fs_w2 F) val) as [r2 c2] eqn:E2. injection H as -> <-.
      unfold received. rewrite map_app, concat_app. fold (received c1). fold (received c2). rewrite (Hc1 c1 eq_refl). cbn [app].
      eapply write_to_ok_received; eauto.
Qed.

(* the full-strength statement "success => exactly the value arrived" is FALSE of the retry path: a first Write that fails
   after taking part of the value, followed by a successful reopen and retry, leaves the partial bytes before the whole value *)
Theorem filesink_retry_exactly_refuted : exists t F cs,
  filesink_process PFile 0 t F = (SOk, cs) /\ lookup json_fmt t = Some [1; 2; 3; 4]%N /\ received cs = [1; 2; 1; 2; 3; 4]%N.
Proof.
  exists [(json_fmt, [1; 2; 3; 4]%N)], {| fs_open_ok := true; fs_w1 := fun _ => (2%N, true); fs_reopen_ok := true; fs_w2 := fun b => (lenN b, false) |}.
  eexists. repeat split.
Qed.

(* ... and that is the only way success can come with anything but exactly the value: whenever FileSink reports success the
   destination received the whole value, preceded at most by the prefix of it that a failed first Write had accepted *)
Theorem filesink_success_shape k fmt t F cs : filesink_process k fmt t F = (SOk, cs) -> k <> PNull ->
  exists val, lookup (eff_format fmt) t = Some val /\
    (received cs = val \/ exists n, fs_w1 F val = (n, true) \/ fs_w1 F val = (n, false) /\ (n < lenN val)%N) /\
    exists n, received cs = firstn n val ++ val.
Proof.
  intros H Hk. unfold filesink_process in H. destruct (lookup (eff_format fmt) t) as [val|] eqn:El.
  2:{ destruct k; try contradiction; discriminate. }
  exists val. split; [reflexivity|].
  assert (Hw1 : forall w c1, write_to w val = (SOk, c1) -> received c1 = val) by (intros w c1; apply write_to_ok_received).
  assert (Hdirect : forall c1, received c1 = val -> (received c1 = val \/ exists n, fs_w1 F val = (n, true) \/ fs_w1 F val = (n, false) /\ (n < lenN val)%N) /\
                                              exists n, received c1 = firstn n val ++ val).
  { intros c1 Hc. split; [left; exact Hc|exists O; rewrite Hc; reflexivity]. }
  destruct k; [contradiction| | |]; cbn [negb andb] in H.
  - destruct (write_to (fs_w1 F) val) as [r1 c1] eqn:E1. destruct r1; try discriminate. injection H as <-. apply Hdirect. eapply Hw1; eauto.
  - destruct (write_to (fs_w1 F) val) as [r1 c1] eqn:E1. destruct r1; try discriminate. injection H as <-. apply Hdirect. eapply Hw1; eauto.
  - destruct (fs_open_ok F); cbn [negb] in H; [|discriminate].
    destruct (write_to (fs_w1 F) val) as [r1 c1] eqn:E1. destruct r1; try discriminate.
    + injection H as <-. apply Hdirect. eapply Hw1; eauto.
    + destruct (fs_reopen_ok F); [|discriminate]. destruct (write_to (fs_w2 F) val) as [r2 c2] eqn:E2. injection H as -> <-.
      assert (Hc1 : exists n, received c1 = firstn n val /\ (fs_w1 F val = (N.of_nat n, true) \/ fs_w1 F val = (N.of_nat n, false) /\ (N.of_nat n < lenN val)%N)).
      { unfold write_to in E1. destruct val as [|x r]; [discriminate|]. destruct (fs_w1 F (x :: r)) as [n err] eqn:Ew.
        destruct (N.ltb (lenN (x :: r)) n) eqn:El2; [discriminate|]. exists (N.to_nat n). rewrite N2Nat.id.
        destruct err.
        - injection E1 as <-. split; [unfold received, taken; cbn [map concat fst snd]; apply app_nil_r|left; reflexivity].
        - destruct (N.eqb n (lenN (x :: r))) eqn:En; [discriminate|]. injection E1 as <-.
          split; [unfold received, taken; cbn [map concat fst snd]; apply app_nil_r|right; split; [reflexivity|]].
          apply N.ltb_ge in El2. apply N.eqb_neq in En. lia. }
      destruct Hc1 as [n [Hr1 Hw]]. assert (Hr : received (c1 ++ c2) = firstn n val ++ val).
      { unfold received. rewrite map_app, concat_app. fold (received c1). fold (received c2). rewrite Hr1. f_equal. eapply Hw1; eauto. }
      split; [right; exists (N.of_nat n); exact Hw|exists n; exact Hr].
Qed.

Corollary filesink_success_prefix_then_value k fmt t F cs : filesink_process k fmt t F = (SOk, cs) -> k <> PNull ->
  exists val n, lookup (eff_format fmt) t = Some val /\ received cs = firstn n val ++ val.
Proof. intros H Hk. destruct (filesink_success_shape k fmt t F cs H Hk) as [val [Hl [_ [n Hn]]]]. exists val, n. split; assumption. Qed.

(* ================= concurrent writer.Sink.Process calls ================= *)

Definition cinv (vals : nat -> option (list N)) (s : cstate) : Prop :=
  (forall i v, pcs s i = PWant v -> vals i = Some v) /\
  (forall i r, pcs s i = PWriting r -> holder s = Some i) /\
  NoDup (order s) /\
  (forall i, In i (order s) <-> ((exists r, pcs s i = PWriting r) \/ pcs s i = PDone SOk)) /\
  (forall i, pcs s i = PDone SErr -> vals i = None) /\
  match holder s with
  | None => stream s = concat (map (val_of vals) (order s))
  | Some h => exists pre written rest, order s = pre ++ [h] /\ pcs s h = PWriting rest /\ val_of vals h = written ++ rest /\
                                      stream s = concat (map (val_of vals) pre) ++ written
  end.

Lemma upd_same f i p : upd f i p i = p.
Proof. unfold upd. rewrite Nat.eqb_refl. reflexivity. Qed.
Lemma upd_other f i p j : j <> i -> upd f i p j = f j.
Proof. intros H. unfold upd. apply Nat.eqb_neq in H. rewrite H. reflexivity. Qed.

Lemma NoDup_snoc {A} (l : list A) x : NoDup l -> ~ In x l -> NoDup (l ++ [x]).
Proof.
  induction l as [|y t IH]; cbn; intros Hd Hn; [constructor; [intros []|constructor]|].
  inversion Hd as [|? ? Hy Ht]; subst. constructor.
  - intros Hin. apply in_app_or in Hin as [Hin|[<-|[]]]; [contradiction|apply Hn; left; reflexivity].
  - apply IH; [assumption|]. intros Hin. apply Hn. right. exact Hin.
Qed.

Lemma concat_map_snoc {A B} (f : A -> list B) l x : concat (map f (l ++ [x])) = concat (map f l) ++ f x.
Proof. rewrite map_app, concat_app. cbn. rewrite app_nil_r. reflexivity. Qed.

Lemma cstep_inv vals s i : cinv vals s -> cinv vals (cstep vals s i).
Proof.
  intros Hinv. pose proof Hinv as [I1 [I2 [I3 [I4 [I6 I5]]]]]. unfold cstep. destruct (pcs s i) as [|v|rest|r] eqn:Ep.
  - (* lookup *)
    assert (Hni : ~ In i (order s)). { intros Hin. apply I4 in Hin as [[r Hr]|Hr]; congruence. }
    assert (Hh : holder s <> Some i). { intros Hh. rewrite Hh in I5. destruct I5 as [pre [wr [rs [_ [Hp _]]]]]. congruence. }
    assert (Hgen : forall p, (forall v, p = PWant v -> vals i = Some v) -> (forall r, p <> PWriting r) -> p <> PDone SOk -> (p = PDone SErr -> vals i = None) ->
              cinv vals {| pcs := upd (pcs s) i p; holder := holder s; stream := stream s; order := order s |}).
    { intros p P1 P2 P3 P4. unfold cinv. cbn [pcs holder stream order]. repeat split.
      - intros j v Hj. destruct (Nat.eq_dec j i) as [->|Hne]; [rewrite upd_same in Hj; apply P1, Hj|rewrite upd_other in Hj by exact Hne; eapply I1; eauto].
      - intros j r Hj. destruct (Nat.eq_dec j i) as [->|Hne]; [rewrite upd_same in Hj; exfalso; eapply P2; eauto|rewrite upd_other in Hj by exact Hne; eapply I2; eauto].
      - exact I3.
      - intros Hin. assert (Hne : i0 <> i) by (intros ->; contradiction). rewrite upd_other by exact Hne. apply I4, Hin.
      - intros H. destruct (Nat.eq_dec i0 i) as [->|Hne].
        + rewrite upd_same in H. destruct H as [[r Hr]|Hr]; [exfalso; eapply P2; eauto|contradiction].
        + rewrite upd_other in H by exact Hne. apply I4, H.
      - intros j Hj. destruct (Nat.eq_dec j i) as [->|Hne]; [rewrite upd_same in Hj; apply P4, Hj|rewrite upd_other in Hj by exact Hne; apply I6, Hj].
      - destruct (holder s) as [h|]; [|exact I5]. destruct I5 as [pre [wr [rs [H1 [H2 [H3 H4]]]]]]. exists pre, wr, rs.
        repeat split; try assumption. rewrite upd_other; [exact H2|]. intros ->. apply Hh. reflexivity. }
    destruct (vals i) as [v|] eqn:Ev; apply Hgen; try congruence; intros; congruence.
  - (* acquire *)
    destruct (holder s) as [h|] eqn:Eh; [exact Hinv|].
    assert (Hni : ~ In i (order s)). { intros Hin. apply I4 in Hin as [[r Hr]|Hr]; congruence. }
    unfold cinv. cbn [pcs holder stream order]. repeat split.
    + intros j v0 Hj. destruct (Nat.eq_dec j i) as [->|Hne]; [rewrite upd_same in Hj; discriminate|rewrite upd_other in Hj by exact Hne; eapply I1; eauto].
    + intros j r Hj. destruct (Nat.eq_dec j i) as [->|Hne]; [reflexivity|]. rewrite upd_other in Hj by exact Hne. apply I2 in Hj. try rewrite Eh in Hj. discriminate.
    + apply NoDup_snoc; assumption.
    + intros Hin. apply in_app_or in Hin as [Hin|[<-|[]]].
      * assert (Hne : i0 <> i) by (intros ->; contradiction). rewrite upd_other by exact Hne. apply I4, Hin.
      * left. exists v. apply upd_same.
    + intros H. apply in_or_app. destruct (Nat.eq_dec i0 i) as [->|Hne]; [right; left; reflexivity|]. left. rewrite upd_other in H by exact Hne. apply I4, H.
    + intros j Hj. destruct (Nat.eq_dec j i) as [->|Hne]; [rewrite upd_same in Hj; discriminate|rewrite upd_other in Hj by exact Hne; apply I6, Hj].
    + exists (order s), [], v. repeat split; [apply upd_same|unfold val_of; rewrite (I1 i v Ep); reflexivity|rewrite app_nil_r; exact I5].
  - (* writing *)
    pose proof (I2 i rest Ep) as Eh. try rewrite Eh in I5. destruct I5 as [pre [wr [rs [H1 [H2 [H3 H4]]]]]]. rewrite Ep in H2. injection H2 as <-.
    destruct rest as [|b rest].
    + (* release *)
      unfold cinv. cbn [pcs holder stream order]. repeat split.
      * intros j v0 Hj. destruct (Nat.eq_dec j i) as [->|Hne]; [rewrite upd_same in Hj; discriminate|rewrite upd_other in Hj by exact Hne; eapply I1; eauto].
      * intros j r Hj. destruct (Nat.eq_dec j i) as [->|Hne]; [rewrite upd_same in Hj; discriminate|]. rewrite upd_other in Hj by exact Hne.
        apply I2 in Hj. try rewrite Eh in Hj. injection Hj as ->. contradiction.
      * exact I3.
      * intros Hin. destruct (Nat.eq_dec i0 i) as [->|Hne]; [right; apply upd_same|rewrite upd_other by exact Hne; apply I4, Hin].
      * intros H. destruct (Nat.eq_dec i0 i) as [->|Hne]; [apply I4; left; eauto|rewrite upd_other in H by exact Hne; apply I4, H].
      * intros j Hj. destruct (Nat.eq_dec j i) as [->|Hne]; [rewrite upd_same in Hj; discriminate|rewrite upd_other in Hj by exact Hne; apply I6, Hj].
      * rewrite H1, concat_map_snoc, H4, H3, app_nil_r. reflexivity.
    + (* one more byte *)
      unfold cinv. cbn [pcs holder stream order]. try rewrite Eh. repeat split.
      * intros j v0 Hj. destruct (Nat.eq_dec j i) as [->|Hne]; [rewrite upd_same in Hj; discriminate|rewrite upd_other in Hj by exact Hne; eapply I1; eauto].
      * intros j r Hj. destruct (Nat.eq_dec j i) as [->|Hne]; [reflexivity|]. rewrite upd_other in Hj by exact Hne. try rewrite <- Eh; eapply I2; eauto.
      * exact I3.
      * intros Hin. destruct (Nat.eq_dec i0 i) as [->|Hne]; [left; exists rest; apply upd_same|rewrite upd_other by exact Hne; apply I4, Hin].
      * intros H. destruct (Nat.eq_dec i0 i) as [->|Hne]; [apply I4; left; eauto|rewrite upd_other in H by exact Hne; apply I4, H].
      * intros j Hj. destruct (Nat.eq_dec j i) as [->|Hne]; [rewrite upd_same in Hj; discriminate|rewrite upd_other in Hj by exact Hne; apply I6, Hj].
      * exists pre, (wr ++ [b]), rest. repeat split; [exact H1|apply upd_same|rewrite H3, <- app_assoc; reflexivity|rewrite H4, app_assoc; reflexivity].
  - exact Hinv.
Qed.

Lemma cinv_run vals sched : cinv vals (crun vals sched).
Proof.
  unfold crun. assert (H0 : cinv vals c0).
  { unfold cinv, c0; cbn [pcs holder stream order]. split; [intros i v H; discriminate|]. split; [intros i r H; discriminate|].
    split; [constructor|]. split; [intros i; split; [intros []|intros [[r H]|H]; discriminate]|]. split; [intros i H; discriminate|reflexivity]. }
  revert H0. generalize c0. induction sched as [|i t IH]; intros s H; cbn [fold_left]; [exact H|]. apply IH, cstep_inv, H.
Qed.

(* C13 writes_contiguous: under EVERY schedule of the threads' atomic steps, whenever the sink's mutex is free the destination
   has received exactly the concatenation of the whole values of the calls that completed, in the order in which they took
   the mutex, each exactly once; the calls that succeeded are exactly those; calls whose event lacks the format failed and
   wrote nothing. *)
Theorem writes_contiguous vals sched : let s := crun vals sched in
  holder s = None ->
  stream s = concat (map (val_of vals) (order s)) /\ NoDup (order s) /\
  (forall i, In i (order s) <-> pcs s i = PDone SOk) /\ (forall i, pcs s i = PDone SErr -> vals i = None).
Proof.
  intros s Hh. destruct (cinv_run vals sched) as [I1 [I2 [I3 [I4 [I6 I5]]]]]. fold s in I1, I2, I3, I4, I5, I6. rewrite Hh in I5.
  split; [exact I5|]. split; [exact I3|]. split; [|exact I6].
  intros i. rewrite I4. split; [intros [[r Hr]|H]; [apply I2 in Hr; congruence|exact H]|intros H; right; exact H].
Qed.

(* ... and at every instant: what has been received is whole values followed by a prefix of the value being written *)
Theorem writes_contiguous_always vals sched : let s := crun vals sched in
  exists pre written, stream s = concat (map (val_of vals) pre) ++ written /\
    match holder s with None => written = [] /\ pre = order s
                      | Some h => order s = pre ++ [h] /\ exists rest, val_of vals h = written ++ rest end.
Proof.
  intros s. destruct (cinv_run vals sched) as [_ [_ [_ [_ [_ I5]]]]]. fold s in I5. destruct (holder s) as [h|].
  - destruct I5 as [pre [wr [rs [H1 [_ [H3 H4]]]]]]. exists pre, wr. split; [exact H4|]. split; [exact H1|exists rs; exact H3].
  - exists (order s), []. split; [rewrite app_nil_r; exact I5|split; reflexivity].
Qed.

(* ================= ChannelSink ================= *)
Local Open Scope Z_scope.

Lemma omin_le a b : omin a b <= b.
Proof. destruct a; cbn; lia. Qed.

(* the call returns, and no later than the shorter of timeout and context *)
Theorem channel_bounded T : ret_time T <= t0 T + timeout T /\ (forall td, ctx_at T = Some td -> ret_time T <= Z.max (t0 T) td).
Proof.
  unfold ret_time. split.
  - etransitivity; [apply omin_le|apply omin_le].
  - intros td Htd. etransitivity; [apply omin_le|]. cbn [arm_time]. rewrite Htd. cbn. lia.
Qed.

(* some arm can be taken at the return instant (never neither) ... *)
Theorem channel_some_arm T : exists a, may_choose T a.
Proof.
  unfold may_choose, ret_time, arm_time. destruct (chan_at T) as [c|], (ctx_at T) as [d|]; cbn [option_map omin].
  - destruct (Z.min_spec (Z.max (t0 T) c) (Z.min (Z.max (t0 T) d) (t0 T + timeout T))) as [[_ H]|[_ H]]; [exists ASent; cbn; rewrite H; reflexivity|].
    destruct (Z.min_spec (Z.max (t0 T) d) (t0 T + timeout T)) as [[_ H2]|[_ H2]]; [exists ACtx|exists ATimeout]; cbn; rewrite H, H2; reflexivity.
  - destruct (Z.min_spec (Z.max (t0 T) c) (t0 T + timeout T)) as [[_ H]|[_ H]]; [exists ASent|exists ATimeout]; cbn; rewrite H; reflexivity.
  - destruct (Z.min_spec (Z.max (t0 T) d) (t0 T + timeout T)) as [[_ H]|[_ H]]; [exists ACtx|exists ATimeout]; cbn; rewrite H; reflexivity.
  - exists ATimeout. reflexivity.
Qed.

(* ... and whichever arm is taken, exactly one of the two things happens: the very event was handed to the channel and success
   is reported, or nothing was handed over and an error is reported (never both); an error only once the timeout has elapsed
   or the context is done *)
Theorem channel_exactly_one T ev a : may_choose T a ->
  (chan_outcome ev a = (Some ev, SOk) /\ a = ASent /\ exists c, chan_at T = Some c) \/
  (chan_outcome ev a = (None, SErr) /\
   ((a = ATimeout /\ ret_time T = t0 T + timeout T) \/ (a = ACtx /\ exists d, ctx_at T = Some d /\ d <= ret_time T))).
Proof.
  unfold may_choose. destruct a; cbn [arm_time chan_outcome]; intros H.
  - left. split; [reflexivity|]. split; [reflexivity|]. destruct (chan_at T) as [c|]; [eauto|discriminate].
  - right. split; [reflexivity|]. right. split; [reflexivity|]. destruct (ctx_at T) as [d|]; [|discriminate]. exists d. split; [reflexivity|].
    cbn in H. injection H as H. lia.
  - right. split; [reflexivity|]. left. split; [reflexivity|]. injection H as H. lia.
Qed.

Theorem channel_never_both ev a : ~ (fst (chan_outcome ev a) <> None /\ snd (chan_outcome ev a) <> SOk) /\
                                  ~ (fst (chan_outcome ev a) = None /\ snd (chan_outcome ev a) = SOk).
Proof. destruct a; cbn; split; intros [H1 H2]; congruence. Qed.

Lemma may_chooseb_spec T a : may_chooseb T a = true <-> may_choose T a.
Proof.
  unfold may_chooseb, may_choose. destruct (arm_time T a) as [x|]; [|split; discriminate]. rewrite Z.eqb_eq. split; [intros ->; reflexivity|intros H; injection H as ->; reflexivity].
Qed.
