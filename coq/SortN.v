(* SortN.v — facts about Alist.sortN / distinct: sorting then deduplicating is a canonical form of the member set. *)
From Coq Require Import List Bool Arith NArith Lia Permutation Sorted.
From Verif Require Import Alist.
Import ListNotations.

Lemma insN_perm x l : Permutation (x :: l) (insN x l).
Proof.
  induction l as [|y t IH]; cbn; [apply Permutation_refl|].
  destruct (N.leb x y); [apply Permutation_refl|].
  eapply Permutation_trans; [apply perm_swap|]. apply perm_skip. exact IH.
Qed.
Lemma sortN_perm l : Permutation l (sortN l).
Proof.
  induction l as [|x t IH]; cbn; [constructor|].
  eapply Permutation_trans; [apply perm_skip; exact IH|apply insN_perm].
Qed.
Lemma sortN_in x l : In x (sortN l) <-> In x l.
Proof. split; intros H; [eapply Permutation_in; [apply Permutation_sym, sortN_perm|exact H]|eapply Permutation_in; [apply sortN_perm|exact H]]. Qed.
Lemma sortN_nodup l : NoDup l -> NoDup (sortN l).
Proof. intros H. eapply Permutation_NoDup; [apply sortN_perm|exact H]. Qed.
Lemma distinct_in x l : In x (distinct l) <-> In x l.
Proof. rewrite <- !memN_In. rewrite memN_distinct. reflexivity. Qed.

Lemma insN_sorted x l : StronglySorted N.le l -> StronglySorted N.le (insN x l).
Proof.
  induction l as [|y t IH]; cbn; intros Hs; [constructor; constructor|].
  inversion Hs as [|? ? Ht Hall]; subst. destruct (N.leb x y) eqn:E.
  - apply N.leb_le in E. constructor; [exact Hs|]. constructor; [exact E|].
    eapply Forall_impl; [|exact Hall]. intros z Hz. cbn in Hz. lia.
  - apply N.leb_gt in E. constructor; [apply IH; exact Ht|].
    apply Forall_forall. intros z Hz. eapply Permutation_in in Hz; [|apply Permutation_sym, insN_perm].
    destruct Hz as [<-|Hz]; [lia|]. rewrite Forall_forall in Hall. apply Hall. exact Hz.
Qed.
Lemma sortN_sorted l : StronglySorted N.le (sortN l).
Proof. induction l as [|x t IH]; cbn; [constructor|apply insN_sorted; exact IH]. Qed.

Lemma sorted_unique (a : list N) : forall c,
  StronglySorted N.le a -> StronglySorted N.le c -> NoDup a -> NoDup c -> (forall x, In x a <-> In x c) -> a = c.
Proof.
  induction a as [|x s IH]; intros [|y t] Sa Sc Na Nc Hm.
  - reflexivity.
  - exfalso. apply (proj2 (Hm y)). left. reflexivity.
  - exfalso. apply (proj1 (Hm x)). left. reflexivity.
  - inversion Sa as [|? ? Ss Fs]; inversion Sc as [|? ? St Ft]; inversion Na as [|? ? Nx Ns]; inversion Nc as [|? ? Ny Nt]; subst.
    rewrite Forall_forall in Fs, Ft.
    assert (Exy : x = y).
    { assert (H1 : N.le y x) by (destruct (proj1 (Hm x) (or_introl eq_refl)) as [->|H]; [lia|apply Ft; exact H]).
      assert (H2 : N.le x y) by (destruct (proj2 (Hm y) (or_introl eq_refl)) as [->|H]; [lia|apply Fs; exact H]). lia. }
    subst y. f_equal. apply IH; auto. intros z. split; intros Hz.
    + destruct (proj1 (Hm z) (or_intror Hz)) as [<-|H]; [contradiction|exact H].
    + destruct (proj2 (Hm z) (or_intror Hz)) as [<-|H]; [contradiction|exact H].
Qed.

(* the canonical form used when comparing observed object sets with the model's *)
Theorem canon_eq a c : (forall x, In x a <-> In x c) -> sortN (distinct a) = sortN (distinct c).
Proof.
  intros Hm. apply sorted_unique; try apply sortN_sorted; try (apply sortN_nodup, NoDup_distinct).
  intros x. rewrite !sortN_in, !distinct_in. apply Hm.
Qed.
