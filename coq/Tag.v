(* Tag.v — classification tags of filters/encrypt, on strings.
   Mirrors tag.go (getClassificationFromTag, getClassificationFromTagString, DefaultFilterOperations),
   filter_operation.go (convertToOperation), the dispatch at the head of filterValue, and the two configuration
   scans at the head of Process (nothing to filter / a wrapper is required).  No proofs here. *)
From Coq Require Import List Bool NArith String Ascii.
Import ListNotations.
Open Scope string_scope.

(* DataClassification as it comes out of tag resolution (override keys are restricted to the three known names, so
   the "raw string" classification of the override branch is always one of them) *)
Inductive class := CPublic | CSensitive | CSecret | CUnknown.
(* FilterOperation: "" | redact | encrypt | hmac-sha256 | anything else ("unknown" included) *)
Inductive oper := ONone | ORedact | OEncrypt | OHmac | OOther.

(* Filter.FilterOperationOverrides restricted to the keys public / sensitive / secret *)
Record overrides := { ov_public : option oper; ov_sensitive : option oper; ov_secret : option oper }.
Definition no_overrides := {| ov_public := None; ov_sensitive := None; ov_secret := None |}.

Definition class_eqb (a b : class) : bool :=
  match a, b with CPublic, CPublic | CSensitive, CSensitive | CSecret, CSecret | CUnknown, CUnknown => true | _, _ => false end.
Definition oper_eqb (a b : oper) : bool :=
  match a, b with ONone, ONone | ORedact, ORedact | OEncrypt, OEncrypt | OHmac, OHmac | OOther, OOther => true | _, _ => false end.

(* strings.ToLower on ASCII *)
Definition lower_ascii (a : ascii) : ascii :=
  let n := N_of_ascii a in if (N.leb 65 n && N.leb n 90)%bool then ascii_of_N (n + 32) else a.
Fixpoint lower (s : string) : string :=
  match s with EmptyString => EmptyString | String a r => String (lower_ascii a) (lower r) end.

(* strings.Split(s, ","): always at least one segment *)
Fixpoint split_comma_aux (s acc : string) : list string :=
  match s with
  | EmptyString => [acc]
  | String a r => if Ascii.eqb a "," then acc :: split_comma_aux r "" else split_comma_aux r (acc ++ String a "")
  end.
Definition split_comma (s : string) : list string := split_comma_aux s "".

(* convertToOperation *)
Definition convert_op (seg : string) : oper :=
  let l := lower seg in
  if String.eqb l "" then ONone
  else if String.eqb l "hmac-sha256" then OHmac
  else if String.eqb l "encrypt" then OEncrypt
  else if String.eqb l "redact" then ORedact
  else OOther.

(* DefaultFilterOperations *)
Definition default_op (c : class) : oper :=
  match c with CPublic => ONone | CSensitive => OEncrypt | CSecret => ORedact | CUnknown => OOther end.

(* DataClassification(segs[0]) compared with the three constants: exact, case-sensitive *)
Definition class_of_text (s : string) : class :=
  if String.eqb s "public" then CPublic
  else if String.eqb s "sensitive" then CSensitive
  else if String.eqb s "secret" then CSecret
  else CUnknown.

Definition override_of (ov : overrides) (c : class) : option oper :=
  match c with CPublic => ov_public ov | CSensitive => ov_sensitive ov | CSecret => ov_secret ov | CUnknown => None end.

(* getClassificationFromTagString *)
Definition resolve_string (ov : overrides) (tag : string) : class * oper :=
  let segs := split_comma tag in
  let operation := match segs with _ :: s :: _ => convert_op s | _ => ONone end in
  let operation := match operation with OOther => ONone | o => o end in
  let c := class_of_text (hd "" segs) in
  match override_of ov c with
  | Some o => (c, o)
  | None =>
      match c with
      | CPublic => (CPublic, default_op CPublic)
      | CSensitive => (CSensitive, match operation with ONone => default_op CSensitive | o => o end)
      | CSecret => (CSecret, match operation with ONone => default_op CSecret | o => o end)
      | CUnknown => (CUnknown, OOther)
      end
  end.

(* getClassificationFromTag: [None] = the field has no class tag *)
Definition resolve_tag (ov : overrides) (t : option string) : class * oper :=
  match t with None => (CUnknown, OOther) | Some s => resolve_string ov s end.

(* what filterValue does with a settable string/[]byte value once the tag is resolved *)
Inductive act := ASkip | ARedact | AEncrypt | AHmac | AErr.
Definition action (ti : class * oper) : act :=
  match ti with
  | (CPublic, _) => ASkip
  | (_, ONone) => ASkip
  | (CUnknown, _) => ARedact
  | (_, ORedact) => ARedact
  | (_, OEncrypt) => AEncrypt
  | (_, OHmac) => AHmac
  | (_, OOther) => AErr
  end.

(* Process: the effective operation per classification (defaults overlaid with the overrides) *)
Definition filter_op (ov : overrides) (c : class) : oper :=
  match override_of ov c with Some o => o | None => default_op c end.
Definition all_none (ov : overrides) : bool :=
  oper_eqb (filter_op ov CPublic) ONone && oper_eqb (filter_op ov CSensitive) ONone && oper_eqb (filter_op ov CSecret) ONone.
Definition is_crypto (o : oper) : bool := match o with OEncrypt | OHmac => true | _ => false end.
Definition needs_wrapper (ov : overrides) : bool :=
  is_crypto (filter_op ov CPublic) || is_crypto (filter_op ov CSensitive) || is_crypto (filter_op ov CSecret).
