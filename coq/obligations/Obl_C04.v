(* Obl_C04.v — compiled on every check of C04 against the regenerated Gen_Locks.v. *)
From Coq Require Import List String.
From Verif Require Import LockLang LockSound Contracts.
Require Import Gen_Locks.
Import ListNotations.

Definition complaints := Eval vm_compute in
  flat_complaints (check_program (contracts_C04 program) program entries lit_callees unsupported).
Print complaints.
(* check-then-act: no function writes a guarded field in one critical section on the strength of a read made in an earlier,
   released critical section of the same lock (LockLang.cta; structural, see the comment there) *)
Definition cta_complaints := Eval vm_compute in
  flat_complaints (cta_program (contracts_C04 program) (reachable program entries)).
Print cta_complaints.
Definition stats := Eval vm_compute in
  (List.length program, List.length (reachable program entries), List.length entries).
Print stats.

(* every access to the Broker's registry state (nodes, graphs, node usage records, thresholds) holds its guard *)
Theorem broker_race_free :
  check_program (contracts_C04 program) program entries lit_callees unsupported = [].
Proof. vm_compute. reflexivity. Qed.

(* semantic reading (LockSound.program_no_data_race): for any two threads of the generated program (API calls from
   different goroutines, goroutines they start) and any interleaving allowed by the mutex / RW-lock rules, the next
   events of the two threads are never a write and a conflicting access to the same guarded registry field *)
Theorem generated_broker_no_data_race :
  forall fna ba ta xa da fnb bb tb xb db,
    thread (contracts_C04 program) (fenv_of (reachable program entries)) fna ba ->
    run (fenv_of (reachable program entries)) fna ba [] ta xa da -> is_brk xa = false ->
    thread (contracts_C04 program) (fenv_of (reachable program entries)) fnb bb ->
    run (fenv_of (reachable program entries)) fnb bb [] tb xb db -> is_brk xb = false ->
  forall c f ls fa a fb b T1 T2,
    reach2 {| h1 := []; t1 := ta ++ tag fna da; h2 := []; t2 := tb ++ tag fnb db |} c ->
    guard_of (contracts_C04 program) f = GLocks ls -> ls <> [] ->
    t1 c = (fa, a) :: T1 -> t2 c = (fb, b) :: T2 ->
    mem2 fa f (waived (contracts_C04 program)) = false -> mem2 fb f (waived (contracts_C04 program)) = false ->
    (a = EA (Wr f) /\ reads_or_writes f b) \/ (b = EA (Wr f) /\ reads_or_writes f a) -> False.
Proof. exact (program_no_data_race _ _ _ _ _ broker_race_free). Qed.
Print Assumptions generated_broker_no_data_race.

Theorem broker_no_check_then_act : cta_program (contracts_C04 program) (reachable program entries) = [].
Proof. vm_compute. reflexivity. Qed.

(* every Store / Delete on a graph's roots map (pseudo field roots!) and every access to b.nodes / b.graphs happens while Broker.lock
   is held, the writes in write mode: no registry call mutates the maps after it released the lock *)
Definition registry_complaints := Eval vm_compute in
  flat_complaints (check_program (contracts_registry program) program entries lit_callees unsupported).
Print registry_complaints.
Theorem registry_map_mutations_under_lock :
  check_program (contracts_registry program) program entries lit_callees unsupported = [].
Proof. vm_compute. reflexivity. Qed.
