(* Obl_C12.v — compiled on every check of C12 in the work directory, against the Gen_Locks.v regenerated from the tree
   under test.  Not part of `make`: it is the obligation that can break when the code changes. *)
From Coq Require Import List String.
From Verif Require Import LockLang LockSound LockDeadlock Contracts.
Require Import Gen_Locks.
Import ListNotations.

Definition complaints := Eval vm_compute in
  flat_complaints (check_program (contracts_C12 program) program entries lit_callees unsupported).
Print complaints.
Definition stats := Eval vm_compute in
  (List.length program, List.length (reachable program entries), List.length entries,
   acquires (contracts_C12 program) "eventlogger.graph.process"%string,
   acquires (contracts_C12 program) "eventlogger.Broker.Send"%string).
Print stats.

(* the lock protocol of every reachable function checks (balanced, never re-acquired, acquired in rank order), and no
   Process / Close / Reopen / Sender.Send callback is reached under Broker.lock (in particular: RemoveNode / RemovePipelineAndNodes
   close nodes after unlocking) *)
Theorem no_broker_lock_at_user_callback_obligation :
  check_program (contracts_C12 program) program entries lit_callees unsupported = [].
Proof. vm_compute. reflexivity. Qed.

(* graph.process (which starts the goroutines that call Node.Process) is charged with Broker.lock, so by the call rule
   of the checker no caller -- Send in particular -- holds Broker.lock while events are dispatched *)
Theorem send_lock_scope :
  mem L_broker (acquires (contracts_C12 program) "eventlogger.graph.process"%string) = true /\
  mem L_broker (acquires (contracts_C12 program) "eventlogger.graph.doProcess"%string) = true.
Proof. vm_compute. split; reflexivity. Qed.

(* semantic reading of the obligation (LockSound.program_callback_never_under): in every run of every thread of the
   generated program, whenever a callback that may call Broker.Send runs, the thread does not hold Broker.lock *)
Theorem generated_no_broker_lock_at_user_callback :
  forall fn body t x ds', thread (contracts_C12 program) (fenv_of (reachable program entries)) fn body ->
    run (fenv_of (reachable program entries)) fn body [] t x ds' -> is_brk x = false ->
  forall i fn' k, nth_error (t ++ tag fn ds') i = Some (fn', EA (User k)) ->
    In L_broker (user_acquires (contracts_C12 program) k) ->
    lookup L_broker (held_at [] (t ++ tag fn ds') i) = None.
Proof.
  intros fn body t x ds' Hth Hrun Hx i fn' k Hn Hl.
  exact (program_callback_never_under _ _ _ _ _ no_broker_lock_at_user_callback_obligation _ _ _ _ _ Hth Hrun Hx _ _ _ _ Hn Hl).
Qed.
Print Assumptions generated_no_broker_lock_at_user_callback.

(* ... and (LockDeadlock.program_never_stuck): any number of threads of the generated program, each performing a complete
   run, never reach a configuration in which some thread is unfinished and none can step (writer-preferring RW locks;
   callbacks that may call Broker.Send need Broker.lock read-acquirable) *)
Theorem generated_never_stuck :
  forall traces, (forall tr, In tr traces -> thread_run (contracts_C12 program) program entries tr) ->
  forall c, reachN (contracts_C12 program) (map (fun tr => ([], tr)) traces) c -> (exists t, In t c /\ snd t <> []) ->
  exists c', stepN (contracts_C12 program) c c'.
Proof. exact (program_never_stuck _ _ _ _ _ no_broker_lock_at_user_callback_obligation). Qed.
Print Assumptions generated_never_stuck.

(* no blocking wait that is not a mutex operation (sync.WaitGroup.Wait, sync.Cond.Wait, channel send / receive, select without
   default) is reachable while Broker.lock or a graph's threshold lock is held in any mode: such a wait may depend on an
   in-flight Send whose node calls back into the Broker *)
Definition wait_complaints := Eval vm_compute in
  flat_complaints (check_program (contracts_C12_waits program) program entries lit_callees unsupported).
Print wait_complaints.
Theorem no_blocking_wait_under_registry_lock :
  check_program (contracts_C12_waits program) program entries lit_callees unsupported = [].
Proof. vm_compute. reflexivity. Qed.
Theorem generated_no_registry_lock_at_blocking_wait :
  forall fn body t x ds', thread (contracts_C12_waits program) (fenv_of (reachable program entries)) fn body ->
    run (fenv_of (reachable program entries)) fn body [] t x ds' -> is_brk x = false ->
  forall i fn' k l, nth_error (t ++ tag fn ds') i = Some (fn', EA (User k)) -> is_wait k = true -> In l [L_broker; L_thr] ->
    lookup l (held_at [] (t ++ tag fn ds') i) = None.
Proof.
  intros fn body t x ds' Hth Hrun Hx i fn' k l Hn Hw Hl.
  apply (program_callback_never_under _ _ _ _ _ no_blocking_wait_under_registry_lock _ _ _ _ _ Hth Hrun Hx _ _ _ _ Hn).
  cbn [user_acquires contracts_C12_waits mk]. unfold wait_acq. rewrite Hw. exact Hl.
Qed.

(* every goroutine start and every blocking wait that is not a mutex operation is one of the audited ones (the dispatch protocol
   and the channel sink): a new concurrency construct in any library function breaks this obligation *)
Definition concurrency_complaints := Eval vm_compute in
  flat_complaints (unaudited audited_concurrency (reachable program entries)).
Print concurrency_complaints.
Theorem no_unaudited_concurrency_construct : unaudited audited_concurrency (reachable program entries) = [].
Proof. vm_compute. reflexivity. Qed.
