(* Obl_C19.v — compiled on every check of C19 against the regenerated Gen_Locks.v. *)
From Coq Require Import List String.
From Verif Require Import LockLang LockSound Contracts.
Require Import Gen_Locks.
Import ListNotations.

(* without the waiver of the recorded known finding: what is reported (KNOWN-FINDING / VIOLATION lines) *)
Definition complaints := Eval vm_compute in
  flat_complaints (check_program (contracts_C19_unwaived program) program entries lit_callees unsupported).
Print complaints.
(* check-then-act: no function writes a guarded field in one critical section on the strength of a read made in an earlier,
   released critical section of the same lock (LockLang.cta; structural, see the comment there) *)
Definition cta_complaints := Eval vm_compute in
  flat_complaints (cta_program (contracts_C19 program) (reachable program entries)).
Print cta_complaints.
Definition stats := Eval vm_compute in
  (List.length program, List.length (reachable program entries), List.length entries).
Print stats.

(* every access to the shared Event and to the state of the stock nodes holds its guard, except the accesses excused by
   Contracts.known_waivers (KF-C19-copy-vs-formattedas) *)
Theorem stock_nodes_race_free_partial :
  check_program (contracts_C19 program) program entries lit_callees unsupported = [].
Proof. vm_compute. reflexivity. Qed.

Theorem generated_stock_nodes_no_data_race_partial :
  forall fna ba ta xa da fnb bb tb xb db,
    thread (contracts_C19 program) (fenv_of (reachable program entries)) fna ba ->
    run (fenv_of (reachable program entries)) fna ba [] ta xa da -> is_brk xa = false ->
    thread (contracts_C19 program) (fenv_of (reachable program entries)) fnb bb ->
    run (fenv_of (reachable program entries)) fnb bb [] tb xb db -> is_brk xb = false ->
  forall c f ls fa a fb b T1 T2,
    reach2 {| h1 := []; t1 := ta ++ tag fna da; h2 := []; t2 := tb ++ tag fnb db |} c ->
    guard_of (contracts_C19 program) f = GLocks ls -> ls <> [] ->
    t1 c = (fa, a) :: T1 -> t2 c = (fb, b) :: T2 ->
    mem2 fa f (waived (contracts_C19 program)) = false -> mem2 fb f (waived (contracts_C19 program)) = false ->
    (a = EA (Wr f) /\ reads_or_writes f b) \/ (b = EA (Wr f) /\ reads_or_writes f a) -> False.
Proof. exact (program_no_data_race _ _ _ _ _ stock_nodes_race_free_partial). Qed.
Print Assumptions generated_stock_nodes_no_data_race_partial.

Theorem stock_nodes_no_check_then_act : cta_program (contracts_C19 program) (reachable program entries) = [].
Proof. vm_compute. reflexivity. Qed.
