(* Obl_clock.v -- C15's structural side condition, re-checked against the regenerated Gen_Locks.v: every reading of the wall clock
   (time.Now / time.Since / time.Until) in a FileSink method happens while FileSink.l is held (open, rotate: required from their
   callers; Process, Reopen: after fs.l.Lock()), so that file stamps are taken in the order in which the writers got the mutex. *)
From Coq Require Import List String.
From Verif Require Import LockLang LockSound Contracts.
Require Import Gen_Locks.
Import ListNotations.

Definition complaints := Eval vm_compute in
  flat_complaints (check_program (contracts_clock program) program entries lit_callees unsupported).
Print complaints.
Theorem filesink_clock_read_under_lock :
  check_program (contracts_clock program) program entries lit_callees unsupported = [].
Proof. vm_compute. reflexivity. Qed.
(* semantic reading: in every run of every thread every access to the pseudo field holds FileSink.l *)
Theorem generated_filesink_clock_guarded :
  forall fn body, thread (contracts_clock program) (fenv_of (reachable program entries)) fn body ->
  forall t x ds', run (fenv_of (reachable program entries)) fn body [] t x ds' -> is_brk x = false ->
  trace_safe (contracts_clock program) [] (t ++ tag fn ds').
Proof. exact (program_safe _ _ _ _ _ filesink_clock_read_under_lock). Qed.
Print Assumptions generated_filesink_clock_guarded.
