(* Obl_roots.v — C07's structural side condition, re-checked against the regenerated Gen_Locks.v: overwriting a
   pipeline is ONE sync.Map Store (Conc.overwritten_exactly_one_version assumes it), removal is ONE Delete. *)
From Coq Require Import List String.
From Verif Require Import LockLang.
Require Import Gen_Locks.
Import ListNotations.

Definition ops_of (f : string) : list rop := rops_trans 6 program roots_ops f.
Definition roots_summary := Eval vm_compute in
  map (fun f => (f, ops_of f)) ["eventlogger.Broker.RegisterPipeline"; "eventlogger.Broker.RemovePipeline";
                                "eventlogger.Broker.RemovePipelineAndNodes"]%string.
Print roots_summary.

Theorem register_pipeline_overwrite_atomic :
  count_rop RStore (ops_of "eventlogger.Broker.RegisterPipeline") = 1 /\
  count_rop RDelete (ops_of "eventlogger.Broker.RegisterPipeline") = 0 /\
  count_rop ROther (ops_of "eventlogger.Broker.RegisterPipeline") = 0.
Proof. vm_compute. repeat split; reflexivity. Qed.

Theorem remove_pipeline_one_delete :
  count_rop RDelete (ops_of "eventlogger.Broker.RemovePipeline") = 1 /\
  count_rop RStore (ops_of "eventlogger.Broker.RemovePipeline") = 0 /\
  count_rop RDelete (ops_of "eventlogger.Broker.RemovePipelineAndNodes") = 1 /\
  count_rop RStore (ops_of "eventlogger.Broker.RemovePipelineAndNodes") = 0.
Proof. vm_compute. repeat split; reflexivity. Qed.
