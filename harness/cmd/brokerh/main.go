// brokerh — correspondence driver for the Broker registry (C05, C06, C07, C20, thresholds of C02).
// It generates operation histories, runs them on the real Broker (built from the tree under test with
// -tags verif), observes after every call, and prints cases_*.v files for Run_Broker.mismatches.
package main

import (
	"context"
	"encoding/json"
	"errors"
	"flag"
	"fmt"
	"github.com/hashicorp/go-multierror"
	"io"
	"math"
	"os"
	"sort"
	"strings"
	"sync"
	"sync/atomic"
	"time"

	el "github.com/hashicorp/eventlogger"
	"verifharness/hc"
)

// ---------- harness node ----------
type hnode struct {
	obj       int
	typ       el.NodeType
	closeErr  bool
	reopenErr bool
	w         *world
	failOnce  bool // the injected Reopen failure happens on the first call of the probe only (a retry would succeed)
	wrapped   bool
	bypassed  int
	mu        sync.Mutex
	closed    int
	reopened  int
	seen      int
}

var errInjected = errors.New("injected reopen failure")

// ctxLike claims to be both context errors (errors.Is through its Is method) besides wrapping the injected failure
type ctxLike struct{ obj int }

func (c *ctxLike) Error() string { return fmt.Sprintf("object %d: dial: i/o timeout", c.obj) }
func (c *ctxLike) Unwrap() error { return errInjected }
func (c *ctxLike) Is(t error) bool {
	return t == context.Canceled || t == context.DeadlineExceeded || t == io.EOF
}
func (c *ctxLike) Timeout() bool   { return true }
func (c *ctxLike) Temporary() bool { return true }

// injectedFailure is the error a failing harness node returns: always errors.Is(err, errInjected), but of different value
// classes - a node's failure is the node's own, whatever it looks like (a context error of the node's own making, an
// aggregate, a "temporary" network error): the Broker has to carry it
func injectedFailure(what string, obj int) error {
	switch obj % 5 {
	case 0:
		return fmt.Errorf("%s of object %d: %w", what, obj, errInjected)
	case 1:
		return fmt.Errorf("%s of object %d: %w (%w)", what, obj, errInjected, context.Canceled)
	case 2:
		return &ctxLike{obj: obj}
	case 3:
		return multierror.Append(nil, context.DeadlineExceeded, fmt.Errorf("%s of object %d: %w", what, obj, errInjected))
	default:
		return errors.Join(io.EOF, errInjected)
	}
}

func (n *hnode) Process(ctx context.Context, e *el.Event) (*el.Event, error) {
	n.mu.Lock()
	n.seen++
	n.mu.Unlock()
	// every harness node passes the event on (a leaf returning the event completes the pipeline), so a probe
	// Send visits every node of every registered pipeline whatever its type
	return e, nil
}

// Reopen called on the node as registered. When the node is registered behind a wrapper, the Broker must call the
// WRAPPER's Reopen (the registered node), not dig out the inner node: a direct call on a wrapped node is not counted.
func (n *hnode) Reopen() error {
	n.mu.Lock()
	if n.wrapped {
		n.bypassed++
		n.mu.Unlock()
		return nil
	}
	n.mu.Unlock()
	return n.reopenCounted()
}

func (n *hnode) reopenCounted() error {
	if n.w != nil {
		n.w.fireOnReopen()
	}
	n.mu.Lock()
	n.reopened++
	fail := n.reopenErr
	if fail && n.failOnce {
		n.reopenErr = false
	}
	n.mu.Unlock()
	if fail {
		return injectedFailure("reopen", n.obj)
	}
	return nil
}
func (n *hnode) Type() el.NodeType { return n.typ }

// wrapNode hides the Closer behind an Unwrap (NodeController must unwrap, possibly twice, before closing)
type wrapNode struct {
	inner el.Node
}

func (w *wrapNode) Process(ctx context.Context, e *el.Event) (*el.Event, error) {
	return w.inner.Process(ctx, e)
}
func (w *wrapNode) Reopen() error {
	switch t := w.inner.(type) {
	case *wrapNode:
		return t.Reopen()
	case *hnode:
		return t.reopenCounted()
	}
	return w.inner.Reopen()
}
func (w *wrapNode) Type() el.NodeType { return w.inner.Type() }
func (w *wrapNode) Unwrap() el.Node   { return w.inner }

// nilWrapNode is a wrapper without Close whose Unwrap yields nil (a lazily initialised wrapper never used): the controller
// must treat it as not closable and return
type nilWrapNode struct {
	h *hnode
}

func (p *nilWrapNode) Process(ctx context.Context, e *el.Event) (*el.Event, error) {
	return p.h.Process(ctx, e)
}
func (p *nilWrapNode) Reopen() error     { return p.h.reopenCounted() }
func (p *nilWrapNode) Type() el.NodeType { return p.h.Type() }
func (p *nilWrapNode) Unwrap() el.Node   { return nil }

// closerWrapNode is a decorator with its OWN Close that also offers Unwrap (inner has no Close): the controller must close
// the registered node itself, not dig past it
type closerWrapNode struct {
	h     *hnode
	inner *plainNode
}

func (p *closerWrapNode) Process(ctx context.Context, e *el.Event) (*el.Event, error) {
	return p.h.Process(ctx, e)
}
func (p *closerWrapNode) Reopen() error                   { return p.h.reopenCounted() }
func (p *closerWrapNode) Type() el.NodeType               { return p.h.Type() }
func (p *closerWrapNode) Unwrap() el.Node                 { return p.inner }
func (p *closerWrapNode) Close(ctx context.Context) error { return p.h.Close(ctx) }

// plainNode has neither Close nor Unwrap
type plainNode struct {
	h *hnode
}

func (p *plainNode) Process(ctx context.Context, e *el.Event) (*el.Event, error) {
	return p.h.Process(ctx, e)
}
func (p *plainNode) Reopen() error     { return p.h.reopenCounted() }
func (p *plainNode) Type() el.NodeType { return p.h.Type() }

func hnodeOf(n el.Node) *hnode {
	for {
		switch t := n.(type) {
		case *hnode:
			return t
		case *wrapNode:
			n = t.inner
		case *plainNode:
			return t.h
		case *nilWrapNode:
			return t.h
		case *closerWrapNode:
			return t.h
		default:
			return nil
		}
	}
}
func (n *hnode) Close(ctx context.Context) error {
	n.mu.Lock()
	n.closed++
	n.mu.Unlock()
	if n.closeErr {
		return injectedFailure("close", n.obj)
	}
	return nil
}

// doneCtx is a done context of a type that is not from the context package
type doneCtx struct{ ch chan struct{} }

func (d doneCtx) Deadline() (time.Time, bool)       { return time.Time{}, false }
func (d doneCtx) Done() <-chan struct{}             { return d.ch }
func (d doneCtx) Err() error                        { return context.Canceled }
func (d doneCtx) Value(key interface{}) interface{} { return nil }

// callerCtx: kind 0 = the live context; kind 1 = a context that is already done, of one of four sorts (cancelled, deadline in
// the past, cancelled with a custom cause, a non-context-package type). The registry does not depend on the caller's context:
// the model ignores it.
func callerCtx(ctx context.Context, kind, salt int) context.Context {
	if kind != 1 {
		return ctx
	}
	switch salt % 4 {
	case 0:
		c2, cancel := context.WithCancel(ctx)
		cancel()
		return c2
	case 1:
		c2, cancel := context.WithDeadline(ctx, time.Unix(1, 0))
		_ = cancel
		return c2
	case 2:
		c2, cancel := context.WithCancelCause(ctx)
		cancel(errors.New("caller gave up"))
		return c2
	default:
		ch := make(chan struct{})
		close(ch)
		return doneCtx{ch: ch}
	}
}

// ---------- operations ----------
type Op struct {
	K    string `json:"k"` // regnode rmnode regpipe rmpipe rpan thr thrs reopen
	ID   int    `json:"id,omitempty"`
	Obj  int    `json:"obj,omitempty"`
	Ty   int    `json:"ty,omitempty"`  // 1 filter 2 formatter 3 sink 4 formatterfilter 5 unknown
	Pol  int    `json:"pol,omitempty"` // 0 none 1 allow 2 deny 3 invalid
	Pid  int    `json:"pid,omitempty"`
	Ety  int    `json:"ety,omitempty"`
	IDs  []int  `json:"ids,omitempty"`
	V    int64  `json:"v,omitempty"`
	Fail int    `json:"fail,omitempty"`
	Wrap int    `json:"wrap,omitempty"` // regnode: 0 plain Closer, 1/2 wrapped once/twice behind Unwrap, 3 no Close method, 4 wrapper whose Unwrap is nil
}
type Case struct {
	ID         int    `json:"id"`
	Gen        string `json:"gen"`
	CloseFails []int  `json:"close_fails,omitempty"`
	Types      []int  `json:"types"`
	Ops        []Op   `json:"ops"`
	Clock      int    `json:"clock,omitempty"` // Broker.StopTimeAt before op k (k = Clock-1) and again later: the registry reads no clock
}

// Identifiers are opaque strings: the names used are look-alikes of one another (case, surrounding white space, a
// trailing NUL, a non-ASCII twin), so that any normalisation or prefix comparison of ids in the registry merges or
// confuses what the model keeps apart.
func lookalike(prefix string, i int) string {
	switch i {
	case 0:
		return ""
	case 1:
		return prefix
	case 2:
		return strings.ToUpper(prefix)
	case 3:
		return prefix + " "
	case 4:
		return " " + prefix
	case 5:
		return prefix + "\t"
	case 6:
		return prefix + "\x00"
	case 7:
		return prefix + prefix
	case 8:
		return "\u00e9" + prefix
	}
	return fmt.Sprintf("%s%d", prefix, i)
}

var unNames = func() map[string]int {
	m := map[string]int{"": 0}
	for _, pre := range []string{"n", "p", "t"} {
		for i := 1; i < 64; i++ {
			m[lookalike(pre, i)] = i
		}
	}
	return m
}()

func nid(i int) el.NodeID     { return el.NodeID(lookalike("n", i)) }
func pid(i int) el.PipelineID { return el.PipelineID(lookalike("p", i)) }
func ety(i int) el.EventType  { return el.EventType(lookalike("t", i)) }
func unN(s string) int {
	i, ok := unNames[s]
	if !ok {
		panic(fmt.Sprintf("unknown identifier %q in the snapshot", s))
	}
	return i
}
func ntype(t int) el.NodeType {
	switch t {
	case 1:
		return el.NodeTypeFilter
	case 2:
		return el.NodeTypeFormatter
	case 3:
		return el.NodeTypeSink
	case 4:
		return el.NodeTypeFormatterFilter
	}
	return el.NodeType(9)
}
func polOpt(p int, node bool) []el.Option {
	mk := func(pol el.RegistrationPolicy) el.Option {
		if node {
			return el.WithNodeRegistrationPolicy(pol)
		}
		return el.WithPipelineRegistrationPolicy(pol)
	}
	bad := el.RegistrationPolicy("NoSuchPolicy")
	other := func(pol el.RegistrationPolicy) el.Option {
		if node {
			return el.WithPipelineRegistrationPolicy(pol)
		}
		return el.WithNodeRegistrationPolicy(pol)
	}
	switch p {
	case 0:
		return nil
	case 1:
		return []el.Option{mk(el.AllowOverwrite)}
	case 2:
		return []el.Option{mk(el.DenyOverwrite)}
	case 3:
		return []el.Option{mk(bad)}
	// several options in one call: an invalid one anywhere rejects the call; otherwise the last one wins; nil options are skipped
	case 4:
		return []el.Option{mk(bad), mk(el.DenyOverwrite)}
	case 5:
		return []el.Option{mk(bad), mk(el.AllowOverwrite)}
	case 6:
		return []el.Option{mk(el.AllowOverwrite), nil, mk(el.DenyOverwrite)}
	case 7:
		return []el.Option{mk(el.DenyOverwrite), mk(el.AllowOverwrite)}
	case 8:
		return []el.Option{mk(el.DenyOverwrite), mk(bad)}
	// options of the OTHER kind (a shared option slice passed to every register call) must not influence this call
	case 9:
		return []el.Option{mk(el.DenyOverwrite), other(el.AllowOverwrite)}
	case 10:
		return []el.Option{other(el.DenyOverwrite)}
	// look-alike spellings of the two policy values are invalid values like any other
	default:
		name := []string{"denyoverwrite", "ALLOWOVERWRITE", " DenyOverwrite", "", "DenyOverwrite\x00", "AllowOverwrite "}[(p-11)%6]
		return []el.Option{mk(el.RegistrationPolicy(name))}
	}
}

// threshold values: the small ones, and the extremes (a threshold is only ever compared, never used as a size)
func thrValue(k int) int64 {
	switch k {
	case 7:
		return 1 << 40
	case 8:
		return math.MaxInt64
	case 9:
		return math.MinInt64
	case 10:
		return -(1 << 40)
	}
	return int64(k%5 - 1)
}

// ---------- observations ----------
type TObs struct {
	Ety    int
	IsAny  bool
	Deliv  []int
	Thr    int
	ThrOk  bool
	ThrS   int
	ThrSOk bool
}
type NObs struct {
	ID, Obj int
	InUse   bool
	RC      int
	Pol     string
}
type PObs struct {
	Ety, Pid int
	Objs     []int
	IDs      []int
	Pol      string
}
type Obs struct {
	Ok, Err  bool
	Closed   []int
	Nodes    []NObs
	Pipes    []PObs
	Types    []TObs
	Reopened []int
	Graphs   []int
}

type world struct {
	b    *el.Broker
	objs map[int]*hnode
	all  []*hnode
	// during a "reopenrm" probe: run once, from inside the first node Reopen of the walk (re-entrant registry mutation)
	onReopenMu sync.Mutex
	onReopen   func()
}

func (w *world) fireOnReopen() {
	w.onReopenMu.Lock()
	f := w.onReopen
	w.onReopen = nil
	w.onReopenMu.Unlock()
	if f != nil {
		f()
	}
}

func (w *world) observe(types []int, o *Obs) {
	nodes, graphs := w.b.VerifSnapshot()
	for _, n := range nodes {
		h := hnodeOf(n.Node)
		obj := 0
		if h != nil {
			obj = h.obj
		}
		o.Nodes = append(o.Nodes, NObs{ID: unN(string(n.ID)), Obj: obj, InUse: n.ReferenceCount > 0, RC: n.ReferenceCount, Pol: string(n.Policy)})
	}
	sort.Slice(o.Nodes, func(i, j int) bool { return o.Nodes[i].ID < o.Nodes[j].ID })
	for _, g := range graphs {
		o.Graphs = append(o.Graphs, unN(string(g.EventType)))
		for _, p := range g.Pipelines {
			po := PObs{Ety: unN(string(g.EventType)), Pid: unN(string(p.ID)), Pol: string(p.Policy)}
			for _, l := range p.Nodes {
				h := hnodeOf(l.Node)
				obj := 0
				if h != nil {
					obj = h.obj
				}
				po.Objs = append(po.Objs, obj)
				po.IDs = append(po.IDs, unN(string(l.ID)))
			}
			o.Pipes = append(o.Pipes, po)
		}
	}
	sort.Slice(o.Pipes, func(i, j int) bool {
		if o.Pipes[i].Ety != o.Pipes[j].Ety {
			return o.Pipes[i].Ety < o.Pipes[j].Ety
		}
		return o.Pipes[i].Pid < o.Pipes[j].Pid
	})
	for _, t := range types {
		to := TObs{Ety: t}
		to.IsAny = w.b.IsAnyPipelineRegistered(ety(t))
		to.Thr, to.ThrOk = w.b.SuccessThreshold(ety(t))
		to.ThrS, to.ThrSOk = w.b.SuccessThresholdSinks(ety(t))
		for _, h := range w.all {
			h.mu.Lock()
			h.seen = 0
			h.mu.Unlock()
		}
		// probe: which objects does an event of this type reach
		_, _ = w.b.Send(context.Background(), ety(t), "probe")
		for _, h := range w.all {
			h.mu.Lock()
			for i := 0; i < h.seen; i++ {
				to.Deliv = append(to.Deliv, h.obj)
			}
			h.mu.Unlock()
		}
		sort.Ints(to.Deliv)
		o.Types = append(o.Types, to)
	}
}

func (w *world) apply(op Op, closeFails map[int]bool) Obs {
	var o Obs
	ctx := context.Background()
	before := make([]int, len(w.all))
	for i, h := range w.all {
		before[i] = h.closed
	}
	switch op.K {
	case "regnode":
		h := &hnode{obj: op.Obj, typ: ntype(op.Ty), closeErr: closeFails[op.Obj], w: w}
		w.all = append(w.all, h)
		before = append(before, 0)
		var node el.Node = h
		switch op.Wrap {
		case 1:
			h.wrapped = true
			node = &wrapNode{inner: h}
		case 2:
			h.wrapped = true
			node = &wrapNode{inner: &wrapNode{inner: h}}
		case 3:
			node = &plainNode{h: h}
		case 4:
			node = &nilWrapNode{h: h}
		case 5:
			node = &closerWrapNode{h: h, inner: &plainNode{h: &hnode{obj: -1, typ: h.typ}}}
		}
		err := w.b.RegisterNode(nid(op.ID), node, polOpt(op.Pol, true)...)
		o.Ok, o.Err = err == nil, err != nil
	case "rmnode":
		ctx = callerCtx(ctx, op.Wrap, op.ID+op.Pid+op.Fail)
		err := w.b.RemoveNode(ctx, nid(op.ID))
		o.Ok, o.Err = err == nil, err != nil
	case "regpipe":
		ids := make([]el.NodeID, len(op.IDs))
		for i, x := range op.IDs {
			ids[i] = nid(x)
		}
		opts := polOpt(op.Pol, false)
		err := w.b.RegisterPipeline(el.Pipeline{PipelineID: pid(op.Pid), EventType: ety(op.Ety), NodeIDs: ids}, opts...)
		o.Ok, o.Err = err == nil, err != nil
		// the definition and the option list are the caller's: the caller reuses them (a template buffer) as soon as the
		// call has returned - the registry must not have kept them
		for i := range ids {
			ids[i] = nid(1 + (i+op.Pid)%4)
		}
		for i := range opts {
			opts[i] = nil
		}
	case "rmpipe":
		err := w.b.RemovePipeline(ety(op.Ety), pid(op.Pid))
		o.Ok, o.Err = err == nil, err != nil
	case "rpan":
		ctx = callerCtx(ctx, op.Wrap, op.ID+op.Pid+op.Fail)
		ok, err := w.b.RemovePipelineAndNodes(ctx, ety(op.Ety), pid(op.Pid))
		o.Ok, o.Err = ok, err != nil
	case "thr":
		err := w.b.SetSuccessThreshold(ety(op.Ety), int(op.V))
		o.Ok, o.Err = err == nil, err != nil
	case "thrs":
		err := w.b.SetSuccessThresholdSinks(ety(op.Ety), int(op.V))
		o.Ok, o.Err = err == nil, err != nil
	case "reopenrm":
		// Broker.Reopen during which the first node reached removes pipeline (Ety, Pid) from inside its Reopen
		for _, h := range w.all {
			h.mu.Lock()
			h.reopened = 0
			h.reopenErr = false
			h.mu.Unlock()
		}
		w.onReopenMu.Lock()
		w.onReopen = func() { _ = w.b.RemovePipeline(ety(op.Ety), pid(op.Pid)) }
		w.onReopenMu.Unlock()
		err := w.b.Reopen(ctx)
		w.fireOnReopen() // nothing was reached: remove now, so that the model's registry and the implementation's agree
		o.Ok = err == nil
		o.Err = err != nil
		for _, h := range w.all {
			h.mu.Lock()
			if h.reopened > 0 {
				o.Reopened = append(o.Reopened, h.obj)
			}
			h.mu.Unlock()
		}
		sort.Ints(o.Reopened)
	case "reopen":
		ctx = callerCtx(ctx, op.Wrap, op.ID+op.Pid+op.Fail)
		for _, h := range w.all {
			h.mu.Lock()
			h.reopened = 0
			h.reopenErr = h.obj == op.Fail && op.Fail != 0
			h.failOnce = op.V == 1
			h.mu.Unlock()
		}
		err := w.b.Reopen(ctx)
		o.Ok = err == nil
		o.Err = err != nil && errors.Is(err, errInjected)
		for _, h := range w.all {
			h.mu.Lock()
			if h.reopened > 0 {
				o.Reopened = append(o.Reopened, h.obj)
			}
			h.reopenErr = false
			h.mu.Unlock()
		}
		sort.Ints(o.Reopened)
	default:
		panic("unknown op " + op.K)
	}
	for i, h := range w.all {
		for k := before[i]; k < h.closed; k++ {
			o.Closed = append(o.Closed, h.obj)
		}
	}
	sort.Ints(o.Closed)
	return o
}

// execCase runs a history on a fresh Broker. Every history runs on its own goroutine under a watchdog: a Broker call that
// does not return (a self-deadlock, a loop that never ends) is reported like a panic, with the history as the replay; the
// stuck goroutine is abandoned.
func execCase(c Case) (obs []Obs, panicked interface{}) {
	type result struct {
		obs []Obs
		p   interface{}
	}
	done := make(chan result, 1)
	var step int32
	go func() {
		var res result
		defer func() {
			if r := recover(); r != nil {
				res.p = r
			}
			done <- res
		}()
		b, _ := el.NewBroker()
		w := &world{b: b, objs: map[int]*hnode{}}
		cf := map[int]bool{}
		for _, x := range c.CloseFails {
			cf[x] = true
		}
		for i, op := range c.Ops {
			atomic.StoreInt32(&step, int32(i))
			if c.Clock > 0 && (i == (c.Clock-1)%len(c.Ops) || i%5 == 4) {
				// the other exported method of the Broker: an identity step as far as the registry is concerned
				b.StopTimeAt([]time.Time{{}, time.Unix(4102444800, 0), time.Now(), time.Unix(1, 1)}[(c.Clock+i)%4])
			}
			o := w.apply(op, cf)
			w.observe(c.Types, &o)
			res.obs = append(res.obs, o)
		}
	}()
	select {
	case r := <-done:
		return r.obs, r.p
	case <-time.After(10 * time.Second):
		i := int(atomic.LoadInt32(&step))
		return nil, fmt.Sprintf("HANG: call %d (%s) did not return within 10s", i, c.Ops[i].K)
	}
}

// canonical key of the implementation state after a history (for BFS deduplication)
func stateKey(o Obs, types []int) string {
	canon := map[int]int{}
	cn := func(obj int) int {
		if v, ok := canon[obj]; ok {
			return v
		}
		canon[obj] = len(canon) + 1
		return canon[obj]
	}
	var sb strings.Builder
	for _, n := range o.Nodes {
		fmt.Fprintf(&sb, "n%d:%d:%d:%s;", n.ID, cn(n.Obj), n.RC, n.Pol)
	}
	for _, p := range o.Pipes {
		fmt.Fprintf(&sb, "p%d/%d:%s:", p.Ety, p.Pid, p.Pol)
		for i := range p.Objs {
			fmt.Fprintf(&sb, "%d=%d,", p.IDs[i], cn(p.Objs[i]))
		}
		sb.WriteString(";")
	}
	fmt.Fprintf(&sb, "g%v;", o.Graphs)
	for _, t := range o.Types {
		fmt.Fprintf(&sb, "t%d:%d:%d;", t.Ety, t.Thr, t.ThrS)
	}
	return sb.String()
}

// ---------- printing ----------
func tyLit(t int) string {
	return [...]string{"TOther", "TFilter", "TFormatter", "TSink", "TFormatterFilter", "TOther"}[t]
}
func polLit(p int) string {
	return [...]string{"ANone", "AAllow", "ADeny", "ABad", "ABad", "ABad", "ADeny", "AAllow", "ABad", "ADeny", "ANone", "ABad", "ABad", "ABad", "ABad", "ABad", "ABad"}[p]
}
func opLit(op Op) string {
	switch op.K {
	case "regnode":
		return fmt.Sprintf("HOp (RegisterNode %s %s %s %s)", hc.N(op.ID), hc.N(op.Obj), tyLit(op.Ty), polLit(op.Pol))
	case "rmnode":
		return fmt.Sprintf("HOp (RemoveNode %s)", hc.N(op.ID))
	case "regpipe":
		return fmt.Sprintf("HOp (RegisterPipeline %s %s %s %s)", hc.N(op.Pid), hc.N(op.Ety), hc.NList(op.IDs), polLit(op.Pol))
	case "rmpipe":
		return fmt.Sprintf("HOp (RemovePipeline %s %s)", hc.N(op.Ety), hc.N(op.Pid))
	case "rpan":
		return fmt.Sprintf("HOp (RemovePipelineAndNodes %s %s)", hc.N(op.Ety), hc.N(op.Pid))
	case "thr":
		return fmt.Sprintf("HOp (SetThr %s %s)", hc.N(op.Ety), hc.Z(op.V))
	case "thrs":
		return fmt.Sprintf("HOp (SetThrSinks %s %s)", hc.N(op.Ety), hc.Z(op.V))
	case "reopenrm":
		return fmt.Sprintf("HReopenRm %s %s", hc.N(op.Ety), hc.N(op.Pid))
	case "reopen":
		return fmt.Sprintf("HReopen %s", hc.N(op.Fail))
	}
	panic("op")
}
func obsLit(o Obs) string {
	var nodes, pipes, types []string
	for _, n := range o.Nodes {
		nodes = append(nodes, hc.Pair(hc.N(n.ID), hc.Pair(hc.N(n.Obj), hc.B(n.InUse))))
	}
	for _, p := range o.Pipes {
		pipes = append(pipes, hc.Pair(hc.N(p.Ety), hc.Pair(hc.N(p.Pid), hc.NList(p.Objs))))
	}
	for _, t := range o.Types {
		types = append(types, fmt.Sprintf("Build_tobs %s %s %s %s %s", hc.N(t.Ety), hc.B(t.IsAny), hc.NList(t.Deliv),
			hc.Pair(hc.Z(int64(t.Thr)), hc.B(t.ThrOk)), hc.Pair(hc.Z(int64(t.ThrS)), hc.B(t.ThrSOk))))
	}
	return fmt.Sprintf("Build_bobs %s %s %s %s %s %s %s", hc.B(o.Ok), hc.B(o.Err), hc.NList(o.Closed), hc.List(nodes), hc.List(pipes), hc.List(types), hc.NList(o.Reopened))
}
func caseLit(c Case, obs []Obs) string {
	steps := make([]string, len(c.Ops))
	for i := range c.Ops {
		steps[i] = hc.Pair(opLit(c.Ops[i]), obsLit(obs[i]))
	}
	var nonClosers []int
	for _, op := range c.Ops {
		if op.K == "regnode" && (op.Wrap == 3 || op.Wrap == 4) {
			nonClosers = append(nonClosers, op.Obj)
		}
	}
	return fmt.Sprintf("Build_bcase %s %s %s\n  %s", hc.N(c.ID), hc.NList(c.CloseFails), hc.NList(nonClosers), hc.List(steps))
}

// ---------- generators ----------
type emitter struct {
	cf      *hc.CaseFile
	side    *os.File
	next    int
	stats   map[string]int
	panics  []string
	sigs    map[string]bool
	nontriv int
}

func (e *emitter) emit(c Case) []Obs {
	e.next++
	c.ID = e.next
	if c.Clock == 0 && c.ID%3 == 0 {
		c.Clock = 1 + c.ID%7
	}
	obs, p := execCase(c)
	if p != nil {
		e.panics = append(e.panics, fmt.Sprintf("case %d: panic: %v", c.ID, p))
		js, _ := json.Marshal(c)
		fmt.Fprintf(e.side, "%s\n", js)
		return nil
	}
	if err := e.cf.Add(caseLit(c, obs)); err != nil {
		panic(err)
	}
	js, _ := json.Marshal(c)
	fmt.Fprintf(e.side, "%s\n", js)
	e.stats["cases"]++
	e.stats["gen:"+c.Gen]++
	e.stats["steps"] += len(c.Ops)
	// distribution: op kinds, outcome per kind
	nontrivial := false
	for i, op := range c.Ops {
		res := "fail"
		if obs[i].Ok {
			res = "ok"
		}
		e.stats["op:"+op.K+":"+res]++
		if len(obs[i].Closed) > 0 {
			e.stats["steps_with_close"]++
		}
		if op.K == "regpipe" && obs[i].Ok {
			nontrivial = true
		}
	}
	// distinctness: by op sequence signature
	sig := fmt.Sprintf("%v|%v", c.Ops, c.CloseFails)
	if !e.sigs[sig] {
		e.sigs[sig] = true
		if nontrivial {
			e.nontriv++
		}
	}
	return obs
}

// C05: every node-type sequence up to length maxLen over the five type classes, with id faults and existing policies
func genTypeSeq(e *emitter, maxLen int, variants bool) {
	var rec func(seq []int)
	rec = func(seq []int) {
		base := func() (ops []Op, ids []int) {
			for i, t := range seq {
				ops = append(ops, Op{K: "regnode", ID: i + 1, Obj: i + 1, Ty: t})
				ids = append(ids, i+1)
			}
			return
		}
		ops, ids := base()
		e.emit(Case{Gen: "typeseq", Types: []int{1, 2}, Ops: append(ops, Op{K: "regpipe", Pid: 1, Ety: 1, IDs: ids})})
		if variants && len(seq) >= 1 && len(seq) <= 4 {
			// one id not registered, one id empty, empty pipeline id, empty type, existing Deny / Allow
			for miss := 0; miss < len(seq); miss++ {
				ops, ids := base()
				ids2 := append([]int(nil), ids...)
				ids2[miss] = 9
				e.emit(Case{Gen: "typeseq-missing", Types: []int{1, 2}, Ops: append(ops, Op{K: "regpipe", Pid: 1, Ety: 1, IDs: ids2})})
				ids3 := append([]int(nil), ids...)
				ids3[miss] = 0
				e.emit(Case{Gen: "typeseq-emptyid", Types: []int{1, 2}, Ops: append(ops, Op{K: "regpipe", Pid: 1, Ety: 1, IDs: ids3})})
			}
			ops, ids = base()
			e.emit(Case{Gen: "typeseq-emptypid", Types: []int{1, 2}, Ops: append(ops, Op{K: "regpipe", Pid: 0, Ety: 1, IDs: ids})})
			e.emit(Case{Gen: "typeseq-emptytype", Types: []int{1, 2}, Ops: append(ops, Op{K: "regpipe", Pid: 1, Ety: 0, IDs: ids})})
			for _, pol := range []int{1, 2} {
				ops, ids := base()
				n := len(seq)
				pre := []Op{{K: "regnode", ID: n + 1, Obj: n + 1, Ty: 2}, {K: "regnode", ID: n + 2, Obj: n + 2, Ty: 3},
					{K: "regpipe", Pid: 1, Ety: 1, IDs: []int{n + 1, n + 2}, Pol: pol}}
				all := append(append([]Op{}, ops...), pre...)
				all = append(all, Op{K: "regpipe", Pid: 1, Ety: 1, IDs: ids}, Op{K: "regpipe", Pid: 1, Ety: 2, IDs: ids}, Op{K: "regpipe", Pid: 2, Ety: 1, IDs: ids})
				e.emit(Case{Gen: "typeseq-existing", Types: []int{1, 2}, Ops: all})
			}
		}
		if variants && len(seq) >= 2 && len(seq) <= 4 && seq[len(seq)-1] == 3 && (seq[len(seq)-2] == 2 || seq[len(seq)-2] == 4) {
			// a well-formed pipeline is registered; then one of its node ids is re-registered with another node type and the
			// SAME definition is registered again: it must be validated against the nodes registered now
			for pos := 0; pos < len(seq); pos++ {
				for t := 1; t <= 5; t++ {
					if t == seq[pos] {
						continue
					}
					ops, ids := base()
					ops = append(ops, Op{K: "regpipe", Pid: 1, Ety: 1, IDs: ids},
						Op{K: "regnode", ID: pos + 1, Obj: len(seq) + 1, Ty: t},
						Op{K: "regpipe", Pid: 1, Ety: 1, IDs: ids})
					e.emit(Case{Gen: "typeseq-retype", Types: []int{1, 2}, Ops: ops})
				}
			}
		}
		if len(seq) < maxLen {
			for t := 1; t <= 5; t++ {
				rec(append(append([]int{}, seq...), t))
			}
		}
	}
	rec(nil)
}

// {3, 2, 4}, {3, 2, 3}: a sink-typed node in a non-final position is a valid definition
var menu = [][]int{{2, 3}, {1, 2, 3}, {2, 4}, {3, 2, 4}, {1, 1, 2, 3}, {2, 2, 3}, {1, 2, 4}, {2, 1, 2, 3}, {3, 2, 3}}
var nodeTy = map[int]int{1: 1, 2: 2, 3: 3, 4: 3}
var bfsSmall bool

func alphabet(small bool) []Op {
	var a []Op
	pols := []int{0, 2}
	if small {
		pols = []int{0}
	}
	for id := 1; id <= 4; id++ {
		for _, p := range pols {
			a = append(a, Op{K: "regnode", ID: id, Ty: nodeTy[id], Pol: p})
		}
		a = append(a, Op{K: "rmnode", ID: id})
	}
	mn := menu
	if small {
		mn = menu[:4]
	}
	for t := 1; t <= 2; t++ {
		for p := 1; p <= 2; p++ {
			for _, ids := range mn {
				for _, pol := range pols {
					a = append(a, Op{K: "regpipe", Pid: p, Ety: t, IDs: ids, Pol: pol})
				}
			}
			// definitions that are refused after validation (unregistered node / ill-formed shape): failed overwrites
			a = append(a, Op{K: "regpipe", Pid: p, Ety: t, IDs: []int{2, 7}}, Op{K: "regpipe", Pid: p, Ety: t, IDs: []int{3, 2}})
			a = append(a, Op{K: "rmpipe", Ety: t, Pid: p}, Op{K: "rpan", Ety: t, Pid: p})
			if !small {
				// the same removal with an already-cancelled context: the registry does not depend on the context
				a = append(a, Op{K: "rpan", Ety: t, Pid: p, Wrap: 1})
			}
		}
	}
	return a
}

// number the objects of the regnode ops of a history 1..k
func numberObjs(ops []Op) []Op {
	out := make([]Op, len(ops))
	k := 0
	for i, op := range ops {
		if op.K == "regnode" {
			k++
			op.Obj = k
		}
		out[i] = op
	}
	return out
}

// breadth-first over the implementation's own state space; one case per (state, op) edge
func genBFS(e *emitter, maxDepth, budget int, withReopen bool, seedOps []Op) (depthDone int, states int, exhaustive bool) {
	type st struct{ hist []Op }
	alpha := alphabet(bfsSmall)
	seen := map[string]bool{}
	frontier := []st{{hist: seedOps}}
	exhaustive = true
	for depth := 1; depth <= maxDepth; depth++ {
		var next []st
		for _, s := range frontier {
			for _, op := range alpha {
				if budget > 0 && e.stats["cases"] >= budget {
					exhaustive = false
					return depth - 1, len(seen), false
				}
				hist := numberObjs(append(append([]Op{}, s.hist...), op))
				c := Case{Gen: fmt.Sprintf("bfs-d%d", depth), Types: []int{1, 2}, Ops: hist}
				if withReopen {
					// reopen with no failure, then with each object failing in turn
					c.Ops = append(c.Ops, Op{K: "reopen"}, Op{K: "reopen", Wrap: 1})
					nobj := 0
					for _, o := range hist {
						if o.K == "regnode" {
							nobj++
						}
					}
					for f := 1; f <= nobj; f++ {
						c.Ops = append(c.Ops, Op{K: "reopen", Fail: f}, Op{K: "reopen", Fail: f, V: 1})
					}
					// last, because the registry changes: Reopen while the first node reached removes a pipeline from inside
					// its Reopen (every pipeline that stays registered must still be reached), then a plain Reopen
					c.Ops = append(c.Ops, Op{K: "reopenrm", Ety: 1, Pid: 1 + depth%2}, Op{K: "reopen"}, Op{K: "reopenrm", Ety: 2, Pid: 1}, Op{K: "reopen"})
				}
				obs := e.emit(c)
				if obs == nil {
					continue
				}
				key := stateKey(obs[len(hist)-1], c.Types)
				if !seen[key] {
					seen[key] = true
					next = append(next, st{hist: hist})
				}
			}
		}
		frontier = next
		depthDone = depth
	}
	return depthDone, len(seen), exhaustive
}

func genRandom(e *emitter, r *hc.Rand, n, maxLen int) {
	for i := 0; i < n; i++ {
		l := 5 + r.Intn(maxLen-4)
		var ops []Op
		registered := map[int]bool{}
		nobj := 0
		for len(ops) < l {
			x := r.Intn(100)
			switch {
			case x < 22:
				id := 1 + r.Intn(4)
				if r.Chance(1, 25) {
					id = 0
				}
				ty := nodeTy[id]
				if id == 0 || r.Chance(1, 8) {
					ty = 1 + r.Intn(5)
				}
				pol := []int{0, 0, 1, 2, 2, 3, 4, 6, 7, 8, 9, 10, 11 + r.Intn(6)}[r.Intn(13)]
				if r.Chance(3, 4) && (pol == 3 || pol == 4 || pol == 8) {
					pol = 0
				}
				wrap := 0
				if r.Chance(1, 3) {
					wrap = 1 + r.Intn(5)
				}
				ops = append(ops, Op{K: "regnode", ID: id, Ty: ty, Pol: pol, Wrap: wrap})
				registered[id] = true
				nobj++
			case x < 30:
				ops = append(ops, Op{K: "rmnode", ID: r.Intn(5), Wrap: r.Intn(4) / 3})
			case x < 62:
				ids := append([]int(nil), menu[r.Intn(len(menu))]...)
				if r.Chance(1, 6) { // mutate: drop / duplicate / unknown / empty
					switch r.Intn(4) {
					case 0:
						ids = ids[:len(ids)-1]
					case 1:
						ids = append(ids, ids[r.Intn(len(ids))])
					case 2:
						ids[r.Intn(len(ids))] = 7
					case 3:
						ids[r.Intn(len(ids))] = 0
					}
				}
				pol := []int{0, 0, 0, 1, 2, 3, 4, 5, 6, 7, 8, 9, 10, 11 + r.Intn(6)}[r.Intn(14)]
				p, t := 1+r.Intn(3), 1+r.Intn(2)
				if r.Chance(1, 30) {
					p = 0
				}
				if r.Chance(1, 30) {
					t = 0
				}
				ops = append(ops, Op{K: "regpipe", Pid: p, Ety: t, IDs: ids, Pol: pol})
			case x < 72:
				ops = append(ops, Op{K: "rmpipe", Ety: r.Intn(3), Pid: r.Intn(4)})
			case x < 86:
				ops = append(ops, Op{K: "rpan", Ety: 1 + r.Intn(2), Pid: 1 + r.Intn(3), Wrap: r.Intn(4) / 3})
			case x < 91:
				ops = append(ops, Op{K: "thr", Ety: r.Intn(3), V: thrValue(r.Intn(12))})
			case x < 95:
				ops = append(ops, Op{K: "thrs", Ety: r.Intn(3), V: thrValue(r.Intn(12))})
			default:
				f := 0
				if nobj > 0 && r.Bool() {
					f = 1 + r.Intn(nobj)
				}
				if r.Intn(4) == 0 {
					ops = append(ops, Op{K: "reopenrm", Ety: 1 + r.Intn(2), Pid: 1 + r.Intn(3)})
				} else {
					ops = append(ops, Op{K: "reopen", Fail: f, Wrap: r.Intn(2), V: int64(r.Intn(3) / 2)})
				}
			}
		}
		ops = numberObjs(ops)
		var cfs []int
		for o := 1; o <= nobj; o++ {
			if r.Chance(1, 6) {
				cfs = append(cfs, o)
			}
		}
		e.emit(Case{Gen: "random", Types: []int{1, 2}, CloseFails: cfs, Ops: ops})
	}
}

// C07: all policy sequences up to length maxLen for one node id and one pipeline id, interleaved with removals
func genPolicy(e *emitter, maxLen int) {
	pols := []int{0, 1, 2, 3, 4, 6, 7, 9, 10, 11, 12}
	var rec func(seq []int)
	rec = func(seq []int) {
		if len(seq) > 0 {
			// node id 1 re-registered with the sequence of policies; a pipeline registered after the first
			// registration keeps using the first object
			for _, removeAt := range []int{-1, 1, 2} {
				ops := []Op{{K: "regnode", ID: 2, Ty: 2}, {K: "regnode", ID: 3, Ty: 3}}
				for i, p := range seq {
					if removeAt == i && i > 0 {
						ops = append(ops, Op{K: "rmnode", ID: 1})
					}
					if removeAt < 0 && i > 0 {
						// removals of OTHER (unregistered) ids and of a node in use reset nothing
						ops = append(ops, Op{K: "rmnode", ID: 9}, Op{K: "rmpipe", Pid: 9, Ety: 1}, Op{K: "rpan", Pid: 9, Ety: 1}, Op{K: "rmnode", ID: 1})
					}
					ops = append(ops, Op{K: "regnode", ID: 1, Ty: 1, Pol: p})
					if i == 0 {
						ops = append(ops, Op{K: "regpipe", Pid: 1, Ety: 1, IDs: []int{1, 2, 3}})
						if removeAt >= 0 {
							ops = append(ops, Op{K: "rmpipe", Pid: 1, Ety: 1})
						}
					}
				}
				ops = append(ops, Op{K: "regpipe", Pid: 2, Ety: 1, IDs: []int{1, 2, 3}})
				e.emit(Case{Gen: "policy-node", Types: []int{1, 2}, Ops: numberObjs(ops)})
			}
			// pipeline (t1,p1) re-registered with the sequence of policies and alternating node lists
			for _, removeAt := range []int{-1, 1, 2} {
				for _, rmKind := range []string{"rmpipe", "rpan"} {
					if removeAt < 0 && rmKind == "rpan" {
						continue
					}
					ops := []Op{{K: "regnode", ID: 1, Ty: 1}, {K: "regnode", ID: 2, Ty: 2}, {K: "regnode", ID: 3, Ty: 3}, {K: "regnode", ID: 4, Ty: 3}}
					// sibling pipelines of the same type (the policy of (t1,p1) must be found among them whatever the map order)
					for sib := 0; sib < len(seq)%3; sib++ {
						ops = append(ops, Op{K: "regpipe", Pid: 2 + sib, Ety: 1, IDs: menu[0], Pol: []int{0, 2}[sib%2]})
					}
					for i, p := range seq {
						if removeAt == i && i > 0 {
							ops = append(ops, Op{K: rmKind, Pid: 1, Ety: 1})
							if rmKind == "rpan" {
								ops = append(ops, Op{K: "regnode", ID: 1, Ty: 1}, Op{K: "regnode", ID: 2, Ty: 2}, Op{K: "regnode", ID: 3, Ty: 3}, Op{K: "regnode", ID: 4, Ty: 3})
							}
						}
						if removeAt < 0 && i > 0 {
							// removals of OTHER ids (unregistered pipeline, the same id under a type without it, an unregistered
							// node) reset nothing: the policy of (t1,p1) stays
							ops = append(ops, Op{K: "rmpipe", Pid: 9, Ety: 1}, Op{K: "rpan", Pid: 9, Ety: 1}, Op{K: "rmpipe", Pid: 1, Ety: 3}, Op{K: "rmnode", ID: 9})
						}
						ops = append(ops, Op{K: "regpipe", Pid: 1, Ety: 1, IDs: menu[i%3], Pol: p})
						if i == 0 {
							// the same id under another type is independent
							ops = append(ops, Op{K: "regpipe", Pid: 1, Ety: 2, IDs: menu[1], Pol: 0})
						}
					}
					e.emit(Case{Gen: "policy-pipeline", Types: []int{1, 2}, Ops: numberObjs(ops)})
				}
			}
		}
		if len(seq) < maxLen {
			next := pols
			if len(seq) >= 3 {
				next = []int{0, 1, 2, 3, 11} // the fourth position: the core values only (case count)
			}
			for _, p := range next {
				rec(append(append([]int{}, seq...), p))
			}
		}
	}
	rec(nil)
}

// ---------- C07 search: an overwriting RegisterPipeline racing with Sends ----------
type racePayload struct{ a, b int32 }
type markNode struct {
	which int
	typ   el.NodeType
}

func (m *markNode) Process(ctx context.Context, e *el.Event) (*el.Event, error) {
	if p, ok := e.Payload.(*racePayload); ok {
		if m.which == 1 {
			atomic.AddInt32(&p.a, 1)
		} else if m.which == 2 {
			atomic.AddInt32(&p.b, 1)
		}
	}
	return e, nil
}
func (m *markNode) Reopen() error     { return nil }
func (m *markNode) Type() el.NodeType { return m.typ }

type raceResult struct {
	Overwrites int      `json:"overwrites"`
	Sends      int64    `json:"sends"`
	Settled    int64    `json:"sends_with_no_overwrite_in_flight"`
	Bad        []string `json:"violations"`
}

// every Send must be processed by exactly one version of the pipeline, and by the current one when no overwrite overlapped it
func overwriteRace(dur time.Duration, senders int) raceResult {
	b, _ := el.NewBroker()
	must := func(err error) {
		if err != nil {
			panic(err)
		}
	}
	must(b.RegisterNode("fa", &markNode{which: 1, typ: el.NodeTypeFilter}))
	must(b.RegisterNode("fb", &markNode{which: 2, typ: el.NodeTypeFilter}))
	must(b.RegisterNode("fmt", &markNode{typ: el.NodeTypeFormatter}))
	must(b.RegisterNode("snk", &markNode{typ: el.NodeTypeSink}))
	vers := [][]el.NodeID{{"fa", "fmt", "snk"}, {"fb", "fmt", "snk"}}
	must(b.RegisterPipeline(el.Pipeline{PipelineID: "p", EventType: "t", NodeIDs: vers[0]}))
	var state int64 // gen*2 + inProgress; version in force when settled = gen % 2
	var res raceResult
	var mu sync.Mutex
	stop := make(chan struct{})
	var wg sync.WaitGroup
	for i := 0; i < senders; i++ {
		wg.Add(1)
		go func() {
			defer wg.Done()
			for {
				select {
				case <-stop:
					return
				default:
				}
				s0 := atomic.LoadInt64(&state)
				p := &racePayload{}
				_, _ = b.Send(context.Background(), "t", p)
				s1 := atomic.LoadInt64(&state)
				n := atomic.AddInt64(&res.Sends, 1)
				a, bb := atomic.LoadInt32(&p.a), atomic.LoadInt32(&p.b)
				var msg string
				if a+bb != 1 {
					msg = fmt.Sprintf("send %d processed by %d version(s) (old-marker visits %d, new-marker visits %d)", n, a+bb, a, bb)
				} else if s0 == s1 && s0%2 == 0 {
					atomic.AddInt64(&res.Settled, 1)
					cur := (s0 / 2) % 2
					if (cur == 0 && a != 1) || (cur == 1 && bb != 1) {
						msg = fmt.Sprintf("send %d ran entirely after overwrite %d returned but was processed by the replaced version", n, s0/2)
					}
				}
				if msg != "" {
					mu.Lock()
					if len(res.Bad) < 5 {
						res.Bad = append(res.Bad, msg)
					}
					mu.Unlock()
				}
			}
		}()
	}
	deadline := time.Now().Add(dur)
	gen := int64(0)
	for time.Now().Before(deadline) {
		atomic.StoreInt64(&state, gen*2+1)
		must(b.RegisterPipeline(el.Pipeline{PipelineID: "p", EventType: "t", NodeIDs: vers[(gen+1)%2]}))
		gen++
		atomic.StoreInt64(&state, gen*2)
		res.Overwrites++
		if gen%64 == 0 {
			time.Sleep(50 * time.Microsecond)
		}
	}
	close(stop)
	wg.Wait()
	return res
}

// a node id of a registered pipeline is bound to a new object and the SAME definition is registered again (and not): the
// pipeline must be linked with the objects registered at its (latest) registration; Reopen probes follow
func genRebind(e *emitter) {
	for mi, ids := range menu {
		for _, again := range []bool{true, false} {
			for pos := range ids {
				ops := []Op{{K: "regnode", ID: 1, Ty: 1}, {K: "regnode", ID: 2, Ty: 2}, {K: "regnode", ID: 3, Ty: 3}, {K: "regnode", ID: 4, Ty: 3},
					{K: "regpipe", Pid: 1, Ety: 1, IDs: ids}, {K: "regpipe", Pid: 2, Ety: 2, IDs: menu[(mi+1)%len(menu)]},
					{K: "regnode", ID: ids[pos], Ty: nodeTy[ids[pos]], Wrap: pos % 3}}
				if again {
					ops = append(ops, Op{K: "regpipe", Pid: 1, Ety: 1, IDs: ids, Pol: []int{0, 2}[pos%2]})
				}
				ops = append(ops, Op{K: "reopen"}, Op{K: "reopen", Fail: 5}, Op{K: "reopen", Fail: ids[pos]}, Op{K: "reopen", Fail: 5, V: 1}, Op{K: "reopenrm", Ety: 2, Pid: 2}, Op{K: "reopen"}, Op{K: "rpan", Pid: 1, Ety: 1}, Op{K: "reopen"})
				e.emit(Case{Gen: "rebind", Types: []int{1, 2}, Ops: numberObjs(ops)})
			}
		}
	}
}

// Reopen while a node removes a pipeline from inside its Reopen: four pipelines of one type (plus one of another), each of
// them (and an unregistered one) as the victim; whatever the walking order, the pipelines that stay must be reached
func genReopenRm(e *emitter) {
	for victim := 1; victim <= 5; victim++ {
		for _, shared := range []bool{false, true} {
			ops := []Op{{K: "regnode", ID: 1, Ty: 1}, {K: "regnode", ID: 2, Ty: 2}, {K: "regnode", ID: 3, Ty: 3}, {K: "regnode", ID: 4, Ty: 3},
				{K: "regnode", ID: 5, Ty: 2}, {K: "regnode", ID: 6, Ty: 3}, {K: "regnode", ID: 7, Ty: 2}, {K: "regnode", ID: 8, Ty: 3}}
			defs := [][]int{{2, 3}, {1, 2, 4}, {5, 6}, {7, 8}}
			if shared {
				defs = [][]int{{2, 3}, {1, 2, 3}, {2, 4}, {1, 2, 4}}
			}
			for i, d := range defs {
				ops = append(ops, Op{K: "regpipe", Pid: i + 1, Ety: 1, IDs: d})
			}
			ops = append(ops, Op{K: "regpipe", Pid: 1, Ety: 2, IDs: defs[0]})
			if victim%2 == 1 {
				// thresholds are Send's business: a met threshold excuses no Reopen failure
				ops = append(ops, Op{K: "thrs", Ety: 1, V: int64(victim % 3)}, Op{K: "thr", Ety: 1, V: 1}, Op{K: "thrs", Ety: 2, V: 1})
			}
			for f := 1; f <= 8; f++ {
				ops = append(ops, Op{K: "reopen", Fail: f, V: int64(f % 2)})
			}
			ops = append(ops,
				Op{K: "reopen"}, Op{K: "reopenrm", Ety: 1, Pid: victim}, Op{K: "reopen"}, Op{K: "reopenrm", Ety: 2, Pid: 1}, Op{K: "reopen"})
			e.emit(Case{Gen: "reopenrm", Types: []int{1, 2}, Ops: numberObjs(ops)})
		}
	}
}

func runCorpus(e *emitter, path string) {
	data, err := os.ReadFile(path)
	if err != nil {
		return
	}
	for _, line := range strings.Split(string(data), "\n") {
		line = strings.TrimSpace(line)
		if line == "" || strings.HasPrefix(line, "#") {
			continue
		}
		var c Case
		if err := json.Unmarshal([]byte(line), &c); err != nil {
			fmt.Fprintf(os.Stderr, "corpus: %v\n", err)
			continue
		}
		c.Gen = "corpus"
		e.emit(c)
	}
}

func main() {
	out := flag.String("out", ".", "output directory")
	prefix := flag.String("prefix", "cases", "case file prefix")
	modes := flag.String("modes", "typeseq,bfs,random,policy", "generators")
	typeLen := flag.Int("typeseq-len", 5, "max type-sequence length")
	variants := flag.Bool("typeseq-variants", true, "id faults / existing policies")
	bfsDepth := flag.Int("bfs-depth", 3, "BFS depth")
	bfsBudget := flag.Int("bfs-budget", 3000, "max BFS cases (0 = unlimited)")
	bfsReopen := flag.Bool("bfs-reopen", false, "append Reopen probes (C20)")
	flag.BoolVar(&bfsSmall, "bfs-small", false, "smaller BFS alphabet (default policy only, four definitions): deeper for the same budget")
	nRandom := flag.Int("random", 300, "random histories")
	randLen := flag.Int("random-len", 40, "max random history length")
	polLen := flag.Int("policy-len", 4, "max policy sequence length")
	perShard := flag.Int("per-shard", 250, "cases per file")
	corpus := flag.String("corpus", "", "corpus file (JSON lines), run first")
	replay := flag.String("replay", "", "replay one JSON case and print its observations")
	raceMs := flag.Int("overwrite-race-ms", 0, "C07: race overwriting RegisterPipeline calls against senders for this long")
	flag.Parse()

	if *replay != "" {
		data, err := os.ReadFile(*replay)
		if err != nil {
			fmt.Fprintln(os.Stderr, err)
			os.Exit(2)
		}
		var wrapper struct {
			Case Case `json:"case"`
		}
		if err := json.Unmarshal(data, &wrapper); err != nil || len(wrapper.Case.Ops) == 0 {
			_ = json.Unmarshal(data, &wrapper.Case)
		}
		obs, p := execCase(wrapper.Case)
		for i, o := range obs {
			js, _ := json.Marshal(o)
			fmt.Printf("step %d %s\n  -> %s\n", i, opLit(wrapper.Case.Ops[i]), js)
		}
		if p != nil {
			fmt.Printf("PANIC: %v\n", p)
		}
		return
	}

	cf := &hc.CaseFile{Dir: *out, Prefix: *prefix, PerShard: *perShard, Type: "list bcase",
		Header: "From Coq Require Import List NArith ZArith.\nFrom Verif Require Import Alist Broker Run_Broker.\nImport ListNotations.",
		Footer: "Definition M := Eval vm_compute in mismatches cases.\nPrint M."}
	side, err := os.Create(*out + "/" + *prefix + ".jsonl")
	if err != nil {
		panic(err)
	}
	e := &emitter{cf: cf, side: side, stats: map[string]int{}, sigs: map[string]bool{}}
	r := hc.NewRand(hc.Seed())
	if *corpus != "" {
		runCorpus(e, *corpus)
	}
	summary := map[string]interface{}{}
	for _, m := range strings.Split(*modes, ",") {
		switch m {
		case "typeseq":
			genTypeSeq(e, *typeLen, *variants)
			summary["typeseq_exhaustive_len"] = *typeLen
		case "bfs":
			start := e.stats["cases"]
			budget := 0
			if *bfsBudget > 0 {
				budget = start + *bfsBudget
			}
			// two roots: the empty broker (shallow), and a broker with the four nodes registered (the interesting part of the space)
			d0, s0, ex0 := genBFS(e, 2, budget, *bfsReopen, nil)
			seeded := numberObjs([]Op{{K: "regnode", ID: 1, Ty: 1, Wrap: 1}, {K: "regnode", ID: 2, Ty: 2, Wrap: 5}, {K: "regnode", ID: 3, Ty: 3, Wrap: 2}, {K: "regnode", ID: 4, Ty: 3, Wrap: 4}})
			d, s, ex := genBFS(e, *bfsDepth, budget, *bfsReopen, seeded)
			summary["bfs_empty_root_depth_completed"] = d0
			summary["bfs_depth_completed"] = d
			summary["bfs_states"] = s + s0
			summary["bfs_exhaustive_to_requested_depth"] = ex && ex0
		case "random":
			genRandom(e, r.Fork(), *nRandom, *randLen)
		case "rebind":
			genRebind(e)
			genReopenRm(e)
		case "policy":
			genPolicy(e, *polLen)
			summary["policy_exhaustive_len"] = *polLen
		case "":
		default:
			fmt.Fprintf(os.Stderr, "unknown mode %s\n", m)
			os.Exit(2)
		}
	}
	if *raceMs > 0 {
		summary["overwrite_race"] = overwriteRace(time.Duration(*raceMs)*time.Millisecond, 6)
	}
	cf.Close()
	side.Close()
	summary["stats"] = e.stats
	summary["files"] = cf.Files
	summary["cases"] = cf.Total
	summary["distinct_nontrivial"] = e.nontriv
	summary["panics"] = e.panics
	summary["seed"] = hc.Seed()
	js, _ := json.MarshalIndent(summary, "", " ")
	os.WriteFile(*out+"/"+*prefix+"_summary.json", js, 0o644)
	fmt.Printf("brokerh: %d cases in %d files, %d panics\n", cf.Total, len(cf.Files), len(e.panics))
}
