// cloudh — correspondence driver for C18: formatter_filters/cloudevents.FormatterFilter.
// The product payload kind (plain / ID / Data / both) x format {unset, json, text, invalid} x schema set/unset/empty x source
// x signer absent / succeeding / failing x listed / unlisted types x predicate outcomes (plus random payload data, nil node,
// nil event, unencodable data and times) is run on the real node; inputs and observations are printed as cases_*.v for
// Run_CloudEvents.mismatches, which compares the stored document byte for byte with CloudEvents.process, decodes `serialized`
// inside Coq and compares it with the signer's recorded input.
package main

import (
	"bytes"
	"context"
	"encoding/base64"
	"encoding/hex"
	"encoding/json"
	"flag"
	"fmt"
	"net/url"
	"os"
	"reflect"
	"runtime"
	"sort"
	"strings"
	"sync"
	"time"

	el "github.com/hashicorp/eventlogger"
	ce "github.com/hashicorp/eventlogger/formatter_filters/cloudevents"
	"verifharness/hc"
	"verifharness/jgen"
)

// ---------------------------------------------------------------- payload kinds
type idPayload struct {
	V  interface{} `json:"v"`
	id string
}

func (p idPayload) ID() string { return p.id }

type dataPayload struct {
	X int
	d interface{}
}

func (p dataPayload) Data() interface{} { return p.d }

type bothPayload struct {
	id string
	d  interface{}
}

// a pointer-receiver ID(): only the pointer has it, the value does not
type ptrIDPayload struct {
	V  interface{} `json:"v"`
	id string
}

func (p *ptrIDPayload) ID() string { return p.id }

// nil-safe pointer-receiver methods: a typed nil payload still has an ID() and a Data()
type nilSafePayload struct{ X int }

func (p *nilSafePayload) ID() string {
	if p == nil {
		return "nil-id"
	}
	return "set-id"
}
func (p *nilSafePayload) Data() interface{} {
	if p == nil {
		return nil
	}
	return p.X
}

func (p *bothPayload) ID() string        { return p.id }
func (p *bothPayload) Data() interface{} { return p.d }

// ---------------------------------------------------------------- cases
type Case struct {
	ID       int               `json:"id"`
	Gen      string            `json:"gen"`
	NilNode  bool              `json:"nil_node,omitempty"`
	Source   string            `json:"source"` // "" nil URL, "<empty>" &url.URL{}, else parsed
	Schema   string            `json:"schema"`
	Format   string            `json:"format"`
	Pred     int               `json:"pred"`
	Signer   int               `json:"signer"` // 0 absent 1 ok 2 fails 3 ok with empty result
	Tag      string            `json:"tag,omitempty"`
	Types    []string          `json:"types"`               // hex
	Ctx      int               `json:"ctx,omitempty"`       // context handed to Process (jgen.MkContext)
	ErrClass int               `json:"err_class,omitempty"` // which error value a failing signer / predicate returns (jgen.InjectedError)
	Again    int               `json:"again,omitempty"`     // further Process calls on the SAME event (the caller clobbers the stored value in between)
	NilEvent bool              `json:"nil_event,omitempty"`
	Type     string            `json:"type"` // hex
	Time     jgen.TimeSpec     `json:"time"`
	PKind    string            `json:"pkind"` // plain id data both
	PID      string            `json:"pid,omitempty"`
	Payload  *jgen.Recipe      `json:"payload"`
	NilTab   bool              `json:"nil_table,omitempty"`
	Pre      []jgen.TableEntry `json:"pre,omitempty"`
	FreshIDs []string          `json:"fresh_ids,omitempty"` // only for the closing CFresh case
	Hist     []HStep           `json:"hist,omitempty"`      // a history on ONE node: the fields above configure the node
}

// HStep is one call on the shared node of a history
type HStep struct {
	Rotate   bool   `json:"rotate,omitempty"`
	Signer   int    `json:"signer,omitempty"` // Rotate: 0 nil, 1 ok, 2 fails, 3 ok with an empty result, 4 honours the context
	ErrClass int    `json:"err_class,omitempty"`
	Tag      string `json:"tag,omitempty"`
	Ev       *Case  `json:"ev,omitempty"`  // Process: type, time, pkind, pid, payload, pre of the event
	Set      *Patch `json:"set,omitempty"` // the caller assigns exported fields of the node between calls
}

// Patch: which exported fields of the FormatterFilter the caller assigns (nil pointer = field left alone)
type Patch struct {
	Copy     bool      `json:"copy,omitempty"` // continue with a copy of the struct (then apply the assignments to the copy)
	Source   *string   `json:"source,omitempty"`
	Schema   *string   `json:"schema,omitempty"`
	Format   *string   `json:"format,omitempty"`
	Types    *[]string `json:"types,omitempty"`
	Signer   *int      `json:"signer,omitempty"` // the Signer field assigned directly (not via Rotate); 0 = nil
	Tag      string    `json:"tag,omitempty"`
	ErrClass int       `json:"err_class,omitempty"`
	Pred     *int      `json:"pred,omitempty"`
}

func setPredicate(sh *shared, pred, errClass int) {
	switch pred {
	case 1:
		sh.node.Predicate = func(context.Context, interface{}) (bool, error) { return true, nil }
	case 2:
		sh.node.Predicate = func(context.Context, interface{}) (bool, error) { return false, nil }
	case 3:
		sh.node.Predicate = func(context.Context, interface{}) (bool, error) {
			sh.predErr = true
			return false, jgen.InjectedError(errClass)
		}
	case 4:
		sh.node.Predicate = func(context.Context, interface{}) (bool, error) {
			sh.predErr = true
			return true, jgen.InjectedError(errClass)
		}
	default:
		sh.node.Predicate = nil
	}
}

// apply assigns the fields on the node and keeps cur, the configuration in force, in step
func (p *Patch) apply(sh *shared, cur *Case) {
	if p.Copy {
		n2 := *sh.node // copying the used struct is exactly the scenario
		sh.node = &n2
	}
	if p.Source != nil {
		u, _, _ := mkURL(*p.Source)
		sh.node.Source, cur.Source = u, *p.Source
	}
	if p.Schema != nil {
		u, _, _ := mkURL(*p.Schema)
		sh.node.Schema, cur.Schema = u, *p.Schema
	}
	if p.Format != nil {
		sh.node.Format, cur.Format = ce.Format(*p.Format), *p.Format
	}
	if p.Types != nil {
		var l []string
		for _, t := range *p.Types {
			l = append(l, string(jgen.Unhex(t)))
		}
		sh.node.SignEventTypes, cur.Types = l, *p.Types
	}
	if p.Signer != nil {
		sh.node.Signer = mkSigner(*p.Signer, jgen.Unhex(p.Tag), &sh.calls, p.ErrClass)
		cur.Signer, cur.Tag = *p.Signer, p.Tag
	}
	if p.Pred != nil {
		setPredicate(sh, *p.Pred, p.ErrClass)
		cur.Pred = *p.Pred
	}
}

func cfgLit(c Case) string {
	_, srcTok, srcOK := mkURL(c.Source)
	_, schTok, schOK := mkURL(c.Schema)
	typesLit := make([]string, len(c.Types))
	for i, t := range c.Types {
		typesLit[i] = jgen.Bytes(jgen.Unhex(t))
	}
	return fmt.Sprintf("{| k_nil := false; k_source := %s; k_schema := %s; k_format := %s; k_pred := %d; k_signer := %d; k_tag := %s; k_types := [%s] |}",
		jgen.OptBytes(srcTok, srcOK), jgen.OptBytes(schTok, schOK), fmtLit(c.Format), c.Pred, c.Signer, jgen.Bytes(jgen.Unhex(c.Tag)), strings.Join(typesLit, "; "))
}

// runHist runs a history on one FormatterFilter: Process calls on fresh events and Rotate calls in the given order
func runHist(c Case) (ret *retained, panics []string, fresh []string, observed []string) {
	src, _, _ := mkURL(c.Source)
	sch, _, _ := mkURL(c.Schema)
	sh := &shared{node: &ce.FormatterFilter{Source: src, Schema: sch, Format: ce.Format(c.Format)}}
	for _, t := range c.Types {
		sh.node.SignEventTypes = append(sh.node.SignEventTypes, string(jgen.Unhex(t)))
	}
	sh.node.Signer = mkSigner(c.Signer, jgen.Unhex(c.Tag), &sh.calls, c.ErrClass)
	setPredicate(sh, c.Pred, c.ErrClass)
	cur := c // the configuration in force: changed by Rotate and by assignments to the node's fields
	ret = &retained{id: c.ID}
	var order []string // per step: "" for a Process step (filled from the records), the literal for a Rotate step
	for i, st := range c.Hist {
		if st.Set != nil {
			st.Set.apply(sh, &cur)
			order = append(order, "HSet "+cfgLit(cur))
			js, _ := json.Marshal(st.Set)
			observed = append(observed, fmt.Sprintf("step %d the caller assigns %s", i, js))
			continue
		}
		if st.Rotate {
			var rerr error
			func() {
				defer func() {
					if p := recover(); p != nil {
						panics = append(panics, fmt.Sprintf("case %d: Rotate at step %d: %v", c.ID, i, p))
					}
				}()
				rerr = sh.node.Rotate(mkSigner(st.Signer, jgen.Unhex(st.Tag), &sh.calls, st.ErrClass))
			}()
			order = append(order, fmt.Sprintf("HRot %d %s %s", st.Signer, jgen.Bytes(jgen.Unhex(st.Tag)), hc.B(rerr != nil)))
			if rerr == nil && st.Signer != 0 {
				cur.Signer, cur.Tag = st.Signer, st.Tag
			}
			observed = append(observed, fmt.Sprintf("step %d Rotate(signer kind %d) -> err=%v", i, st.Signer, rerr))
			continue
		}
		ev := *st.Ev
		ev.ID = c.ID
		ev.Source, ev.Schema, ev.Format, ev.Types, ev.Pred = cur.Source, cur.Schema, cur.Format, cur.Types, cur.Pred
		r, obs, _ := runCaseOn(ev, sh)
		if obs.Panic != "" {
			panics = append(panics, fmt.Sprintf("case %d: step %d: %s", c.ID, i, obs.Panic))
		}
		if obs.Fresh != "" {
			fresh = append(fresh, obs.Fresh)
		}
		for _, x := range ret.sub { // one more Process call for the earlier events of this history
			x.recheck(1)
		}
		ret.sub = append(ret.sub, r)
		order = append(order, "")
		stored := ""
		for k, v := range obs.Table {
			stored += fmt.Sprintf(" %s=%q", k, jgen.Unhex(v))
		}
		observed = append(observed, fmt.Sprintf("step %d Process(type %q) -> err=%v out=%d signer inputs=%d stored:%s", i, jgen.Unhex(ev.Type), obs.Err, obs.Out, len(obs.Calls), stored))
	}
	head := fmt.Sprintf("CHist %d %s", c.ID, cfgLit(c))
	ret.group = func(recs []string) string {
		parts := make([]string, len(order))
		j := 0
		for i, o := range order {
			if o == "" {
				parts[i] = "HProc " + recs[j]
				j++
			} else {
				parts[i] = o
			}
		}
		return head + " [" + strings.Join(parts, ";\n  ") + "]"
	}
	return
}

func (em *emitter) emitHist(c Case) {
	c.ID = em.next
	em.next++
	js, _ := json.Marshal(c)
	watchCase(js)
	defer watchCase(nil)
	ret, panics, fresh, _ := runHist(c)
	em.panics = append(em.panics, panics...)
	em.fresh = append(em.fresh, fresh...)
	for _, r := range em.batch {
		r.recheck(len(ret.sub))
	}
	em.batch = append(em.batch, ret)
	if len(em.batch) >= batchSize {
		em.flush()
	}
	em.stats["histories"]++
	em.stats["history-steps"] += len(c.Hist)
	sig := string(js[strings.Index(string(js), `"gen"`):])
	if !em.sigs[sig] {
		em.sigs[sig] = true
		em.nontriv++
	}
	em.side.Write(js)
	em.side.Write([]byte("\n"))
	em.stats["cases"]++
}

func histEvent(typ string, i int) *Case {
	pl := simpleMap
	if i%3 == 1 {
		pl = &jgen.Recipe{K: "nil"}
	}
	return &Case{Type: hx(typ), Time: jgen.Times[i%5], PKind: []string{"plain", "id", "data"}[i%3], PID: hx("id-" + typ), Payload: pl}
}

// every history of up to 3 calls ending in a Process, over {Process listed, Process unlisted, Rotate A, Rotate B,
// Rotate failing signer, Rotate nil}, on a node constructed without a signer / with signer A / with a failing signer
func genHistGrid(em *emitter) {
	alphabet := []HStep{{Ev: histEvent("t", 0)}, {Ev: histEvent("u", 1)}, {Rotate: true, Signer: 1, Tag: hx("A-")}, {Rotate: true, Signer: 1, Tag: hx("B-")},
		{Rotate: true, Signer: 2}, {Rotate: true, Signer: 0}}
	for _, initial := range []int{0, 1, 2} {
		for fi, format := range []string{"", "cloudevents-text"} {
			var rec func(seq []HStep)
			rec = func(seq []HStep) {
				if len(seq) > 0 && !seq[len(seq)-1].Rotate && (fi == 0 || (initial == 0 && len(seq) == 3)) {
					em.emitHist(Case{Gen: "history-grid", Source: "https://src.example", Format: format, Signer: initial, Tag: hx("I-"),
						Types: []string{hx("t"), hx("zz")}, Hist: append([]HStep{}, seq...)})
				}
				if len(seq) < 3 {
					for _, o := range alphabet {
						rec(append(append([]HStep{}, seq...), o))
					}
				}
			}
			rec(nil)
		}
	}
}

func sp(s string) *string { return &s }
func ip(i int) *int       { return &i }

// between two Process calls on ONE node the caller assigns an exported field (or continues with a copy of the struct): the
// second event is judged under the configuration then in force; valid -> invalid -> valid transitions included
func genHistConfig(em *emitter) {
	other := []string{hx("other")}
	listed := []string{hx("t")}
	patches := []Patch{
		{Source: sp("https://other.example/src")}, {Source: sp("")}, {Source: sp("<empty>")}, {Source: sp("urn:x:y")},
		{Schema: sp("https://schema.example/one")}, {Schema: sp("https://schema.example/two")}, {Schema: sp("")}, {Schema: sp("<empty>")},
		{Format: sp("cloudevents-text")}, {Format: sp("cloudevents-json")}, {Format: sp("")}, {Format: sp("bogus")},
		{Types: &other}, {Types: &listed}, {Types: &[]string{}},
		{Signer: ip(1), Tag: hx("F-")}, {Signer: ip(2)}, {Signer: ip(0)}, {Signer: ip(3)},
		{Pred: ip(2)}, {Pred: ip(3)}, {Pred: ip(0)}, {Pred: ip(1)},
		{Copy: true}, {Copy: true, Source: sp("https://copy.example")}, {Copy: true, Schema: sp("")}, {Copy: true, Format: sp("bogus")},
	}
	valid := Patch{Source: sp("https://src.example/again"), Schema: sp("https://schema.example/again"), Format: sp("cloudevents-json")}
	for _, start := range []Case{
		{Source: "https://src.example", Signer: 1, Tag: hx("I-"), Types: listed},
		{Source: "https://src.example", Schema: "https://schema.example/s", Format: "cloudevents-text", Types: listed, Pred: 1},
	} {
		for i := range patches {
			p := patches[i]
			c := start
			c.Gen = "history-config"
			c.Hist = []HStep{{Ev: histEvent("t", 0)}, {Set: &p}, {Ev: histEvent("t", 1)}, {Ev: histEvent("u", 2)}}
			em.emitHist(c)
			// ... then back to a valid configuration: the node must accept again (and reject in between if it was invalid)
			v := valid
			c.Hist = []HStep{{Ev: histEvent("t", 0)}, {Set: &p}, {Ev: histEvent("t", 1)}, {Set: &v}, {Ev: histEvent("t", 2)}}
			em.emitHist(c)
			// the assignment before the very first event
			c.Hist = []HStep{{Set: &p}, {Ev: histEvent("t", 1)}}
			em.emitHist(c)
		}
	}
	// a node that starts invalid, is rejected, is repaired, accepts, is broken again
	bad := Case{Gen: "history-config", Source: "", Types: listed, Signer: 1, Tag: hx("I-")}
	fix, brk := Patch{Source: sp("https://late.example")}, Patch{Schema: sp("<empty>")}
	bad.Hist = []HStep{{Ev: histEvent("t", 0)}, {Set: &fix}, {Ev: histEvent("t", 1)}, {Set: &brk}, {Ev: histEvent("t", 2)}, {Set: &Patch{Schema: sp("")}}, {Ev: histEvent("t", 0)}}
	em.emitHist(bad)
}

func genHistRandom(em *emitter, r *hc.Rand, n int) {
	g := &jgen.Gen{R: r, Stats: em.stats}
	for i := 0; i < n; i++ {
		c := Case{Gen: "history-random", Source: "https://src.example", Schema: []string{"", "https://schema.example/s"}[r.Intn(2)],
			Format: []string{"", "cloudevents-json", "cloudevents-text"}[r.Intn(3)], Signer: []int{0, 0, 1, 2, 3, 4}[r.Intn(6)], Tag: hx("I-"), Pred: []int{0, 0, 1, 2}[r.Intn(4)]}
		listed := hex.EncodeToString(append([]byte{'t'}, g.String(2)...))
		c.Types = []string{hx("zz"), listed}
		for j, m := 0, 2+r.Intn(7); j < m; j++ {
			if r.Chance(1, 4) { // the caller assigns a field of the node
				p := &Patch{Copy: r.Chance(1, 6)}
				switch r.Intn(6) {
				case 0:
					p.Source = sp([]string{"https://src.example", "https://other.example/x?y=<1>", "urn:a:b", "", "<empty>"}[r.Intn(5)])
				case 1:
					p.Schema = sp([]string{"", "https://schema.example/s", "s:<&>", "<empty>"}[r.Intn(4)])
				case 2:
					p.Format = sp([]string{"", "cloudevents-json", "cloudevents-text", "bogus"}[r.Intn(4)])
				case 3:
					l := [][]string{{listed}, {hx("zz")}, nil, {hx("zz"), listed, listed}}[r.Intn(4)]
					p.Types = &l
				case 4:
					p.Signer, p.Tag, p.ErrClass = ip([]int{0, 1, 2, 3, 4}[r.Intn(5)]), hex.EncodeToString(g.String(2)), r.Intn(jgen.ErrClasses)
				default:
					p.Pred, p.ErrClass = ip(r.Intn(5)), r.Intn(jgen.ErrClasses)
				}
				c.Hist = append(c.Hist, HStep{Set: p})
				continue
			}
			if r.Chance(2, 5) {
				c.Hist = append(c.Hist, HStep{Rotate: true, Signer: []int{0, 1, 1, 2, 3, 4}[r.Intn(6)], Tag: hex.EncodeToString(g.String(2))})
				continue
			}
			ev := &Case{Ctx: jgen.GenCtx(r), Type: listed, Time: jgen.GenTime(r), PKind: []string{"plain", "id", "data", "both"}[r.Intn(4)], PID: hx("i1"), Payload: g.Payload(2, 10)}
			if r.Chance(1, 3) {
				ev.Type = hex.EncodeToString(g.String(2))
			}
			ev.NilTab, ev.Pre = jgen.GenPre(r, g)
			c.Hist = append(c.Hist, HStep{Ev: ev})
		}
		em.emitHist(c)
	}
}

func mkURL(s string) (*url.URL, []byte, bool) {
	switch s {
	case "":
		return nil, nil, false
	case "<empty>":
		return &url.URL{}, []byte{}, true
	}
	u, err := url.Parse(s)
	if err != nil {
		panic(err)
	}
	return u, []byte(u.String()), true
}

func sigFn(tag, b []byte) string {
	sum := 0
	w := 7
	for _, x := range b {
		sum += int(x)
		w = (w*31 + int(x)) % 1000003
	}
	out := append([]byte{}, tag...)
	out = append(out, byte(65+sum%26), byte(97+len(b)%26), byte(48+w%10), byte(48+(w/10)%10))
	return string(out)
}

// decodeDoc reads a stored document with numbers kept as tokens (data may hold numbers no float64 can)
func decodeDoc(doc []byte, m *map[string]interface{}) error {
	dec := json.NewDecoder(bytes.NewReader(doc))
	dec.UseNumber()
	return dec.Decode(m)
}

type Obs struct {
	Err     bool              `json:"err"`
	ErrText string            `json:"err_text,omitempty"`
	Out     int               `json:"out"`
	Table   map[string]string `json:"table"`
	Frame   bool              `json:"frame"`
	Calls   []string          `json:"signer_inputs"`
	Fresh   string            `json:"fresh,omitempty"`
	TimeOK  bool              `json:"time_ok"`
	Panic   string            `json:"panic,omitempty"`
}

func fmtLit(f string) string {
	switch f {
	case "":
		return "FUnspec"
	case "cloudevents-json":
		return "FJson"
	case "cloudevents-text":
		return "FText"
	}
	return "FBad"
}

// shared is ONE FormatterFilter used by all Process steps of a history; its signer closures record into calls
type shared struct {
	node    *ce.FormatterFilter
	calls   [][]byte
	predErr bool
}

// inFlight lets a callback cancel the context of the call it is running in (context kind 8)
func inFlight() {
	if f := jgen.InFlightCancel; f != nil {
		f()
	}
}

func mkSigner(kind int, tag []byte, rec *[][]byte, errClass int) ce.Signer {
	switch kind {
	case 1:
		return func(_ context.Context, b []byte) (string, error) {
			*rec = append(*rec, append([]byte(nil), b...))
			inFlight()
			return sigFn(tag, b), nil
		}
	case 2:
		return func(_ context.Context, b []byte) (string, error) {
			*rec = append(*rec, append([]byte(nil), b...))
			inFlight()
			return "", jgen.InjectedError(errClass)
		}
	case 3:
		return func(_ context.Context, b []byte) (string, error) {
			*rec = append(*rec, append([]byte(nil), b...))
			inFlight()
			return "", nil
		}
	case 4: // honours the context: refuses to sign once it is done
		return func(ctx context.Context, b []byte) (string, error) {
			*rec = append(*rec, append([]byte(nil), b...))
			if err := ctx.Err(); err != nil {
				return "", err
			}
			inFlight()
			return sigFn(tag, b), nil
		}
	}
	return nil
}

func runCase(c Case) (ret *retained, obs Obs, nontrivial bool) { return runCaseOn(c, nil) }

func runCaseOn(c Case, sh *shared) (ret *retained, obs Obs, nontrivial bool) {
	gv, mv, ok := jgen.Build(c.Payload)
	ty := jgen.Unhex(c.Type)
	tm := c.Time.Time()
	tag := jgen.Unhex(c.Tag)
	pid := jgen.Unhex(c.PID)

	// payload and its model image
	var payload interface{}
	idLit := "None"
	var dataLit string
	img := func(m *jgen.MV, enc bool, isNil bool) string {
		switch {
		case !enc:
			return "DUnenc"
		case isNil:
			return "DAbsent"
		}
		return "(DVal " + m.Lit() + ")"
	}
	switch c.PKind {
	case "plain":
		payload = gv
		dataLit = img(mv, ok, gv == nil)
	case "id":
		payload = idPayload{V: gv, id: string(pid)}
		idLit = "(Some " + jgen.Bytes(pid) + ")"
		if ok {
			dataLit = "(DVal (JObj [([118], " + mv.Lit() + ")]))"
		} else {
			dataLit = "DUnenc"
		}
	case "data":
		payload = dataPayload{X: 1, d: gv}
		dataLit = img(mv, ok, gv == nil)
	case "both":
		payload = &bothPayload{id: string(pid), d: gv}
		idLit = "(Some " + jgen.Bytes(pid) + ")"
		dataLit = img(mv, ok, gv == nil)
	case "idptr": // pointer-receiver ID() held by pointer: it is the payload's id
		payload = &ptrIDPayload{V: gv, id: string(pid)}
		idLit = "(Some " + jgen.Bytes(pid) + ")"
		if ok {
			dataLit = "(DVal (JObj [([118], " + mv.Lit() + ")]))"
		} else {
			dataLit = "DUnenc"
		}
	case "idptrval": // the same type held by value has no ID(): a fresh id is drawn
		payload = ptrIDPayload{V: gv, id: string(pid)}
		if ok {
			dataLit = "(DVal (JObj [([118], " + mv.Lit() + ")]))"
		} else {
			dataLit = "DUnenc"
		}
	case "nilboth": // a typed nil pointer whose methods are nil-safe
		payload = (*nilSafePayload)(nil)
		idLit = "(Some " + jgen.Bytes([]byte("nil-id")) + ")"
		dataLit = "DAbsent"
	default:
		panic("bad payload kind " + c.PKind)
	}

	var formatted map[string][]byte
	if !c.NilTab {
		formatted = map[string][]byte{}
		for _, p := range c.Pre {
			formatted[p.F] = p.Value()
		}
	}
	pre := map[string][]byte{}
	for k, v := range formatted {
		pre[k] = append([]byte(nil), v...)
	}
	var e *el.Event
	if c.NilEvent {
		pre = map[string][]byte{} // there is no event, hence no table
	}
	if !c.NilEvent {
		e = &el.Event{Type: el.EventType(ty), CreatedAt: tm, Payload: payload, Formatted: formatted}
	}
	snapBefore := jgen.Snapshot(payload)
	errsBefore := jgen.ErrorsIn(payload) // error values must stay the very same values

	// node
	src, srcTok, srcOK := mkURL(c.Source)
	sch, schTok, schOK := mkURL(c.Schema)
	var node *ce.FormatterFilter
	var calls [][]byte
	predErr := false
	if !c.NilNode {
		node = &ce.FormatterFilter{Source: src, Schema: sch, Format: ce.Format(c.Format)}
		for _, t := range c.Types {
			node.SignEventTypes = append(node.SignEventTypes, string(jgen.Unhex(t)))
		}
		node.Signer = mkSigner(c.Signer, tag, &calls, c.ErrClass)
		switch c.Pred {
		case 1:
			node.Predicate = func(context.Context, interface{}) (bool, error) { return true, nil }
		case 2:
			node.Predicate = func(context.Context, interface{}) (bool, error) { return false, nil }
		case 3:
			node.Predicate = func(context.Context, interface{}) (bool, error) {
				predErr = true
				inFlight()
				return false, jgen.InjectedError(c.ErrClass)
			}
		case 4:
			node.Predicate = func(context.Context, interface{}) (bool, error) {
				predErr = true
				inFlight()
				return true, jgen.InjectedError(c.ErrClass)
			}
		}
	}
	if sh != nil { // a step of a history: the one shared node, whatever signer is installed on it now
		node = sh.node
		sh.calls = nil
		sh.predErr = false
	}
	var out *el.Event
	var err error
	func() {
		defer func() {
			if p := recover(); p != nil {
				obs.Panic = fmt.Sprint(p)
			}
		}()
		ctx, release, _ := jgen.MkContext(c.Ctx)
		defer release()
		out, err = node.Process(ctx, e)
	}()
	for again := 0; again < c.Again && sh == nil && e != nil && obs.Panic == ""; again++ {
		// the caller keeps the event, overwrites what was stored (when the call succeeded) and processes it again: the
		// document must be rendered afresh from the event, whatever the table holds
		key := "cloudevents-json"
		if c.Format == "cloudevents-text" {
			key = "cloudevents-text"
		}
		if _, has := e.Format(key); has && (err == nil || predErr) {
			e.FormattedAs(key, []byte("clobbered by the caller"))
		}
		calls = nil
		predErr = false
		func() {
			defer func() {
				if p := recover(); p != nil {
					obs.Panic = fmt.Sprint(p)
				}
			}()
			ctx, release, _ := jgen.MkContext(c.Ctx)
			defer release()
			out, err = node.Process(ctx, e)
		}()
	}
	if sh != nil {
		calls = sh.calls
		predErr = sh.predErr
	}
	obs.Err = err != nil
	if err != nil {
		obs.ErrText = err.Error()
	}
	switch {
	case out == nil:
		obs.Out = 0
	case out == e:
		obs.Out = 1
	default:
		obs.Out = 2
	}
	obs.Frame = true
	obs.Table = map[string]string{}
	var after map[string][]byte
	if e != nil {
		obs.Frame = string(e.Type) == string(ty) && e.CreatedAt.Equal(tm) && e.CreatedAt.Location() == tm.Location() && jgen.Snapshot(e.Payload) == snapBefore && jgen.SameErrors(errsBefore, jgen.ErrorsIn(e.Payload))
		after = e.Formatted
		for k, v := range e.Formatted {
			obs.Table[k] = hex.EncodeToString(v)
		}
	}
	for _, b := range calls {
		obs.Calls = append(obs.Calls, hex.EncodeToString(b))
	}
	// the time member read back with Go's time parser must be the event's instant
	obs.TimeOK = true
	if e != nil && err == nil {
		key := "cloudevents-json"
		if c.Format == "cloudevents-text" {
			key = "cloudevents-text"
		}
		if doc, has := e.Formatted[key]; has {
			obs.TimeOK = false
			var m map[string]interface{}
			if decodeDoc(doc, &m) == nil {
				if ts, isStr := m["time"].(string); isStr {
					if t2, perr := time.Parse(time.RFC3339Nano, ts); perr == nil && t2.Equal(tm) {
						obs.TimeOK = true
					}
				}
			}
		}
	}
	// the fresh id is the oracle's answer: read it back from the emitted document
	fresh := []byte("unobserved")
	if (c.PKind == "plain" || c.PKind == "data" || c.PKind == "idptrval") && e != nil {
		key := "cloudevents-json"
		if c.Format == "cloudevents-text" {
			key = "cloudevents-text"
		}
		var docs [][]byte
		if doc, has := e.Formatted[key]; has && string(doc) != string(pre[key]) {
			docs = append(docs, doc)
		}
		docs = append(docs, calls...) // nothing stored (signing failed): the signer still saw the document
		for _, doc := range docs {
			var m map[string]interface{}
			if decodeDoc(doc, &m) == nil {
				if s, isStr := m["id"].(string); isStr {
					fresh = []byte(s)
					obs.Fresh = s
					break
				}
			}
		}
	}

	extra := map[string]int{}
	preLit := jgen.TableLit(pre, extra)
	typesLit := make([]string, len(c.Types))
	for i, t := range c.Types {
		typesLit[i] = jgen.Bytes(jgen.Unhex(t))
	}
	callsLit := make([]string, len(calls))
	for i, b := range calls {
		callsLit[i] = jgen.Bytes(b)
	}
	_, _, ctxDone := jgen.MkContext(c.Ctx)
	prefix := fmt.Sprintf("{| k_cfg := {| k_nil := %s; k_source := %s; k_schema := %s; k_format := %s; k_pred := %d; k_signer := %d; k_tag := %s; k_types := [%s] |};\n"+
		"   k_ctx_done := "+hc.B(ctxDone)+"; k_evnil := %s; k_type := %s; k_time := %s; k_payload := {| y_id := %s; y_data := %s |}; k_pre := %s; k_fresh := %s;\n"+
		"   k_obs := {| b_err := %s; b_out := %d; b_table := %s; b_frame := %s; b_calls := [%s]; b_time_ok := %s; b_pred_err := %s",
		hc.B(c.NilNode), jgen.OptBytes(srcTok, srcOK), jgen.OptBytes(schTok, schOK), fmtLit(c.Format), c.Pred, c.Signer, jgen.Bytes(tag), strings.Join(typesLit, "; "),
		hc.B(c.NilEvent), jgen.Bytes(ty), jgen.OptBytes(c.Time.Text(), c.Time.Encodable()), idLit, dataLit, preLit, jgen.Bytes(fresh),
		hc.B(obs.Err), obs.Out, jgen.TableLit(after, extra), hc.B(obs.Frame), strings.Join(callsLit, "; "), hc.B(obs.TimeOK), hc.B(predErr))
	// keep the event together with a private copy of the document stored right now: it is re-read after later Process calls
	// on other events (the stored document must stay what was stored)
	ret = &retained{id: c.ID, head: fmt.Sprintf("CCe %d ", c.ID), prefix: prefix, ev: e, key: "cloudevents-json"}
	if c.Format == "cloudevents-text" {
		ret.key = "cloudevents-text"
	}
	ret.frame, ret.errs = frameOf(e, ret.key), jgen.ErrorsIn(payload)
	if e != nil {
		if v, has := e.Format(ret.key); has {
			ret.has = true
			ret.copy = append([]byte{}, v...)
		}
	}
	nontrivial = !c.NilNode && !c.NilEvent && srcOK && len(srcTok) > 0 && fmtLit(c.Format) != "FBad" && !(schOK && len(schTok) == 0)
	return
}

// ---------------------------------------------------------------- retention: stored documents must not change afterwards
type retained struct {
	id       int
	head     string // "CCe <id> " for a stand-alone case
	prefix   string // the kcase record up to b_pred_err (complete literal when whole is set)
	whole    bool
	sub      []*retained                // the Process steps of a history
	group    func(recs []string) string // assembles the history's literal from its steps' records
	ev       *el.Event
	key      string
	copy     []byte // private copy of Format(key) taken right after Process
	has      bool
	since    int // Process calls on other events since
	later    int // ... after which a change was first seen (0: none)
	final    []byte
	finalHas bool
	frame    string       // type, time, deep payload snapshot and every other entry of the table right after the call
	errs     []jgen.ErrAt // the error values in the payload
	moved    bool         // ... were found changed at a later re-read
}

// frameOf: everything of the event except the entry under key
func frameOf(e *el.Event, key string) string {
	if e == nil {
		return ""
	}
	var sb strings.Builder
	fmt.Fprintf(&sb, "%x|%d|%s|%s|", string(e.Type), e.CreatedAt.UnixNano(), e.CreatedAt.Location(), jgen.Snapshot(e.Payload))
	names := make([]string, 0, len(e.Formatted))
	for k := range e.Formatted {
		if k != key {
			names = append(names, k)
		}
	}
	sort.Strings(names)
	for _, k := range names {
		fmt.Fprintf(&sb, "%q=%x nil=%v;", k, e.Formatted[k], e.Formatted[k] == nil)
	}
	return sb.String()
}

func (r *retained) recheck(calls int) {
	for _, x := range r.sub {
		x.recheck(calls)
	}
	if r.whole || r.ev == nil {
		return
	}
	if !r.moved && (frameOf(r.ev, r.key) != r.frame || !jgen.SameErrors(r.errs, jgen.ErrorsIn(r.ev.Payload))) {
		r.moved = true
	}
	r.since += calls
	if r.later != 0 {
		return
	}
	v, has := r.ev.Format(r.key)
	if has != r.has || !bytes.Equal(v, r.copy) {
		r.later = r.since
		r.final = append([]byte{}, v...)
		r.finalHas = has
	}
}
func (r *retained) lit() string {
	if r.whole {
		return r.prefix
	}
	if r.group != nil {
		recs := make([]string, len(r.sub))
		for i, x := range r.sub {
			recs[i] = x.record()
		}
		return r.group(recs)
	}
	return r.head + r.record()
}
func (r *retained) record() string {
	still := "; b_still := " + hc.B(!r.moved)
	if r.later == 0 {
		return r.prefix + still + "; b_final := None; b_later := 0 |} |}" // re-read and equal to the private copy every time
	}
	return r.prefix + still + fmt.Sprintf("; b_final := (Some %s); b_later := %d |} |}", jgen.OptBytes(r.final, r.finalHas), r.later)
}

var churnPayloads = []interface{}{"", "x", strings.Repeat("z", 700), map[string]interface{}{"k": []interface{}{1, "two", nil}}, strings.Repeat("<&>\n", 40), 12345}
var churnSource, _ = url.Parse("https://churn.example")

// churnCall formats one more, unrelated event with a cloudevents formatter (json / text, signed / unsigned)
func churnCall(i int) {
	e := &el.Event{Type: "churn", CreatedAt: time.Unix(int64(i), 0).UTC(), Payload: churnPayloads[i%len(churnPayloads)]}
	n := &ce.FormatterFilter{Source: churnSource}
	if i%2 == 1 {
		n.Format = ce.FormatText
	}
	if i%3 == 0 {
		n.SignEventTypes = []string{"churn"}
		n.Signer = func(_ context.Context, b []byte) (string, error) { return "churn-signature", nil }
	}
	func() {
		defer func() { _ = recover() }()
		_, _ = n.Process(context.Background(), e)
	}()
}

func settle(batch []*retained) {
	for i := 0; i < 8; i++ {
		churnCall(i)
		for _, r := range batch {
			r.recheck(1)
		}
	}
	var wg sync.WaitGroup
	const ng, per = 4, 8
	for g := 0; g < ng; g++ {
		wg.Add(1)
		go func(g int) {
			defer wg.Done()
			for i := 0; i < per; i++ {
				churnCall(100*g + i)
			}
		}(g)
	}
	wg.Wait()
	for _, r := range batch {
		r.recheck(ng * per)
	}
}

// ---------------------------------------------------------------- emitter
type emitter struct {
	batch   []*retained
	mutated int
	cf      *hc.CaseFile
	side    *os.File
	stats   map[string]int
	sigs    map[string]bool
	nontriv int
	panics  []string
	next    int
	fresh   []string
}

// watchdog: a call that does not return is a finding, with the case as replay
var watch struct {
	sync.Mutex
	js    []byte
	since time.Time
	out   string
}

func watchCase(js []byte) {
	watch.Lock()
	watch.js, watch.since = js, time.Now()
	watch.Unlock()
}
func startWatchdog(out string) {
	watch.out = out
	go func() {
		for {
			time.Sleep(time.Second)
			watch.Lock()
			js, since := watch.js, watch.since
			watch.Unlock()
			if js != nil && time.Since(since) > 30*time.Second {
				os.WriteFile(watch.out+"/hang.json", js, 0o644)
				fmt.Printf("HANG: a Process call did not return within 30 s; case: %s\n", js)
				os.Exit(4)
			}
		}
	}()
}

func (em *emitter) emit(c Case) {
	c.ID = em.next
	em.next++
	js, _ := json.Marshal(c)
	watchCase(js)
	defer watchCase(nil)
	ret, obs, nt := runCase(c)
	if obs.Panic != "" {
		em.panics = append(em.panics, fmt.Sprintf("case %d: %s", c.ID, obs.Panic))
	}
	if obs.Fresh != "" {
		em.fresh = append(em.fresh, obs.Fresh)
	}
	for _, r := range em.batch { // this was one more Process call for every event retained so far
		r.recheck(1)
	}
	em.batch = append(em.batch, ret)
	if len(em.batch) >= batchSize {
		em.flush()
	}
	em.stats["payload:"+c.PKind]++
	em.stats["format:"+fmtLit(c.Format)]++
	em.stats[fmt.Sprintf("signer:%d", c.Signer)]++
	em.stats[fmt.Sprintf("pred:%d", c.Pred)]++
	listed := false
	for _, t := range c.Types {
		if t == c.Type {
			listed = true
		}
	}
	if listed {
		em.stats["type:listed"]++
	} else {
		em.stats["type:unlisted"]++
	}
	switch {
	case obs.Err:
		em.stats["outcome:error"]++
	case obs.Out == 1:
		em.stats["outcome:forwarded"]++
	default:
		em.stats["outcome:dropped"]++
	}
	if len(obs.Calls) > 0 {
		em.stats["signer-called"]++
	}
	sig := string(js[strings.Index(string(js), `"gen"`):])
	if nt && !em.sigs[sig] {
		em.sigs[sig] = true
		em.nontriv++
	}
	em.side.Write(js)
	em.side.Write([]byte("\n"))
	em.stats["cases"]++
}

const batchSize = 40

// flush closes a batch: further Process calls, the re-reads, then the case literals are written
func (em *emitter) flush() {
	settle(em.batch)
	for _, r := range em.batch {
		if r.later != 0 {
			em.mutated++
		}
		em.cf.Add(r.lit())
	}
	em.batch = nil
}

func (em *emitter) emitFresh() {
	em.flush()
	id := em.next
	em.next++
	parts := make([]string, len(em.fresh))
	for i, s := range em.fresh {
		parts[i] = jgen.Bytes([]byte(s))
	}
	em.cf.Add(fmt.Sprintf("CFresh %d [%s]", id, strings.Join(parts, "; ")))
	js, _ := json.Marshal(Case{ID: id, Gen: "fresh-ids", FreshIDs: em.fresh})
	em.side.Write(js)
	em.side.Write([]byte("\n"))
	em.stats["fresh-ids-observed"] = len(em.fresh)
	em.stats["cases"]++
}

// ---------------------------------------------------------------- generators
func hx(s string) string { return hex.EncodeToString([]byte(s)) }

var simpleMap = &jgen.Recipe{K: "map", Ks: []string{hx("a")}, E: []*jgen.Recipe{{K: "int", T: "int", V: "1"}}}

// the full configuration product of the property's quantifier
func genGrid(em *emitter) {
	pkinds := []struct{ kind, pid string }{{"plain", ""}, {"id", "my-id"}, {"id", ""}, {"data", ""}, {"both", "b-1"}, {"both", ""}}
	for _, format := range []string{"", "cloudevents-json", "cloudevents-text", "bogus"} {
		for _, schema := range []string{"", "https://schema.example/s?x=<1>", "<empty>"} {
			for signer := 0; signer <= 2; signer++ {
				for _, types := range [][]string{{hx("t")}, {hx("other")}} {
					for _, pk := range pkinds {
						for pred := 0; pred < 5; pred++ {
							if pred >= 2 && (signer == 0 && format == "bogus") {
								continue
							}
							em.emit(Case{Gen: "grid", Source: "https://src.example", Schema: schema, Format: format, Pred: pred, Signer: signer, Tag: hx("SIG-"),
								Types: types, Type: hx("t"), Time: jgen.Times[2], PKind: pk.kind, PID: hx(pk.pid), Payload: simpleMap})
						}
					}
				}
			}
		}
	}
	// sources, nil node, nil event, unencodable data / time, nil data, signer with an empty result, type lists around the event type
	for _, src := range []string{"", "<empty>", "urn:x:y", "/rel/path", "http://h/p?q=<a>&b=1"} {
		for _, format := range []string{"", "cloudevents-text"} {
			em.emit(Case{Gen: "grid-source", Source: src, Format: format, Signer: 1, Tag: hx("S"), Types: []string{hx("t")}, Type: hx("t"), Time: jgen.Times[1], PKind: "plain", Payload: simpleMap})
		}
	}
	// every kind of context x signer absent / ok / failing / honouring the context x listed / unlisted x predicate: the
	// context matters only through the answer of a signer that honours it
	for ctx := 0; ctx < jgen.CtxKinds; ctx++ {
		for _, signer := range []int{0, 1, 2, 4} {
			for _, types := range [][]string{{hx("t")}, {hx("other")}} {
				for _, format := range []string{"", "cloudevents-text"} {
					for _, pred := range []int{0, 2} {
						em.emit(Case{Gen: "grid-ctx", Ctx: ctx, Source: "https://src.example", Format: format, Pred: pred, Signer: signer, Tag: hx("C-"),
							Types: types, Type: hx("t"), Time: jgen.Times[1], PKind: []string{"plain", "id"}[ctx%2], PID: hx("i"), Payload: simpleMap})
					}
				}
			}
		}
	}
	for _, format := range []string{"", "cloudevents-text", "bogus"} {
		for signer := 0; signer <= 3; signer++ {
			base := Case{Gen: "grid-edge", Source: "https://src.example", Format: format, Signer: signer, Tag: hx("q\"<\xff"), Types: []string{hx("t")}, Type: hx("t"), Time: jgen.Times[3], PKind: "plain", Payload: simpleMap}
			c := base
			c.NilNode = true
			em.emit(c)
			c = base
			c.NilEvent = true
			em.emit(c)
			c = base
			c.Payload = &jgen.Recipe{K: "unenc", V: "nan"}
			em.emit(c)
			c = base
			c.PKind = "data"
			c.Payload = &jgen.Recipe{K: "unenc", V: "chan"}
			em.emit(c)
			c = base
			c.PKind = "id"
			c.PID = hx("i")
			c.Payload = &jgen.Recipe{K: "unenc", V: "func"}
			em.emit(c)
			c = base
			c.Time = jgen.BadTimes[0]
			em.emit(c)
			c = base
			c.Payload = &jgen.Recipe{K: "nil"}
			em.emit(c)
			c = base
			c.PKind = "data"
			c.Payload = &jgen.Recipe{K: "nil"}
			em.emit(c)
			c = base
			c.PKind = "data"
			c.Payload = &jgen.Recipe{K: "num", V: "1e400"} // a number no float64 holds
			em.emit(c)
			c = base
			c.PKind = "both"
			c.PID = hx("id\n\xc3\x28")
			c.Payload = &jgen.Recipe{K: "nil", T: "ptr"}
			em.emit(c)
			for _, n := range []int{1, 9, 29, 61, 125} {
				c = base
				c.Tag = hx(strings.Repeat("H", n))
				em.emit(c)
			}
			for _, types := range [][]string{nil, {hx("T")}, {hx("t ")}, {hx("")}, {hx("x"), hx("t")}, {hx("tt"), hx("t"), hx("t")}} {
				c = base
				c.Types = types
				em.emit(c)
			}
			c = base
			c.Type = ""
			c.Types = []string{""}
			em.emit(c)
			c = base
			c.Pre = []jgen.TableEntry{{F: "cloudevents-json", V: hx("stale")}, {F: "cloudevents-text", V: hx("stale-text")}, {F: "json", V: hx("J\n")}}
			em.emit(c)
		}
	}
}

// the input classes of notes/value_classes.md that C18's statement speaks about, one axis at a time around a signed,
// listed, valid base case
func genAudit(em *emitter) {
	base := func() Case {
		return Case{Gen: "grid-audit", Source: "https://src.example", Signer: 1, Tag: hx("S-"), Types: []string{hx("t")}, Type: hx("t"), Time: jgen.Times[1],
			PKind: "plain", Payload: simpleMap}
	}
	long := strings.Repeat("L", 300)
	// Source and Schema of every URL shape (String() of the parsed URL is the model's token); empty and nil are rejected
	urls := []string{"urn:uuid:6e8bc430-9c3a-11d9-9669-0800200c9a66", "mailto:ops@example.com", "//host.example", "https://host.example", "https://host.example/",
		"/path/only", "path-only", "https://h.example/p?q=1&r=<x>#frag", "?q=only", "#frag", "https://[::1]:8443/p", "https://user:pw@h.example/p",
		"https://h.example/a%20b/%E2%82%AC", "https://h.example/é", "HTTPS://UPPER.example/P", "https://h.example/" + long, "<empty>", ""}
	for i, u := range urls {
		c := base()
		c.Source, c.Format = u, []string{"", "cloudevents-text"}[i%2]
		em.emit(c)
		c = base()
		c.Schema, c.Format = u, []string{"cloudevents-text", ""}[i%2]
		em.emit(c)
	}
	// formats: the two names, unset, and look-alike spellings (all invalid)
	for _, f := range []string{"", "cloudevents-json", "cloudevents-text", "cloudevents-JSON", "cloudevents-json ", " cloudevents-text", "json", "text", "cloudevents-text\n", "cloudevents", "Cloudevents-Text"} {
		c := base()
		c.Format = f
		em.emit(c)
	}
	// SignEventTypes: look-alikes of the event type must NOT be signed; nil / empty / duplicates / empty element
	for _, types := range [][]string{nil, {}, {hx("T")}, {hx("t ")}, {hx(" t")}, {hx("t\x00")}, {hx("τ")}, {hx("tt")}, {hx("")}, {hx("t"), hx("x"), hx("t")}, {hx("x"), hx("t"), hx("t")}, {hx(""), hx("t")}} {
		c := base()
		c.Types = types
		em.emit(c)
		c.Format = "cloudevents-text"
		c.Signer = 2
		em.emit(c)
	}
	for _, tc := range []struct{ ty, listed string }{{"tt", "t"}, {"t", "tt"}, {long, long}, {long, long + "x"}, {long + "x", long}, {"", ""}, {" ", ""}, {"T", "t"}, {"t\x00", "t"}} {
		c := base()
		c.Type, c.Types = hx(tc.ty), []string{hx("zz"), hx(tc.listed)}
		em.emit(c)
	}
	// ids from the payload: empty (rejected), blank, short, long, non-ASCII, one that looks generated, with NUL / quotes; the
	// pointer-receiver ID() held by pointer and by value; a typed nil payload with nil-safe methods
	for i, id := range []string{"", " ", "a", long, "ïd-é日", "0123456789", "aB3dE6gH9j", "id\x00", "id\"<&>", "\xff\xfe"} {
		for _, pk := range []string{"id", "both", "idptr", "idptrval"} {
			c := base()
			c.PKind, c.PID, c.Format = pk, hx(id), []string{"", "cloudevents-text"}[i%2]
			em.emit(c)
		}
	}
	for _, f := range []string{"", "cloudevents-text"} {
		c := base()
		c.PKind, c.Format = "nilboth", f
		em.emit(c)
	}
	// data: every value class encoding/json renders specially, as the payload, as Data() and under an ID payload; typed nils
	for i, k := range jgen.SpecialKinds {
		for _, pk := range []string{"plain", "data", "id"} {
			c := base()
			c.PKind, c.PID, c.Payload, c.Format = pk, hx("i"), &jgen.Recipe{K: "special", V: k}, []string{"", "cloudevents-text"}[i%2]
			em.emit(c)
		}
	}
	for _, t := range []string{"ptr", "map", "slice", "bytes", "iface"} {
		c := base()
		c.PKind, c.Payload = "data", &jgen.Recipe{K: "nil", T: t}
		em.emit(c)
	}
	// error values of every class from the signer and from the predicate
	for ec := 0; ec < jgen.ErrClasses; ec++ {
		for _, f := range []string{"", "cloudevents-text"} {
			c := base()
			c.Signer, c.ErrClass, c.Format = 2, ec, f
			em.emit(c)
			c.Pred = 3
			em.emit(c)
			c = base()
			c.Pred, c.ErrClass, c.Format = 3+ec%2, ec, f
			em.emit(c)
			c.Signer = 0
			em.emit(c)
		}
	}
	// signer results: very long, non-ASCII / invalid UTF-8, with quotes
	for _, tag := range []string{strings.Repeat("s", 1000), strings.Repeat("é", 600), "\xff\xc3", "\"\\<>&\n", strings.Repeat("x", 5000)} {
		c := base()
		c.Tag = hx(tag)
		em.emit(c)
	}
	// creation times: zero, epoch, far future, sub-second digits, zones; out of range
	for i, t := range append(append([]jgen.TimeSpec{}, jgen.Times...), jgen.BadTimes...) {
		c := base()
		c.Time, c.Format = t, []string{"", "cloudevents-text"}[i%2]
		em.emit(c)
	}
	// the same event processed again (the caller clobbered the stored document in between)
	for again := 1; again <= 2; again++ {
		for _, signer := range []int{0, 1, 2, 4} {
			for _, pred := range []int{0, 2, 3} {
				for _, pk := range []string{"plain", "id"} {
					c := base()
					c.Again, c.Signer, c.Pred, c.PKind, c.PID, c.Ctx = again, signer, pred, pk, hx("i"), []int{0, 8}[again%2]
					em.emit(c)
				}
			}
		}
	}
}

func genRandom(em *emitter, r *hc.Rand, n, depth int) {
	g := &jgen.Gen{R: r, Stats: em.stats}
	for i := 0; i < n; i++ {
		c := Case{Gen: "random"}
		c.Source = []string{"https://src.example", "https://src.example", "urn:x:y", "http://h/p?q=<a>&b=1", "", "<empty>"}[r.Intn(6)]
		c.Schema = []string{"", "", "https://schema.example/s", "s:<&>", "<empty>"}[r.Intn(5)]
		c.Format = []string{"", "cloudevents-json", "cloudevents-text", "cloudevents-text", "bogus", "json"}[r.Intn(6)]
		c.Pred = []int{0, 0, 1, 2, 3, 4}[r.Intn(6)]
		c.Signer = []int{0, 1, 1, 1, 2, 3, 4, 4}[r.Intn(8)]
		c.Ctx = jgen.GenCtx(r)
		c.Tag = hex.EncodeToString(g.String(3))
		if r.Chance(1, 2) { // signer results of many lengths (the result is tag + 4 bytes)
			n := []int{0, 1, 4, 8, 9, 12, 13, 28, 29, 60, 61, 124, 250}[r.Intn(13)]
			c.Tag = hex.EncodeToString([]byte(strings.Repeat("h", n)))
		}
		c.Type = hex.EncodeToString(g.String(3))
		switch r.Intn(4) {
		case 0: // unlisted
			c.Types = []string{hex.EncodeToString(g.String(3)), hx("other")}
		case 1:
			c.Types = nil
		default:
			c.Types = []string{hx("zz"), c.Type}
		}
		c.Time = jgen.GenTime(r)
		c.PKind = []string{"plain", "id", "data", "both", "idptr", "idptrval", "nilboth"}[r.Intn(7)]
		c.ErrClass = r.Intn(jgen.ErrClasses)
		if r.Chance(1, 6) {
			c.Again = 1 + r.Intn(2)
		}
		if c.PKind == "id" || c.PKind == "both" || c.PKind == "idptr" || c.PKind == "idptrval" {
			if r.Chance(1, 8) {
				c.PID = ""
			} else {
				c.PID = hex.EncodeToString(append([]byte{'i'}, g.String(3)...))
			}
		}
		c.Payload = g.Payload(depth, 20)
		c.NilTab, c.Pre = jgen.GenPre(r, g)
		c.NilNode = r.Chance(1, 60)
		c.NilEvent = r.Chance(1, 60)
		em.emit(c)
	}
}

// genConc: one shared FormatterFilter used by several goroutines at once on payloads without ID(); every event must get
// its own fresh id (C18: "otherwise fresh and unique") and no call may panic
func concurrentIDs(ng, per int) (total int, dups []string, panics int, firstPanic string) {
	src, _ := url.Parse("https://conc.example")
	node := &ce.FormatterFilter{Source: src}
	ids := make([][]string, ng)
	pan := make([]int, ng)
	msgs := make([]string, ng)
	var wg sync.WaitGroup
	for g := 0; g < ng; g++ {
		wg.Add(1)
		go func(g int) {
			defer wg.Done()
			for i := 0; i < per; i++ {
				func() {
					defer func() {
						if p := recover(); p != nil {
							pan[g]++
							if msgs[g] == "" {
								msgs[g] = fmt.Sprint(p)
							}
						}
					}()
					e := &el.Event{Type: "t", CreatedAt: time.Unix(int64(i), 0).UTC(), Payload: i}
					if _, err := node.Process(context.Background(), e); err != nil {
						return
					}
					doc, _ := e.Format("cloudevents-json")
					var m map[string]interface{}
					if decodeDoc(doc, &m) == nil {
						if s, ok := m["id"].(string); ok {
							ids[g] = append(ids[g], s)
						}
					}
				}()
			}
		}(g)
	}
	wg.Wait()
	seen := map[string]int{}
	for g := range ids {
		panics += pan[g]
		if firstPanic == "" {
			firstPanic = msgs[g]
		}
		for _, s := range ids[g] {
			total++
			seen[s]++
			if seen[s] == 2 || s == "" && seen[s] == 1 {
				dups = append(dups, s)
			}
		}
	}
	if len(dups) > 20 {
		dups = dups[:20]
	}
	return
}

// concurrentSigning: ONE FormatterFilter with a signer configured throughout and the type "t" listed; rotators keep calling
// Rotate among three harness signers while processors format events of the listed type "t" and the unlisted type "u".
// Every forwarded listed-type event must carry serialized and a serialized_hmac that is the result of ONE of the signers ever
// installed on exactly the decoded serialized bytes (the signer in force before or after a rotation), and serialized must be
// the stored document without the signature; unlisted events are never signed.
type concSignResult struct {
	Events, Unsigned, BadHmac, SignedUnlisted, Panics int
	First                                             map[string]interface{} // the first offending event
}

func concurrentSigning(rotators, processors, per, maxprocs int) concSignResult {
	if maxprocs > 0 {
		defer runtime.GOMAXPROCS(runtime.GOMAXPROCS(maxprocs))
	}
	src, _ := url.Parse("https://conc.example")
	tags := [][]byte{[]byte("A-"), []byte("B-"), []byte("C-")}
	var sink [][]byte
	var sinkMu sync.Mutex
	mk := func(tag []byte) ce.Signer {
		return func(_ context.Context, b []byte) (string, error) {
			sinkMu.Lock()
			sink = sink[:0] // the recorded inputs are not used here
			sinkMu.Unlock()
			return sigFn(tag, b), nil
		}
	}
	node := &ce.FormatterFilter{Source: src, SignEventTypes: []string{"t"}, Signer: mk(tags[0])}
	stop := make(chan struct{})
	var rw sync.WaitGroup
	for r := 0; r < rotators; r++ {
		rw.Add(1)
		go func(r int) {
			defer rw.Done()
			for i := 0; ; i++ {
				select {
				case <-stop:
					return
				default:
				}
				_ = node.Rotate(mk(tags[(i+r)%len(tags)]))
				if i%64 == 0 {
					runtime.Gosched()
				}
			}
		}(r)
	}
	res := make([]concSignResult, processors)
	var pw sync.WaitGroup
	for g := 0; g < processors; g++ {
		pw.Add(1)
		go func(g int) {
			defer pw.Done()
			out := &res[g]
			offend := func(reason, typ string, doc []byte, i int) {
				if out.First == nil {
					out.First = map[string]interface{}{"reason": reason, "event_type": typ, "goroutine": g, "event_index": i, "stored_document": string(doc),
						"gomaxprocs": runtime.GOMAXPROCS(0), "payload": map[string]int{"n": i}}
				}
			}
			for i := 0; i < per; i++ {
				typ := "t"
				if i%4 == 3 {
					typ = "u"
				}
				func() {
					defer func() {
						if p := recover(); p != nil {
							out.Panics++
							offend(fmt.Sprint("panic: ", p), typ, nil, i)
						}
					}()
					e := &el.Event{Type: el.EventType(typ), CreatedAt: time.Unix(int64(i), 0).UTC(), Payload: map[string]int{"n": i}}
					fwd, err := node.Process(context.Background(), e)
					if err != nil || fwd == nil {
						return
					}
					out.Events++
					doc, _ := e.Format("cloudevents-json")
					var m map[string]interface{}
					if decodeDoc(doc, &m) != nil {
						out.BadHmac++
						offend("stored document does not decode", typ, doc, i)
						return
					}
					ser, hasSer := m["serialized"].(string)
					mac, hasMac := m["serialized_hmac"].(string)
					if typ == "u" {
						if hasSer || hasMac {
							out.SignedUnlisted++
							offend("an unlisted type carries a signature", typ, doc, i)
						}
						return
					}
					if !hasSer || !hasMac {
						out.Unsigned++
						offend("a listed type was stored and forwarded without serialized / serialized_hmac although a signer was configured throughout", typ, doc, i)
						return
					}
					raw, derr := base64.RawURLEncoding.DecodeString(ser)
					ok := false
					if derr == nil {
						for _, tag := range tags {
							if sigFn(tag, raw) == mac {
								ok = true
							}
						}
						// serialized is the stored document without the two signature members
						var um map[string]interface{}
						if decodeDoc(raw, &um) != nil {
							ok = false
						} else {
							delete(m, "serialized")
							delete(m, "serialized_hmac")
							if !reflect.DeepEqual(m, um) {
								ok = false
							}
						}
					}
					if !ok {
						out.BadHmac++
						offend("serialized_hmac is the result of none of the installed signers on the decoded serialized bytes (or serialized is not the document)", typ, doc, i)
					}
				}()
			}
		}(g)
	}
	pw.Wait()
	close(stop)
	rw.Wait()
	var tot concSignResult
	for _, r := range res {
		tot.Events += r.Events
		tot.Unsigned += r.Unsigned
		tot.BadHmac += r.BadHmac
		tot.SignedUnlisted += r.SignedUnlisted
		tot.Panics += r.Panics
		if tot.First == nil {
			tot.First = r.First
		}
	}
	return tot
}

func genConcSign(em *emitter, per int) {
	for _, mp := range []int{0, 1} { // the default GOMAXPROCS and a single P
		r := concurrentSigning(2, 6, per, mp)
		id := em.next
		em.next++
		em.flush()
		em.cf.Add(fmt.Sprintf("CConcSign %d %d %d %d %d %d", id, r.Events, r.Unsigned, r.BadHmac, r.SignedUnlisted, r.Panics))
		js, _ := json.Marshal(map[string]interface{}{"id": id, "gen": "concurrent-signing", "gomaxprocs_setting": mp, "rotating_goroutines": 2, "processing_goroutines": 6,
			"events_per_goroutine": per, "events_forwarded": r.Events, "listed_events_stored_unsigned": r.Unsigned, "signatures_not_verifying": r.BadHmac,
			"unlisted_events_signed": r.SignedUnlisted, "panics": r.Panics, "first_offending_event": r.First})
		em.side.Write(js)
		em.side.Write([]byte("\n"))
		em.stats[fmt.Sprintf("concurrent-signing-events(gomaxprocs=%d)", mp)] = r.Events
		em.stats["concurrent-signing-unsigned-listed"] += r.Unsigned
		em.stats["cases"]++
	}
}

func genConc(em *emitter, ng, per int) {
	total, dups, panics, first := concurrentIDs(ng, per)
	id := em.next
	em.next++
	parts := make([]string, len(dups))
	for i, s := range dups {
		parts[i] = jgen.Bytes([]byte(s))
	}
	em.flush()
	em.cf.Add(fmt.Sprintf("CConc %d %d [%s] %d", id, total, strings.Join(parts, "; "), panics))
	js, _ := json.Marshal(map[string]interface{}{"id": id, "gen": "concurrent-ids", "goroutines": ng, "events_per_goroutine": per,
		"ids_collected": total, "ids_handed_out_more_than_once": dups, "panics": panics, "first_panic": first})
	em.side.Write(js)
	em.side.Write([]byte("\n"))
	em.stats["concurrent-events"] = total
	em.stats["concurrent-duplicate-ids"] = len(dups)
	em.stats["concurrent-panics"] = panics
	em.stats["cases"]++
}

func runCorpus(em *emitter, path string) {
	data, err := os.ReadFile(path)
	if err != nil {
		return
	}
	for _, line := range strings.Split(string(data), "\n") {
		line = strings.TrimSpace(line)
		if line == "" || strings.HasPrefix(line, "#") {
			continue
		}
		var c Case
		if err := json.Unmarshal([]byte(line), &c); err != nil {
			fmt.Fprintf(os.Stderr, "corpus: %v\n", err)
			continue
		}
		if len(c.Hist) > 0 {
			c.Gen = "corpus"
			em.emitHist(c)
			continue
		}
		if c.Payload == nil {
			continue
		}
		c.Gen = "corpus"
		em.emit(c)
	}
}

func main() {
	out := flag.String("out", ".", "output directory")
	prefix := flag.String("prefix", "cases", "case file prefix")
	modes := flag.String("modes", "grid,random", "generators")
	nRandom := flag.Int("random", 300, "random cases")
	depth := flag.Int("depth", 3, "payload nesting depth")
	perShard := flag.Int("per-shard", 80, "cases per file")
	corpus := flag.String("corpus", "", "corpus file (JSON lines), run first")
	replay := flag.String("replay", "", "replay one JSON case and print its observations")
	nHist := flag.Int("hist", 60, "random histories on one shared FormatterFilter (the exhaustive short ones are always run)")
	concPer := flag.Int("conc-per", 2500, "events per goroutine of the concurrent fresh-id part (8 goroutines)")
	flag.Parse()

	if *replay != "" {
		data, err := os.ReadFile(*replay)
		if err != nil {
			fmt.Fprintln(os.Stderr, err)
			os.Exit(2)
		}
		var wrapper struct {
			Case Case `json:"case"`
		}
		if err := json.Unmarshal(data, &wrapper); err != nil || wrapper.Case.Payload == nil {
			_ = json.Unmarshal(data, &wrapper.Case)
		}
		if len(wrapper.Case.Hist) > 0 {
			ret, panics, _, observed := runHist(wrapper.Case)
			for _, o := range observed {
				fmt.Println(o)
			}
			for _, p := range panics {
				fmt.Println("PANIC:", p)
			}
			settle([]*retained{ret})
			fmt.Println(ret.lit())
			return
		}
		if wrapper.Case.Gen == "concurrent-signing" {
			for _, mp := range []int{0, 1} {
				r := concurrentSigning(2, 6, *concPer, mp)
				js, _ := json.Marshal(r)
				fmt.Printf("concurrent Rotate/Process (GOMAXPROCS setting %d): %s\n", mp, js)
			}
			return
		}
		if wrapper.Case.Gen == "concurrent-ids" {
			total, dups, panics, first := concurrentIDs(8, *concPer)
			fmt.Printf("concurrent fresh ids: %d events, ids handed out more than once: %q, panics: %d %s\n", total, dups, panics, first)
			return
		}
		if wrapper.Case.Payload == nil {
			fmt.Println("this record has no single case to re-run (fresh-id summary):", string(data))
			return
		}
		ret, obs, _ := runCase(wrapper.Case)
		settle([]*retained{ret})
		lit := ret.lit()
		if ret.later != 0 {
			defer fmt.Printf("STORED DOCUMENT CHANGED after %d later Process calls on other events: %s (present=%v) is now %q\n", ret.later, ret.key, ret.finalHas, ret.final)
		} else {
			defer fmt.Printf("stored document unchanged after %d later Process calls on other events\n", ret.since)
		}
		js, _ := json.MarshalIndent(obs, "", " ")
		fmt.Printf("observation: %s\n", js)
		for k, v := range obs.Table {
			fmt.Printf("stored %q = %q\n", k, jgen.Unhex(v))
		}
		for _, b := range obs.Calls {
			fmt.Printf("signer input = %q\n", jgen.Unhex(b))
		}
		fmt.Println(lit)
		return
	}

	cf := &hc.CaseFile{Dir: *out, Prefix: *prefix, PerShard: *perShard, Type: "list ccase",
		Header: "From Coq Require Import List NArith.\nFrom Verif Require Import Json Formatters CloudEvents Run_CloudEvents.\nImport ListNotations.\nOpen Scope N_scope.",
		Footer: "Definition M := Eval vm_compute in mismatches cases.\nPrint M."}
	side, err := os.Create(*out + "/" + *prefix + ".jsonl")
	if err != nil {
		panic(err)
	}
	em := &emitter{cf: cf, side: side, stats: map[string]int{}, sigs: map[string]bool{}}
	startWatchdog(*out)
	r := hc.NewRand(hc.Seed())
	if *corpus != "" {
		runCorpus(em, *corpus)
	}
	for _, m := range strings.Split(*modes, ",") {
		switch m {
		case "grid":
			genGrid(em)
			genAudit(em)
		case "random":
			genRandom(em, r.Fork(), *nRandom, *depth)
		case "conc":
			genConc(em, 8, *concPer)
			genConcSign(em, *concPer)
		case "hist":
			genHistGrid(em)
			genHistConfig(em)
			genHistRandom(em, r.Fork(), *nHist)
		case "":
		default:
			fmt.Fprintf(os.Stderr, "unknown mode %s\n", m)
			os.Exit(2)
		}
	}
	em.emitFresh()
	em.stats["stored-value-changed-later"] = em.mutated
	cf.Close()
	side.Close()
	summary := map[string]interface{}{"stats": em.stats, "files": cf.Files, "cases": cf.Total, "distinct_nontrivial": em.nontriv,
		"panics": em.panics, "seed": hc.Seed()}
	js, _ := json.MarshalIndent(summary, "", " ")
	os.WriteFile(*out+"/"+*prefix+"_summary.json", js, 0o644)
	fmt.Printf("cloudh: %d cases in %d files, %d panics\n", cf.Total, len(cf.Files), len(em.panics))
}
