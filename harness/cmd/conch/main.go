// conch — concurrent-history driver for C04: 2..8 goroutines run random histories of registry calls over a small id
// space concurrently with sender goroutines.  Every call is bracketed by ticks of one atomic counter (real-time order:
// a call whose return tick precedes another's invocation tick returned before the other was invoked); every successful
// RegisterPipeline lists a fresh tap node first, whose object records which Sends it saw (deliveries per pipeline
// version); after all goroutines joined the registry is observed.  The cases are printed as cases_*.v for
// Run_Conc.mismatches (delivery bounds + linearizability against Broker.step).
// Built with -race by the engine as well (-mode race): longer histories, plus getters / IsAnyPipelineRegistered /
// Reopen / threshold setters, no case files -- the race detector's log is the output.
package main

import (
	"context"
	"encoding/json"
	"flag"
	"fmt"
	"os"
	"runtime"
	"sort"
	"strings"
	"sync"
	"sync/atomic"
	"time"

	el "github.com/hashicorp/eventlogger"
	"verifharness/hc"
)

// ---------- ids ----------
// Ids are small numbers in the model.  With lookalike set (every second case) the ids 1..4 of each kind are look-alike twins
// of one another (case, trailing blank, trailing NUL, one a prefix of the other): a registry that normalises or truncates ids
// merges what the sequential specification keeps apart.
var lookalike bool
var twins = []string{"", "node", "Node", "node ", "node\x00"}

func name(prefix string, i int) string {
	if i == 0 {
		return ""
	}
	if lookalike && i < len(twins) {
		return prefix + twins[i]
	}
	return fmt.Sprintf("%s%d", prefix, i)
}
func nid(i int) el.NodeID     { return el.NodeID(name("n", i)) }
func pid(i int) el.PipelineID { return el.PipelineID(name("p", i)) }
func ety(i int) el.EventType  { return el.EventType(name("t", i)) }
func unN(s string) int {
	if s == "" {
		return 0
	}
	for i := 1; i < len(twins); i++ {
		if s[1:] == twins[i] {
			return i
		}
	}
	var i int
	fmt.Sscanf(s[1:], "%d", &i)
	return i
}
func ntype(t int) el.NodeType {
	switch t {
	case 1:
		return el.NodeTypeFilter
	case 2:
		return el.NodeTypeFormatter
	case 3:
		return el.NodeTypeSink
	}
	return el.NodeTypeFormatterFilter
}

// ---------- harness node ----------
type opKey struct{}
type probe struct{ send int }

type cnode struct {
	obj      int
	typ      el.NodeType
	mu       sync.Mutex
	seen     map[int]int
	closedBy []int
	reopens  int64
}

// reopenProbe: at quiescence ONE Broker.Reopen must reach every node OBJECT linked by a registered pipeline (an id that was rebound
// names two objects: the pipelines registered before the rebinding still link the old one).  "" if it did.
func (w *world) reopenProbe() string {
	_, graphs := w.b.VerifSnapshot()
	type where struct{ t, p, id string }
	linked := map[*cnode]where{}
	before := map[*cnode]int64{}
	for _, g := range graphs {
		for _, p := range g.Pipelines {
			for _, l := range p.Nodes {
				if h, ok := l.Node.(*cnode); ok {
					linked[h] = where{string(g.EventType), string(p.ID), string(l.ID)}
					before[h] = atomic.LoadInt64(&h.reopens)
				}
			}
		}
	}
	if err := w.b.Reopen(context.Background()); err != nil {
		return fmt.Sprintf("Broker.Reopen at quiescence: %v", err)
	}
	var miss []string
	for h, wh := range linked {
		if atomic.LoadInt64(&h.reopens) == before[h] {
			miss = append(miss, fmt.Sprintf("object %d (node id %q, pipeline %q of type %q)", h.obj, wh.id, wh.p, wh.t))
		}
	}
	if len(miss) == 0 {
		return ""
	}
	sort.Strings(miss)
	return fmt.Sprintf("Broker.Reopen at quiescence did not reopen %d of the %d node objects linked by registered pipelines: %s", len(miss), len(linked), strings.Join(miss, "; "))
}

func (n *cnode) Process(ctx context.Context, e *el.Event) (*el.Event, error) {
	if p, ok := e.Payload.(*probe); ok {
		n.mu.Lock()
		if n.seen == nil {
			n.seen = map[int]int{}
		}
		n.seen[p.send]++
		n.mu.Unlock()
	}
	return e, nil // every harness node passes the event on: a Send reaches every node of every registered pipeline
}
func (n *cnode) Reopen() error     { atomic.AddInt64(&n.reopens, 1); return nil }
func (n *cnode) Type() el.NodeType { return n.typ }
func (n *cnode) Close(ctx context.Context) error {
	id, _ := ctx.Value(opKey{}).(int)
	n.mu.Lock()
	n.closedBy = append(n.closedBy, id)
	n.mu.Unlock()
	return nil
}

// a context that is not from the context package: done, with an error of its own
type ownCtx struct {
	context.Context
	done chan struct{}
}

var errOwn = fmt.Errorf("caller gave up (own context type)")

func (c ownCtx) Done() <-chan struct{} { return c.done }
func (c ownCtx) Err() error            { return errOwn }

func callerCtx(base context.Context, kind, d int) (context.Context, func()) {
	switch kind {
	case 1:
		c, cancel := context.WithCancel(base)
		cancel()
		return c, func() {}
	case 2:
		c, cancel := context.WithDeadline(base, time.Now().Add(-time.Second))
		return c, cancel
	case 3:
		c, cancel := context.WithTimeout(base, time.Duration(d)*time.Microsecond)
		return c, cancel
	case 4:
		c, cancel := context.WithCancel(base)
		go func() { runtime.Gosched(); cancel() }()
		return c, func() {}
	case 5:
		c, cancel := context.WithCancelCause(base)
		cancel(fmt.Errorf("custom cause"))
		return c, func() {}
	case 6:
		ch := make(chan struct{})
		close(ch)
		return ownCtx{Context: base, done: ch}, func() {}
	}
	return base, func() {}
}

// ---------- operations ----------
type Op struct {
	K   string `json:"k"` // regnode rmnode regpipe rmpipe rpan thr thrs
	ID  int    `json:"id,omitempty"`
	Obj int    `json:"obj,omitempty"`
	Ty  int    `json:"ty,omitempty"`
	Pol int    `json:"pol,omitempty"` // 0 none 1 allow 2 deny
	Pid int    `json:"pid,omitempty"`
	Ety int    `json:"ety,omitempty"`
	IDs []int  `json:"ids,omitempty"`
	V   int64  `json:"v,omitempty"`
	Bar int    `json:"bar,omitempty"` // > 0: wait at barrier number Bar (all goroutines of the case) right before the call
	// the caller's context for RemoveNode / RemovePipelineAndNodes: 0 Background, 1 already cancelled, 2 deadline in the past,
	// 3 a timeout of D microseconds that may fire while the call queues for the write lock, 4 cancelled asynchronously right
	// after the call started, 5 cancelled with a custom cause, 6 a type of our own (not from the context package) that is done
	Ctx int `json:"ctx,omitempty"`
	D   int `json:"d,omitempty"`
}
type Case struct {
	ID      int    `json:"id"`
	Gen     string `json:"gen"`
	Setup   []Op   `json:"setup"`
	Threads [][]Op `json:"threads"`
	Senders int    `json:"senders"`
	Sends   int    `json:"sends"`
	Seed    uint64 `json:"seed"`
	Types   []int  `json:"types,omitempty"` // event types observed after quiescence (default 1, 2)
	Lookalike bool `json:"lookalike,omitempty"`
}

type opRec struct {
	op       Op
	id       int
	inv, ret int64
	ok, err  bool
	closed   []int
}
type sendRec struct {
	id       int
	ety      int
	inv, ret int64
	seen     []int
}

type world struct {
	b     *el.Broker
	clock int64
	nmu   sync.Mutex
	nodes []*cnode
	bars  []int64 // arrivals per barrier
	nthr  int64
}

// spin barrier: the goroutines of a case make their calls of one round as simultaneously as possible
func (w *world) barrier(k int) {
	if k <= 0 || k >= len(w.bars) {
		return
	}
	atomic.AddInt64(&w.bars[k], 1)
	for atomic.LoadInt64(&w.bars[k]) < w.nthr {
		runtime.Gosched()
	}
}

func (w *world) tick() int64 { return atomic.AddInt64(&w.clock, 1) }

func polOpt(p int, node bool) []el.Option {
	var pol el.RegistrationPolicy
	switch p {
	case 0:
		return nil
	case 1:
		pol = el.AllowOverwrite
	default:
		pol = el.DenyOverwrite
	}
	if node {
		return []el.Option{el.WithNodeRegistrationPolicy(pol)}
	}
	return []el.Option{el.WithPipelineRegistrationPolicy(pol)}
}

// idBuf is ONE buffer per calling goroutine in which it builds the NodeIDs of every pipeline definition it registers: the slice handed
// to RegisterPipeline stays the caller's, the next registration of the goroutine overwrites its elements in place; after every
// second call the elements (and the option list) are scribbled over right away.  What the Broker needs later it must have copied.
type idBuf [8]el.NodeID

func (w *world) apply(opid int, op Op, buf *idBuf) opRec {
	rec := opRec{op: op, id: opid}
	ctx, release := callerCtx(context.WithValue(context.Background(), opKey{}, opid), op.Ctx, op.D)
	defer release()
	var err error
	ok := false
	switch op.K {
	case "regnode":
		n := &cnode{obj: op.Obj, typ: ntype(op.Ty)}
		w.nmu.Lock()
		w.nodes = append(w.nodes, n)
		w.nmu.Unlock()
		rec.inv = w.tick()
		err = w.b.RegisterNode(nid(op.ID), n, polOpt(op.Pol, true)...)
		rec.ret = w.tick()
		ok = err == nil
	case "rmnode":
		rec.inv = w.tick()
		err = w.b.RemoveNode(ctx, nid(op.ID))
		rec.ret = w.tick()
		ok = err == nil
	case "regpipe":
		ids := buf[:0]
		for _, x := range op.IDs {
			ids = append(ids, nid(x)) // more than 8 ids: a slice of its own
		}
		opts := polOpt(op.Pol, false)
		rec.inv = w.tick()
		err = w.b.RegisterPipeline(el.Pipeline{PipelineID: pid(op.Pid), EventType: ety(op.Ety), NodeIDs: ids}, opts...)
		rec.ret = w.tick()
		ok = err == nil
		if opid%2 == 0 {
			for i := range ids {
				ids[i] = el.NodeID(fmt.Sprintf("reused-buffer-%d", i))
			}
		}
		for i := range opts {
			opts[i] = nil
		}
	case "rmpipe":
		rec.inv = w.tick()
		err = w.b.RemovePipeline(ety(op.Ety), pid(op.Pid))
		rec.ret = w.tick()
		ok = err == nil
	case "rpan":
		rec.inv = w.tick()
		ok, err = w.b.RemovePipelineAndNodes(ctx, ety(op.Ety), pid(op.Pid))
		rec.ret = w.tick()
	case "thr":
		rec.inv = w.tick()
		err = w.b.SetSuccessThreshold(ety(op.Ety), int(op.V))
		rec.ret = w.tick()
		ok = err == nil
	case "thrs":
		rec.inv = w.tick()
		err = w.b.SetSuccessThresholdSinks(ety(op.Ety), int(op.V))
		rec.ret = w.tick()
		ok = err == nil
	default:
		panic("unknown op " + op.K)
	}
	rec.ok, rec.err = ok, err != nil
	return rec
}

// ---------- observation of the final registry (as brokerh does after every call) ----------
type TObs struct {
	Ety          int
	IsAny        bool
	Deliv        []int
	Thr          int
	ThrOk        bool
	ThrS         int
	ThrSOk       bool
}
type Final struct {
	Nodes [][3]int // id, obj, inuse
	Pipes []struct {
		Ety, Pid int
		Objs     []int
	}
	Types []TObs
}

func (w *world) observe(types []int) Final {
	var f Final
	nodes, graphs := w.b.VerifSnapshot()
	for _, n := range nodes {
		h, _ := n.Node.(*cnode)
		obj, in := 0, 0
		if h != nil {
			obj = h.obj
		}
		if n.ReferenceCount > 0 {
			in = 1
		}
		f.Nodes = append(f.Nodes, [3]int{unN(string(n.ID)), obj, in})
	}
	sort.Slice(f.Nodes, func(i, j int) bool { return f.Nodes[i][0] < f.Nodes[j][0] })
	for _, g := range graphs {
		for _, p := range g.Pipelines {
			po := struct {
				Ety, Pid int
				Objs     []int
			}{Ety: unN(string(g.EventType)), Pid: unN(string(p.ID))}
			for _, l := range p.Nodes {
				h, _ := l.Node.(*cnode)
				obj := 0
				if h != nil {
					obj = h.obj
				}
				po.Objs = append(po.Objs, obj)
			}
			f.Pipes = append(f.Pipes, po)
		}
	}
	sort.Slice(f.Pipes, func(i, j int) bool {
		if f.Pipes[i].Ety != f.Pipes[j].Ety {
			return f.Pipes[i].Ety < f.Pipes[j].Ety
		}
		return f.Pipes[i].Pid < f.Pipes[j].Pid
	})
	for ti, t := range types {
		to := TObs{Ety: t}
		to.IsAny = w.b.IsAnyPipelineRegistered(ety(t))
		to.Thr, to.ThrOk = w.b.SuccessThreshold(ety(t))
		to.ThrS, to.ThrSOk = w.b.SuccessThresholdSinks(ety(t))
		pr := -1 - ti
		_, _ = w.b.Send(context.Background(), ety(t), &probe{send: pr})
		w.nmu.Lock()
		for _, h := range w.nodes {
			h.mu.Lock()
			for i := 0; i < h.seen[pr]; i++ {
				to.Deliv = append(to.Deliv, h.obj)
			}
			h.mu.Unlock()
		}
		w.nmu.Unlock()
		sort.Ints(to.Deliv)
		f.Types = append(f.Types, to)
	}
	return f
}

// ---------- running one case ----------
type outcome struct {
	ops    []opRec
	sends  []sendRec
	final  Final
	panics []string
	reopen string // what reopenProbe found
}

// a history that does not finish within the watchdog: the Broker is abandoned (its goroutines stay blocked), the goroutine
// dump is the evidence
type hang struct {
	Case Case   `json:"case"`
	Dump string `json:"goroutine_dump"`
	Mode string `json:"mode"`
}

var watchdog = 8 * time.Second
var hangs []hang

func filterDump(d string) string {
	var keep []string
	for _, g := range strings.Split(d, "\n\n") {
		if strings.Contains(g, "hashicorp/eventlogger") && (strings.Contains(g, "sync.") || strings.Contains(g, "chan ") || strings.Contains(g, "select")) {
			if len(g) > 2500 {
				g = g[:2500] + "\n\t..."
			}
			keep = append(keep, g)
		}
	}
	if len(keep) > 10 {
		keep = keep[:10]
	}
	return strings.Join(keep, "\n\n")
}

// runCase runs one history under the watchdog; ok = false: it hung (recorded in hangs)
func runCase(c Case, readers bool) (out outcome, ok bool) {
	done := make(chan outcome, 1)
	go func() { done <- runCaseRaw(c, readers) }()
	select {
	case o := <-done:
		return o, true
	case <-time.After(watchdog):
		buf := make([]byte, 4<<20)
		n := runtime.Stack(buf, true)
		mode := "cases"
		if readers {
			mode = "race"
		}
		hangs = append(hangs, hang{Case: c, Dump: filterDump(string(buf[:n])), Mode: mode})
		return outcome{}, false
	}
}

func writeHangs(out string) {
	js, _ := json.MarshalIndent(hangs, "", " ")
	os.WriteFile(out+"/hangs.json", js, 0o644)
}

func runCaseRaw(c Case, readers bool) (out outcome) {
	lookalike = c.Lookalike // cases run one after the other (a hung case ends the run soon after), so a package variable will do
	b, _ := el.NewBroker()
	w := &world{b: b, nthr: int64(len(c.Threads))}
	maxBar := 0
	for _, th := range c.Threads {
		for _, op := range th {
			if op.Bar > maxBar {
				maxBar = op.Bar
			}
		}
	}
	w.bars = make([]int64, maxBar+1)
	types := c.Types
	if len(types) == 0 {
		types = []int{1, 2}
	}
	opid := 0
	var setupBuf idBuf
	for _, op := range c.Setup {
		opid++
		out.ops = append(out.ops, w.apply(opid, op, &setupBuf))
	}
	var mu sync.Mutex
	var wg sync.WaitGroup
	guard := func(name string, f func()) {
		defer wg.Done()
		defer func() {
			if r := recover(); r != nil {
				mu.Lock()
				out.panics = append(out.panics, fmt.Sprintf("%s: %v", name, r))
				mu.Unlock()
			}
		}()
		f()
	}
	start := make(chan struct{})
	base := opid
	for ti, th := range c.Threads {
		wg.Add(1)
		first := base
		base += len(th)
		go guard(fmt.Sprintf("thread %d", ti), func() {
			<-start
			var recs []opRec
			var buf idBuf
			for i, op := range th {
				w.barrier(op.Bar)
				recs = append(recs, w.apply(first+i+1, op, &buf))
				if i%2 == 1 {
					runtime.Gosched()
				}
			}
			mu.Lock()
			out.ops = append(out.ops, recs...)
			mu.Unlock()
		})
	}
	for s := 0; s < c.Senders; s++ {
		wg.Add(1)
		r := hc.NewRand(c.Seed*7919 + uint64(s))
		go guard(fmt.Sprintf("sender %d", s), func() {
			<-start
			var recs []sendRec
			for i := 0; i < c.Sends; i++ {
				t := types[r.Intn(len(types))]
				id := s*100000 + i + 1
				if r.Chance(1, 6) {
					// a Send whose caller context is (or becomes) done: raced against the registry calls, not part of the
					// delivery oracle (a cancelled Send may deliver to any subset)
					cctx, release := callerCtx(context.Background(), 1+r.Intn(6), 5)
					_, _ = w.b.Send(cctx, ety(t), &probe{send: 1<<30 + id}) // ids of their own: negative ones are the probes at quiescence
					release()
					continue
				}
				sr := sendRec{id: id, ety: t}
				sr.inv = w.tick()
				_, _ = w.b.Send(context.Background(), ety(t), &probe{send: id})
				sr.ret = w.tick()
				recs = append(recs, sr)
				if r.Chance(1, 3) {
					runtime.Gosched()
				}
			}
			mu.Lock()
			out.sends = append(out.sends, recs...)
			mu.Unlock()
		})
	}
	done := make(chan struct{})
	var rwg sync.WaitGroup
	if readers {
		// read-only and threshold calls, for the race detector (not part of the linearizability oracle)
		for _, f := range []func(i int){
			func(i int) { w.b.SuccessThreshold(ety(types[i%len(types)])); w.b.SuccessThresholdSinks(ety(types[i%len(types)])) },
			func(i int) { w.b.IsAnyPipelineRegistered(ety(types[i%len(types)])) },
			func(i int) { _ = w.b.Reopen(context.Background()) },
			func(i int) { c, release := callerCtx(context.Background(), i%7, 5); _ = w.b.Reopen(c); release() },
			func(i int) { _ = w.b.SetSuccessThreshold(ety(1+i%2), i%2); _ = w.b.SetSuccessThresholdSinks(ety(1+i%2), 0) },
		} {
			rwg.Add(1)
			f := f
			go func() {
				defer rwg.Done()
				<-start
				for i := 0; ; i++ {
					select {
					case <-done:
						return
					default:
					}
					f(i)
					runtime.Gosched()
				}
			}()
		}
	}
	close(start)
	wg.Wait()
	close(done)
	rwg.Wait()
	// after quiescence: one Send per observed type; it starts after every call returned, so it must reach every pipeline
	// that is registered by then exactly once
	for i, t := range types {
		sr := sendRec{id: 900000 + i, ety: t}
		sr.inv = w.tick()
		_, _ = w.b.Send(context.Background(), ety(t), &probe{send: sr.id})
		sr.ret = w.tick()
		out.sends = append(out.sends, sr)
	}

	// attribute Close calls and deliveries
	closedBy := map[int][]int{}
	w.nmu.Lock()
	for _, h := range w.nodes {
		h.mu.Lock()
		for _, id := range h.closedBy {
			closedBy[id] = append(closedBy[id], h.obj)
		}
		h.mu.Unlock()
	}
	for i := range out.sends {
		for _, h := range w.nodes {
			h.mu.Lock()
			// only tap objects identify a pipeline version
			if h.obj >= 100 {
				for k := 0; k < h.seen[out.sends[i].id]; k++ {
					out.sends[i].seen = append(out.sends[i].seen, h.obj)
				}
			}
			h.mu.Unlock()
		}
		sort.Ints(out.sends[i].seen)
	}
	w.nmu.Unlock()
	for i := range out.ops {
		out.ops[i].closed = closedBy[out.ops[i].id]
		sort.Ints(out.ops[i].closed)
	}
	sort.Slice(out.ops, func(i, j int) bool { return out.ops[i].inv < out.ops[j].inv })
	sort.Slice(out.sends, func(i, j int) bool { return out.sends[i].inv < out.sends[j].inv })
	if !readers {
		out.final = w.observe(types)
		out.reopen = w.reopenProbe()
	}
	return out
}

// ---------- printing ----------
func tyLit(t int) string  { return [...]string{"TOther", "TFilter", "TFormatter", "TSink", "TFormatterFilter"}[t] }
func polLit(p int) string { return [...]string{"ANone", "AAllow", "ADeny"}[p] }
func opLit(op Op) string {
	switch op.K {
	case "regnode":
		return fmt.Sprintf("RegisterNode %s %s %s %s", hc.N(op.ID), hc.N(op.Obj), tyLit(op.Ty), polLit(op.Pol))
	case "rmnode":
		return fmt.Sprintf("RemoveNode %s", hc.N(op.ID))
	case "regpipe":
		return fmt.Sprintf("RegisterPipeline %s %s %s %s", hc.N(op.Pid), hc.N(op.Ety), hc.NList(op.IDs), polLit(op.Pol))
	case "rmpipe":
		return fmt.Sprintf("RemovePipeline %s %s", hc.N(op.Ety), hc.N(op.Pid))
	case "rpan":
		return fmt.Sprintf("RemovePipelineAndNodes %s %s", hc.N(op.Ety), hc.N(op.Pid))
	case "thr":
		return fmt.Sprintf("SetThr %s %s", hc.N(op.Ety), hc.Z(op.V))
	case "thrs":
		return fmt.Sprintf("SetThrSinks %s %s", hc.N(op.Ety), hc.Z(op.V))
	}
	panic("op")
}
func finalLit(f Final) string {
	var nodes, pipes, types []string
	for _, n := range f.Nodes {
		nodes = append(nodes, hc.Pair(hc.N(n[0]), hc.Pair(hc.N(n[1]), hc.B(n[2] == 1))))
	}
	for _, p := range f.Pipes {
		pipes = append(pipes, hc.Pair(hc.N(p.Ety), hc.Pair(hc.N(p.Pid), hc.NList(p.Objs))))
	}
	for _, t := range f.Types {
		types = append(types, fmt.Sprintf("Build_tobs %s %s %s %s %s", hc.N(t.Ety), hc.B(t.IsAny), hc.NList(t.Deliv),
			hc.Pair(hc.Z(int64(t.Thr)), hc.B(t.ThrOk)), hc.Pair(hc.Z(int64(t.ThrS)), hc.B(t.ThrSOk))))
	}
	return fmt.Sprintf("Build_bobs false false [] %s %s %s []", hc.List(nodes), hc.List(pipes), hc.List(types))
}
func caseLit(id int, o outcome) string {
	var ops, sends []string
	for _, r := range o.ops {
		ops = append(ops, fmt.Sprintf("Build_cop (%s) %s %s %s %s %s", opLit(r.op), hc.N(int(r.inv)), hc.N(int(r.ret)), hc.B(r.ok), hc.B(r.err), hc.NList(r.closed)))
	}
	for _, s := range o.sends {
		sends = append(sends, fmt.Sprintf("Build_csend %s %s %s %s", hc.N(s.ety), hc.N(int(s.inv)), hc.N(int(s.ret)), hc.NList(s.seen)))
	}
	return fmt.Sprintf("Build_ccase %s\n  %s\n  %s\n  (%s)", hc.N(id), hc.List(ops), hc.List(sends), finalLit(o.final))
}

// ---------- generator ----------
var menu = [][]int{{2, 3}, {1, 2, 3}, {2, 4}, {1, 1, 2, 3}, {1, 2, 4}}
var nodeTy = map[int]int{1: 1, 2: 2, 3: 3, 4: 3}

type gen struct {
	r    *hc.Rand
	tap  int
	fobj int
}

// every second removal is made with a caller context that is (or becomes) done
func (g *gen) withCtx(op Op) Op {
	if g.r.Bool() {
		op.Ctx = 1 + g.r.Intn(6)
		op.D = []int{1, 5, 20, 100}[g.r.Intn(4)]
	}
	return op
}

func (g *gen) regpipe(t, p, pol int) []Op {
	g.tap++
	tap := g.tap
	ids := append([]int{tap}, menu[g.r.Intn(len(menu))]...)
	return []Op{{K: "regnode", ID: tap, Obj: tap, Ty: 1}, {K: "regpipe", Pid: p, Ety: t, IDs: ids, Pol: pol}}
}

func (g *gen) thread(ti, nops int) []Op {
	r := g.r
	var ops []Op
	homeT, homeP := 1+ti%2, 1+ti%3
	for len(ops) < nops {
		t, p := homeT, homeP
		if r.Chance(1, 4) {
			t, p = 1+r.Intn(2), 1+r.Intn(3)
		}
		switch x := r.Intn(100); {
		case x < 36:
			pol := 0
			if r.Chance(1, 12) {
				pol = 2
			}
			ops = append(ops, g.regpipe(t, p, pol)...)
		case x < 50:
			ops = append(ops, Op{K: "rmpipe", Ety: t, Pid: p})
		case x < 66:
			ops = append(ops, g.withCtx(Op{K: "rpan", Ety: t, Pid: p}))
		case x < 76:
			id := 1 + r.Intn(4)
			g.fobj++
			pol := 0
			if r.Chance(1, 5) {
				pol = 1 + r.Intn(2) // allow-overwrite spelled out / deny-overwrite
			}
			ops = append(ops, Op{K: "regnode", ID: id, Obj: g.fobj, Ty: nodeTy[id], Pol: pol})
		case x < 86:
			ops = append(ops, g.withCtx(Op{K: "rmnode", ID: 1 + r.Intn(4)}))
		case x < 93:
			ops = append(ops, Op{K: "thr", Ety: t, V: int64(r.Intn(3))})
		default:
			ops = append(ops, Op{K: "thrs", Ety: t, V: int64(r.Intn(2))})
		}
		// idempotent repeats: the identical call once more right away (remove twice, the same definition / node / threshold again)
		if r.Chance(1, 8) {
			ops = append(ops, ops[len(ops)-1])
		}
	}
	return ops
}

func genCase(r *hc.Rand, threads, nops, senders, sends int) Case {
	g := &gen{r: r, tap: 100, fobj: 50}
	c := Case{Gen: "random", Senders: senders, Sends: sends, Seed: r.U64()}
	for id := 1; id <= 4; id++ {
		c.Setup = append(c.Setup, Op{K: "regnode", ID: id, Obj: id, Ty: nodeTy[id]})
	}
	// some pipelines exist before the concurrent phase, so that removals and Sends have something to work on
	for i := 0; i < 1+r.Intn(3); i++ {
		c.Setup = append(c.Setup, g.regpipe(1+i%2, 1+i%3, 0)...)
	}
	for t := 0; t < threads; t++ {
		c.Threads = append(c.Threads, g.thread(t, nops))
	}
	return c
}

// fresh-type races: the goroutines make the FIRST calls for event types nobody used before, round by round, each round
// behind a barrier: RegisterPipeline with different pipeline ids, SetSuccessThreshold, SetSuccessThresholdSinks.  The tap
// nodes are registered in the sequential set-up so that the racing call is the first thing each goroutine does.
func genFresh(r *hc.Rand, threads, rounds, senders, sends int) Case {
	g := &gen{r: r, tap: 100, fobj: 50}
	c := Case{Gen: "fresh", Senders: senders, Sends: sends, Seed: r.U64()}
	for id := 1; id <= 4; id++ {
		c.Setup = append(c.Setup, Op{K: "regnode", ID: id, Obj: id, Ty: nodeTy[id]})
	}
	c.Threads = make([][]Op, threads)
	for k := 0; k < rounds; k++ {
		t := 10 + k
		c.Types = append(c.Types, t)
		anyPipe := false
		for ti := 0; ti < threads; ti++ {
			x := r.Intn(100)
			if ti == threads-1 && !anyPipe {
				x = 0
			}
			switch {
			case x < 64:
				g.tap++
				c.Setup = append(c.Setup, Op{K: "regnode", ID: g.tap, Obj: g.tap, Ty: 1})
				ids := append([]int{g.tap}, menu[r.Intn(len(menu))]...)
				c.Threads[ti] = append(c.Threads[ti], Op{K: "regpipe", Pid: 1 + ti, Ety: t, IDs: ids, Bar: k + 1})
				anyPipe = true
			case x < 82:
				c.Threads[ti] = append(c.Threads[ti], Op{K: "thr", Ety: t, V: int64(1 + r.Intn(2)), Bar: k + 1})
			default:
				c.Threads[ti] = append(c.Threads[ti], Op{K: "thrs", Ety: t, V: int64(1 + r.Intn(2)), Bar: k + 1})
			}
		}
	}
	return c
}

// ONE pipeline id under fire: two pipelines of one type share the nodes 2 and 3; every goroutine, in lock step (a barrier per round),
// registers pipeline 1 again / removes it / removes it with its nodes.  Whatever the interleaving, the registry afterwards is the
// one some sequential order of the calls leaves: pipeline 1 present or not, and every node in use exactly if a registered pipeline
// lists it.  Short histories, many repetitions: the windows between two steps of one call are a few instructions wide.
func genOnePipe(r *hc.Rand, threads, rounds int) Case {
	c := Case{Gen: "onepipe", Senders: 1, Sends: 2, Seed: r.U64()}
	for id := 1; id <= 4; id++ {
		c.Setup = append(c.Setup, Op{K: "regnode", ID: id, Obj: id, Ty: nodeTy[id]})
	}
	c.Setup = append(c.Setup, Op{K: "regnode", ID: 101, Obj: 101, Ty: 1}, Op{K: "regnode", ID: 102, Obj: 102, Ty: 1},
		Op{K: "regpipe", Pid: 1, Ety: 1, IDs: []int{101, 2, 3}}, Op{K: "regpipe", Pid: 2, Ety: 1, IDs: []int{102, 2, 3}})
	defs := [][]int{{101, 2, 3}, {101, 2, 3}, {101, 1, 2, 3}, {101, 2, 4}}
	c.Threads = make([][]Op, threads)
	for k := 0; k < rounds; k++ {
		for ti := 0; ti < threads; ti++ {
			x := r.Intn(100)
			if ti < 2 { // one goroutine registers while another removes, in turn
				x = 0
				if (ti+k)%2 == 1 {
					x = 60
				}
			}
			op := Op{K: "regpipe", Pid: 1, Ety: 1, IDs: defs[r.Intn(len(defs))], Pol: []int{0, 0, 1}[r.Intn(3)]}
			switch {
			case x < 50:
			case x < 92:
				op = Op{K: "rmpipe", Pid: 1, Ety: 1}
			default:
				op = Op{K: "rpan", Pid: 1, Ety: 1}
			}
			op.Bar = k + 1
			c.Threads[ti] = append(c.Threads[ti], op)
		}
	}
	return c
}

// rebinding and identical re-registration: a pipeline is registered, one of its node ids is registered again with another
// object (or removed and registered again after the pipeline was removed), then the pipeline is registered again EXACTLY as
// before (same ids, same or another policy).  The sequential specification links the objects registered at the time of the
// last successful RegisterPipeline; the final snapshot, the probe deliveries and the results go into the linearization search.
func genRebind(r *hc.Rand, threads int, senders, sends int) Case {
	g := &gen{r: r, tap: 100, fobj: 50}
	c := Case{Gen: "rebind", Senders: senders, Sends: sends, Seed: r.U64()}
	for id := 1; id <= 4; id++ {
		c.Setup = append(c.Setup, Op{K: "regnode", ID: id, Obj: id, Ty: nodeTy[id]})
	}
	c.Threads = make([][]Op, threads)
	for ti := 0; ti < threads; ti++ {
		// each goroutine owns one pipeline key and one tap; the shared node ids 1..4 are rebound by everybody
		g.tap++
		tap := g.tap
		t, p := 1+ti%2, 1+ti
		ids := append([]int{tap}, menu[r.Intn(len(menu))]...)
		same := Op{K: "regpipe", Pid: p, Ety: t, IDs: ids}
		c.Setup = append(c.Setup, Op{K: "regnode", ID: tap, Obj: tap, Ty: 1}, same)
		var ops []Op
		for k := 0; k < 2+r.Intn(2); k++ {
			id := ids[1+r.Intn(len(ids)-1)]
			g.fobj++
			switch r.Intn(4) {
			case 0, 1: // rebind a listed id, then register the pipeline again exactly as it is
				ops = append(ops, Op{K: "regnode", ID: id, Obj: g.fobj, Ty: nodeTy[id]}, same)
			case 2: // ... with another policy
				again := same
				again.Pol = 1
				ops = append(ops, Op{K: "regnode", ID: id, Obj: g.fobj, Ty: nodeTy[id]}, again)
			default: // remove the pipeline, remove and re-register the id, register the pipeline again as it was
				ops = append(ops, Op{K: "rmpipe", Ety: t, Pid: p}, Op{K: "rmnode", ID: id}, Op{K: "regnode", ID: id, Obj: g.fobj, Ty: nodeTy[id]}, same)
			}
		}
		c.Threads[ti] = ops
	}
	return c
}

type emitter struct {
	cf      *hc.CaseFile
	side    *os.File
	next    int
	stats   map[string]int
	panics  []string
	reopen  []string
	sigs    map[string]bool
	nontriv int
}

func (e *emitter) emit(c Case) {
	e.next++
	c.ID = e.next
	o, finished := runCase(c, false)
	js, _ := json.Marshal(c)
	fmt.Fprintf(e.side, "%s\n", js)
	if !finished {
		e.stats["hung"]++
		return
	}
	for _, p := range o.panics {
		e.panics = append(e.panics, fmt.Sprintf("case %d: panic: %s", c.ID, p))
	}
	if len(o.panics) > 0 {
		return
	}
	if o.reopen != "" && len(e.reopen) < 20 {
		e.reopen = append(e.reopen, fmt.Sprintf("case %d: %s", c.ID, o.reopen))
	}
	if err := e.cf.Add(caseLit(c.ID, o)); err != nil {
		panic(err)
	}
	e.stats["cases"]++
	e.stats[fmt.Sprintf("threads:%d", len(c.Threads))]++
	e.stats["gen:"+c.Gen]++
	e.stats["ops"] += len(o.ops)
	e.stats["sends"] += len(o.sends)
	overlap := 0
	for i := range o.ops {
		for j := i + 1; j < len(o.ops); j++ {
			if o.ops[j].inv < o.ops[i].ret {
				overlap++
			}
		}
		res := "fail"
		if o.ops[i].ok {
			res = "ok"
		}
		e.stats["op:"+o.ops[i].op.K+":"+res]++
	}
	e.stats["overlapping_call_pairs"] += overlap
	deliv := 0
	for _, s := range o.sends {
		deliv += len(s.seen)
	}
	e.stats["deliveries"] += deliv
	sig := string(js)
	if !e.sigs[sig] {
		e.sigs[sig] = true
		if overlap > 0 && deliv > 0 {
			e.nontriv++
		}
	}
}

func main() {
	out := flag.String("out", ".", "output directory")
	mode := flag.String("mode", "cases", "cases: print case files; race: long histories with readers, no case files")
	wd := flag.Duration("watchdog", 8*time.Second, "per-history watchdog")
	ncases := flag.Int("cases", 150, "number of concurrent histories")
	nonepipe := flag.Int("onepipe", 0, "number of histories in which every goroutine works on ONE pipeline id")
	nrebind := flag.Int("rebind", 0, "number of rebind / identical re-registration histories")
	nfresh := flag.Int("fresh", 0, "number of fresh-type race histories (first calls for unused event types behind a barrier)")
	maxThreads := flag.Int("threads", 8, "maximal number of registry goroutines (2..)")
	budget := flag.Int("ops", 12, "registry calls per case in the concurrent phase (spread over the goroutines)")
	sends := flag.Int("sends", 8, "Sends per sender")
	perShard := flag.Int("per-shard", 25, "cases per file")
	corpus := flag.String("corpus", "", "corpus file (JSON lines of cases), run first")
	replay := flag.String("replay", "", "re-run the history of a replay file")
	repeat := flag.Int("repeat", 1, "with -replay: how many times")
	flag.Parse()
	watchdog = *wd

	r := hc.NewRand(hc.Seed())
	if *mode == "race" {
		// the race detector is the oracle here: bigger histories, plus getters / Reopen / threshold setters
		panics := 0
		n := 0
		if *replay != "" {
			data, _ := os.ReadFile(*replay)
			var rec struct {
				Case Case `json:"case"`
			}
			if json.Unmarshal(data, &rec) == nil && len(rec.Case.Setup) > 0 {
				for i := 0; i < *repeat; i++ {
					o, _ := runCase(rec.Case, true)
					panics += len(o.panics)
					n++
					if len(hangs) >= 2 {
						break
					}
				}
			}
		} else {
			for i := 0; i < *ncases; i++ {
				th := 2 + r.Intn(*maxThreads-1)
				c := genCase(r.Fork(), th, 6+r.Intn(10), 1+r.Intn(3), *sends*3)
				if i%2 == 1 {
					// Reopen / getters / setters running while event types are used for the first time
					c = genFresh(r.Fork(), 2+r.Intn(3), 6, 1+r.Intn(2), *sends)
				}
				o, _ := runCase(c, true)
				for _, p := range o.panics {
					fmt.Println("PANIC:", p)
				}
				panics += len(o.panics)
				n++
				if len(hangs) >= 2 {
					break // a wedged library: every further history would cost a watchdog period
				}
			}
		}
		js, _ := json.Marshal(map[string]interface{}{"histories": n, "panics": panics, "seed": hc.Seed(), "hangs": len(hangs)})
		os.WriteFile(*out+"/conch_race_summary.json", js, 0o644)
		writeHangs(*out)
		fmt.Printf("conch(race): %d histories, %d panics, %d hung\n", n, panics, len(hangs))
		return
	}

	if *replay != "" {
		data, err := os.ReadFile(*replay)
		if err != nil {
			fmt.Fprintln(os.Stderr, err)
			os.Exit(2)
		}
		var rec struct {
			Case Case `json:"case"`
		}
		if err := json.Unmarshal(data, &rec); err != nil || len(rec.Case.Setup) == 0 {
			_ = json.Unmarshal(data, &rec.Case)
		}
		*ncases = 0
		*corpus = ""
		cf := &hc.CaseFile{Dir: *out, Prefix: "cases", PerShard: *perShard, Type: "list ccase", Header: header, Footer: footer}
		side, _ := os.Create(*out + "/cases.jsonl")
		e := &emitter{cf: cf, side: side, stats: map[string]int{}, sigs: map[string]bool{}}
		for i := 0; i < *repeat; i++ {
			e.emit(rec.Case)
		}
		finish(e, *out)
		return
	}

	cf := &hc.CaseFile{Dir: *out, Prefix: "cases", PerShard: *perShard, Type: "list ccase", Header: header, Footer: footer}
	side, err := os.Create(*out + "/cases.jsonl")
	if err != nil {
		panic(err)
	}
	e := &emitter{cf: cf, side: side, stats: map[string]int{}, sigs: map[string]bool{}}
	if *corpus != "" {
		if data, err := os.ReadFile(*corpus); err == nil {
			for _, line := range strings.Split(string(data), "\n") {
				line = strings.TrimSpace(line)
				if line == "" || strings.HasPrefix(line, "#") {
					continue
				}
				var c Case
				if json.Unmarshal([]byte(line), &c) == nil && len(c.Setup) > 0 {
					c.Gen = "corpus"
					for i := 0; i < 5; i++ {
						e.emit(c)
					}
				}
			}
		}
	}
	for i := 0; i < *ncases; i++ {
		th := 2 + i%(*maxThreads-1) // 2..maxThreads
		per := *budget / th
		if per < 1 {
			per = 1
		}
		if per > 4 {
			per = 4
		}
		c := genCase(r.Fork(), th, per, 1+r.Intn(3), *sends)
		c.Lookalike = i%2 == 1
		e.emit(c)
		if len(hangs) >= 2 {
			break
		}
	}
	for i := 0; i < *nrebind && len(hangs) < 2; i++ {
		c := genRebind(r.Fork(), 1+i%3, 1, 4)
		c.Lookalike = i%2 == 1
		e.emit(c)
	}
	for i := 0; i < *nonepipe && len(hangs) < 2; i++ {
		e.emit(genOnePipe(r.Fork(), 3+i%3, 4+i%2))
	}
	for i := 0; i < *nfresh && len(hangs) < 2; i++ {
		e.emit(genFresh(r.Fork(), 2+i%3, 3, 1, 2))
	}
	finish(e, *out)
}

const header = "From Coq Require Import List NArith ZArith.\nFrom Verif Require Import Alist Broker Run_Broker Conc Run_Conc.\nImport ListNotations."
const footer = "Definition M := Eval vm_compute in mismatches cases.\nPrint M.\nDefinition CV := Eval vm_compute in fold_left (fun a c => let '(x, y, z) := certainty c in let '(p, q, r) := a in (p + x, q + y, r + z)%nat) cases (0, 0, 0)%nat.\nPrint CV."

func finish(e *emitter, out string) {
	e.cf.Close()
	e.side.Close()
	writeHangs(out)
	files := e.cf.Files
	if files == nil {
		files = []string{}
	}
	summary := map[string]interface{}{"stats": e.stats, "files": files, "cases": e.cf.Total, "distinct_nontrivial": e.nontriv,
		"panics": e.panics, "reopen_misses": e.reopen, "seed": hc.Seed(), "hangs": len(hangs)}
	js, _ := json.MarshalIndent(summary, "", " ")
	os.WriteFile(out+"/cases_summary.json", js, 0o644)
	fmt.Printf("conch: %d cases in %d files, %d panics\n", e.cf.Total, len(e.cf.Files), len(e.panics))
}
