package main

import (
	"verifharness/hc"
)

// ---------- building registries ----------
// a pipeline description: node ids (registered under these ids) for one (type, pipeline id)
type pdesc struct {
	Pid, Ety int
	IDs      []int
}

// histFor registers every node id used (type by idType) once, then the pipelines; objects are numbered in order
func histFor(idType map[int]int, ids []int, pipes []pdesc) ([]Op, map[int]int) {
	var ops []Op
	objOf := map[int]int{}
	obj := 0
	for _, id := range ids {
		obj++
		objOf[id] = obj
		ops = append(ops, Op{K: "regnode", ID: id, Obj: obj, Ty: idType[id]})
	}
	for _, p := range pipes {
		ops = append(ops, Op{K: "regpipe", Pid: p.Pid, Ety: p.Ety, IDs: p.IDs})
	}
	return ops, objOf
}

func numberObjs(ops []Op) ([]Op, int) {
	out := make([]Op, len(ops))
	k := 0
	for i, op := range ops {
		if op.K == "regnode" {
			k++
			op.Obj = k
		}
		out[i] = op
	}
	return out, k
}

// ---------- shapes: every way a pipeline of 2 or 3 nodes can end, for 1..maxP pipelines ----------
// a shape is (stop position, code): the nodes before it pass, the node at it passes(0)/drops(2)/errs(3)
type shape struct{ at, code int }

func shapesOf(l int) []shape {
	var s []shape
	for at := 0; at < l; at++ {
		s = append(s, shape{at, 2}, shape{at, 3})
	}
	return append(s, shape{l - 1, 0})
}

func genShapes(e *emitter, maxP int) {
	for _, l := range []int{2, 3} {
		sh := shapesOf(l)
		for n := 1; n <= maxP; n++ {
			idx := make([]int, n)
			for {
				// pipeline i uses its own nodes 10i+1.. (filter), fmt, sink
				idType := map[int]int{}
				var ids []int
				var pipes []pdesc
				for i := 0; i < n; i++ {
					base := 10 * (i + 1)
					var pl []int
					if l == 3 {
						idType[base+1] = 1
						pl = append(pl, base+1)
					}
					idType[base+2] = 2
					idType[base+3] = 3
					pl = append(pl, base+2, base+3)
					ids = append(ids, pl...)
					pipes = append(pipes, pdesc{Pid: i + 1, Ety: 1, IDs: pl})
				}
				// a second type with one pipeline sharing the first pipeline's nodes: must never be traversed
				pipes = append(pipes, pdesc{Pid: 9, Ety: 2, IDs: pipes[0].IDs})
				hist, objOf := histFor(idType, ids, pipes)
				beh := make([][]int, len(ids))
				for i := 0; i < n; i++ {
					s := sh[idx[i]]
					for k, id := range pipes[i].IDs {
						code := 0
						if k == s.at {
							code = s.code
						} else if (i+k)%2 == 1 {
							code = 1 // pass by replacing the event: the successor must receive the new one
						}
						beh[objOf[id]-1] = []int{code}
					}
				}
				e.run(Case{Gen: "shapes", Hist: hist, Ety: 1, Beh: beh})
				// next vector
				j := 0
				for j < n {
					idx[j]++
					if idx[j] < len(sh) {
						break
					}
					idx[j] = 0
					j++
				}
				if j == n {
					break
				}
			}
		}
	}
}

// ---------- thresholds: all outcome vectors x both thresholds in 0..n+1, shared formatter and sink ids ----------
func genThresholds(e *emitter, maxN int) {
	genEqualErrors(e, maxN)
	for n := 0; n <= maxN; n++ {
		total := 1
		for i := 0; i < n; i++ {
			total *= 4
		}
		for v := 0; v < total; v++ {
			// outcome per pipeline: 0 success, 1 filtered by its filter, 2 error, 3 filtered by its formatter-filter
			outs := make([]int, n)
			x := v
			for i := range outs {
				outs[i] = x % 4
				x /= 4
			}
			idType := map[int]int{50: 2, 60: 3, 61: 3}
			ids := []int{50, 60, 61}
			var pipes []pdesc
			for i := 0; i < n; i++ {
				idType[i+1] = 1
				ids = append(ids, i+1)
				sink := 60
				if i%2 == 1 && n > 2 {
					sink = 61
				}
				fm := 50
				if outs[i] == 3 {
					// a formatter-filter of its own that drops the event: complete, but not a complete sink
					fm = 40 + i
					idType[fm] = 4
					ids = append(ids, fm)
				}
				pipes = append(pipes, pdesc{Pid: i + 1, Ety: 1, IDs: []int{i + 1, fm, sink}})
			}
			hist, objOf := histFor(idType, ids, pipes)
			beh := make([][]int, len(ids))
			// the shared formatter passes; the shared sinks complete (alternately by returning nil and the event)
			beh[objOf[50]-1] = []int{0}
			beh[objOf[60]-1] = []int{2, 0}
			beh[objOf[61]-1] = []int{0, 2}
			for i, o := range outs {
				// the error outcome runs through the classes of error values: plain, bare multierror with 0..3 components,
				// multierror wrapped with %w — each is ONE warning, the value the node returned
				errCode := []int{3, 72, 70, 71, 73, 82, 80}[(v+i)%7]
				beh[objOf[i+1]-1] = []int{[]int{0, 2, errCode, 0}[o]}
				if o == 3 {
					beh[objOf[40+i]-1] = []int{2}
				}
			}
			if n == 0 {
				genEmptyGraph(e, hist, beh)
				continue
			}
			firstPipe := len(hist)
			for i, op := range hist {
				if op.K == "regpipe" {
					firstPipe = i
					break
				}
			}
			for thr := 0; thr <= n+1; thr++ {
				for thrS := 0; thrS <= n+1; thrS++ {
					// a rejected negative value and another type's thresholds must not matter
					thrOps := []Op{{K: "thr", Ety: 2, V: int64(n + 1)}, {K: "thrs", Ety: 2, V: int64(n + 1)},
						{K: "thr", Ety: 1, V: int64(thr)}, {K: "thrs", Ety: 1, V: int64(thrS)},
						{K: "thr", Ety: 1, V: -1}, {K: "thrs", Ety: 1, V: -2}}
					if (thr+thrS)%3 == 2 {
						// the same value set twice
						thrOps = append(thrOps, Op{K: "thr", Ety: 1, V: int64(thr)}, Op{K: "thrs", Ety: 1, V: int64(thrS)})
					}
					var h []Op
					if (v+thr)%2 == 1 {
						// thresholds set BEFORE the first pipeline of the type is registered
						h = append(append(append([]Op{}, hist[:firstPipe]...), thrOps...), hist[firstPipe:]...)
					} else {
						h = append(append([]Op{}, hist...), thrOps...)
					}
					e.run(Case{Gen: "thresholds", Hist: h, Ety: 1, Beh: beh})
				}
			}
			// one pre-cancelled Send per outcome vector: nothing may be invented, the error wraps the context error
			h := append(append([]Op{}, hist...), Op{K: "thr", Ety: 1, V: 1})
			e.run(Case{Gen: "thresholds-precancel", Hist: h, Ety: 1, Beh: beh, Sched: Sched{Pre: true}})
		}
	}
}

// equal error values: several pipelines of ONE Send fail with the identical error value — because they share the failing
// node (which returns its stored error), or because different nodes return one package-level sentinel — and each failure is
// still one warning (completes + warnings = pipelines; Warnings is a multiset of error identities).
// outcome per pipeline: 0 success, 1 fails at the filter SHARED with the other such pipelines (stored error), 2 fails at a
// node of its own with the sentinel, 3 fails at the shared SINK with the sentinel, 4 fails with an error of its own
func genEqualErrors(e *emitter, maxN int) {
	for n := 2; n <= maxN; n++ {
		total := 1
		for i := 0; i < n; i++ {
			total *= 5
		}
		for v := 0; v < total; v++ {
			outs := make([]int, n)
			x, fails := v, 0
			for i := range outs {
				outs[i] = x % 5
				x /= 5
				if outs[i] != 0 {
					fails++
				}
			}
			if fails < 2 {
				continue
			}
			// 70 shared failing filter, 50 formatter, 60 sink that works, 62 sink that fails with the sentinel
			idType := map[int]int{70: 1, 50: 2, 60: 3, 62: 3}
			ids := []int{70, 50, 60, 62}
			var pipes []pdesc
			for i, o := range outs {
				own := i + 1
				idType[own] = 1
				ids = append(ids, own)
				switch o {
				case 1:
					pipes = append(pipes, pdesc{Pid: i + 1, Ety: 1, IDs: []int{70, 50, 60}})
				case 3:
					pipes = append(pipes, pdesc{Pid: i + 1, Ety: 1, IDs: []int{own, 50, 62}})
				default:
					pipes = append(pipes, pdesc{Pid: i + 1, Ety: 1, IDs: []int{own, 50, 60}})
				}
			}
			hist, objOf := histFor(idType, ids, pipes)
			beh := make([][]int, len(ids))
			beh[objOf[70]-1], beh[objOf[50]-1], beh[objOf[60]-1], beh[objOf[62]-1] = []int{6}, []int{0}, []int{2, 0}, []int{5}
			ok := 0
			for i, o := range outs {
				beh[objOf[i+1]-1] = []int{[]int{0, 0, 5, 0, 3}[o]}
				if o == 0 {
					ok++
				}
			}
			for _, th := range [][2]int{{0, 0}, {ok, ok}, {ok + 1, 0}, {n, ok}} {
				h := append(append([]Op{}, hist...), Op{K: "thr", Ety: 1, V: int64(th[0])}, Op{K: "thrs", Ety: 1, V: int64(th[1])})
				e.run(Case{Gen: "equal-errors", Hist: h, Ety: 1, Beh: beh})
			}
		}
	}
}

// a graph that holds no pipeline: created by a threshold call alone, by a refused RegisterPipeline, or emptied again by
// RemovePipeline / RemovePipelineAndNodes — x both thresholds in 0..2 (0 completes < threshold must be an error) — and,
// next to it, the type that has no graph at all.  hist registers nodes 50 (formatter), 60, 61 (sinks) as objects 1..3.
func genEmptyGraph(e *emitter, hist []Op, beh [][]int) {
	beh = append(append([][]int{}, beh...), []int{0}, []int{0}, []int{0}, []int{0}, []int{0}, []int{0})
	type variant struct {
		name   string
		before []Op // before the thresholds are set
		after  []Op // after the thresholds are set
	}
	reg := Op{K: "regpipe", Pid: 1, Ety: 1, IDs: []int{50, 60}}
	again := []Op{{K: "regnode", ID: 50, Ty: 2}, {K: "regnode", ID: 60, Ty: 3}}
	variants := []variant{
		{"thr-only", nil, nil},
		// refused: node 77 is not registered, and a sink without formatter — the graph of the type is created all the same
		{"refused-regpipe", []Op{{K: "regpipe", Pid: 1, Ety: 1, IDs: []int{50, 77}}, {K: "regpipe", Pid: 2, Ety: 1, IDs: []int{60, 61}}}, nil},
		{"thr-then-rmpipe", nil, []Op{reg, {K: "rmpipe", Pid: 1, Ety: 1}}},
		{"rmpipe-then-thr", []Op{reg, {K: "rmpipe", Pid: 1, Ety: 1}}, nil},
		{"thr-then-rpan", nil, []Op{reg, {K: "rpan", Pid: 1, Ety: 1}}},
		{"rpan-then-thr", []Op{reg, {K: "rpan", Pid: 1, Ety: 1}}, nil},
		// emptied and filled again: the thresholds still count against the one pipeline
		{"refilled", nil, append(append([]Op{reg, {K: "rpan", Pid: 1, Ety: 1}}, again...), reg)},
	}
	for _, v := range variants {
		for thr := 0; thr <= 2; thr++ {
			for thrS := 0; thrS <= 2; thrS++ {
				h := append(append([]Op{}, hist...), v.before...)
				// thresholds 0/0 are left unset where something else has already created the graph
				if thr > 0 || len(v.before) == 0 {
					h = append(h, Op{K: "thr", Ety: 1, V: int64(thr)})
				}
				if thrS > 0 || len(v.before) == 0 {
					h = append(h, Op{K: "thrs", Ety: 1, V: int64(thrS)})
				}
				h = append(h, v.after...)
				h, _ = numberObjs(h)
				e.run(Case{Gen: "empty-graph:" + v.name, Hist: h, Ety: 1, Beh: beh})
				if thr == 2 && thrS == 0 {
					e.run(Case{Gen: "empty-graph-precancel:" + v.name, Hist: h, Ety: 1, Beh: beh, Sched: Sched{Pre: true}})
				}
			}
		}
	}
	// no graph at all: nothing ever mentioned the type; only another type has a graph / thresholds; only refused
	// threshold calls (negative) and a refused removal mentioned it
	for i, extra := range [][]Op{
		nil,
		{{K: "thr", Ety: 2, V: 1}, {K: "thrs", Ety: 2, V: 2}, {K: "regpipe", Pid: 1, Ety: 2, IDs: []int{50, 60}}},
		{{K: "thr", Ety: 1, V: -1}, {K: "thrs", Ety: 1, V: -1}, {K: "rmpipe", Pid: 1, Ety: 1}, {K: "rpan", Pid: 1, Ety: 1}},
	} {
		h, _ := numberObjs(append(append([]Op{}, hist...), extra...))
		e.run(Case{Gen: []string{"no-graph", "no-graph-other-type", "no-graph-refused-calls"}[i], Hist: h, Ety: 1, Beh: beh})
	}
}

// ---------- paths: every return path of Send x type of the caller's context x never / before / later cancelled ----------
// no graph for the type; graph without pipelines (thresholds 0 and 1); one pipeline completing with the thresholds met and
// not met; one pipeline failing with each class of error value. Each is run with a context.WithCancel caller context and
// with a context type of the caller's own; the goroutine-leak oracle of execCase looks after every one of them.
func genPaths(e *emitter) {
	idType := map[int]int{1: 1, 2: 2, 3: 3}
	nodes, _ := histFor(idType, []int{1, 2, 3}, nil)
	pipe := Op{K: "regpipe", Pid: 1, Ety: 1, IDs: []int{1, 2, 3}}
	type path struct {
		name string
		hist []Op
		beh  [][]int
	}
	pass := [][]int{{0}, {0}, {2}}
	paths := []path{
		{"no-graph", nodes, pass},
		{"no-graph-other-type-has-one", append(append([]Op{}, nodes...), Op{K: "regpipe", Pid: 1, Ety: 2, IDs: []int{1, 2, 3}}), pass},
		{"empty-graph", append(append([]Op{}, nodes...), Op{K: "thr", Ety: 1, V: 0}), pass},
		{"empty-graph-threshold-error", append(append([]Op{}, nodes...), Op{K: "thr", Ety: 1, V: 1}), pass},
		{"emptied-graph-threshold-error", append(append([]Op{}, nodes...), pipe, Op{K: "thrs", Ety: 1, V: 1}, Op{K: "rmpipe", Pid: 1, Ety: 1}), pass},
		{"normal", append(append([]Op{}, nodes...), pipe, Op{K: "thr", Ety: 1, V: 1}, Op{K: "thrs", Ety: 1, V: 1}), pass},
		{"threshold-error", append(append([]Op{}, nodes...), pipe, Op{K: "thr", Ety: 1, V: 2}), pass},
		{"normal-no-thresholds", append(append([]Op{}, nodes...), pipe), pass},
		{"huge-threshold", append(append([]Op{}, nodes...), pipe, Op{K: "thrs", Ety: 1, V: 1 << 40}), pass},
		{"mutating-nodes", append(append([]Op{}, nodes...), pipe, Op{K: "thr", Ety: 1, V: 1}), [][]int{{8}, {8}, {8, 2}}},
		{"filtered-sink-threshold-error", append(append([]Op{}, nodes...), pipe, Op{K: "thrs", Ety: 1, V: 1}), [][]int{{2}, {0}, {2}}},
	}
	for _, code := range []int{120, 121, 122, 123, 124, 3, 4, 5, 6, 70, 71, 72, 73, 80, 81, 82, 83, 90, 91, 92, 93, 94, 95, 96, 97, 98} {
		for pos := 0; pos < 3; pos += 2 {
			b := [][]int{{0}, {0}, {2}}
			b[pos] = []int{code}
			paths = append(paths, path{"node-error", append(append([]Op{}, nodes...), pipe, Op{K: "thr", Ety: 1, V: 1}), b})
		}
	}
	for _, p := range paths {
		for ctxKind := 1; ctxKind <= 6; ctxKind++ {
			e.run(Case{Gen: "paths:" + p.name, Hist: p.hist, Ety: 1, Beh: p.beh, Sched: Sched{Ctx: ctxKind}})
			e.run(Case{Gen: "paths-pre:" + p.name, Hist: p.hist, Ety: 1, Beh: p.beh, Sched: Sched{Ctx: ctxKind, Pre: true}})
			// cancelled while Send runs (at the first hook that fires, if any) — and, for the paths that never reach a
			// hook, only after Send has returned (the deferred cancel of execCase)
			for _, h := range []string{"range.check", "wg.wait", "collector.select"} {
				pt := Point{Hook: h, P: 0, K: 0, Occ: 1}
				if h == "range.check" {
					pt.P = 1
				}
				e.run(Case{Gen: "paths-cancel:" + p.name, Hist: p.hist, Ety: 1, Beh: p.beh, Sched: Sched{Ctx: ctxKind, CancelAt: &pt}})
			}
		}
	}
}

// ---------- classes: look-alike identifiers, the event handed to the first node, odd pipeline shapes ----------
func genClasses(e *emitter) {
	// (a) look-alike twins (other case, surrounding white space, trailing NUL, non-ASCII twin, suffix, long) of event types,
	// pipeline ids and node ids, all registered side by side: every Send must reach exactly the pipelines of ITS type string,
	// with the nodes of THEIR id strings, and a twin nobody registered has no graph
	twins := []int{1, 101, 201, 301, 401, 501, 601}
	{
		var ops []Op
		// node ids 1 (filter), 2 (formatter), 3 (sink) and a twin set of each, every one its own object
		for _, tw := range twins {
			ops = append(ops, Op{K: "regnode", ID: tw - 1 + 1, Ty: 1}, Op{K: "regnode", ID: tw + 1, Ty: 2}, Op{K: "regnode", ID: tw + 2, Ty: 3})
		}
		// type t: pipeline p over the plain nodes; every twin type: pipelines under look-alike pipeline ids over twin nodes
		for i, tw := range twins {
			ops = append(ops, Op{K: "regpipe", Pid: 1, Ety: tw, IDs: []int{tw, tw + 1, tw + 2}})
			other := twins[(i+1)%len(twins)]
			ops = append(ops, Op{K: "regpipe", Pid: other, Ety: tw, IDs: []int{other, tw + 1, other + 2}})
			ops = append(ops, Op{K: "thr", Ety: tw, V: int64(i % 3)}, Op{K: "thrs", Ety: tw, V: int64((i + 1) % 3)})
		}
		hist, n := numberObjs(ops)
		for vb := 0; vb < 3; vb++ {
			beh := make([][]int, n)
			for o := range beh {
				beh[o] = []int{[]int{0, 0, 2, 0, 3, 0, 1}[(o+vb*3)%7]}
			}
			for _, tw := range twins {
				e.run(Case{Gen: "classes:twin-types", Hist: hist, Ety: tw, Beh: beh})
			}
		}
		// only some of the twins have a graph: the others must be "no graph", whatever they look like
		for k, reg := range twins {
			h2, n2 := numberObjs([]Op{{K: "regnode", ID: 1, Ty: 1}, {K: "regnode", ID: 2, Ty: 2}, {K: "regnode", ID: 3, Ty: 3},
				{K: "regpipe", Pid: 1, Ety: reg, IDs: []int{1, 2, 3}}, {K: "thr", Ety: reg, V: 1}})
			beh := make([][]int, n2)
			for o := range beh {
				beh[o] = []int{0}
			}
			beh[2] = []int{2}
			for _, tw := range []int{twins[(k+1)%len(twins)], twins[(k+3)%len(twins)], reg} {
				e.run(Case{Gen: "classes:twin-without-graph", Hist: h2, Ety: tw, Beh: beh})
			}
		}
	}
	// (b) the event handed to the first node: payload kinds (pointer, nil, string, struct value) x Broker clock (running,
	// stopped at an instant, stopped at the zero time); two pipelines, the second one's first node sees the same Event
	{
		hist, n := numberObjs([]Op{{K: "regnode", ID: 1, Ty: 1}, {K: "regnode", ID: 2, Ty: 2}, {K: "regnode", ID: 3, Ty: 3}, {K: "regnode", ID: 4, Ty: 4},
			{K: "regpipe", Pid: 1, Ety: 1, IDs: []int{1, 2, 3}}, {K: "regpipe", Pid: 2, Ety: 1, IDs: []int{4, 3}}, {K: "thr", Ety: 1, V: 2}})
		// the Broker's clock (running / stopped in the past, at the zero time, in the far future, now) x caller contexts that
		// CARRY a deadline and are live (WithTimeout 1h, WithDeadline 2200, WithTimeoutCause / WithDeadlineCause 1h) and some
		// that carry none: the Broker's clock says nothing about the caller's context — a live context means a full
		// traversal; x never / before / during cancelled
		for clock := 0; clock <= 4; clock++ {
			for _, ck := range []int{9, 10, 4, 6, 1, 2} {
				b := [][]int{{0}, {8}, {2}, {1}}
				e.run(Case{Gen: "classes:clock-vs-deadline", Hist: hist, Ety: 1, Beh: b, Clock: clock, Payload: clock % 2, Sched: Sched{Ctx: ck}})
				pt := Point{Hook: "node.call", P: 1, K: 1, Occ: 1}
				e.run(Case{Gen: "classes:clock-vs-deadline-cancelled", Hist: hist, Ety: 1, Beh: b, Clock: clock, Sched: Sched{Ctx: ck, CancelAt: &pt}})
				if clock%2 == 1 {
					e.run(Case{Gen: "classes:clock-vs-deadline-pre", Hist: hist, Ety: 1, Beh: b, Clock: clock, Sched: Sched{Ctx: ck, Pre: true}})
				}
			}
		}
		for payload := 0; payload <= 6; payload++ {
			for clock := 0; clock <= 2; clock++ {
				for vb, b := range [][][]int{{{0}, {8}, {2}, {8}}, {{1}, {0}, {0}, {3}}, {{110}, {0}, {2}, {0}}, {{111}, {112}, {2}, {0}}, {{120}, {121}, {2}, {122}}, {{123}, {124}, {0}, {123}}} {
					c := Case{Gen: "classes:first-event", Hist: hist, Ety: 1, Beh: b, Payload: payload, Clock: clock}
					_ = n
					if vb == 1 {
						c.Sched.Pre = payload%2 == 1
					}
					// a second Send on the same Broker: a fresh Event again
					c.Then = []Step{{Ety: 1}}
					e.runSeq(c)
				}
			}
		}
	}
	// (c) odd but registrable shapes: sink-typed nodes in non-final positions (dropping, failing, passing), a formatter-filter
	// that drops, the same node twice (adjacent and not), pipelines of 2..5 nodes sharing nodes within and across types
	{
		ops := []Op{{K: "regnode", ID: 1, Ty: 1}, {K: "regnode", ID: 2, Ty: 2}, {K: "regnode", ID: 3, Ty: 3}, {K: "regnode", ID: 4, Ty: 4}, {K: "regnode", ID: 5, Ty: 3},
			{K: "regpipe", Pid: 1, Ety: 1, IDs: []int{5, 2, 3}},       // a sink first
			{K: "regpipe", Pid: 2, Ety: 1, IDs: []int{1, 5, 4, 3}},    // a sink in the middle
			{K: "regpipe", Pid: 3, Ety: 1, IDs: []int{1, 1, 4, 5}},    // the same filter twice, adjacent
			{K: "regpipe", Pid: 4, Ety: 1, IDs: []int{1, 2, 1, 2, 3}}, // not adjacent, five nodes
			{K: "regpipe", Pid: 1, Ety: 2, IDs: []int{5, 2, 3}},       // the same nodes under another type
			{K: "thr", Ety: 1, V: 3}, {K: "thrs", Ety: 1, V: 2}}
		// node types outside the four declared constants (0, 5, 99, -1) in every non-final position: node k+1 is invoked iff
		// node k returned an event, whatever Type() says; complete-sinks lists only nodes whose Type() is Sink
		ops = append(ops, Op{K: "regnode", ID: 6, Ty: 6}, Op{K: "regnode", ID: 7, Ty: 7}, Op{K: "regnode", ID: 8, Ty: 8}, Op{K: "regnode", ID: 9, Ty: 9},
			Op{K: "regpipe", Pid: 5, Ety: 1, IDs: []int{6, 2, 3}},
			Op{K: "regpipe", Pid: 6, Ety: 1, IDs: []int{1, 7, 4, 3}},
			Op{K: "regpipe", Pid: 7, Ety: 1, IDs: []int{8, 9, 6, 2, 5}},
			Op{K: "regpipe", Pid: 2, Ety: 2, IDs: []int{9, 7, 2, 3}},
			Op{K: "thr", Ety: 1, V: 6}, Op{K: "thrs", Ety: 1, V: 4})
		hist, _ := numberObjs(ops)
		for _, b := range [][][]int{
			{{0}, {0}, {2}, {0}, {0}, {0}, {0}, {0}, {0}},       // everything passes, the last sink completes
			{{0}, {0}, {2}, {0}, {0}, {2}, {2}, {2, 0}, {0, 2}}, // the nodes of undeclared type drop: complete, not a complete sink
			{{0}, {0}, {0}, {0}, {2}, {3}, {1}, {8}, {3, 1}},    // ... fail, replace, mutate
			{{0}, {0}, {2}, {2}, {2}, {0}, {0}, {0}, {0}},          // the inner sinks and the formatter-filter drop: complete (sink / not a sink)
			{{0, 2}, {0}, {0}, {0, 2}, {3, 0}, {0}, {1}, {0}, {0}}, // by visit
			{{1}, {8}, {0}, {1}, {0, 2, 3}, {1}, {0}, {8}, {0}},
		} {
			for _, et := range []int{1, 2} {
				e.run(Case{Gen: "classes:shapes", Hist: hist, Ety: et, Beh: b})
				e.run(Case{Gen: "classes:shapes-pre", Hist: hist, Ety: et, Beh: b, Sched: Sched{Pre: true}})
			}
		}
	}
}

// ---------- reentrant: nodes that change the registry from inside Process, during the fan-out ----------
// Four pipelines of one type with roots of their own and a shared formatter and sink. A root retires its OWN pipeline
// (RemovePipeline / RemovePipelineAndNodes), a root removes ANOTHER pipeline (visited already or not, as the runtime's order has
// it), the shared inner node removes one, a root registers a NEW pipeline, a node (re-)registers a node; alone and combined.
// Every pipeline registered before the Send and not touched during it must be traversed exactly once; a pipeline removed or
// added during the Send may or may not be (the observation is fed to the model); Send returns; the following Sends see
// the registry the calls left behind.
func genReentrant(e *emitter) {
	idType := map[int]int{1: 1, 2: 2, 3: 3, 4: 1, 5: 1, 6: 4, 7: 1}
	base, _ := histFor(idType, []int{1, 2, 3, 4, 5, 6, 7}, []pdesc{{1, 1, []int{1, 2, 3}}, {2, 1, []int{4, 2, 3}}, {3, 1, []int{5, 2, 3}}, {4, 1, []int{6, 3}},
		{1, 2, []int{7, 2, 3}}})
	reent := []Op{
		{K: "rmpipe", Pid: 1, Ety: 1},                      // 100
		{K: "rpan", Pid: 2, Ety: 1},                        // 101
		{K: "rmpipe", Pid: 3, Ety: 1},                      // 102
		{K: "regpipe", Pid: 5, Ety: 1, IDs: []int{7, 2, 3}}, // 103
		{K: "regnode", ID: 8, Ty: 1},                       // 104
		{K: "rmpipe", Pid: 4, Ety: 1},                      // 105
		{K: "rpan", Pid: 1, Ety: 2},                        // 106 (another type's pipeline)
	}
	// behaviour per object 1..7 (ids 1..7 in order)
	pass := func() [][]int { return [][]int{{0}, {0}, {2}, {0}, {0}, {0}, {0}} }
	type cfg struct {
		name string
		set  map[int]int // object -> code
	}
	cfgs := []cfg{
		{"root-retires-own-pipeline", map[int]int{1: 100}},
		{"root-retires-own-pipeline-and-nodes", map[int]int{4: 101}},
		{"root-removes-another-pipeline", map[int]int{1: 102}},
		{"root-removes-another-pipeline-2", map[int]int{5: 100}},
		{"inner-node-removes-a-pipeline", map[int]int{2: 105}},
		{"sink-removes-a-pipeline", map[int]int{3: 102}},
		{"root-registers-a-new-pipeline", map[int]int{5: 103}},
		{"root-registers-a-node", map[int]int{6: 104}},
		{"root-removes-other-types-pipeline", map[int]int{4: 106}},
		{"two-roots-retire-themselves", map[int]int{1: 100, 4: 101}},
		{"retire-and-register", map[int]int{1: 100, 5: 103, 6: 105}},
	}
	for _, cf := range cfgs {
		for rep := 0; rep < 3; rep++ {
			beh := pass()
			for o, code := range cf.set {
				beh[o-1] = []int{code}
			}
			c := Case{Gen: "reentrant:" + cf.name, Hist: append(append([]Op{}, base...), Op{K: "thr", Ety: 1, V: int64(rep)}), Ety: 1, Beh: beh, Reent: reent,
				Then: []Step{{Ety: 1}, {Ety: 2}}}
			if rep == 2 {
				c.Sched.Jitter = uint64(7 + rep)
			}
			n := numberSeq(&c)
			for len(c.Beh) < n {
				c.Beh = append(c.Beh, []int{0})
			}
			e.runSeq(c)
		}
	}
}

// ---------- unprintable warnings: typed-nil errors whose Error() panics, among two and three failing pipelines ----------
func genUnprintable(e *emitter) {
	idType := map[int]int{1: 1, 2: 1, 3: 1, 8: 2, 9: 3}
	hist, o := histFor(idType, []int{1, 2, 3, 8, 9}, []pdesc{{1, 1, []int{1, 8, 9}}, {2, 1, []int{2, 8, 9}}, {3, 1, []int{3, 8, 9}}})
	hist = append(hist, Op{K: "thr", Ety: 1, V: 1})
	codes := []int{0, 3, 96, 98} // ok, an ordinary error, typed-nil *derefErr, typed-nil *multierror.Error
	for v := 0; v < 64; v++ {
		outs := []int{codes[v%4], codes[(v/4)%4], codes[(v/16)%4]}
		fails, odd := 0, 0
		for _, c := range outs {
			if c != 0 {
				fails++
			}
			if c >= 96 {
				odd++
			}
		}
		if fails < 2 || odd == 0 {
			continue
		}
		beh := make([][]int, 5)
		beh[o[8]-1], beh[o[9]-1] = []int{0}, []int{2}
		for i, c := range outs {
			beh[o[i+1]-1] = []int{c}
		}
		e.run(Case{Gen: "unprintable-warnings", Hist: hist, Ety: 1, Beh: beh})
		pt := Point{Hook: "collector.select", Occ: 3}
		e.run(Case{Gen: "unprintable-warnings-cancelled", Hist: hist, Ety: 1, Beh: beh, Sched: Sched{CancelAt: &pt}})
		if v%3 == 0 {
			e.run(Case{Gen: "unprintable-warnings-pre", Hist: hist, Ety: 1, Beh: beh, Sched: Sched{Pre: true}})
		}
	}
}

// ---------- callbacks: Sends issued from inside Reopen() / Close(), a write-locking call started just before ----------
func genCallbacks(e *emitter) {
	idType := map[int]int{1: 1, 2: 2, 3: 3, 4: 4, 5: 3, 6: 1}
	base, _ := histFor(idType, []int{1, 2, 3, 4, 5, 6}, []pdesc{{1, 1, []int{1, 2, 3}}, {2, 1, []int{4, 5}}, {1, 2, []int{1, 2, 3}}})
	writers := [][]Op{
		{{K: "regnode", ID: 40, Ty: 1}},
		{{K: "regpipe", Pid: 7, Ety: 2, IDs: []int{6, 2, 3}}},
		{{K: "thr", Ety: 2, V: 0}},
	}
	for wi, wr := range writers {
		for _, cbEty := range []int{1, 2} {
			if e.stats["send_did_not_return"] >= 3 {
				e.stats["callbacks_cut_short_after_hangs"]++
				return
			}
			c := Case{Gen: "callbacks", Hist: base, Ety: 1, Beh: [][]int{{0}, {0}, {2, 0}, {1}, {0, 2}, {0}},
				Then: []Step{
					// Broker.Reopen: the sink's Reopen() sends
					{CbOps: []Op{{K: "reopen"}}, CbObjs: []int{3}, CbWriter: wr, CbEty: cbEty, Ety: 1, Sched: Sched{Pre: wi == 1}},
					// RemoveNode of an unused node: its Close() sends
					{CbOps: []Op{{K: "rmnode", ID: 6}}, CbWriter: []Op{{K: "regnode", ID: 41 + wi, Ty: 1}}, CbEty: cbEty, Ety: 2},
					// RemovePipelineAndNodes: the Close() of the first node it releases sends
					{CbOps: []Op{{K: "rpan", Pid: 2, Ety: 1}}, CbWriter: []Op{{K: "regnode", ID: 45 + wi, Ty: 3}}, CbEty: cbEty, Ety: 1},
					{Ety: 1, Sched: Sched{Pre: true}},
				}}
			numberSeq(&c)
			for len(c.Beh) < 12 {
				c.Beh = append(c.Beh, []int{0})
			}
			e.runSeq(c)
		}
	}
}

// ---------- stress: threshold setters of a type racing Sends of that type ----------
func genStress(e *emitter, ms int) {
	idType := map[int]int{1: 1, 2: 2, 3: 3, 4: 4}
	base, _ := histFor(idType, []int{1, 2, 3, 4}, []pdesc{{1, 1, []int{1, 2, 3}}, {2, 1, []int{4, 3}}, {1, 2, []int{1, 2, 3}}})
	c := Case{Gen: "stress-thresholds", Hist: base, Ety: 1, Beh: [][]int{{0}, {0}, {2, 0}, {1}},
		Then: []Step{
			// four senders x a goroutine toggling both thresholds of the type; then the thresholds are set to known values and an
			// already cancelled Send, a live Send and a Send of another type must return
			{StressMs: ms, StressEty: 1, Ops: []Op{{K: "thr", Ety: 1, V: 2}, {K: "thrs", Ety: 1, V: 1}}, Ety: 1, Sched: Sched{Pre: true}},
			{Ety: 1}, {Ety: 2},
		}}
	numberSeq(&c)
	e.runSeq(c)
}

// ---------- sequence: several Sends on ONE Broker with registry calls in between ----------
// Every Send must dispatch to exactly the pipelines registered at that moment (the model's roots are those of the registry
// model after everything the Broker was told so far).  Base: three pipelines of type 1 (sharing nodes) and one of type 2,
// thresholds = number of pipelines, so that an entry too many or too few flips Send's error.  Between the Sends each of:
// RemovePipelineAndNodes, RemovePipeline, RegisterPipeline overwriting with other nodes, RegisterPipeline of an additional
// pipeline, RemovePipeline+RemoveNode+re-register, RegisterNode rebinding an id + identical RegisterPipeline — all ordered
// pairs of them (Send, m1, Send, m2, Send), plus random longer sequences.
func seqBase() ([]Op, map[int]int) {
	idType := map[int]int{1: 1, 2: 1, 3: 2, 4: 4, 5: 3, 6: 3}
	ops := []Op{}
	for id := 1; id <= 6; id++ {
		ops = append(ops, Op{K: "regnode", ID: id, Ty: idType[id]})
	}
	ops = append(ops,
		Op{K: "regpipe", Pid: 1, Ety: 1, IDs: []int{1, 3, 5}},
		Op{K: "regpipe", Pid: 2, Ety: 1, IDs: []int{2, 4, 6}},
		Op{K: "regpipe", Pid: 3, Ety: 1, IDs: []int{1, 4, 5}},
		Op{K: "regpipe", Pid: 1, Ety: 2, IDs: []int{2, 3, 6}},
		Op{K: "thr", Ety: 1, V: 3}, Op{K: "thrs", Ety: 1, V: 2})
	return ops, idType
}

func seqMutations(idType map[int]int) [][]Op {
	return [][]Op{
		{{K: "rpan", Pid: 2, Ety: 1}},
		{{K: "rmpipe", Pid: 1, Ety: 1}},
		{{K: "regpipe", Pid: 1, Ety: 1, IDs: []int{2, 3, 6}}},
		{{K: "regpipe", Pid: 4, Ety: 1, IDs: []int{1, 3, 6}}},
		{{K: "rmpipe", Pid: 3, Ety: 1}, {K: "rmnode", ID: 4}, {K: "regnode", ID: 4, Ty: idType[4]}, {K: "regpipe", Pid: 3, Ety: 1, IDs: []int{1, 4, 5}}},
		{{K: "regnode", ID: 1, Ty: idType[1]}, {K: "regpipe", Pid: 1, Ety: 1, IDs: []int{1, 3, 5}}},
		{{K: "rpan", Pid: 3, Ety: 1}, {K: "regnode", ID: 1, Ty: idType[1]}, {K: "regnode", ID: 4, Ty: idType[4]}, {K: "regnode", ID: 5, Ty: idType[5]}},
		{{K: "rpan", Pid: 1, Ety: 2}},
		// idempotent repeats: removed twice, the same thresholds set again
		{{K: "rmpipe", Pid: 2, Ety: 1}, {K: "rmpipe", Pid: 2, Ety: 1}, {K: "rpan", Pid: 2, Ety: 1}, {K: "thr", Ety: 1, V: 3}, {K: "thrs", Ety: 1, V: 2}},
	}
}

// number the objects of the regnode ops over the whole sequence (history, steps, third-party calls, calls made by nodes)
func numberSeq(c *Case) int {
	k := 0
	num := func(ops []Op) []Op {
		out := append([]Op{}, ops...)
		for i := range out {
			if out[i].K == "regnode" {
				k++
				out[i].Obj = k
			}
		}
		return out
	}
	c.Hist = num(c.Hist)
	c.Then = append([]Step{}, c.Then...)
	for i := range c.Then {
		c.Then[i].Ops = num(c.Then[i].Ops)
		c.Then[i].Async = num(c.Then[i].Async)
		c.Then[i].CbWriter = num(c.Then[i].CbWriter)
	}
	c.Reent = num(c.Reent)
	return k
}


// registry calls that FAIL between Sends, each followed by a RegisterPipeline that references the ids it touched: the
// registry model says which object every id resolves to afterwards (a refused call changes nothing).
// The base of these sequences also has node 7 registered with DenyOverwrite and pipeline 6 registered with DenyOverwrite.
func seqRefusals(idType map[int]int) [][]Op {
	return [][]Op{
		// RegisterNode refused by the id's DenyOverwrite policy, with another object
		{{K: "regnode", ID: 7, Ty: 1}, {K: "regpipe", Pid: 5, Ety: 1, IDs: []int{7, 3, 5}}},
		{{K: "regnode", ID: 7, Ty: 1, Pol: 1}, {K: "regpipe", Pid: 1, Ety: 1, IDs: []int{7, 3, 5}}},
		// RegisterNode with an invalid policy, with an empty id
		{{K: "regnode", ID: 1, Ty: 1, Pol: 3}, {K: "regpipe", Pid: 1, Ety: 1, IDs: []int{1, 3, 5}}},
		{{K: "regnode", ID: 0, Ty: 1}, {K: "regnode", ID: 2, Ty: 1, Pol: 3}, {K: "regpipe", Pid: 5, Ety: 1, IDs: []int{2, 4, 6}}},
		// RegisterPipeline refused: existing DenyOverwrite pipeline (other nodes), unregistered node, bad shape — as overwrite and as first registration
		{{K: "regpipe", Pid: 6, Ety: 1, IDs: []int{1, 3, 5}}, {K: "regpipe", Pid: 5, Ety: 1, IDs: []int{1, 3, 5}}},
		{{K: "regpipe", Pid: 1, Ety: 1, IDs: []int{1, 9, 5}}, {K: "regpipe", Pid: 8, Ety: 1, IDs: []int{9, 3, 5}}, {K: "regpipe", Pid: 5, Ety: 1, IDs: []int{1, 3, 5}}},
		{{K: "regpipe", Pid: 1, Ety: 1, IDs: []int{1, 5}}, {K: "regpipe", Pid: 8, Ety: 1, IDs: []int{3, 1, 5}}, {K: "regpipe", Pid: 8, Ety: 3, IDs: []int{1, 6}}, {K: "regpipe", Pid: 5, Ety: 1, IDs: []int{1, 3, 6}}},
		// refused shapes whose tail is a non-sink right after a formatter / a formatter / a formatter-filter: never registered,
		// so the following Send must not report them
		{{K: "regpipe", Pid: 8, Ety: 1, IDs: []int{3, 1}}, {K: "regpipe", Pid: 9, Ety: 1, IDs: []int{1, 3}}, {K: "regpipe", Pid: 10, Ety: 1, IDs: []int{1, 3, 4}},
			{K: "regpipe", Pid: 11, Ety: 1, IDs: []int{3, 2}}, {K: "regpipe", Pid: 5, Ety: 1, IDs: []int{1, 3, 5}}},
		// RemoveNode refused (in use), then the id is used again
		{{K: "rmnode", ID: 3}, {K: "rmnode", ID: 5}, {K: "regpipe", Pid: 5, Ety: 1, IDs: []int{2, 3, 5}}},
		// RemovePipelineAndNodes / RemovePipeline of an unknown pipeline, of a type without graph
		{{K: "rpan", Pid: 8, Ety: 1}, {K: "rmpipe", Pid: 8, Ety: 1}, {K: "rpan", Pid: 1, Ety: 3}, {K: "regpipe", Pid: 5, Ety: 1, IDs: []int{1, 4, 6}}},
		// a refused RegisterNode after the id was released and registered again with DenyOverwrite
		{{K: "rmpipe", Pid: 2, Ety: 1}, {K: "rmnode", ID: 6}, {K: "regnode", ID: 6, Ty: 3, Pol: 2}, {K: "regnode", ID: 6, Ty: 3}, {K: "regpipe", Pid: 2, Ety: 1, IDs: []int{2, 4, 6}}},
	}
}

func genSequence(e *emitter, r *hc.Rand, nRandom int) {
	base, idType := seqBase()
	muts := seqMutations(idType)
	{
		idType[7] = 1
		rbase := append(append([]Op{}, base...), Op{K: "regnode", ID: 7, Ty: 1, Pol: 2}, Op{K: "regpipe", Pid: 6, Ety: 1, IDs: []int{7, 4, 6}, Pol: 2},
			Op{K: "thr", Ety: 1, V: 4})
		for i, f := range seqRefusals(idType) {
			for j, m := range [][]Op{nil, muts[0], muts[2], muts[5]} {
				for order := 0; order < 2; order++ {
					if m == nil && order == 1 {
						continue
					}
					c := Case{Gen: "sequence-refusals", Hist: rbase, Ety: 1, Then: []Step{{Ops: f, Ety: 1}, {Ops: m, Ety: 1}}}
					if order == 1 {
						c.Then = []Step{{Ops: m, Ety: 1}, {Ops: f, Ety: 1}}
					}
					n := numberSeq(&c)
					c.Beh = make([][]int, n)
					for o := range c.Beh {
						c.Beh[o] = []int{0}
						if (i+j+o)%5 == 4 {
							c.Beh[o] = []int{[]int{1, 2, 3}[(i+o)%3]}
						}
					}
					e.runSeq(c)
				}
			}
		}
	}
	mkBeh := func(n int, rr *hc.Rand) [][]int {
		beh := make([][]int, n)
		for o := range beh {
			beh[o] = []int{0}
			if rr != nil {
				beh[o] = nil
				for j := 0; j < 1+rr.Intn(3); j++ {
					beh[o] = append(beh[o], []int{0, 0, 0, 0, 1, 2, 3, 72}[rr.Intn(8)])
				}
			}
		}
		return beh
	}
	for i, m1 := range muts {
		for j, m2 := range muts {
			c := Case{Gen: "sequence", Hist: base, Ety: 1, Then: []Step{{Ops: m1, Ety: 1}, {Ops: m2, Ety: 1}}}
			if (i+j)%4 == 3 {
				// the other type's Send in between must not be affected either
				c.Then = append(c.Then, Step{Ety: 2})
			}
			n := numberSeq(&c)
			c.Beh = mkBeh(n, nil)
			// sinks complete by returning nil; every second sequence has behaviours from the PRNG
			if (i+j)%2 == 1 {
				c.Beh = mkBeh(n, r)
			}
			e.runSeq(c)
		}
	}
	for k := 0; k < nRandom; k++ {
		c := Case{Gen: "sequence-random", Hist: base, Ety: 1 + r.Intn(2)}
		for s := 0; s < 2+r.Intn(4); s++ {
			var ops []Op
			for q := 0; q < 1+r.Intn(2); q++ {
				ops = append(ops, muts[r.Intn(len(muts))]...)
			}
			if r.Chance(1, 4) {
				ops = append(ops, Op{K: "thr", Ety: 1, V: int64(r.Intn(4))})
			}
			st := Step{Ops: ops, Ety: 1 + r.Intn(2), Sched: Sched{Jitter: r.U64() | 1}}
			if r.Chance(1, 5) {
				st.Sched.Pre = true
			}
			c.Then = append(c.Then, st)
		}
		n := numberSeq(&c)
		c.Beh = mkBeh(n, r)
		e.runSeq(c)
	}
}

// ---------- twosend: a Send cancelled while one of its nodes is parked inside Process, then the next Send ----------
// Send #1 is cancelled at the moment its gated node is about to be called; the node stays inside Process until Send #2 has
// returned. Send #2 (context never cancelled, all its nodes return at once) must return without waiting for Send #1's node
// (else its watchdog fires: hang), and when the node is finally let go nothing of either Send may remain. Repeated on one
// Broker, Send #2 called from the same goroutine right after Send #1 returned and from goroutines of their own, on the same
// and on another event type.
func genTwoSend(e *emitter, r *hc.Rand, reps int) {
	idType := map[int]int{1: 1, 2: 2, 3: 3, 4: 4, 5: 3}
	var base []Op
	for id := 1; id <= 5; id++ {
		base = append(base, Op{K: "regnode", ID: id, Ty: idType[id]})
	}
	base = append(base, Op{K: "regpipe", Pid: 1, Ety: 1, IDs: []int{1, 2, 3}}, Op{K: "regpipe", Pid: 2, Ety: 1, IDs: []int{4, 5}},
		Op{K: "regpipe", Pid: 1, Ety: 2, IDs: []int{1, 2, 3}}, Op{K: "thr", Ety: 1, V: 2})
	// (gated object, pipeline, position of the gated node)
	for _, g := range [][3]int{{3, 1, 2}, {1, 1, 0}, {5, 2, 1}, {2, 1, 1}} {
		if e.stats["send_did_not_return"] >= 6 {
			e.stats["twosend_cut_short_after_hangs"]++
			break // every hang costs the watchdog's seconds; six replays are enough
		}
		for _, caller := range []int{1, 0} {
			for _, mode := range []int{0, 1} {
				pt := Point{Hook: "node.call", P: g[1], K: g[2], Occ: 1}
				c := Case{Gen: "twosend", Hist: base, Ety: 1, Gate: []int{g[0]},
					Sched: Sched{CancelAt: &pt, Mode: mode, HoldGate: true, Caller: caller, Ctx: 1 + (g[0]+caller+mode)%3}}
				for k := 0; k < reps; k++ {
					// the pair (cancelled Send with a parked node, independent Send) again and again on the same Broker
					c.Then = append(c.Then, Step{Ety: 1, Sched: Sched{Caller: caller, Ctx: 1}})
					pt2 := pt
					c.Then = append(c.Then, Step{Ety: 1, Gate: []int{g[0]}, Sched: Sched{CancelAt: &pt2, Mode: mode, HoldGate: true, Caller: caller}})
				}
				c.Then = append(c.Then, Step{Ety: 1, Sched: Sched{Caller: caller, Ctx: 2}}, Step{Ety: 2, Sched: Sched{Caller: 1 - caller}})
				n := numberSeq(&c)
				c.Beh = make([][]int, n)
				for o := range c.Beh {
					c.Beh[o] = []int{0}
				}
				c.Beh[2], c.Beh[4] = []int{2, 0}, []int{0, 2}
				e.runSeq(c)
			}
		}
	}
}

// ---------- twosend with a third party: a registry call between the two Sends, while Send #1's node is parked ----------
// While Send #1 (cancelled) still has a node inside Process — its root node especially — a third party changes the registry of
// the same type on a goroutine of its own (another pipeline registered, one overwritten, RemovePipeline,
// RemovePipelineAndNodes, RemoveNode, a threshold); then Send #2 — other type and same type, live and already cancelled
// context — must return under the watchdog; then the gate opens, and the registry call and both Sends must be over.
func genTwoSendThirdParty(e *emitter, gates int) {
	idType := map[int]int{1: 1, 2: 2, 3: 3, 4: 4, 5: 3, 6: 1}
	var base []Op
	for id := 1; id <= 6; id++ {
		base = append(base, Op{K: "regnode", ID: id, Ty: idType[id]})
	}
	base = append(base, Op{K: "regpipe", Pid: 1, Ety: 1, IDs: []int{1, 2, 3}}, Op{K: "regpipe", Pid: 2, Ety: 1, IDs: []int{4, 5}},
		Op{K: "regpipe", Pid: 1, Ety: 2, IDs: []int{6, 2, 3}}, Op{K: "thr", Ety: 1, V: 2})
	third := [][]Op{
		{{K: "regpipe", Pid: 3, Ety: 1, IDs: []int{6, 4, 5}}},
		{{K: "regpipe", Pid: 2, Ety: 1, IDs: []int{6, 2, 5}}},
		{{K: "rmpipe", Pid: 2, Ety: 1}},
		{{K: "rpan", Pid: 2, Ety: 1}},
		{{K: "rpan", Pid: 1, Ety: 1}},
		{{K: "rmnode", ID: 6}, {K: "rmnode", ID: 1}},
		{{K: "thr", Ety: 1, V: 1}, {K: "thrs", Ety: 1, V: 1}},
	}
	// (gated object, pipeline, position): the root node first
	gateList := [][3]int{{1, 1, 0}, {4, 2, 0}, {3, 1, 2}, {2, 1, 1}}
	if gates < len(gateList) {
		gateList = gateList[:gates]
	}
	k := 0
	for _, g := range gateList {
		for _, tp := range third {
			if e.stats["send_did_not_return"] >= 6 {
				e.stats["twosend_cut_short_after_hangs"]++
				return
			}
			for s2 := 0; s2 < 4; s2++ {
				k++
				pt := Point{Hook: "node.call", P: g[1], K: g[2], Occ: 1}
				c := Case{Gen: "twosend-third-party", Hist: base, Ety: 1, Gate: []int{g[0]},
					Sched: Sched{CancelAt: &pt, Mode: k % 2, HoldGate: true, Caller: k % 2}}
				c.Then = []Step{
					{Async: tp, Ety: 2 - s2%2, Sched: Sched{Pre: s2 >= 2, Caller: (k / 2) % 2}},
					{Ety: 1}, {Ety: 2},
				}
				n := numberSeq(&c)
				c.Beh = make([][]int, n)
				for o := range c.Beh {
					c.Beh[o] = []int{0}
				}
				c.Beh[2], c.Beh[4] = []int{2, 0}, []int{0, 2}
				e.runSeq(c)
				// (not with the overwrite of an existing pipeline id: while the walk is open either version may be traversed)
				if g[2] == 0 && s2 < 2 && !(len(tp) == 1 && tp[0].K == "regpipe" && tp[0].Pid == 2) {
					// the same with Send #1 NOT cancelled and left IN FLIGHT: its root node is parked, so its walk over the
					// pipelines is still open while the third party changes the registry and Send #2 runs; then it is let go and
					// must return; the Sends after it must see the registry as the third party left it
					d := c
					d.Gen = "twosend-third-party-in-flight"
					d.Sched = Sched{HoldGate: true, Detach: true, Caller: 0}
					d.Then = append([]Step{}, c.Then...)
					d.Then = append(d.Then, Step{Ety: 1}, Step{Ety: 1, Sched: Sched{Pre: true}})
					e.runSeq(d)
				}
			}
		}
	}
}

// ---------- cancel: every semantic hook position of an uncancelled reference run x hand-off orders ----------
type config struct {
	name string
	hist []Op
	beh  [][]int
	gate []int
}

func fixedConfigs() []config {
	var cs []config
	// c1: three pipelines of three nodes: all pass (leaf returns the event), filter drops, formatter errs
	{
		idType := map[int]int{1: 1, 2: 2, 3: 3, 4: 1, 5: 1, 6: 2}
		ids := []int{1, 2, 3, 4, 5, 6}
		hist, o := histFor(idType, ids, []pdesc{{1, 1, []int{1, 2, 3}}, {2, 1, []int{4, 2, 3}}, {3, 1, []int{5, 6, 3}}})
		beh := make([][]int, 6)
		beh[o[1]-1], beh[o[2]-1], beh[o[3]-1] = []int{0}, []int{1}, []int{0}
		beh[o[4]-1], beh[o[5]-1], beh[o[6]-1] = []int{2}, []int{0}, []int{3}
		cs = append(cs, config{"c1-3x3-mixed", hist, beh, nil})
	}
	// c2: two pipelines sharing a gated sink: Send must return while the sink is still running
	{
		idType := map[int]int{1: 1, 2: 2, 3: 3, 4: 4}
		ids := []int{1, 2, 3, 4}
		hist, o := histFor(idType, ids, []pdesc{{1, 1, []int{1, 2, 3}}, {2, 1, []int{4, 3}}})
		beh := [][]int{{0}, {0}, {2, 0}, {1}}
		cs = append(cs, config{"c2-gated-sink", hist, beh, []int{o[3]}})
	}
	// c3: one pipeline of two nodes, the sink returns nil
	{
		hist, _ := histFor(map[int]int{1: 2, 2: 3}, []int{1, 2}, []pdesc{{1, 1, []int{1, 2}}})
		cs = append(cs, config{"c3-1x2", hist, [][]int{{0}, {2}}, nil})
	}
	// c4: three pipelines of two nodes sharing the sink, first nodes gated
	{
		idType := map[int]int{1: 2, 2: 4, 3: 2, 9: 3}
		hist, o := histFor(idType, []int{1, 2, 3, 9}, []pdesc{{1, 1, []int{1, 9}}, {2, 1, []int{2, 9}}, {3, 1, []int{3, 9}}})
		beh := [][]int{{0}, {2}, {1}, {0, 2, 0}}
		cs = append(cs, config{"c4-3x2-gated-roots", hist, beh, []int{o[1], o[2]}})
	}
	// c5: three pipelines sharing their filter, replacing events, one error at the sink
	{
		idType := map[int]int{1: 1, 2: 2, 3: 4, 4: 3, 5: 3}
		hist, _ := histFor(idType, []int{1, 2, 3, 4, 5}, []pdesc{{1, 1, []int{1, 2, 4}}, {2, 1, []int{1, 3, 5}}, {3, 1, []int{1, 1, 2, 4}}})
		beh := [][]int{{1, 0, 1, 2}, {0}, {1}, {2, 3}, {0}}
		cs = append(cs, config{"c5-shared-filter", hist, beh, nil})
	}
	// c6: two pipelines fail at the filter they share (its stored error, one value), the third at its sink with the sentinel
	{
		idType := map[int]int{1: 1, 2: 2, 3: 4, 4: 3, 5: 3, 6: 1}
		hist, _ := histFor(idType, []int{1, 2, 3, 4, 5, 6}, []pdesc{{1, 1, []int{1, 2, 4}}, {2, 1, []int{1, 3, 4}}, {3, 1, []int{6, 2, 5}}})
		beh := [][]int{{6}, {0}, {0}, {2}, {5}, {0}}
		cs = append(cs, config{"c6-equal-errors-shared-node", hist, beh, nil})
	}
	// c7: different nodes return the same sentinel; the third pipeline completes
	{
		idType := map[int]int{1: 1, 2: 2, 4: 3, 6: 1, 7: 1}
		hist, _ := histFor(idType, []int{1, 2, 4, 6, 7}, []pdesc{{1, 1, []int{1, 2, 4}}, {2, 1, []int{6, 2, 4}}, {3, 1, []int{7, 2, 4}}})
		beh := [][]int{{5}, {0}, {0}, {5}, {0}}
		cs = append(cs, config{"c7-equal-errors-sentinel", hist, beh, nil})
	}
	// c8: aggregate error values: a bare multierror with two components, an empty one, one wrapped with %w
	{
		idType := map[int]int{1: 1, 2: 2, 4: 3, 6: 1, 7: 4}
		hist, _ := histFor(idType, []int{1, 2, 4, 6, 7}, []pdesc{{1, 1, []int{1, 2, 4}}, {2, 1, []int{6, 2, 4}}, {3, 1, []int{7, 4}}})
		beh := [][]int{{72}, {0}, {0}, {70}, {83}}
		cs = append(cs, config{"c8-aggregate-errors", hist, beh, nil})
	}
	return cs
}

func randomSmallConfig(r *hc.Rand, i int) config {
	np := 1 + r.Intn(3)
	idType := map[int]int{}
	var ids []int
	var pipes []pdesc
	for p := 0; p < np; p++ {
		l := 2 + r.Intn(2)
		base := 10 * (p + 1)
		var pl []int
		if l == 3 {
			f := base + 1
			if p > 0 && r.Chance(1, 3) {
				f = 11 // share the first pipeline's filter id if it exists
				if idType[11] == 0 {
					f = base + 1
				}
			}
			if idType[f] == 0 {
				idType[f] = 1
				ids = append(ids, f)
			}
			pl = append(pl, f)
		}
		idType[base+2] = []int{2, 4}[r.Intn(2)]
		ids = append(ids, base+2)
		s := base + 3
		if p > 0 && r.Chance(1, 2) {
			s = 13
		}
		if idType[s] == 0 {
			idType[s] = 3
			ids = append(ids, s)
		}
		pl = append(pl, base+2, s)
		pipes = append(pipes, pdesc{Pid: p + 1, Ety: 1, IDs: pl})
	}
	hist, o := histFor(idType, ids, pipes)
	beh := make([][]int, len(ids))
	var gate []int
	for _, id := range ids {
		n := 1 + r.Intn(3)
		for j := 0; j < n; j++ {
			beh[o[id]-1] = append(beh[o[id]-1], []int{0, 0, 0, 1, 2, 3, 3, 4, 5, 6, 70, 71, 72, 83, 8, 90, 92, 96}[r.Intn(18)])
		}
		if r.Chance(1, 6) {
			gate = append(gate, o[id])
		}
	}
	return config{name: "rnd", hist: hist, beh: beh, gate: gate}
}

func genCancel(e *emitter, r *hc.Rand, nRandom, reps int) int {
	cfgs := fixedConfigs()
	for i := 0; i < nRandom; i++ {
		cfgs = append(cfgs, randomSmallConfig(r, i))
	}
	forced := 0
	for _, cfg := range cfgs {
		// uncancelled reference run: its outcome fixes the thresholds so that lost entries turn into errors
		ref := e.run(Case{Gen: "cancel-ref:" + cfg.name, Hist: cfg.hist, Ety: 1, Beh: cfg.beh, Gate: cfg.gate})
		hist := append(append([]Op{}, cfg.hist...), Op{K: "thr", Ety: 1, V: int64(len(ref.Complete))}, Op{K: "thrs", Ety: 1, V: int64(len(ref.Sinks))})
		seen := map[Point]bool{}
		var pts []Point
		for _, p := range ref.Points {
			if !seen[p] {
				seen[p] = true
				pts = append(pts, p)
			}
		}
		for mode := 0; mode <= 2; mode++ {
			e.run(Case{Gen: "cancel-pre:" + cfg.name, Hist: hist, Ety: 1, Beh: cfg.beh, Gate: cfg.gate, Sched: Sched{Pre: true, Mode: mode}})
		}
		for i := range pts {
			pt := pts[i]
			for mode := 0; mode <= 2; mode++ {
				for rep := 0; rep < reps; rep++ {
					var jit uint64
					if rep > 0 {
						jit = r.U64() | 1
					}
					e.run(Case{Gen: "cancel:" + cfg.name, Hist: hist, Ety: 1, Beh: cfg.beh, Gate: cfg.gate,
						Sched: Sched{CancelAt: &pt, Mode: mode, Jitter: jit}})
					forced++
				}
			}
		}
	}
	return forced
}

// ---------- random registries, behaviours and schedules ----------
func genRandom(e *emitter, r *hc.Rand, n int) {
	for i := 0; i < n; i++ {
		idType := map[int]int{1: 1, 2: 1, 3: 2, 4: 4, 5: 3, 6: 3}
		if r.Chance(1, 5) {
			// one of the nodes that sit in inner positions reports a NodeType outside the declared constants
			idType[1+r.Intn(2)] = 6 + r.Intn(4)
		}
		var ops []Op
		for id := 1; id <= 6; id++ {
			ops = append(ops, Op{K: "regnode", ID: id, Ty: idType[id]})
		}
		randPipe := func() []int {
			var pl []int
			nf := r.Intn(4)
			for j := 0; j < nf; j++ {
				if r.Chance(1, 4) {
					// any node type may sit in an inner position (a sink or formatter that passes the event on must
					// be followed by its successor like any other node)
					pl = append(pl, 3+r.Intn(4))
				} else {
					pl = append(pl, 1+r.Intn(2))
				}
			}
			return append(pl, 3+r.Intn(2), 5+r.Intn(2))
		}
		steps := 2 + r.Intn(7)
		for s := 0; s < steps; s++ {
			x := r.Intn(100)
			switch {
			case x < 55:
				pol := 0
				if r.Chance(1, 8) {
					pol = 2
				}
				ids := randPipe()
				if r.Chance(1, 6) {
					// a definition that is refused after validation (ill-formed shape / unregistered node): a failed
					// (over)registration must leave what Send dispatches to unchanged
					if r.Bool() {
						ids = ids[:len(ids)-1]
					} else {
						ids[r.Intn(len(ids))] = 9
					}
				}
				ops = append(ops, Op{K: "regpipe", Pid: 1 + r.Intn(4), Ety: 1 + r.Intn(3), IDs: ids, Pol: pol})
			case x < 65:
				ops = append(ops, Op{K: "rmpipe", Pid: 1 + r.Intn(4), Ety: 1 + r.Intn(3)})
			case x < 72:
				// re-register a node id with a new object: pipelines registered before keep the old one
				id := 1 + r.Intn(6)
				ops = append(ops, Op{K: "regnode", ID: id, Ty: idType[id]})
				// ... and a pipeline registered again with the very same definition must be linked with the new object
				if r.Chance(1, 2) {
					for k := len(ops) - 2; k >= 0; k-- {
						if ops[k].K == "regpipe" {
							ops = append(ops, ops[k])
							break
						}
					}
				}
			case x < 76:
				ops = append(ops, Op{K: "rmnode", ID: 1 + r.Intn(6)})
			case x < 80:
				ops = append(ops, Op{K: "rpan", Pid: 1 + r.Intn(4), Ety: 1 + r.Intn(3)})
				// the nodes it removed are registered again so later pipelines can use them
				for id := 1; id <= 6; id++ {
					if r.Chance(1, 2) {
						ops = append(ops, Op{K: "regnode", ID: id, Ty: idType[id]})
					}
				}
			case x < 90:
				ops = append(ops, Op{K: "thr", Ety: 1 + r.Intn(3), V: int64(r.Intn(6) - 1)})
			default:
				ops = append(ops, Op{K: "thrs", Ety: 1 + r.Intn(3), V: int64(r.Intn(6) - 1)})
			}
		}
		hist, nobj := numberObjs(ops)
		beh := make([][]int, nobj)
		var gate []int
		for o := 0; o < nobj; o++ {
			l := 1 + r.Intn(3)
			for j := 0; j < l; j++ {
				beh[o] = append(beh[o], []int{0, 0, 0, 0, 0, 0, 0, 1, 1, 2, 3, 3, 4, 5, 6, 70, 71, 72, 73, 80, 82, 8, 8, 90, 91, 92, 93, 94, 95, 96, 97, 98, 120, 121, 122, 123}[r.Intn(36)])
			}
			if r.Chance(1, 12) {
				gate = append(gate, o+1)
			}
		}
		gen := "random"
		if r.Chance(1, 4) && nobj >= 2 {
			// equal error values: the shared filters (objects 1 and 2) fail in every pipeline they head, with the node's
			// stored error or the package-level sentinel, and every other error of the configuration is the sentinel too
			gen = "random-equal-errors"
			beh[0] = []int{5 + r.Intn(2)}
			beh[1] = []int{0, 5}
			for o := 2; o < nobj; o++ {
				for j := range beh[o] {
					if beh[o][j] == 3 {
						beh[o][j] = 5
					}
				}
			}
		}
		et := 1 + r.Intn(3)
		c := Case{Gen: gen, Hist: hist, Ety: et, Beh: beh, Gate: gate, Sched: Sched{Jitter: r.U64() | 1}}
		ref := e.run(c)
		// cancelled variants at positions of the reference run
		if len(ref.Points) == 0 {
			if r.Chance(1, 2) {
				c.Sched = Sched{Pre: true}
				c.Gen = "random-pre"
				e.run(c)
			}
			continue
		}
		k := 1 + r.Intn(3)
		for j := 0; j < k; j++ {
			if r.Chance(1, 10) {
				c.Sched = Sched{Pre: true, Mode: r.Intn(3), Jitter: r.U64() | 1}
				c.Gen = "random-pre"
			} else {
				pt := ref.Points[r.Intn(len(ref.Points))]
				c.Sched = Sched{CancelAt: &pt, Mode: r.Intn(3), Jitter: r.U64() | 1}
				c.Gen = "random-cancel"
			}
			e.run(c)
		}
	}
}
