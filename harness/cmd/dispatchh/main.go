// dispatchh — correspondence driver for the dispatch protocol of Broker.Send (C01, C02, C03).
//
// It builds registries through the public Broker API, runs Send on the real code (built from the tree under test
// with -tags verif), records — through the verifPoint callback — the labelled trace of the protocol steps, forces
// cancellation at semantic hook positions and both hand-off orders, and prints cases_*.v files whose traces the Coq
// acceptor Run_Dispatch.mismatches replays through the model of Dispatch.v.
package main

import (
	"context"
	"encoding/json"
	"errors"
	"flag"
	"fmt"
	"io"
	"os"
	"runtime"
	"sort"
	"strings"
	"sync"
	"syscall"
	"time"

	el "github.com/hashicorp/eventlogger"
	"github.com/hashicorp/go-multierror"
	"verifharness/hc"
)

// ---------- case description (input) ----------
type Op struct {
	K   string `json:"k"` // regnode rmnode regpipe rmpipe rpan thr thrs
	ID  int    `json:"id,omitempty"`
	Obj int    `json:"obj,omitempty"`
	Ty  int    `json:"ty,omitempty"`  // 1 filter 2 formatter 3 sink 4 formatterfilter; undeclared values: 5 NodeType(9), 6 (0), 7 (5), 8 (99), 9 (-1)
	Pol int    `json:"pol,omitempty"` // 0 none 1 allow 2 deny
	Pid int    `json:"pid,omitempty"`
	Ety int    `json:"ety,omitempty"`
	IDs []int  `json:"ids,omitempty"`
	V   int64  `json:"v,omitempty"`
}

// Point is a semantic position of the protocol: the occ-th time hook Hook fires for node K of pipeline P
// (P = K = 0 for the hooks of the collector and of the range goroutine that carry no node).
type Point struct {
	Hook string `json:"hook"`
	P    int    `json:"p"`
	K    int    `json:"k"`
	Occ  int    `json:"occ"`
}

// callerCtx is a caller's context of a type of its own (nothing from the context package inside): contexts derived from it
// with context.WithCancel need a goroutine of the context package to propagate its cancellation.
type callerCtx struct {
	mu   sync.Mutex
	done chan struct{}
	err  error
}

func newCallerCtx() *callerCtx { return &callerCtx{done: make(chan struct{})} }
func (c *callerCtx) Deadline() (time.Time, bool)       { return time.Time{}, false }
func (c *callerCtx) Done() <-chan struct{}             { return c.done }
func (c *callerCtx) Value(key interface{}) interface{} { return nil }
func (c *callerCtx) Err() error {
	c.mu.Lock()
	defer c.mu.Unlock()
	return c.err
}
func (c *callerCtx) cancel() {
	c.mu.Lock()
	defer c.mu.Unlock()
	if c.err == nil {
		c.err = context.Canceled
		close(c.done)
	}
}

// Sched is the schedule script of one run.
type Sched struct {
	Pre      bool   `json:"pre,omitempty"`       // cancel before Send is called
	CancelAt *Point `json:"cancel_at,omitempty"` // cancel inside the callback of this hook position
	// Mode: 0 free; 1 collector leaves first (after the cancel every sender is held at send.before until the
	// collector has left); 2 senders first (after the cancel the collector is held at collector.select until
	// every started invocation has exited).
	Mode   int    `json:"mode,omitempty"`
	Jitter uint64 `json:"jitter,omitempty"` // seed of random yields at hook points (0: none)
	// (7 context.Background() itself — scripts without cancellation only; 8 a context.WithDeadline in the past — pre-cancelled
	// scripts only)
	// Ctx: the caller's context is 1 a context.WithCancel(context.Background()), 2 a context type of the caller's own
	// (callerCtx), 3 a context.WithCancelCause cancelled with a cause of the caller's own, 4 a context.WithTimeoutCause
	// (expired before Send when Pre, else cancelled through its CancelFunc), 5 a context.WithCancel child of a kind-3
	// context whose parent is cancelled with a cause, 6 a context.WithDeadlineCause (as 4);
	// 0 = not fixed by the script: the driver rotates
	Ctx int `json:"ctx,omitempty"`
	// HoldGate: the gated nodes of this Send stay parked inside Process until the NEXT Send of the sequence has returned
	// (or its watchdog fired); this Send is cancelled while they are parked
	HoldGate bool `json:"hold_gate,omitempty"`
	// Caller: 0 Send is called from a goroutine of its own, 1 from the one goroutine that calls all such Sends of the
	// sequence back to back
	Caller int `json:"caller,omitempty"`
	// Detach (with HoldGate, no cancellation): the driver does not wait for this Send to return — only until its gated node is
	// parked inside Process; the Send stays IN FLIGHT (mid-walk when the gated node is a root) during the next step and is let
	// go, and must then return, after it
	Detach bool `json:"detach,omitempty"`
}

// Step is a further Send on the same Broker: registry calls made after the previous Send, then the Send.
type Step struct {
	Ops []Op `json:"ops,omitempty"`
	// Async: registry calls a third party makes on a goroutine of its own after Ops and before this step's Send — while the
	// previous Send of the sequence may still have a node parked inside Process; the driver gives them 30 ms to finish
	// or block, then calls Send; they count as made before the Send (on a correct tree they finish at once)
	Async []Op `json:"async,omitempty"`
	// StressMs: before Ops, for this many milliseconds, four goroutines Send events of type StressEty as fast as they can
	// while a fifth toggles both thresholds of that type; unrecorded (no trace); every one of those Sends must return
	// Callback step (before Ops): CbOps are Broker calls that run node callbacks — {"k":"reopen"} (Broker.Reopen -> Reopen()),
	// rmnode / rpan (-> Close()); the first node among CbObjs (any node when empty) whose callback runs starts CbWriter on another
	// goroutine, waits 60 ms and calls Send(CbEty) with a 300 ms timeout from inside the callback. The Broker call, the writer
	// and that Send must all return.
	CbOps    []Op  `json:"cb_ops,omitempty"`
	CbWriter []Op  `json:"cb_writer,omitempty"`
	CbObjs   []int `json:"cb_objs,omitempty"`
	CbEty    int   `json:"cb_ety,omitempty"`
	StressMs  int `json:"stress_ms,omitempty"`
	StressEty int `json:"stress_ety,omitempty"`
	Ety   int   `json:"ety"`
	Gate  []int `json:"gate,omitempty"`
	Sched Sched `json:"sched"`
}

// behaviour codes of a harness node per visit: 0 pass (return the event), 1 replace (return a fresh event),
// 2 drop (nil, nil), 3 error (nil, err), 4 event and error, 5 error: a package-level sentinel value, 6 error: the node's stored value,
// 70+k error: a bare *multierror.Error holding k errors (k = 0..3), 80+k error: such a multierror wrapped with %w,
// 8 the same event mutated (FormattedAs) and returned, 90..97 well-known / odd error values (see stdErr),
// 100+j the node makes the registry call Reent[j] of the case from inside Process and passes the event on,
// 120..124 a different, only partially filled event (no Type / zero CreatedAt / nil format table / payload only / no payload),
// 110 / 111 / 112 the node writes the exported field Formatted[k] / Payload / Type of the Event directly and passes it on
type Case struct {
	ID    int     `json:"id"`
	Gen   string  `json:"gen"`
	Hist  []Op    `json:"hist"`
	Ety   int     `json:"ety"`
	Beh   [][]int `json:"beh"`            // Beh[obj-1] = behaviour codes by visit number (cyclic)
	Gate  []int   `json:"gate,omitempty"` // objects whose Process blocks until Send has returned
	Sched Sched   `json:"sched"`
	Then  []Step  `json:"then,omitempty"` // further registry calls and Sends on the same Broker
	// Reent: registry calls the nodes themselves make from inside Process (behaviour code 100+j makes call Reent[j], then
	// passes the event on)
	Reent []Op `json:"reent,omitempty"`
	// Payload of every Send of the case: 0 a fresh pointer, 1 nil, 2 a string, 3 a struct value, 4 an *Event of the type sent,
	// 5 an *Event of another type, 6 a nil *Event
	Payload int `json:"payload,omitempty"`
	// Clock: 0 the Broker's clock is left alone, 1 StopTimeAt(a fixed instant in the past), 2 StopTimeAt(the zero time),
	// 3 StopTimeAt(2100-01-01: later than the deadline of the live deadline-carrying caller contexts), 4 StopTimeAt(now)
	Clock int `json:"clock,omitempty"`
	// SendIndex says which Send of the sequence an emitted record describes (0 = the first)
	SendIndex int `json:"send_index,omitempty"`
}

// Names. Identifier i < 100 is "<prefix><i>"; i = 100*v + b (v = 1..6) is a look-alike TWIN of identifier b that is
// nevertheless a different string: v = 1 other case, 2 surrounded by white space, 3 trailing NUL, 4 a non-ASCII twin
// (full-width letter), 5 the name with a suffix (b's name is a prefix of it), 6 a long name (>= 300 bytes) sharing b's
// name as prefix. The model knows them as different numbers; any normalisation, trimming or prefix matching in the library
// makes the implementation disagree with it.
var nameOf sync.Map // string -> int

func name(prefix string, i int) string {
	if i == 0 {
		return ""
	}
	b, v := i%100, i/100
	base := fmt.Sprintf("%s%d", prefix, b)
	s := base
	switch v {
	case 1:
		s = strings.ToUpper(base)
	case 2:
		s = " " + base + "\t"
	case 3:
		s = base + "\x00"
	case 4:
		s = string(rune(0xFF41+int(prefix[0]-'a'))) + base[1:] // full-width twin of the first letter
	case 5:
		s = base + "0x"
	case 6:
		s = base + "." + strings.Repeat("z", 300)
	}
	nameOf.Store(s, i)
	return s
}
func nid(i int) el.NodeID     { return el.NodeID(name("n", i)) }
func pid(i int) el.PipelineID { return el.PipelineID(name("p", i)) }
func ety(i int) el.EventType  { return el.EventType(name("t", i)) }
func unN(s string) int {
	if s == "" {
		return 0
	}
	if v, ok := nameOf.Load(s); ok {
		return v.(int)
	}
	return 99999 // a string the harness never produced
}
func ntype(t int) el.NodeType {
	switch t {
	case 1:
		return el.NodeTypeFilter
	case 2:
		return el.NodeTypeFormatter
	case 3:
		return el.NodeTypeSink
	case 4:
		return el.NodeTypeFormatterFilter
	// values outside the four declared constants (registrable in every position the validation does not look at)
	case 6:
		return el.NodeType(0)
	case 7:
		return el.NodeType(5)
	case 8:
		return el.NodeType(99)
	case 9:
		return el.NodeType(-1)
	}
	return el.NodeType(9)
}
func polOpt(p int, node bool) []el.Option {
	var pol el.RegistrationPolicy
	switch p {
	case 0:
		return nil
	case 1:
		pol = el.AllowOverwrite
	case 2:
		pol = el.DenyOverwrite
	default:
		pol = el.RegistrationPolicy("NoSuchPolicy")
	}
	if node {
		return []el.Option{el.WithNodeRegistrationPolicy(pol)}
	}
	return []el.Option{el.WithPipelineRegistrationPolicy(pol)}
}

// ---------- harness node ----------
// herr is the error a harness node returns; some of them wrap a context error of the node's own making (a node with an
// internal timeout), which must be reported as a warning like any other error while Send's own context is live
type herr struct{ id int }

func (e *herr) Error() string {
	if e == nil {
		return "harness error (typed nil)"
	}
	return fmt.Sprintf("harness error %d", e.id)
}
func (e *herr) Unwrap() error {
	if e == nil {
		return nil
	}
	switch e.id % 3 {
	case 0:
		return context.DeadlineExceeded
	case 1:
		return context.Canceled
	}
	return nil
}

var sharedErrs sync.Map // obj -> *herr

var errSentinel error = regErr(&herr{id: 999998}, 999998)

var sharedErrMu sync.Mutex

// one stored error value per node object; created and registered under one lock (a second caller must never see the value
// before its identity is registered)
func (n *hnode) sharedErr() error {
	sharedErrMu.Lock()
	defer sharedErrMu.Unlock()
	if v, ok := sharedErrs.Load(n.obj); ok {
		return v.(*herr)
	}
	h := &herr{id: n.obj*1000 + 999}
	regErr(h, n.obj*1000+999)
	sharedErrs.Store(n.obj, h)
	return h
}

type hnode struct {
	obj    int
	typ    el.NodeType
	beh    []int
	w      *world
	visits int
}

// vnode is a Node implemented with VALUE receivers and registered by value (every third object): the library must treat
// it like any other node
type vnode struct{ h *hnode }

func (v vnode) Reopen() error                   { return v.h.Reopen() }
func (v vnode) Close(ctx context.Context) error { return v.h.Close(ctx) }
func (v vnode) Type() el.NodeType { return v.h.typ }
func (v vnode) Process(ctx context.Context, e *el.Event) (*el.Event, error) {
	return v.h.Process(ctx, e)
}
func objOf(n el.Node) int {
	switch x := n.(type) {
	case *hnode:
		return x.obj
	case vnode:
		return x.h.obj
	}
	return 0
}

func (n *hnode) Reopen() error                   { n.w.callbackSend(n.obj); return nil }
func (n *hnode) Close(ctx context.Context) error { n.w.callbackSend(n.obj); return nil }

// callbackSend: while a callback step is armed, the first armed node whose Reopen / Close runs starts the step's third-party
// write-locking call on a goroutine of its own, waits 60 ms, and then calls Send (context with a 300 ms timeout) from inside the
// callback; whether and when that Send returned is recorded
func (w *world) callbackSend(obj int) {
	w.cbMu.Lock()
	cb := w.cb
	if cb == nil || cb.fired || (len(cb.objs) > 0 && !cb.objs[obj]) {
		w.cbMu.Unlock()
		return
	}
	cb.fired = true
	w.cbMu.Unlock()
	go func() {
		defer close(cb.writerDone)
		for _, op := range cb.writer {
			w.apply(op, w.c)
		}
	}()
	time.Sleep(60 * time.Millisecond)
	ctx, cancel := context.WithTimeout(context.Background(), 300*time.Millisecond)
	defer cancel()
	start := time.Now()
	_, _ = w.b.Send(ctx, ety(cb.ety), "sent from inside a node callback")
	w.cbMu.Lock()
	cb.sendReturned = true
	cb.sendTook = time.Since(start)
	w.cbMu.Unlock()
	close(cb.sendDone)
}

type cbState struct {
	ety                  int
	objs                 map[int]bool
	writer               []Op
	fired, sendReturned  bool
	sendTook             time.Duration
	writerDone, sendDone chan struct{}
}
func (n *hnode) Type() el.NodeType { return n.typ }
func (n *hnode) Process(ctx context.Context, e *el.Event) (*el.Event, error) {
	r := n.w.recFor(ctx, e)
	if r == nil {
		return e, nil
	}
	r.mu.Lock()
	visit := n.visits
	n.visits++
	eid := r.internEv(e)
	r.nodecalls = append(r.nodecalls, [2]int{n.obj, eid})
	code := 0
	if len(n.beh) > 0 {
		code = n.beh[visit%len(n.beh)]
	}
	r.inProcess++
	r.mu.Unlock()
	if r.gate[n.obj] {
		r.waitGate()
	}
	var out *el.Event
	var err error
	switch code {
	case 0:
		out = e
	case 1:
		out = &el.Event{Type: e.Type, CreatedAt: e.CreatedAt, Formatted: map[string][]byte{}, Payload: e.Payload}
	case 2:
	case 3:
		if n.obj%2 == 0 {
			// the same error VALUE whenever this node fails (a stored / sentinel error): equal warnings of different
			// pipelines are still one warning each
			err = n.sharedErr()
		} else {
			err = regErr(&herr{id: n.obj*1000 + visit + 1}, n.obj*1000+visit+1)
		}
	case 4:
		out = e
		err = regErr(&herr{id: n.obj*1000 + visit + 1}, n.obj*1000+visit+1)
	case 5:
		// one package-level sentinel returned by whichever node fails this way (like io.ErrShortWrite)
		err = errSentinel
	case 6:
		// this node's stored error: the identical value in every pipeline that runs through the node
		err = n.sharedErr()
	case 70, 71, 72, 73, 80, 81, 82, 83:
		// an aggregate error (bare *multierror.Error with 0..3 components, or one wrapped with %w): still ONE error value
		err = aggregate(n.obj, visit, code)
	case 8:
		// the SAME event, mutated (what a formatter does) and returned
		e.FormattedAs(fmt.Sprintf("by-%d", n.obj), []byte{byte(visit)})
		out = e
	case 90, 91, 92, 93, 94, 95, 96, 97, 98:
		err = stdErr(n.obj, visit, code)
	case 120, 121, 122, 123, 124:
		// a DIFFERENT event that is only partially filled: 120 no Type, 121 zero CreatedAt, 122 nil format table, 123 nothing but
		// the payload, 124 everything but the payload — the next node must get exactly this, nothing filled in
		ne := &el.Event{Type: e.Type, CreatedAt: e.CreatedAt, Formatted: map[string][]byte{"k": {byte(n.obj)}}, Payload: e.Payload}
		switch code {
		case 120:
			ne.Type = ""
		case 121:
			ne.CreatedAt = time.Time{}
		case 122:
			ne.Formatted = nil
		case 123:
			ne = &el.Event{Payload: e.Payload}
		case 124:
			ne.Payload = nil
		}
		out = ne
	case 110:
		// writes the exported format table directly (no FormattedAs): must stay private to this Send's Event
		if e.Formatted == nil {
			e.Formatted = map[string][]byte{}
		}
		e.Formatted[fmt.Sprintf("direct-%d", n.obj)] = []byte{1}
		out = e
	case 111:
		r.mu.Lock()
		r.dirtied = true
		r.mu.Unlock()
		e.Payload = fmt.Sprintf("overwritten by %d", n.obj)
		out = e
	case 112:
		r.mu.Lock()
		r.dirtied = true
		r.mu.Unlock()
		e.Type = el.EventType("overwritten")
		out = e
	default:
		if code >= 100 && code < 110 {
			// a registry call from inside Process, during the fan-out (one at a time, recorded in the order made)
			if j := code - 100; j < len(n.w.reent) {
				n.w.reentMu.Lock()
				n.w.apply(n.w.reent[j], n.w.c)
				r.mu.Lock()
				r.during = append(r.during, n.w.reent[j])
				r.mu.Unlock()
				n.w.reentMu.Unlock()
			}
			out = e
		}
	}
	r.mu.Lock()
	r.inProcess--
	r.last = time.Now()
	if out != nil {
		if _, known := r.fresh[out]; known || out != e {
			// an event a harness node made: remember what exactly was returned (re-recorded whenever a node returns it again)
			r.fresh[out] = fingerprint(out, r.payload)
		}
	}
	nr := tev{K: "ret", Obj: n.obj, Ein: eid, Out: "drop"}
	if err != nil {
		nr.Out, nr.Ev = "err", errID(err)
	} else if out != nil {
		nr.Out, nr.Ev = "pass", r.internEv(out)
	}
	r.noderets = append(r.noderets, nr)
	r.mu.Unlock()
	return out, err
}

// ---------- recorded trace ----------
type tev struct {
	K   string `json:"e"`
	P   int    `json:"p,omitempty"`
	Pos int    `json:"k,omitempty"`
	Obj int    `json:"obj,omitempty"`
	Ein int    `json:"ein,omitempty"`
	Out string `json:"out,omitempty"` // pass drop err
	Ev  int    `json:"ev,omitempty"`  // identity of the event returned / of the error
	Cs  []int  `json:"cs,omitempty"`
	Sk  []int  `json:"sk,omitempty"`
	Ws  []int  `json:"ws,omitempty"`
}

func (e tev) lit() string {
	switch e.K {
	case "cancel":
		return "EvCancel"
	case "start":
		return "EvStart " + hc.N(e.P)
	case "call":
		return fmt.Sprintf("EvCall %s %s %s %s", hc.N(e.P), hc.N(e.Pos), hc.N(e.Obj), hc.N(e.Ein))
	case "ret":
		o := "ODrop"
		switch e.Out {
		case "pass":
			o = "(OPass " + hc.N(e.Ev) + ")"
		case "err":
			o = "(OErr " + hc.N(e.Ev) + ")"
		}
		return fmt.Sprintf("EvRet %s %s %s", hc.N(e.P), hc.N(e.Pos), o)
	case "delivered":
		return fmt.Sprintf("EvDelivered %s %s", hc.N(e.P), hc.N(e.Pos))
	case "aborted":
		return fmt.Sprintf("EvAborted %s %s", hc.N(e.P), hc.N(e.Pos))
	case "exit":
		return fmt.Sprintf("EvExit %s %s", hc.N(e.P), hc.N(e.Pos))
	case "wait":
		return "EvWait"
	case "close":
		return "EvClose"
	case "ctxdone":
		return "EvCtxDone"
	case "closedseen":
		return "EvClosedSeen"
	case "recv":
		return fmt.Sprintf("EvRecv %s %s %s", hc.NList(e.Cs), hc.NList(e.Sk), hc.NList(e.Ws))
	case "returned":
		return "EvReturned"
	}
	panic("event " + e.K)
}

type pkey struct {
	h    string
	p, k int
}

type rec struct {
	mu        sync.Mutex
	ch        interface{}
	refs      map[interface{}][2]int
	refObj    map[interface{}]int
	events    []tev
	points    []Point
	occ       map[pkey]int
	evIDs     map[*el.Event]int
	nodecalls [][2]int
	noderets  []tev
	sched     Sched
	cancel    func()
	rnd       *hc.Rand

	done, cancelled, collectorLeft, returned, closeSeen bool
	delivered, recvd, starts, exits, inProcess          int
	last, cancelTime, returnTime                        time.Time
	holdTimeouts, recvTimeouts, unknownRefs             int
	event0ok                                            bool
	sentType                                            el.EventType
	payload                                             interface{}
	t0                                                  time.Time
	gateReleased                                        bool
	gate                                                map[int]bool
	clock                                               *time.Time
	anyCall                                             bool
	fresh                                               map[*el.Event]string // events made by harness nodes -> content when last returned
	lazy                                                bool // the registry snapshot is taken at the first hook callback
	lazyRes                                             *Result
	duringThird                                         []Op // registry calls a third party made while this Send was in flight
	parked                                              bool // a gated node of this Send is inside Process
	dirtied                                             bool // a node of this Send overwrote Payload / Type of the shared Event
	during                                              []Op // registry calls made by nodes during this Send
	w                                                   *world
}

// fingerprint of an event's content: Type, CreatedAt, whether the format table exists and its keys, whether Payload is the sent one
func fingerprint(e *el.Event, sent interface{}) string {
	keys := make([]string, 0, len(e.Formatted))
	for k := range e.Formatted {
		keys = append(keys, k)
	}
	sort.Strings(keys)
	same := false
	func() {
		defer func() { _ = recover() }()
		same = e.Payload == sent
	}()
	return fmt.Sprintf("%q|%d|%v|%v|%v|%v", e.Type, e.CreatedAt.UnixNano(), e.CreatedAt.IsZero(), e.Formatted == nil, keys, same)
}

func (r *rec) internEv(e *el.Event) int {
	if e == nil {
		return 0
	}
	if id, ok := r.evIDs[e]; ok {
		return id
	}
	id := len(r.evIDs) + 1
	r.evIDs[e] = id
	return id
}

// Error identities: every error value a harness node may return (and every component of an aggregate it returns) is
// registered under a number; a warning is identified by the VALUE itself (interface equality), never by what it wraps,
// so an aggregate error taken apart, or replaced by one of its components, shows up as different identities.
var errReg sync.Map // error value -> id
var errSeq struct {
	sync.Mutex
	n int
}

func regErr(e error, id int) error {
	errReg.Store(e, id)
	return e
}
func freshErrID() int {
	errSeq.Lock()
	defer errSeq.Unlock()
	errSeq.n++
	return 2000000 + errSeq.n
}
func errID(err error) (id int) {
	defer func() {
		if recover() != nil { // an error of a non-comparable dynamic type
			id = 0
		}
	}()
	if v, ok := errReg.Load(err); ok {
		return v.(int)
	}
	return 0
}

// well-known and odd error values (codes 90..97): a bare standard sentinel, a sentinel wrapped with %w, the context
// package's own errors returned by a node of its own accord, a custom comparable type with Is / Timeout / Temporary,
// errors.Join, a typed nil pointer inside the error interface, an *os.PathError around a syscall error
type derefErr struct{ msg string }

func (e *derefErr) Error() string { return e.msg } // panics on a nil receiver, like most pointer-receiver Error methods

type oddErr struct{ n int }

func (e oddErr) Error() string        { return fmt.Sprintf("odd error %d", e.n) }
func (e oddErr) Is(target error) bool { return target == io.ErrUnexpectedEOF || target == context.Canceled }
func (e oddErr) Timeout() bool        { return true }
func (e oddErr) Temporary() bool      { return true }

func stdErr(obj, visit, code int) error {
	fixed := func(e error, id int) error {
		if _, ok := errReg.Load(e); !ok {
			regErr(e, id)
		}
		return e
	}
	switch code {
	case 90:
		return fixed(io.EOF, 999990)
	case 91:
		return regErr(fmt.Errorf("node %d: %w", obj, io.ErrShortWrite), freshErrID())
	case 92:
		return fixed(context.Canceled, 999992)
	case 93:
		return fixed(context.DeadlineExceeded, 999993)
	case 94:
		return regErr(oddErr{obj*1000 + visit}, freshErrID())
	case 95:
		return regErr(errors.Join(regErr(&herr{id: obj*1000 + 700 + visit}, freshErrID()), io.ErrClosedPipe), freshErrID())
	case 96:
		// a typed nil pointer inside the error interface whose Error() dereferences the receiver: nobody may call it
		var typedNil *derefErr
		return fixed(typedNil, 999996)
	case 98:
		// the classic: `var merr *multierror.Error; return nil, merr` (its Error() panics on the nil receiver)
		var merr *multierror.Error
		return fixed(merr, 999998+1000)
	}
	return regErr(&os.PathError{Op: "write", Path: "/dev/null", Err: syscall.ENOSPC}, freshErrID())
}

// aggregate builds the value a node returns for the behaviour codes 70..73 (a bare *multierror.Error holding k errors) and
// 80..83 (the same wrapped with fmt.Errorf("%w")); its components are registered under identities of their own
func aggregate(obj, visit, code int) error {
	k := code % 10
	m := &multierror.Error{}
	for i := 0; i < k; i++ {
		m.Errors = append(m.Errors, regErr(&herr{id: obj*1000 + 500 + 10*visit + i}, freshErrID()))
	}
	if code >= 80 {
		regErr(m, freshErrID())
		return regErr(fmt.Errorf("node %d: %w", obj, m), freshErrID())
	}
	return regErr(m, freshErrID())
}

// waitUntil polls cond (evaluated under the lock) until it holds or the timeout expires
func (r *rec) waitUntil(cond func() bool, d time.Duration) bool {
	deadline := time.Now().Add(d)
	for {
		r.mu.Lock()
		ok := cond() || r.done
		r.mu.Unlock()
		if ok {
			return true
		}
		if time.Now().After(deadline) {
			r.mu.Lock()
			r.holdTimeouts++
			r.mu.Unlock()
			return false
		}
		time.Sleep(20 * time.Microsecond)
	}
}

// a gated node stays inside Process until Send has returned (so that Send must return while nodes are running)
func (r *rec) waitGate() {
	start := time.Now()
	for {
		r.mu.Lock()
		hold := r.sched.HoldGate
		free := r.done || r.gateReleased || (!hold && (r.returned || (r.cancelled && r.sched.Mode == 2)))
		// no cancellation will come (or it sits behind this node): do not block an uncancelled Send for ever
		if !free && !r.cancelled && !(hold && r.sched.Detach) && time.Since(start) > 30*time.Millisecond {
			free = true
		}
		r.parked = true
		if !free && time.Since(start) > 10*time.Second {
			free = true
		}
		r.mu.Unlock()
		if free {
			return
		}
		time.Sleep(50 * time.Microsecond)
	}
}

func (r *rec) emit(e tev) { r.events = append(r.events, e) }

func (r *rec) hook(name string, args ...interface{}) {
	if len(args) == 0 {
		return
	}
	r.mu.Lock()
	if r.done {
		r.mu.Unlock()
		return
	}
	p, k := 0, 0
	var ref interface{}
	switch name {
	case "range.check", "root.start", "task.exit", "node.call", "node.ret", "send.before", "send.aborted", "send.delivered", "spawn":
		ref = args[1]
		pk, ok := r.refs[ref]
		if !ok && (len(r.during) > 0 || len(r.duringThird) > 0 || r.lazy) && r.w != nil {
			// a pipeline was registered during this Send (or the snapshot is taken lazily): learn the linked nodes
			first := r.lazy && r.lazyRes != nil && len(r.refs) == 0
			r.mu.Unlock()
			roots, _ := r.w.b.VerifRoots(r.sentType)
			r.mu.Lock()
			var snap []snapPipe
			for id, chain := range roots {
				sp := snapPipe{Pid: unN(string(id))}
				for kk, l := range chain {
					if _, known := r.refs[l.Ref]; !known {
						r.refs[l.Ref] = [2]int{unN(string(id)), kk}
						r.refObj[l.Ref] = objOf(l.Node)
					}
					sp.Nodes = append(sp.Nodes, snapNode{ID: unN(string(l.ID)), Obj: objOf(l.Node), Sink: l.Node.Type() == el.NodeTypeSink})
				}
				snap = append(snap, sp)
			}
			if first {
				sort.Slice(snap, func(i, j int) bool { return snap[i].Pid < snap[j].Pid })
				r.lazyRes.Snapshot = snap
			}
			pk, ok = r.refs[ref]
		}
		if !ok {
			r.unknownRefs++
			p, k = 9999, 0
		} else {
			p, k = pk[0], pk[1]
		}
	}
	if name == "collector.recv" && args[1].(bool) {
		// the sender's send.delivered is recorded before the collector's acknowledgement of the same rendezvous, so
		// that the recorded order is a linearization (the sender has nothing to wait for between the two)
		start := time.Now()
		for r.delivered <= r.recvd && !r.done {
			r.mu.Unlock()
			if time.Since(start) > 300*time.Millisecond {
				r.mu.Lock()
				r.recvTimeouts++
				break
			}
			runtime.Gosched()
			r.mu.Lock()
		}
		r.recvd++
	}
	key := pkey{name, p, k}
	r.occ[key]++
	pt := Point{Hook: name, P: p, K: k, Occ: r.occ[key]}
	r.points = append(r.points, pt)
	switch name {
	case "root.start":
		r.starts++
		r.emit(tev{K: "start", P: p})
	case "spawn":
		r.starts++
	case "node.call":
		e, _ := args[2].(*el.Event)
		if k == 0 && e != nil {
			timeOK := !e.CreatedAt.Before(r.t0) && !e.CreatedAt.After(time.Now())
			if r.clock != nil {
				timeOK = e.CreatedAt.Equal(*r.clock) // the Broker's clock was stopped: exactly that instant
			}
			// the format table is looked at when nothing of this Send can have written to it yet (all pipelines share the Event)
			fmtOK := e.Formatted != nil && (r.anyCall || len(e.Formatted) == 0)
			e0 := (r.dirtied || (e.Type == r.sentType && e.Payload == r.payload)) && timeOK && fmtOK
			if !e0 {
				r.event0ok = false
			}
		}
		if k == 0 && e == nil {
			r.event0ok = false
		}
		if e != nil {
			if fp0, ok := r.fresh[e]; ok && fp0 != fingerprint(e, r.payload) {
				r.event0ok = false // the node did not receive exactly what its predecessor returned (content filled in / changed)
			}
			if pe, ok := r.payload.(*el.Event); ok && k == 0 && pe == e {
				r.event0ok = false // the payload Event itself was handed to the pipelines instead of a new Event carrying it
			}
		}
		r.anyCall = true
		r.emit(tev{K: "call", P: p, Pos: k, Obj: r.refObj[ref], Ein: r.internEv(e)})
	case "node.ret":
		e, _ := args[2].(*el.Event)
		var err error
		if args[3] != nil {
			err, _ = args[3].(error)
		}
		t := tev{K: "ret", P: p, Pos: k, Out: "drop"}
		if err != nil {
			t.Out, t.Ev = "err", errID(err)
		} else if e != nil {
			t.Out, t.Ev = "pass", r.internEv(e)
		}
		r.emit(t)
	case "send.delivered":
		r.delivered++
		r.emit(tev{K: "delivered", P: p, Pos: k})
	case "send.aborted":
		r.emit(tev{K: "aborted", P: p, Pos: k})
	case "task.exit":
		r.exits++
		r.emit(tev{K: "exit", P: p, Pos: k})
	case "wg.wait":
		r.emit(tev{K: "wait"})
	case "chan.close":
		r.closeSeen = true
		r.emit(tev{K: "close"})
	case "collector.ctxdone":
		r.collectorLeft = true
		r.emit(tev{K: "ctxdone"})
	case "collector.recv":
		if args[1].(bool) {
			st, _ := args[2].(el.Status)
			t := tev{K: "recv"}
			for _, id := range st.Complete() {
				t.Cs = append(t.Cs, unN(string(id)))
			}
			for _, id := range st.CompleteSinks() {
				t.Sk = append(t.Sk, unN(string(id)))
			}
			for _, w := range st.Warnings {
				t.Ws = append(t.Ws, errID(w))
			}
			r.emit(t)
		} else {
			r.collectorLeft = true
			r.emit(tev{K: "closedseen"})
		}
	}
	r.last = time.Now()
	if !r.cancelled && r.sched.CancelAt != nil && *r.sched.CancelAt == pt {
		r.emit(tev{K: "cancel"})
		r.cancelled = true
		r.cancelTime = time.Now()
		r.cancel()
	}
	cancelled, mode := r.cancelled, r.sched.Mode
	yield := r.rnd != nil && r.rnd.Chance(1, 3)
	r.mu.Unlock()
	if yield {
		runtime.Gosched()
	}
	if cancelled && mode == 1 && name == "send.before" {
		r.waitUntil(func() bool { return r.collectorLeft || r.returned }, 50*time.Millisecond)
	}
	if cancelled && mode == 2 && name == "collector.select" {
		r.waitUntil(func() bool { return r.starts > 0 && r.starts == r.exits && r.inProcess == 0 }, 5*time.Millisecond)
	}
}

// ---------- running one case ----------
type world struct {
	cbMu        sync.Mutex
	cb          *cbState
	c           *Case
	reent       []Op
	reentMu     sync.Mutex
	payloadKind int
	clock       *time.Time
	b      *el.Broker
	all    []*hnode
	caller chan func() // the goroutine that calls the Sends with Sched.Caller = 1
}

// the verif hook and the harness nodes find the recorder of the Send they belong to: by the status channel every hook
// passes first, and by the payload every event of a Send carries (Sends of one sequence may overlap: goroutines an earlier
// Send left behind run while the next Send is under way)
var router struct {
	sync.Mutex
	byChan    map[interface{}]*rec
	byPayload map[interface{}]*rec
	byCtx     map[interface{}]*rec
	inFlight  map[*rec]bool
	starting  *rec
}

func routeHook(name string, args ...interface{}) {
	if len(args) == 0 {
		return
	}
	router.Lock()
	r := router.byChan[args[0]]
	if r == nil && router.starting != nil {
		r = router.starting
		router.starting = nil
		router.byChan[args[0]] = r
	}
	router.Unlock()
	if r != nil {
		r.hook(name, args...)
	}
}
func (w *world) recFor(ctx context.Context, e *el.Event) *rec {
	router.Lock()
	defer router.Unlock()
	if e != nil && e.Payload != nil {
		if pr, ok := e.Payload.(*struct{ n int }); ok {
			if r := router.byPayload[pr]; r != nil {
				return r
			}
		}
	}
	if r := router.byCtx[ctx]; r != nil {
		return r
	}
	if len(router.inFlight) == 1 {
		for r := range router.inFlight {
			return r
		}
	}
	return nil
}

func (w *world) apply(op Op, c *Case) {
	ctx := context.Background()
	switch op.K {
	case "regnode":
		h := &hnode{obj: op.Obj, typ: ntype(op.Ty), w: w}
		if op.Obj >= 1 && op.Obj <= len(c.Beh) {
			h.beh = c.Beh[op.Obj-1]
		}
		w.all = append(w.all, h)
		var node el.Node = h
		if op.Obj%3 == 0 {
			node = vnode{h}
		}
		_ = w.b.RegisterNode(nid(op.ID), node, polOpt(op.Pol, true)...)
	case "rmnode":
		_ = w.b.RemoveNode(ctx, nid(op.ID))
	case "regpipe":
		ids := make([]el.NodeID, len(op.IDs))
		for i, x := range op.IDs {
			ids[i] = nid(x)
		}
		_ = w.b.RegisterPipeline(el.Pipeline{PipelineID: pid(op.Pid), EventType: ety(op.Ety), NodeIDs: ids}, polOpt(op.Pol, false)...)
	case "rmpipe":
		_ = w.b.RemovePipeline(ety(op.Ety), pid(op.Pid))
	case "rpan":
		_, _ = w.b.RemovePipelineAndNodes(ctx, ety(op.Ety), pid(op.Pid))
	case "thr":
		_ = w.b.SetSuccessThreshold(ety(op.Ety), int(op.V))
	case "thrs":
		_ = w.b.SetSuccessThresholdSinks(ety(op.Ety), int(op.V))
	case "reopen":
		_ = w.b.Reopen(ctx)
	default:
		panic("unknown op " + op.K)
	}
}

type snapNode struct {
	ID, Obj int
	Sink    bool
}
type snapPipe struct {
	Pid   int
	Nodes []snapNode
}

// Result is what one execution produced.
type Result struct {
	HasGraph   bool       `json:"has_graph"`
	Snapshot   []snapPipe `json:"snapshot"`
	Trace      []tev      `json:"trace"`
	Points     []Point    `json:"-"`
	NodeCalls  [][2]int   `json:"nodecalls"`
	NodeRets   []tev      `json:"noderets"`
	E0         int        `json:"e0"`
	Event0OK   bool       `json:"event0_ok"`
	Complete   []int      `json:"complete"`
	Sinks      []int      `json:"complete_sinks"`
	Warnings   []int      `json:"warnings"`
	Err        bool       `json:"err"`
	ErrCtx     bool       `json:"err_ctx"`
	ErrText    string     `json:"err_text,omitempty"`
	Returned   bool       `json:"returned"`
	Quiet      bool       `json:"quiet"`
	Complete2  bool       `json:"trace_complete"`
	Cancelled  bool       `json:"cancelled"`
	LatencyUs  int64      `json:"latency_after_cancel_us,omitempty"`
	Goroutines string     `json:"goroutines,omitempty"`
	Leaked     string     `json:"goroutines_left_by_this_send,omitempty"`
	AsyncBlocked bool     `json:"third_party_registry_call_did_not_finish_within_30ms,omitempty"`
	SnapshotBlocked bool  `json:"read_only_registry_snapshot_blocked_for_2s,omitempty"`
	StatusChangedLater bool `json:"returned_status_changed_after_later_calls,omitempty"`
	During     []Op       `json:"registry_calls_made_by_nodes_during_this_send,omitempty"`
	DuringThird []Op      `json:"registry_calls_made_by_a_third_party_while_this_send_was_in_flight,omitempty"`
	StressSends int       `json:"stress_sends,omitempty"`
	StressHung bool       `json:"stress_send_or_setter_did_not_return,omitempty"`
	CallbackSend bool     `json:"a_node_callback_sent_an_event_before_this_send,omitempty"`
	Panic      string     `json:"panic,omitempty"`
	HoldTO     int        `json:"hold_timeouts,omitempty"`
	RecvTO     int        `json:"recv_timeouts,omitempty"`
	Unknown    int        `json:"unknown_refs,omitempty"`
}

var payloadSeq int

type causeErr struct{ n int }

func (e *causeErr) Error() string { return fmt.Sprintf("caller's cause %d", e.n) }

// callerContext builds the caller's context of the kind the script names and the function that ends it
func callerContext(kind int, pre bool) (context.Context, func()) {
	switch kind {
	case 2:
		cc := newCallerCtx()
		return cc, cc.cancel
	case 3:
		ctx, cancel := context.WithCancelCause(context.Background())
		return ctx, func() { cancel(&causeErr{3}) }
	case 4, 6:
		d := time.Hour
		if pre {
			d = time.Nanosecond // expires (with its cause) before Send is called
		}
		var ctx context.Context
		var cancel context.CancelFunc
		if kind == 4 {
			ctx, cancel = context.WithTimeoutCause(context.Background(), d, &causeErr{4})
		} else {
			ctx, cancel = context.WithDeadlineCause(context.Background(), time.Now().Add(d), &causeErr{6})
		}
		if pre {
			<-ctx.Done()
		}
		return ctx, cancel
	case 9:
		// a live context.WithTimeout: carries a deadline an hour away and is NOT done
		return context.WithTimeout(context.Background(), time.Hour)
	case 10:
		// a live context.WithDeadline far in the future (2200: after every instant the Broker's clock is stopped at)
		return context.WithDeadline(context.Background(), time.Date(2200, 1, 1, 0, 0, 0, 0, time.UTC))
	case 7:
		// context.Background() itself: can never be cancelled (only scripts without a cancellation use it)
		return context.Background(), func() {}
	case 8:
		// a deadline in the past: done before Send is called (only pre-cancelled scripts use it)
		ctx, cancel := context.WithDeadline(context.Background(), time.Now().Add(-time.Hour))
		<-ctx.Done()
		return ctx, cancel
	case 5:
		parent, cancelParent := context.WithCancelCause(context.Background())
		ctx, cancel := context.WithCancel(parent)
		return ctx, func() { cancelParent(&causeErr{5}); cancel() }
	}
	return context.WithCancel(context.Background())
}

// flight is one Send under way / finished
type flight struct {
	detached bool
	w      *world
	r      *rec
	res    Result
	ctx    context.Context
	cancel func()
	before map[string]bool
	done   chan struct{}
	st     el.Status
	err    error
}

// startSend takes the snapshot of the type's pipelines, calls Send and waits until it has returned (or the watchdog fires)
func (w *world) startSend(etyN int, gate []int, sched Sched) *flight {
	b := w.b
	f := &flight{w: w, done: make(chan struct{})}
	r := &rec{refs: map[interface{}][2]int{}, refObj: map[interface{}]int{}, occ: map[pkey]int{}, evIDs: map[*el.Event]int{},
		sched: sched, event0ok: true, sentType: ety(etyN), gate: map[int]bool{}, w: w, fresh: map[*el.Event]string{}}
	f.r = r
	for _, g := range gate {
		r.gate[g] = true
	}
	if sched.Jitter != 0 {
		r.rnd = hc.NewRand(sched.Jitter)
	}
	res := &f.res
	// the read-only snapshot goes through the Broker's lock: on a wedged Broker it must not wedge the driver
	type snapT struct {
		roots map[el.PipelineID][]el.VerifLinkedRef
		ok    bool
	}
	snapCh := make(chan snapT, 1)
	var roots map[el.PipelineID][]el.VerifLinkedRef
	if sched.Detach && sched.HoldGate {
		// the snapshot helper itself walks the type's pipelines to the end; for a Send that is to be caught mid-walk as the FIRST
		// walk after a registry change the snapshot is taken lazily, from the first hook callback of the Send
		r.lazy, r.lazyRes = true, res
		res.HasGraph = true
	} else {
		go func() {
			rs, ok := b.VerifRoots(ety(etyN))
			snapCh <- snapT{rs, ok}
		}()
		select {
		case sn := <-snapCh:
			roots, res.HasGraph = sn.roots, sn.ok
		case <-time.After(2 * time.Second):
			res.SnapshotBlocked = true
			res.HasGraph = true
		}
	}
	for id, chain := range roots {
		sp := snapPipe{Pid: unN(string(id))}
		for k, l := range chain {
			r.refs[l.Ref] = [2]int{sp.Pid, k}
			obj := objOf(l.Node)
			r.refObj[l.Ref] = obj
			sp.Nodes = append(sp.Nodes, snapNode{ID: unN(string(l.ID)), Obj: obj, Sink: l.Node.Type() == el.NodeTypeSink})
		}
		res.Snapshot = append(res.Snapshot, sp)
	}
	sort.Slice(res.Snapshot, func(i, j int) bool { return res.Snapshot[i].Pid < res.Snapshot[j].Pid })

	f.ctx, f.cancel = callerContext(sched.Ctx, sched.Pre)
	r.cancel = f.cancel
	f.before = goroutineIDs()
	payloadSeq++
	var payload interface{} = &struct{ n int }{payloadSeq}
	switch w.payloadKind {
	case 1:
		payload = nil
	case 2:
		payload = fmt.Sprintf("payload-%d", payloadSeq)
	case 3:
		payload = struct{ A, B int }{payloadSeq, 7}
	case 4, 5:
		// an *eventlogger.Event as the payload (an event received elsewhere and forwarded): of the type being sent / of another
		pt := ety(etyN)
		if w.payloadKind == 5 {
			pt = el.EventType("some-other-type")
		}
		payload = &el.Event{Type: pt, CreatedAt: time.Date(2000, 1, 1, 0, 0, 0, 0, time.UTC), Formatted: map[string][]byte{"old": {1}}, Payload: "inner"}
	case 6:
		var none *el.Event
		payload = none
	}
	r.payload = payload
	r.clock = w.clock
	r.t0 = time.Now()
	r.last = r.t0
	router.Lock()
	if w.payloadKind == 0 {
		router.byPayload[payload] = r
	}
	router.byCtx[f.ctx] = r
	router.inFlight[r] = true
	router.starting = r
	router.Unlock()
	if sched.Pre {
		r.cancelled = true
		r.cancelTime = time.Now()
		f.cancel()
	}
	call := func() {
		defer close(f.done)
		defer func() {
			if p := recover(); p != nil {
				r.mu.Lock()
				res.Panic = fmt.Sprint(p)
				r.mu.Unlock()
			}
		}()
		f.st, f.err = b.Send(f.ctx, ety(etyN), payload)
		r.mu.Lock()
		if !r.done {
			r.returned = true
			r.returnTime = time.Now()
			r.emit(tev{K: "returned"})
			r.last = r.returnTime
		}
		r.mu.Unlock()
	}
	if sched.Caller == 1 {
		w.caller <- call
	} else {
		go call()
	}
	if sched.Detach && sched.HoldGate {
		// wait only until the gated node is parked (or the Send is over already)
		deadline := time.Now().Add(3 * time.Second)
		for {
			r.mu.Lock()
			parked := r.parked
			r.mu.Unlock()
			select {
			case <-f.done:
				res.Returned = true
			default:
			}
			if parked || res.Returned || time.Now().After(deadline) {
				break
			}
			time.Sleep(50 * time.Microsecond)
		}
		f.detached = !res.Returned
	} else {
		select {
		case <-f.done:
			res.Returned = true
		case <-time.After(3 * time.Second):
			// watchdog: Send did not return
			r.mu.Lock()
			r.done = true
			r.mu.Unlock()
			res.Goroutines = graphGoroutines()
		}
	}
	router.Lock()
	if router.starting == r {
		router.starting = nil
	}
	router.Unlock()
	return f
}

// finish lets the goroutines Send left behind run out, looks for goroutines that remain, and collects what was observed
func (f *flight) finish() Result {
	r, res := f.r, &f.res
	r.mu.Lock()
	r.gateReleased = true
	r.mu.Unlock()
	if f.detached && !res.Returned {
		// the Send that was left in flight must return now that its node has been let go
		select {
		case <-f.done:
			res.Returned = true
		case <-time.After(3 * time.Second):
			r.mu.Lock()
			r.done = true
			r.mu.Unlock()
			res.Goroutines = graphGoroutines()
		}
	}
	if !res.Returned {
		f.cancel()
		select {
		case <-f.done:
		case <-time.After(time.Second):
		}
	}
	defer f.cancel() // the caller's context ends only after the goroutine-leak oracle below has looked
	// all nodes returned, every invocation exited, channel closed
	grace := 150 * time.Millisecond
	deadline := time.Now().Add(3 * time.Second)
	for res.Returned {
		r.mu.Lock()
		complete := (r.closeSeen || !res.HasGraph) && r.starts == r.exits && r.inProcess == 0
		idle := time.Since(r.last) > grace && r.inProcess == 0
		r.mu.Unlock()
		if complete {
			res.Complete2 = true
			break
		}
		if idle || time.Now().After(deadline) {
			break
		}
		time.Sleep(50 * time.Microsecond)
	}
	if res.Returned {
		// goroutine-leak oracle: once Send has returned and every node invocation it started has returned, no goroutine
		// created under this Send may remain — whatever the return path and whatever the type of the caller's context
		// (which is still live here unless the script cancelled it). Bounded settle time; goroutines that existed before
		// the call, and goroutines that neither run library / context code nor were created by it, are ignored.
		settle := time.Now().Add(250 * time.Millisecond)
		for {
			res.Leaked = sendGoroutines(f.before)
			if res.Leaked == "" || time.Now().After(settle) {
				break
			}
			time.Sleep(200 * time.Microsecond)
		}
	}
	router.Lock()
	delete(router.inFlight, r)
	router.Unlock()
	r.mu.Lock()
	r.done = true
	res.Quiet = r.inProcess == 0
	res.Trace = append([]tev(nil), r.events...)
	res.Points = append([]Point(nil), r.points...)
	res.NodeCalls = append([][2]int(nil), r.nodecalls...)
	res.NodeRets = append([]tev(nil), r.noderets...)
	res.During = append([]Op(nil), r.during...)
	res.DuringThird = append([]Op(nil), r.duringThird...)
	res.Event0OK = r.event0ok
	res.Cancelled = r.cancelled
	res.HoldTO, res.RecvTO, res.Unknown = r.holdTimeouts, r.recvTimeouts, r.unknownRefs
	if r.cancelled && r.returned {
		res.LatencyUs = r.returnTime.Sub(r.cancelTime).Microseconds()
	}
	for _, e := range r.events {
		if e.K == "call" && e.Pos == 0 {
			res.E0 = e.Ein
			break
		}
	}
	r.mu.Unlock()
	if res.Returned && !res.Complete2 && res.Goroutines == "" {
		res.Goroutines = graphGoroutines()
	}
	if res.Returned && res.Panic == "" {
		for _, id := range f.st.Complete() {
			res.Complete = append(res.Complete, unN(string(id)))
		}
		for _, id := range f.st.CompleteSinks() {
			res.Sinks = append(res.Sinks, unN(string(id)))
		}
		for _, wn := range f.st.Warnings {
			res.Warnings = append(res.Warnings, errID(wn))
		}
		res.Err = f.err != nil
		if f.err != nil {
			res.ErrText = f.err.Error()
			if ce := f.ctx.Err(); ce != nil {
				res.ErrCtx = errors.Is(f.err, ce)
			}
		}
	}
	return *res
}

// stress: four senders and a goroutine toggling both thresholds of the type, for ms milliseconds; returns the number of Sends
// completed and whether a sender or the setter failed to come back within 3 s after the stop signal
func (w *world) stress(etyN, ms int) (int, bool) {
	stop := make(chan struct{})
	var wg sync.WaitGroup
	var mu sync.Mutex
	total := 0
	for i := 0; i < 4; i++ {
		wg.Add(1)
		go func(i int) {
			defer wg.Done()
			n := 0
			for {
				select {
				case <-stop:
					mu.Lock()
					total += n
					mu.Unlock()
					return
				default:
				}
				ctx, cancel := context.WithCancel(context.Background())
				if (n+i)%7 == 0 {
					cancel()
				}
				_, _ = w.b.Send(ctx, ety(etyN), n)
				cancel()
				n++
			}
		}(i)
	}
	wg.Add(1)
	go func() {
		defer wg.Done()
		for k := 0; ; k++ {
			select {
			case <-stop:
				return
			default:
			}
			_ = w.b.SetSuccessThreshold(ety(etyN), k%2)
			_ = w.b.SetSuccessThresholdSinks(ety(etyN), (k/2)%2)
		}
	}()
	time.Sleep(time.Duration(ms) * time.Millisecond)
	close(stop)
	done := make(chan struct{})
	go func() { wg.Wait(); close(done) }()
	select {
	case <-done:
		mu.Lock()
		defer mu.Unlock()
		return total, false
	case <-time.After(3 * time.Second):
		mu.Lock()
		defer mu.Unlock()
		return total, true
	}
}

// execCase runs the Sends of a case on one Broker, the registry calls of each step in between; one Result per Send
func execCase(c Case) []Result {
	b, _ := el.NewBroker()
	w := &world{b: b, caller: make(chan func()), payloadKind: c.Payload, c: &c, reent: c.Reent}
	switch c.Clock {
	case 1:
		t := time.Date(2001, 2, 3, 4, 5, 6, 7, time.UTC)
		w.clock = &t
		b.StopTimeAt(t)
	case 2:
		t := time.Time{}
		w.clock = &t
		b.StopTimeAt(t)
	case 3:
		t := time.Date(2100, 1, 1, 0, 0, 0, 0, time.UTC) // after the deadline of any "one hour from now" context
		w.clock = &t
		b.StopTimeAt(t)
	case 4:
		t := time.Now()
		w.clock = &t
		b.StopTimeAt(t)
	}
	var flights []*flight
	go func() {
		for f := range w.caller {
			f()
		}
	}()
	defer close(w.caller)
	for _, op := range c.Hist {
		w.apply(op, &c)
	}
	steps := append([]Step{{Ety: c.Ety, Gate: c.Gate, Sched: c.Sched}}, c.Then...)
	results := make([]Result, len(steps))
	type asyncCall struct {
		step int
		done chan struct{}
	}
	var asyncs []asyncCall
	asyncBlocked := map[int]bool{}
	var held *flight
	heldAt := -1
	for i, st := range steps {
		stressSends, stressHung := 0, false
		cbFired := false
		if len(st.CbOps) > 0 {
			cb := &cbState{ety: st.CbEty, objs: map[int]bool{}, writer: st.CbWriter, writerDone: make(chan struct{}), sendDone: make(chan struct{})}
			for _, o := range st.CbObjs {
				cb.objs[o] = true
			}
			w.cbMu.Lock()
			w.cb = cb
			w.cbMu.Unlock()
			callDone := make(chan struct{})
			go func() {
				defer close(callDone)
				for _, op := range st.CbOps {
					w.apply(op, &c)
				}
			}()
			limit := time.After(3 * time.Second)
			for _, ch := range []chan struct{}{callDone} {
				select {
				case <-ch:
				case <-limit:
					stressHung = true
				}
			}
			w.cbMu.Lock()
			cbFired = cb.fired
			w.cb = nil
			w.cbMu.Unlock()
			if cbFired && !stressHung {
				for _, ch := range []chan struct{}{cb.sendDone, cb.writerDone} {
					select {
					case <-ch:
					case <-time.After(3 * time.Second):
						stressHung = true
					}
				}
			}
		}
		if st.StressMs > 0 {
			stressSends, stressHung = w.stress(st.StressEty, st.StressMs)
		}
		// (on a wedged Broker a registry call never returns: do not wedge the driver with it)
		opsDone := make(chan struct{})
		go func() {
			defer close(opsDone)
			for _, op := range st.Ops {
				w.apply(op, &c)
			}
		}()
		select {
		case <-opsDone:
		case <-time.After(3 * time.Second):
			stressHung = true
		}
		if held != nil && held.detached {
			// whatever is done to the registry now happens DURING the Send that is still in flight (its walk may or may not see it)
			held.r.mu.Lock()
			held.r.duringThird = append(append(held.r.duringThird, st.Ops...), st.Async...)
			held.r.mu.Unlock()
		}
		if len(st.Async) > 0 {
			done := make(chan struct{})
			asyncs = append(asyncs, asyncCall{i, done})
			go func(ops []Op) {
				defer close(done)
				for _, op := range ops {
					w.apply(op, &c)
				}
			}(st.Async)
			select {
			case <-done:
			case <-time.After(30 * time.Millisecond):
				asyncBlocked[i] = true
			}
		}
		f := w.startSend(st.Ety, st.Gate, st.Sched)
		f.res.StressSends, f.res.StressHung, f.res.CallbackSend = stressSends, stressHung, cbFired
		flights = append(flights, f)
		if st.Sched.HoldGate && (f.res.Returned || f.detached) && i+1 < len(steps) {
			// its gated nodes stay parked while the next Send runs
			if held != nil {
				results[heldAt] = held.finish()
			}
			held, heldAt = f, i
			continue
		}
		results[i] = f.finish()
		if held != nil {
			// only now are the nodes of the earlier Send let go; afterwards nothing of it may remain either
			results[heldAt] = held.finish()
			held = nil
		}
	}
	if held != nil {
		results[heldAt] = held.finish()
	}
	// re-reading: the Status a Send returned is looked at again after all later Sends and registry calls of the sequence; if
	// it has changed under the caller's hands the changed one is what the case reports
	for i, f := range flights {
		if len(flights) > 1 && results[i].Returned && results[i].Panic == "" {
			var cs, sk, ws []int
			for _, id := range f.st.Complete() {
				cs = append(cs, unN(string(id)))
			}
			for _, id := range f.st.CompleteSinks() {
				sk = append(sk, unN(string(id)))
			}
			for _, wn := range f.st.Warnings {
				ws = append(ws, errID(wn))
			}
			if fmt.Sprint(cs, sk, ws) != fmt.Sprint(results[i].Complete, results[i].Sinks, results[i].Warnings) {
				results[i].StatusChangedLater = true
				results[i].Complete, results[i].Sinks, results[i].Warnings = cs, sk, ws
			}
		}
	}
	// every registry call of a third party must have returned by now (all gates are open, all Sends are over)
	for _, a := range asyncs {
		results[a.step].AsyncBlocked = asyncBlocked[a.step]
		select {
		case <-a.done:
		case <-time.After(2 * time.Second):
			results[a.step].Leaked += "a registry call made concurrently with the Sends never returned\n" + graphGoroutines()
		}
	}
	return results
}

// goroutines of this process that are inside eventlogger.(*graph) functions
func graphGoroutines() string {
	buf := make([]byte, 1<<20)
	n := runtime.Stack(buf, true)
	var out []string
	for _, g := range strings.Split(string(buf[:n]), "\n\n") {
		if strings.Contains(g, "eventlogger.(*graph)") {
			lines := strings.Split(g, "\n")
			if len(lines) > 7 {
				lines = lines[:7]
			}
			out = append(out, strings.Join(lines, "\n"))
		}
	}
	if len(out) > 6 {
		out = append(out[:6], fmt.Sprintf("... %d more", len(out)-6))
	}
	return strings.Join(out, "\n\n")
}
// ids of all goroutines alive now
func goroutineIDs() map[string]bool {
	ids := map[string]bool{}
	for _, g := range allStacks() {
		ids[goroutineID(g)] = true
	}
	return ids
}
func allStacks() []string {
	n := 1 << 16
	for {
		buf := make([]byte, n)
		m := runtime.Stack(buf, true)
		if m < n {
			return strings.Split(string(buf[:m]), "\n\n")
		}
		n *= 4
	}
}
func goroutineID(stack string) string {
	f := strings.Fields(stack)
	if len(f) >= 2 && f[0] == "goroutine" {
		return f[1]
	}
	return ""
}

// goroutines that did not exist before the Send and that run, or were created by, code of the library or of the context
// package (the cancellation propagation of a context derived from the caller's)
func sendGoroutines(before map[string]bool) string {
	var out []string
	for _, g := range allStacks() {
		if before[goroutineID(g)] {
			continue
		}
		if strings.Contains(g, "hashicorp/eventlogger.") || strings.Contains(g, "\ncontext.") || strings.Contains(g, "created by context.") {
			lines := strings.Split(g, "\n")
			if len(lines) > 9 {
				lines = lines[:9]
			}
			out = append(out, strings.Join(lines, "\n"))
		}
	}
	if len(out) > 4 {
		out = append(out[:4], fmt.Sprintf("... %d more", len(out)-4))
	}
	return strings.Join(out, "\n\n")
}
func countGraphGoroutines() int {
	buf := make([]byte, 4<<20)
	n := runtime.Stack(buf, true)
	c := 0
	for _, g := range strings.Split(string(buf[:n]), "\n\n") {
		if strings.Contains(g, "eventlogger.(*graph)") {
			c++
		}
	}
	return c
}

// ---------- Gallina ----------
func tyLit(t int) string {
	if t < 0 || t > 5 {
		return "TOther" // 6..9: undeclared NodeType values
	}
	return [...]string{"TOther", "TFilter", "TFormatter", "TSink", "TFormatterFilter", "TOther"}[t]
}
func polLit(p int) string { return [...]string{"ANone", "AAllow", "ADeny", "ABad"}[p] }
func opLit(op Op) string {
	switch op.K {
	case "regnode":
		return fmt.Sprintf("RegisterNode %s %s %s %s", hc.N(op.ID), hc.N(op.Obj), tyLit(op.Ty), polLit(op.Pol))
	case "rmnode":
		return fmt.Sprintf("RemoveNode %s", hc.N(op.ID))
	case "regpipe":
		return fmt.Sprintf("RegisterPipeline %s %s %s %s", hc.N(op.Pid), hc.N(op.Ety), hc.NList(op.IDs), polLit(op.Pol))
	case "rmpipe":
		return fmt.Sprintf("RemovePipeline %s %s", hc.N(op.Ety), hc.N(op.Pid))
	case "rpan":
		return fmt.Sprintf("RemovePipelineAndNodes %s %s", hc.N(op.Ety), hc.N(op.Pid))
	case "thr":
		return fmt.Sprintf("SetThr %s %s", hc.N(op.Ety), hc.Z(op.V))
	case "thrs":
		return fmt.Sprintf("SetThrSinks %s %s", hc.N(op.Ety), hc.Z(op.V))
	}
	panic("op " + op.K)
}

func caseLit(c Case, res Result) string {
	var hist, trace, calls, rets, snap, during []string
	for _, op := range append(append([]Op{}, res.During...), res.DuringThird...) {
		during = append(during, opLit(op))
	}
	for _, op := range c.Hist {
		hist = append(hist, opLit(op))
	}
	for _, e := range res.Trace {
		trace = append(trace, e.lit())
	}
	for _, nc := range res.NodeCalls {
		calls = append(calls, hc.Pair(hc.N(nc[0]), hc.N(nc[1])))
	}
	for _, nr := range res.NodeRets {
		o := "ODrop"
		switch nr.Out {
		case "pass":
			o = "OPass " + hc.N(nr.Ev)
		case "err":
			o = "OErr " + hc.N(nr.Ev)
		}
		rets = append(rets, fmt.Sprintf("(%s, %s, %s)", hc.N(nr.Obj), hc.N(nr.Ein), o))
	}
	snapLit := "None"
	if res.HasGraph {
		for _, p := range res.Snapshot {
			var ns []string
			for _, n := range p.Nodes {
				ns = append(ns, fmt.Sprintf("nd %s %s %s", hc.N(n.ID), hc.N(n.Obj), hc.B(n.Sink)))
			}
			snap = append(snap, hc.Pair(hc.N(p.Pid), hc.List(ns)))
		}
		snapLit = "Some " + hc.List(snap)
	}
	return fmt.Sprintf("{| d_id := %s; d_hist := %s; d_ety := %s; d_snapshot := %s; d_during := %s; d_pre := %s;\n   d_trace := %s;\n   d_quiet := %s; d_leak := %s; d_nodecalls := %s; d_noderets := %s; d_event0_ok := %s; d_status := (%s, %s, %s); d_err := %s; d_err_ctx := %s |}",
		hc.N(c.ID), hc.List(hist), hc.N(c.Ety), snapLit, hc.List(during), hc.B(c.Sched.Pre), hc.List(trace),
		hc.B(res.Quiet), hc.B(res.Leaked != ""), hc.List(calls), hc.List(rets), hc.B(res.Event0OK), hc.NList(res.Complete), hc.NList(res.Sinks), hc.NList(res.Warnings),
		hc.B(res.Err), hc.B(res.ErrCtx))
}

// ---------- emitting ----------
type emitter struct {
	cf        *hc.CaseFile
	side      *os.File
	stats     map[string]int
	sigs      map[string]bool
	nontriv   int
	panics    []string
	latencies []int64
	nextID    int
	current   string
}

func (e *emitter) run(c Case) Result { return e.runSeq(c)[0] }

var ctxKindName = []string{"?", "context.WithCancel", "custom-type", "WithCancelCause", "WithTimeoutCause", "child-of-cancel-cause", "WithDeadlineCause", "context.Background", "WithDeadline-in-the-past", "live-WithTimeout-1h", "live-WithDeadline-2200"}

// runSeq executes a case (one Send, or a sequence of registry calls and Sends on one Broker) and emits one dcase per Send,
// whose history is everything the Broker was told up to that Send
func (e *emitter) runSeq(c Case) []Result {
	rot := []int{1, 2, 3, 5, 4, 2, 1, 3, 6, 5, 7, 8, 9, 10}
	pick := func(sc *Sched, k int) {
		if sc.Ctx != 0 {
			return
		}
		sc.Ctx = rot[k%len(rot)]
		if sc.Ctx == 7 && (sc.Pre || sc.CancelAt != nil) {
			sc.Ctx = 1
		}
		if sc.Ctx == 8 && !sc.Pre {
			sc.Ctx = 2
		}
	}
	pick(&c.Sched, e.nextID+1)
	for i := range c.Then {
		pick(&c.Then[i].Sched, e.nextID+2+i)
	}
	c.ID = e.nextID + 1
	if e.current != "" {
		// a panic inside a goroutine of the library kills this process: leave the running case behind for the report
		js, _ := json.Marshal(c)
		os.WriteFile(e.current, js, 0o644)
	}
	results := execCase(c)
	hist := append([]Op{}, c.Hist...)
	steps := append([]Step{{Ety: c.Ety, Gate: c.Gate, Sched: c.Sched}}, c.Then...)
	for i, res := range results {
		e.nextID++
		st := steps[i]
		for _, op := range st.CbOps {
			if op.K != "reopen" {
				hist = append(hist, op)
			}
		}
		hist = append(hist, st.CbWriter...)
		hist = append(hist, st.Ops...)
		hist = append(hist, st.Async...)
		view := Case{ID: e.nextID, Gen: c.Gen, Hist: append([]Op{}, hist...), Ety: st.Ety, Beh: c.Beh, Gate: st.Gate, Sched: st.Sched}
		// what the nodes did to the registry during this Send belongs to the history of the following Sends
		hist = append(hist, res.During...)
		e.account(view, res, len(results) > 1)
		if err := e.cf.Add(caseLit(view, res)); err != nil {
			panic(err)
		}
		full := c
		full.ID = e.nextID
		full.SendIndex = i
		js, _ := json.Marshal(struct {
			Case
			Res Result `json:"observed"`
		}{full, res})
		e.side.Write(js)
		e.side.Write([]byte("\n"))
	}
	return results
}

func (e *emitter) account(c Case, res Result, inSeq bool) {
	e.stats["cases"]++
	e.stats["gen:"+c.Gen]++
	if inSeq {
		e.stats["sends_in_multi_send_sequences"]++
	}
	if res.Panic != "" {
		e.panics = append(e.panics, fmt.Sprintf("case %d: panic: %s", c.ID, res.Panic))
	}
	if res.Cancelled {
		e.stats["cancelled"]++
		if c.Sched.Pre {
			e.stats["cancelled_before_send"]++
		}
		e.stats[fmt.Sprintf("mode:%d", c.Sched.Mode)]++
		if res.LatencyUs > 0 {
			e.latencies = append(e.latencies, res.LatencyUs)
		}
	} else {
		e.stats["uncancelled"]++
	}
	if len(c.Gate) > 0 {
		e.stats["with_gated_nodes"]++
	}
	if c.Sched.HoldGate {
		e.stats["sends_whose_nodes_stay_parked_during_the_next_send"]++
	}
	if k := c.Sched.Ctx; k >= 0 && k < len(ctxKindName) {
		e.stats["caller_ctx:"+ctxKindName[k]]++
	}
	if res.Leaked != "" {
		e.stats["goroutines_left_after_send"]++
	}
	if res.AsyncBlocked {
		e.stats["third_party_registry_call_blocked"]++
	}
	if len(res.During) > 0 {
		e.stats["sends_during_which_nodes_changed_the_registry"]++
	}
	if res.CallbackSend {
		e.stats["sends_issued_from_inside_reopen_or_close"]++
	}
	e.stats["stress_sends"] += res.StressSends
	if res.StressHung {
		e.stats["stress_hung"]++
	}
	if !res.HasGraph {
		e.stats["no_graph"]++
	}
	if res.Err {
		e.stats["send_error"]++
		if res.ErrCtx {
			e.stats["send_error_wraps_ctx"]++
		}
	}
	if !res.Returned {
		e.stats["send_did_not_return"]++
	}
	if res.Returned && !res.Complete2 {
		e.stats["trace_incomplete"]++
	}
	e.stats["hold_timeouts"] += res.HoldTO
	e.stats["recv_ack_timeouts"] += res.RecvTO
	e.stats["unknown_refs"] += res.Unknown
	cancelSeen := false
	for _, t := range res.Trace {
		switch t.K {
		case "cancel":
			cancelSeen = true
		case "aborted":
			e.stats["ev:send.aborted"]++
		case "delivered":
			e.stats["ev:send.delivered"]++
		case "ctxdone":
			e.stats["ev:collector.ctxdone"]++
		case "closedseen":
			e.stats["ev:collector.closed"]++
			if cancelSeen {
				e.stats["collector_closed_after_cancel"]++
			}
		case "call":
			e.stats["ev:node.call"]++
		case "ret":
			e.stats["ret:"+t.Out]++
		}
	}
	e.stats[fmt.Sprintf("pipelines:%d", len(res.Snapshot))]++
	sig, _ := json.Marshal(struct {
		H []Op
		E int
		B [][]int
		G []int
		S Sched
	}{c.Hist, c.Ety, c.Beh, c.Gate, c.Sched})
	if !e.sigs[string(sig)] {
		e.sigs[string(sig)] = true
		if len(res.NodeCalls) > 0 {
			e.nontriv++
		}
	}
}

func runCorpus(e *emitter, path string, repeat int) {
	data, err := os.ReadFile(path)
	if err != nil {
		return
	}
	for _, line := range strings.Split(string(data), "\n") {
		line = strings.TrimSpace(line)
		if line == "" || strings.HasPrefix(line, "#") {
			continue
		}
		var c Case
		if err := json.Unmarshal([]byte(line), &c); err != nil {
			fmt.Fprintf(os.Stderr, "corpus: %v\n", err)
			continue
		}
		c.Gen = "corpus"
		for i := 0; i < repeat; i++ {
			e.runSeq(c)
		}
	}
}

func main() {
	out := flag.String("out", ".", "output directory")
	prefix := flag.String("prefix", "cases", "case file prefix")
	modes := flag.String("modes", "shapes,thresholds,cancel,random", "generators")
	shapeP := flag.Int("shape-pipelines", 3, "shapes: max pipelines")
	thrN := flag.Int("thr-pipelines", 3, "thresholds: max pipelines")
	cancelRandom := flag.Int("cancel-random", 2, "cancel: random configurations in addition to the fixed menu")
	cancelReps := flag.Int("cancel-reps", 1, "cancel: repetitions (jitter seeds) per position and order")
	nRandom := flag.Int("random", 300, "random: configurations")
	seqRandom := flag.Int("sequence-random", 20, "sequence: random multi-Send sequences in addition to all ordered pairs of registry mutations")
	twoReps := flag.Int("twosend-reps", 3, "twosend: repetitions of the (cancelled Send with a parked node, independent Send) pair per Broker")
	twoGates := flag.Int("twosend-gates", 2, "twosend: gated positions (root nodes first) for the third-party registry calls")
	stressMs := flag.Int("stress-ms", 1200, "stress: milliseconds of Sends racing threshold setters")
	perShard := flag.Int("per-shard", 250, "cases per file")
	corpus := flag.String("corpus", "", "corpus file (JSON lines), run first")
	corpusRepeat := flag.Int("corpus-repeat", 5, "runs per corpus case")
	replay := flag.String("replay", "", "replay one JSON case and print what happened")
	flag.Parse()
	if runtime.GOMAXPROCS(0) < 4 {
		runtime.GOMAXPROCS(4)
	}
	router.byChan, router.byPayload = map[interface{}]*rec{}, map[interface{}]*rec{}
	router.byCtx, router.inFlight = map[interface{}]*rec{}, map[*rec]bool{}
	el.VerifSetHook(routeHook)

	if *replay != "" {
		data, err := os.ReadFile(*replay)
		if err != nil {
			fmt.Fprintln(os.Stderr, err)
			os.Exit(2)
		}
		var wrapper struct {
			Case Case `json:"case"`
		}
		if err := json.Unmarshal(data, &wrapper); err != nil || wrapper.Case.Ety == 0 {
			_ = json.Unmarshal(data, &wrapper.Case)
		}
		res := execCase(wrapper.Case)
		js, _ := json.MarshalIndent(res, "", " ")
		fmt.Printf("%s\n", js)
		return
	}

	cf := &hc.CaseFile{Dir: *out, Prefix: *prefix, PerShard: *perShard, Type: "list dcase",
		Header: "From Coq Require Import List NArith ZArith.\nFrom Verif Require Import Alist Broker Dispatch Run_Dispatch.\nImport ListNotations.",
		Footer: "Definition M := Eval vm_compute in mismatches cases.\nPrint M."}
	side, err := os.Create(*out + "/" + *prefix + ".jsonl")
	if err != nil {
		panic(err)
	}
	e := &emitter{cf: cf, side: side, stats: map[string]int{}, sigs: map[string]bool{}, current: *out + "/current_case.json"}
	r := hc.NewRand(hc.Seed())
	if *corpus != "" {
		runCorpus(e, *corpus, *corpusRepeat)
	}
	summary := map[string]interface{}{}
	for _, m := range strings.Split(*modes, ",") {
		switch m {
		case "shapes":
			genShapes(e, *shapeP)
			summary["shapes_exhaustive_pipelines"] = *shapeP
		case "thresholds":
			genThresholds(e, *thrN)
			summary["thresholds_exhaustive_pipelines"] = *thrN
		case "paths":
			genPaths(e)
		case "classes":
			genClasses(e)
		case "reentrant":
			genReentrant(e)
		case "unprintable":
			genUnprintable(e)
		case "callbacks":
			genCallbacks(e)
		case "stress":
			genStress(e, *stressMs)
		case "sequence":
			genSequence(e, r.Fork(), *seqRandom)
		case "twosend":
			genTwoSend(e, r.Fork(), *twoReps)
			genTwoSendThirdParty(e, *twoGates)
		case "cancel":
			n := genCancel(e, r.Fork(), *cancelRandom, *cancelReps)
			summary["cancel_positions_forced"] = n
		case "random":
			genRandom(e, r.Fork(), *nRandom)
		case "":
		default:
			fmt.Fprintf(os.Stderr, "unknown mode %s\n", m)
			os.Exit(2)
		}
	}
	cf.Close()
	side.Close()
	os.Remove(e.current)
	el.VerifSetHook(nil)
	time.Sleep(20 * time.Millisecond)
	summary["graph_goroutines_at_exit"] = countGraphGoroutines()
	sort.Slice(e.latencies, func(i, j int) bool { return e.latencies[i] < e.latencies[j] })
	if n := len(e.latencies); n > 0 {
		summary["latency_after_cancel_us"] = map[string]int64{"median": e.latencies[n/2], "p99": e.latencies[n*99/100], "max": e.latencies[n-1], "n": int64(n)}
	}
	summary["stats"] = e.stats
	summary["files"] = cf.Files
	summary["cases"] = cf.Total
	summary["distinct_nontrivial"] = e.nontriv
	summary["panics"] = e.panics
	summary["seed"] = hc.Seed()
	js, _ := json.MarshalIndent(summary, "", " ")
	os.WriteFile(*out+"/"+*prefix+"_summary.json", js, 0o644)
	fmt.Printf("dispatchh: %d cases in %d files, %d panics, %d incomplete traces, %d hangs\n", cf.Total, len(cf.Files), len(e.panics),
		e.stats["trace_incomplete"], e.stats["send_did_not_return"])
}
