package main

// An implementation of the value formats of encrypt.Filter that shares no code with it: RFC 5869 HKDF-SHA256,
// HMAC-SHA256, AES-256-GCM open, the per-event key derivation, a protobuf wire reader for BlobInfo, and the
// classifier that maps every output string to a symbolic leaf of Encrypt.v by decrypting / recomputing with the
// candidate keys.

import (
	"crypto/aes"
	"crypto/cipher"
	"crypto/ed25519"
	"crypto/hmac"
	"crypto/sha256"
	"encoding/base64"
	"errors"
	"fmt"
	"strings"

	"verifharness/hc"
)

func hkdfSHA256(key, salt, info []byte, n int) []byte {
	if salt == nil {
		salt = make([]byte, sha256.Size)
	}
	ext := hmac.New(sha256.New, salt)
	ext.Write(key)
	prk := ext.Sum(nil)
	var out, prev []byte
	for i := byte(1); len(out) < n; i++ {
		h := hmac.New(sha256.New, prk)
		h.Write(prev)
		h.Write(info)
		h.Write([]byte{i})
		prev = h.Sum(nil)
		out = append(out, prev...)
	}
	return out[:n]
}

// the AES key of the wrapper NewEventWrapper derives: the ed25519 PUBLIC key generated from HKDF(base, salt = event id)
func deriveEventKey(base []byte, eventID string) []byte {
	seed := hkdfSHA256(base, []byte(eventID), nil, 32)
	priv := ed25519.NewKeyFromSeed(seed)
	return []byte(priv.Public().(ed25519.PublicKey))
}

func hmacFramed(key, salt, info, data []byte) string {
	k := hkdfSHA256(key, salt, info, 32)
	m := hmac.New(sha256.New, k)
	m.Write(data)
	return "hmac-sha256:" + base64.RawURLEncoding.EncodeToString(m.Sum(nil))
}

// protobuf wire format, just enough for BlobInfo{ciphertext = 1, key_info = 5 {key_id = 3}}
func pbFields(b []byte) (map[int][]byte, error) {
	out := map[int][]byte{}
	for len(b) > 0 {
		tag, n := uvarint(b)
		if n <= 0 {
			return nil, errors.New("bad varint")
		}
		b = b[n:]
		switch tag & 7 {
		case 0:
			_, n := uvarint(b)
			if n <= 0 {
				return nil, errors.New("bad varint")
			}
			b = b[n:]
		case 2:
			l, n := uvarint(b)
			if n <= 0 || int(l) > len(b)-n {
				return nil, errors.New("bad length")
			}
			out[int(tag>>3)] = b[n : n+int(l)]
			b = b[n+int(l):]
		case 1:
			if len(b) < 8 {
				return nil, errors.New("short")
			}
			b = b[8:]
		case 5:
			if len(b) < 4 {
				return nil, errors.New("short")
			}
			b = b[4:]
		default:
			return nil, errors.New("wire type")
		}
	}
	return out, nil
}
func uvarint(b []byte) (uint64, int) {
	var x uint64
	var s uint
	for i, c := range b {
		if i == 10 {
			return 0, -1
		}
		if c < 0x80 {
			return x | uint64(c)<<s, i + 1
		}
		x |= uint64(c&0x7f) << s
		s += 7
	}
	return 0, 0
}

// unframe "encrypted:" ++ b64url(BlobInfo): (nonce || sealed, key id recorded in the blob)
func unframeEnc(s string) ([]byte, string, error) {
	if !strings.HasPrefix(s, "encrypted:") {
		return nil, "", errors.New("no prefix")
	}
	raw, err := base64.RawURLEncoding.DecodeString(s[len("encrypted:"):])
	if err != nil {
		return nil, "", err
	}
	f, err := pbFields(raw)
	if err != nil {
		return nil, "", err
	}
	kid := ""
	if ki, ok := f[5]; ok {
		if kf, err := pbFields(ki); err == nil {
			kid = string(kf[3])
		}
	}
	return f[1], kid, nil
}

func gcmOpen(key, ct []byte) ([]byte, error) {
	if len(ct) < 12 {
		return nil, errors.New("short ciphertext")
	}
	blk, err := aes.NewCipher(key)
	if err != nil {
		return nil, err
	}
	g, err := cipher.NewGCM(blk)
	if err != nil {
		return nil, err
	}
	pt, err := g.Open(nil, ct[:12], ct[12:], nil)
	if err != nil {
		return nil, err
	}
	if pt == nil {
		pt = []byte{}
	}
	return pt, nil
}

type keyCand struct {
	id  int // interned id handed to the model
	key []byte
}
type saltInfo struct{ salt, info []byte }

type classifier struct {
	canaries map[string]int
	keys     []keyCand
	si       []saltInfo
	extra    []string // further texts an HMAC may have been computed over (renderings of non-string values a tag names)
}

func (c *classifier) classify(s string) string {
	if id, ok := c.canaries[s]; ok {
		return "(Plain " + hc.N(id) + ")"
	}
	switch {
	case s == "":
		return "(Plain 0%N)"
	case s == "[REDACTED]":
		return "Redacted"
	case strings.HasPrefix(s, "encrypted:"):
		ct, _, err := unframeEnc(s)
		if err != nil {
			return "Opaque"
		}
		for _, k := range c.keys {
			if pt, err := gcmOpen(k.key, ct); err == nil {
				return fmt.Sprintf("(Enc %s %s)", hc.N(k.id), c.classify(string(pt)))
			}
		}
		return "(Enc 0%N Opaque)"
	case strings.HasPrefix(s, "hmac-sha256:"):
		texts := append([]string{"[REDACTED]", ""}, c.extra...)
		for t := range c.canaries {
			texts = append(texts, t)
		}
		for _, k := range c.keys {
			for _, si := range c.si {
				for _, t := range texts {
					if hmacFramed(k.key, si.salt, si.info, []byte(t)) == s {
						return fmt.Sprintf("(Hmac %s %s)", hc.N(k.id), c.classify(t))
					}
				}
			}
		}
		return "(Hmac 0%N Opaque)"
	}
	return "Opaque"
}
