package main

// -crypto: C16.  Histories of Rotate / rotation payloads / events on ONE real encrypt.Filter; every produced value is
// attributed by the independent implementation of crypto.go to the candidate (key, salt, info) that reproduces it.

import (
	"context"
	"crypto/hmac"
	"crypto/sha256"
	"encoding/base64"
	"encoding/json"
	"fmt"
	"os"
	"reflect"
	"strings"
	"sync"
	"time"

	el "github.com/hashicorp/eventlogger"
	"github.com/hashicorp/eventlogger/filters/encrypt"
	wrapping "github.com/hashicorp/go-kms-wrapping/v2"
	"github.com/hashicorp/go-kms-wrapping/v2/extras/multi"
	"verifharness/hc"
)

type COp struct {
	K     string    `json:"k"`               // rotate rotpayload event
	W     int       `json:"w"`               // wrapper: 0 = nil (leave), 1..4
	S     int       `json:"s"`               // salt: -1 nil, 0 empty (non-nil), 1..3
	I     int       `json:"i"`               // info: likewise
	EWI   bool      `json:"ewi,omitempty"`   // the payload implements EventWrapperInfo
	F     int       `json:"f,omitempty"`     // which filter the operation goes to: 0 = the case's filter, 1 = a second filter built from the SAME salt / info slices
	Orig  bool      `json:"orig,omitempty"`  // rotate: back to the very slices the filters were built from (the caller's configuration)
	SL    bool      `json:"sl,omitempty"`    // the payload has slice-typed fields; Data lists the elements (2..5, equal and empty ones included)
	TM    bool      `json:"tm,omitempty"`    // the payload is a Taggable map: data[0] as []byte and as string under hmac tags, data[1] likewise under encrypt tags
	EvID  int       `json:"evid,omitempty"`  // event id "ev<n>", 0 = ""
	Data  []int     `json:"data,omitempty"`  // data ids of the five filtered fields
	Ov    [3]string `json:"ov,omitempty"`    // event: Filter.FilterOperationOverrides in force (public, sensitive, secret): "" absent, none redact encrypt hmac
	TF    []TField  `json:"tf,omitempty"`    // event: the payload's filtered values carry THESE class tags (struct tags / PointerTags of a Taggable map field)
	V     bool      `json:"v,omitempty"`     // rotpayload: a RotV handed over BY VALUE (RotateWrapper through value receivers)
	DP    []string  `json:"dp,omitempty"`    // event: container paths from the payload root down to a tagged leaf struct each: tokens m (map), l (slice), s (struct), p (pointer to struct), e.g. "m.m.s"
	Pool  []int     `json:"pool,omitempty"`  // the wrapper W is the ENCRYPTING key of a multi.PooledWrapper holding these keys as well (a pool of one: [W]); op "setenc": the pool the filter holds gets W as its encrypting wrapper, in place
	Again bool      `json:"again,omitempty"` // event: the very payload object of the previous event is sent once more
	Nil   bool      `json:"nil,omitempty"`   // rotate: a nil Option leads the list
	Rep   bool      `json:"rep,omitempty"`   // rotate: every option is given twice, a decoy value first (the last one wins); WithWrapper(nil) where no wrapper is set
	Sh    string    `json:"sh,omitempty"`    // callback cases: shape of the payload - "mid" (a Taggable field between other fields), "top" (the payload itself a Taggable struct), "map" (a Taggable map)
}
type CCase struct {
	ID        int    `json:"id"`
	Gen       string `json:"gen"`
	Init      COp    `json:"init"`
	Ops       []COp  `json:"ops"`
	Conc      int    `json:"conc,omitempty"`      // events processed concurrently with a sequence of rotations (0 = none)
	Alias     bool   `json:"alias,omitempty"`     // further filters share the initial salt / info slices; they are emitted as the cases with the next ids
	NF        int    `json:"nf,omitempty"`        // number of filters of an aliasing case (default 2)
	ViaRotate bool   `json:"viarotate,omitempty"` // the shared slices are handed to the filters through Rotate(WithSalt(s), WithInfo(i)) instead of the exported fields
	RP        bool   `json:"rp,omitempty"`        // ops[0] is a rotation payload whose accessors (Wrapper(), HmacSalt(), HmacInfo()) each start one of the events ops[1:] on the same filter, on another goroutine, and wait a bounded time for it
	CB        bool   `json:"cb,omitempty"`        // ops[0] is an event whose own Tags() callback rotates the filter as ops[1] says (Rotate or a rotation payload), part way through the event
}

// a filtered value of a tagged event: the text of its class tag (P: "classification,filter" of a PointerTag naming a key of a
// Taggable map field; otherwise a struct tag), string or []byte, datum
type TField struct {
	T string `json:"t"`
	P bool   `json:"p,omitempty"`
	B bool   `json:"b,omitempty"`
	D int    `json:"d"`
}

type CPlain struct {
	E1 string `class:"sensitive"`
	E2 []byte `class:"sensitive"`
	H1 string `class:"sensitive,hmac-sha256"`
	H2 []byte `class:"secret,hmac-sha256"`
	E3 string `class:"secret,encrypt"`
}
type CEwi struct {
	E1   string `class:"sensitive"`
	E2   []byte `class:"sensitive"`
	H1   string `class:"sensitive,hmac-sha256"`
	H2   []byte `class:"secret,hmac-sha256"`
	E3   string `class:"secret,encrypt"`
	id   string
	salt []byte
	info []byte
}

// ---------- events that rotate the filter from their own Tags() callback ----------
// The filter calls Tags() of a Taggable part way through an event: a rotation made there is the deterministic stand-in for a
// rotation scheduled between the head of Process and a value, or between two values, of ONE event.  Shapes: a Taggable map field
// between other fields (values before it are produced before the rotation, its own entries and the later fields after it), the
// payload itself a Taggable struct, the payload itself a Taggable map (everything after the rotation) - each with and without
// per-event wrapper info.
var cbHook func()

func fireCB() {
	if h := cbHook; h != nil {
		cbHook = nil
		h()
	}
}

var cbMapTags = []encrypt.PointerTag{
	{Pointer: "/h", Classification: encrypt.SensitiveClassification, Filter: encrypt.HmacSha256Operation},
	{Pointer: "/e", Classification: encrypt.SensitiveClassification}}

type CBMap map[string]interface{}

func (t CBMap) Tags() ([]encrypt.PointerTag, error) { fireCB(); return cbMapTags, nil }

type CBMapEwi map[string]interface{}

func (t CBMapEwi) Tags() ([]encrypt.PointerTag, error) { fireCB(); return cbMapTags, nil }
func (t CBMapEwi) EventId() string                     { s, _ := t["__id"].(string); return s }
func (t CBMapEwi) HmacSalt() []byte                    { b, _ := t["__salt"].([]byte); return b }
func (t CBMapEwi) HmacInfo() []byte                    { b, _ := t["__info"].([]byte); return b }

type CBMid struct {
	H1 string `class:"sensitive,hmac-sha256"`
	E1 string `class:"sensitive"`
	T  CBMap
	H2 []byte   `class:"secret,hmac-sha256"`
	HS []string `class:"sensitive,hmac-sha256"`
	E2 string   `class:"secret,encrypt"`
}
type CBMidEwi struct {
	H1   string `class:"sensitive,hmac-sha256"`
	E1   string `class:"sensitive"`
	T    CBMap
	H2   []byte   `class:"secret,hmac-sha256"`
	HS   []string `class:"sensitive,hmac-sha256"`
	E2   string   `class:"secret,encrypt"`
	id   string
	salt []byte
	info []byte
}

func (p *CBMidEwi) EventId() string  { return p.id }
func (p *CBMidEwi) HmacSalt() []byte { return p.salt }
func (p *CBMidEwi) HmacInfo() []byte { return p.info }

type CBTop struct {
	H1 string   `class:"sensitive,hmac-sha256"`
	E1 string   `class:"sensitive"`
	H2 []byte   `class:"secret,hmac-sha256"`
	HS []string `class:"sensitive,hmac-sha256"`
	E2 string   `class:"secret,encrypt"`
}

func (p *CBTop) Tags() ([]encrypt.PointerTag, error) { fireCB(); return nil, nil }

type CBTopEwi struct {
	H1   string   `class:"sensitive,hmac-sha256"`
	E1   string   `class:"sensitive"`
	H2   []byte   `class:"secret,hmac-sha256"`
	HS   []string `class:"sensitive,hmac-sha256"`
	E2   string   `class:"secret,encrypt"`
	id   string
	salt []byte
	info []byte
}

func (p *CBTopEwi) Tags() ([]encrypt.PointerTag, error) { fireCB(); return nil, nil }
func (p *CBTopEwi) EventId() string                     { return p.id }
func (p *CBTopEwi) HmacSalt() []byte                    { return p.salt }
func (p *CBTopEwi) HmacInfo() []byte                    { return p.info }

type cbField struct {
	hmac bool
	data int
}

// the payload of a callback event, and which datum / operation each of its values carries, split at the callback
func mkCBPayload(o COp) (p interface{}, pre, post []cbField) {
	d := func(i int) []byte { return append([]byte{}, dataPool[o.Data[i%len(o.Data)]]...) }
	di := func(i int) int { return o.Data[i%len(o.Data)] }
	id := evID(o.EvID)
	salt, info := poolBytes("salt", o.S), poolBytes("info", o.I)
	switch o.Sh {
	case "map":
		post = []cbField{{true, di(0)}, {false, di(1)}}
		if o.EWI {
			m := CBMapEwi{"h": string(d(0)), "e": string(d(1)), "__id": id}
			if salt != nil {
				m["__salt"] = salt
			}
			if info != nil {
				m["__info"] = info
			}
			return m, nil, post
		}
		return CBMap{"h": string(d(0)), "e": string(d(1))}, nil, post
	case "mid":
		pre = []cbField{{true, di(0)}, {false, di(1)}}
		post = []cbField{{true, di(2)}, {false, di(3)}, {true, di(4)}, {true, di(0)}, {true, di(2)}, {false, di(1)}}
		t := CBMap{"h": string(d(2)), "e": string(d(3))}
		if o.EWI {
			return &CBMidEwi{H1: string(d(0)), E1: string(d(1)), T: t, H2: d(4), HS: []string{string(d(0)), string(d(2))}, E2: string(d(1)), id: id, salt: salt, info: info}, pre, post
		}
		return &CBMid{H1: string(d(0)), E1: string(d(1)), T: t, H2: d(4), HS: []string{string(d(0)), string(d(2))}, E2: string(d(1))}, pre, post
	default: // "top"
		post = []cbField{{true, di(0)}, {false, di(1)}, {true, di(4)}, {true, di(0)}, {true, di(2)}, {false, di(1)}}
		if o.EWI {
			return &CBTopEwi{H1: string(d(0)), E1: string(d(1)), H2: d(4), HS: []string{string(d(0)), string(d(2))}, E2: string(d(1)), id: id, salt: salt, info: info}, nil, post
		}
		return &CBTop{H1: string(d(0)), E1: string(d(1)), H2: d(4), HS: []string{string(d(0)), string(d(2))}, E2: string(d(1))}, nil, post
	}
}

func cbOutFields(p interface{}) []string {
	mapVals := func(m map[string]interface{}) []string {
		out := make([]string, 2)
		for i, k := range []string{"h", "e"} {
			switch v := m[k].(type) {
			case string:
				out[i] = v
			case []byte:
				out[i] = string(v)
			}
		}
		return out
	}
	switch x := p.(type) {
	case CBMap:
		return mapVals(x)
	case CBMapEwi:
		return mapVals(x)
	case *CBMid:
		return append(append([]string{x.H1, x.E1}, mapVals(x.T)...), append(append([]string{string(x.H2)}, x.HS...), x.E2)...)
	case *CBMidEwi:
		return append(append([]string{x.H1, x.E1}, mapVals(x.T)...), append(append([]string{string(x.H2)}, x.HS...), x.E2)...)
	case *CBTop:
		return append(append([]string{x.H1, x.E1, string(x.H2)}, x.HS...), x.E2)
	case *CBTopEwi:
		return append(append([]string{x.H1, x.E1, string(x.H2)}, x.HS...), x.E2)
	}
	return nil
}

// the event and the rotation of a callback case (a case without operations is the first one ever recorded: an event with wrapper
// info and nil salt / info, the payload a Taggable struct, rotated from (w1, salt-1, info-1) to (w2, salt-2, info-2))
func cbOps(c CCase) (COp, COp) {
	if len(c.Ops) < 2 {
		return COp{K: "event", EWI: true, EvID: 1, S: -1, I: -1, Sh: "top", Data: []int{1, 1, 1, 1, 1}}, COp{K: "rotate", W: 2, S: 2, I: 2}
	}
	return c.Ops[0], c.Ops[1]
}

func execCB(c CCase, cd cands) cresult {
	var res cresult
	ctx := context.Background()
	ev, rot := cbOps(c)
	if len(ev.Data) == 0 {
		ev.Data = []int{1, 1, 1, 1, 1}
	}
	f := &encrypt.Filter{Wrapper: wrapperOf(c.Init.W, c.Init.Pool), HmacSalt: poolBytes("salt", c.Init.S), HmacInfo: poolBytes("info", c.Init.I)}
	p, pre, post := mkCBPayload(ev)
	fired := false
	cbHook = func() {
		fired = true
		if rot.K == "rotpayload" {
			_, _ = f.Process(ctx, &el.Event{Type: "t", CreatedAt: fixedTime, Payload: &Rot{W: cWrapper(rot.W), Salt: poolBytes("salt", rot.S), Info: poolBytes("info", rot.I)}})
			return
		}
		f.Rotate(rotOpts(rot)...)
	}
	valsLit := func(fs []cbField) string {
		items := make([]string, len(fs))
		for i, x := range fs {
			cop := "CEnc []"
			if x.hmac {
				cop = "CHmac"
			}
			items[i] = fmt.Sprintf("(%s, %s)", cop, bstrLit2(x.data))
		}
		return hc.List(items)
	}
	attribute := func(what string, fs []cbField, vals []string) string {
		items := make([]string, len(vals))
		for i, s := range vals {
			if i >= len(fs) {
				items[i] = "VUnknown"
				continue
			}
			orig := dataPool[fs[i].data]
			if fs[i].hmac {
				var a attribution
				items[i], a = attributeHmac(s, orig, fs[i].data, cd, false)
				res.log = append(res.log, fmt.Sprintf("%s value %d: hmac under key %d salt %d info %d (found %v)", what, i, a.kid, a.sid, a.iid, a.ok))
			} else {
				items[i] = attributeEnc(s, orig, cd.keys, false)
				res.log = append(res.log, fmt.Sprintf("%s value %d: %s", what, i, shortItem(items[i])))
			}
		}
		return hc.List(items)
	}
	after := []cbField{{false, 1}, {false, 1}, {true, 1}, {true, 1}, {false, 1}}
	obs := ""
	func() {
		defer func() {
			if r := recover(); r != nil {
				obs = "CbPanic"
				res.panics = append(res.panics, fmt.Sprintf("case %d (callback): %v", c.ID, r))
			}
		}()
		out, err := f.Process(ctx, &el.Event{Type: "t", CreatedAt: fixedTime, Payload: p})
		cbHook = nil
		if err != nil || out == nil {
			obs = "CbErr"
			res.log = append(res.log, fmt.Sprintf("callback event: error %v", err))
			return
		}
		vals := cbOutFields(out.Payload)
		if len(vals) != len(pre)+len(post) {
			obs = "(CbValues [] [] [])"
			return
		}
		res.log = append(res.log, fmt.Sprintf("callback fired: %v", fired))
		o1 := attribute("before the callback:", pre, vals[:len(pre)])
		o2 := attribute("after the callback:", post, vals[len(pre):])
		o3 := "[]"
		if nx, err := f.Process(ctx, &el.Event{Type: "t", CreatedAt: fixedTime, Payload: &CPlain{E1: string(dataPool[1]), E2: append([]byte{}, dataPool[1]...), H1: string(dataPool[1]), H2: append([]byte{}, dataPool[1]...), E3: string(dataPool[1])}}); err == nil && nx != nil {
			o3 = attribute("next event:", after, outFields(nx.Payload))
		}
		obs = fmt.Sprintf("(CbValues %s %s %s)", o1, o2, o3)
		res.nontriv = true
	}()
	cbHook = nil
	ewi := "None"
	if ev.EWI {
		id := "[]"
		if ev.EvID > 0 {
			id = "[" + hc.N(canonEv(ev.EvID)) + "]"
		}
		ewi = fmt.Sprintf("(Some (%s, %s, %s))", id, optBstrLit(ev.S), optBstrLit(ev.I))
	}
	cb := fmt.Sprintf("{| cb_init := {| f_wrap := %s; f_salt := %s; f_info := %s |}; cb_ewi := %s;\n      cb_pre := %s; cb_rot := (%s, %s, %s);\n      cb_post := %s;\n      cb_after := %s;\n      cb_obs := %s |}",
		optKeyLit(c.Init.W), optBstrLit(c.Init.S), optBstrLit(c.Init.I), ewi, valsLit(pre), optKeyLit(rot.W), optBstrLit(rot.S), optBstrLit(rot.I), valsLit(post), valsLit(after), obs)
	res.lit = fmt.Sprintf("{| cc_id := %s; cc_init := {| f_wrap := %s; f_salt := %s; f_info := %s |};\n   cc_steps := [];\n   cc_conc := []; cc_cbs := [%s]; cc_rps := []; cc_caller := true |}",
		hc.N(c.ID), optKeyLit(c.Init.W), optBstrLit(c.Init.S), optBstrLit(c.Init.I), cb)
	return res
}

// ---------- events whose values carry their own class tags ----------
// struct fields first, then the keys of the Taggable map field (the order the observations are read in)
func normTF(tf []TField) []TField {
	var a, b []TField
	for _, f := range tf {
		if f.P {
			b = append(b, f)
		} else {
			a = append(a, f)
		}
	}
	return append(a, b...)
}

// a pointer to a struct made for the tags (reflect.StructOf): fields F1.. (string / []byte) with the class tags, and a field T of
// the Taggable map type TMap whose PointerTags name its keys k1..; with wrapper info it sits behind EWI.P
func mkTagged(o COp) interface{} {
	tf := normTF(o.TF)
	var sf []reflect.StructField
	var ptags []PTag
	nS := 0
	for _, f := range tf {
		if f.P {
			cl, op := f.T, ""
			if i := strings.Index(f.T, ","); i >= 0 {
				cl, op = f.T[:i], f.T[i+1:]
			}
			ptags = append(ptags, PTag{Ptr: fmt.Sprintf("/k%d", len(ptags)+1), Class: cl, Op: op})
			continue
		}
		nS++
		t := tString
		if f.B {
			t = tBytes
		}
		sf = append(sf, reflect.StructField{Name: fmt.Sprintf("F%d", nS), Type: t, Tag: reflect.StructTag(fmt.Sprintf(`class:"%s"`, f.T))})
	}
	if len(ptags) > 0 {
		sf = append(sf, reflect.StructField{Name: "T", Type: tTMap})
	}
	pv := reflect.New(reflect.StructOf(sf))
	var tm TMap
	if len(ptags) > 0 {
		tm = TMap{"__id": regTags(ptags)}
	}
	i, k := 0, 0
	for _, f := range tf {
		d := append([]byte{}, dataPool[f.D]...)
		var v interface{} = string(d)
		if f.B {
			v = d
		}
		if f.P {
			k++
			tm[fmt.Sprintf("k%d", k)] = v
			continue
		}
		pv.Elem().Field(i).Set(reflect.ValueOf(v))
		i++
	}
	if tm != nil {
		pv.Elem().FieldByName("T").Set(reflect.ValueOf(tm))
	}
	if o.EWI {
		return &EWI{EvID: evID(o.EvID), Salt: poolBytes("salt", o.S), Info: poolBytes("info", o.I), P: pv.Interface()}
	}
	return pv.Interface()
}

func taggedOut(o COp, p interface{}) (out []string, ok bool) {
	defer func() {
		if recover() != nil {
			ok = false
		}
	}()
	if e, is := p.(*EWI); is {
		p = e.P
	}
	rv := reflect.ValueOf(p).Elem()
	i, k := 0, 0
	for _, f := range normTF(o.TF) {
		var v reflect.Value
		if f.P {
			k++
			v = rv.FieldByName("T").MapIndex(reflect.ValueOf(fmt.Sprintf("k%d", k)))
			if v.Kind() == reflect.Interface {
				v = v.Elem()
			}
		} else {
			v = rv.Field(i)
			i++
		}
		if v.Kind() == reflect.String {
			out = append(out, v.String())
		} else {
			out = append(out, string(v.Bytes()))
		}
	}
	return out, true
}

func ovLit(ov [3]string) string {
	_, a := opOf(ov[0])
	_, b := opOf(ov[1])
	_, c := opOf(ov[2])
	return fmt.Sprintf("{| ov_public := %s; ov_sensitive := %s; ov_secret := %s |}", a, b, c)
}

// ---------- rotation payloads whose accessors have side effects ----------
type RotHook struct {
	W    wrapping.Wrapper
	Salt []byte
	Info []byte
	at   func(k int)
	once [3]sync.Once
}

func (r *RotHook) Wrapper() wrapping.Wrapper { r.once[0].Do(func() { r.at(0) }); return r.W }
func (r *RotHook) HmacSalt() []byte          { r.once[1].Do(func() { r.at(1) }); return r.Salt }
func (r *RotHook) HmacInfo() []byte          { r.once[2].Do(func() { r.at(2) }); return r.Info }

// how long an accessor waits for the event it started (an atomic rotation makes that event wait for the rotation instead: the
// accessor then gives up after this time; nothing in the verdict depends on which of the two happens)
const hookWait = 25 * time.Millisecond

// CSlices: slice-typed fields under hmac and under encrypt: every ELEMENT is a value of its own
type CSlices struct {
	HS []string  `class:"sensitive,hmac-sha256"`
	HB [][]byte  `class:"secret,hmac-sha256"`
	PS *[]string `class:"sensitive,hmac-sha256"`
	ES []string  `class:"sensitive"`
}

// CTM: a Taggable map holding the same data as []byte and as string under tagged keys
type CTM map[string]interface{}

func (t CTM) Tags() ([]encrypt.PointerTag, error) {
	return []encrypt.PointerTag{
		{Pointer: "/hb", Classification: encrypt.SensitiveClassification, Filter: encrypt.HmacSha256Operation},
		{Pointer: "/hs", Classification: encrypt.SecretClassification, Filter: encrypt.HmacSha256Operation},
		{Pointer: "/eb", Classification: encrypt.SensitiveClassification},
		{Pointer: "/es", Classification: encrypt.SecretClassification, Filter: encrypt.EncryptOperation}}, nil
}

func (p *CEwi) EventId() string  { return p.id }
func (p *CEwi) HmacSalt() []byte { return p.salt }
func (p *CEwi) HmacInfo() []byte { return p.info }

var cWrappers = []string{"", "w1", "w2", "w3", "w4", "w5", "w6", "w7", "w8", "w9", "w10", "w11", "w12", "w13", "w14", "w15"}

// wrapper 5 reports the KEY ID of wrapper 1 but holds a different key (a rotation may keep the id)
// wrappers 6 and 7 have no key id at all (the empty id), and different keys
// wrappers 8 .. 15 have key ids of 1, 63, 64, 65, 127, 128, 129 and 1100 bytes, each a prefix of the next
var cKeyIDs = map[int]string{5: "w1", 6: "", 7: ""}

const nWrappers = 15

// The LENGTH alphabet of everything that is bytes (salt, info, event id, key id, plaintext): besides empty and a few bytes, one
// byte, the SHA-256 block size and twice the block size with their neighbours, and more than a thousand bytes.  The values of
// one kind are prefixes of ONE stream: any two of them of at least 64 (128) bytes share their first 64 (128) bytes, so whoever looks
// at a prefix only cannot tell them apart - a rotation from one to the other must still change every digest.
var lenAlphabet = []int{1, 63, 64, 65, 127, 128, 129, 1100}

var (
	streams   = map[string][]byte{}
	streamsMu sync.Mutex
)

// n bytes of the stream of a kind: none of them zero (an HKDF salt is a zero-padded HMAC key); printable when text is set
func stream(kind string, n int, text bool) []byte {
	streamsMu.Lock()
	defer streamsMu.Unlock()
	st := streams[kind]
	for ctr := len(st) / sha256.Size; len(st) < n; ctr++ {
		h := sha256.Sum256([]byte(fmt.Sprintf("verif-stream-%s-%d", kind, ctr)))
		for _, b := range h {
			if text {
				b = "abcdefghijklmnopqrstuvwxyzABCDEFGHIJKLMNOPQRSTUVWXYZ0123456789-_"[b%64]
			} else if b == 0 {
				b = 1
			}
			st = append(st, b)
		}
	}
	streams[kind] = st
	return append([]byte{}, st[:n]...)
}

func init() {
	for j, n := range lenAlphabet {
		cKeyIDs[8+j] = string(stream("keyid", n, true))
		evIDs = append(evIDs, string(stream("evid", n, true)))
	}
}

// -1 nil, 0 empty (non-nil), 1..3 values of one length, 4 a shorter and 5 a longer one, 6 a look-alike of 1,
// 7 .. 14 the length alphabet (1, 63, 64, 65, 127, 128, 129, 1100 bytes of one stream)
func poolBytes(kind string, i int) []byte {
	switch {
	case i < 0:
		return nil
	case i == 0:
		return []byte{}
	case i >= 7 && i < 7+len(lenAlphabet):
		return stream(kind, lenAlphabet[i-7], false)
	case i == 4:
		return []byte(kind[:1] + "4")
	case i == 5:
		return []byte(kind + "-5-a-longer-value")
	case i == 6:
		// a look-alike of value 1: with a trailing NUL byte for the info; for the salt with a trailing space, because an HKDF
		// salt is an HMAC key and HMAC keys are zero-padded: "salt-1" and "salt-1\x00" are the SAME salt
		if kind == "salt" {
			return []byte(kind + "-1 ")
		}
		return []byte(kind + "-1\x00")
	}
	return []byte(fmt.Sprintf("%s-%d", kind, i))
}

const poolMax = 14

var dataPool [][]byte

func initDataPool() {
	long := make([]byte, 300)
	for i := range long {
		long[i] = byte(i * 7)
	}
	dataPool = [][]byte{{}, []byte("a"), {0xff, 0xfe, 0x00, 0x80}, long, []byte("h\xc3\xa9llo w\xc3\xb6rld"), []byte("[REDACTED]"), []byte("encrypted:Zm9v"), []byte("hmac-sha256:"), {0}, []byte("payload-9")}
	// plaintexts of 63, 64, 65, 127, 128, 129 and 1100 bytes (1 byte is there), each a prefix of the next
	for _, n := range lenAlphabet[1:] {
		dataPool = append(dataPool, stream("data", n, false))
	}
}

func cWrapper(i int) wrapping.Wrapper {
	if i <= 0 {
		return nil
	}
	w := newAead(cWrappers[i])
	if id, ok := cKeyIDs[i]; ok {
		if _, err := w.SetConfig(context.Background(), wrapping.WithKeyId(id)); err != nil {
			panic(err)
		}
	}
	return w
}

func bstrLit(i int) string { // salt / info / datum as the model sees it
	if i <= 0 {
		return "[]"
	}
	return "[" + hc.N(i) + "]"
}
func optBstrLit(i int) string {
	if i < 0 {
		return "None"
	}
	return "(Some " + bstrLit(i) + ")"
}
func optKeyLit(w int) string {
	if w <= 0 {
		return "None"
	}
	return "(Some " + hc.N(w) + ")"
}

type attribution struct {
	kid, sid, iid int
	ok            bool
}

// the event ids of EventWrapperInfo payloads (index 0 = ""): look-alikes that differ in case, in white space at either end, in a
// trailing newline / NUL byte, a long one and a non-ASCII one - the per-event key is derived from the EXACT bytes
var evIDs = []string{"", "Ev-1", "Ev-2", "Ev-3", " ", "a", "a ", " a", "A", "a\n", "a\x00", strings.Repeat("event-id-", 24), "\xc3\xa9v\xc3\xa9nement-\xe6\x97\xa5\xe6\x9c\xac"}

// Event ids that differ only in trailing NUL bytes derive the SAME per-event key: NewEventWrapper uses the id as HKDF salt, an
// HKDF salt is an HMAC key, and HMAC keys are zero-padded.  The model is handed one id for them.
func canonEv(i int) int {
	if i > 0 && i < len(evIDs) {
		t := strings.TrimRight(evIDs[i], "\x00")
		for j := 1; j < i; j++ {
			if evIDs[j] == t {
				return j
			}
		}
	}
	return i
}

func evID(i int) string {
	if i <= 0 || i >= len(evIDs) {
		return ""
	}
	return evIDs[i]
}

var derivedKeyCache = map[int][]byte{}

// The candidates a value of a case is attributed to: every wrapper's key; the per-event keys derived from the wrappers the case
// uses (and 1 .. 3) for every event id (those the case uses first, so that a value under the key of ANOTHER id is named, not just
// "unknown"); the salts and infos the case uses besides the empty one and 1 .. 3.  What lies outside is "unknown" - a violation
// just the same.
type cands struct {
	keys         []keyCand
	salts, infos []int
	// the triples that reproduced the last few values of the case, tried first (the candidates are pairwise distinguishable, so
	// the order of the search does not change its result); nil where values are attributed from several goroutines
	mru *[]mruHit
}

type mruHit struct {
	k      keyCand
	si, ii int
}

func derivedKey(w, e int) keyCand {
	id := w*1000 + e
	hkdfCacheMu.Lock()
	k, ok := derivedKeyCache[id]
	hkdfCacheMu.Unlock()
	if !ok {
		k = deriveEventKey(keyBytes(cWrappers[w]), evID(e))
		hkdfCacheMu.Lock()
		derivedKeyCache[id] = k
		hkdfCacheMu.Unlock()
	}
	return keyCand{id, k}
}

func candsOf(c CCase) cands {
	var cd cands
	seenW, seenE, seenS, seenI := map[int]bool{}, map[int]bool{}, map[int]bool{}, map[int]bool{}
	var ws, ids []int
	addW := func(w int) {
		if w > 0 && w <= nWrappers && !seenW[w] {
			seenW[w] = true
			ws = append(ws, w)
		}
	}
	addSI := func(s, i int) {
		if s < 0 {
			s = 0
		}
		if i < 0 {
			i = 0
		}
		if !seenS[s] {
			seenS[s] = true
			cd.salts = append(cd.salts, s)
		}
		if !seenI[i] {
			seenI[i] = true
			cd.infos = append(cd.infos, i)
		}
	}
	addW(c.Init.W)
	for _, m := range c.Init.Pool {
		addW(m)
	}
	addSI(c.Init.S, c.Init.I)
	ops := c.Ops
	if c.CB {
		e, r := cbOps(c)
		ops = []COp{e, r}
	}
	for _, o := range ops {
		addW(o.W)
		for _, m := range o.Pool {
			addW(m)
		}
		addSI(o.S, o.I)
		if o.EWI && o.EvID > 0 && canonEv(o.EvID) == o.EvID && !seenE[o.EvID] {
			seenE[o.EvID] = true
			ids = append(ids, o.EvID)
		}
	}
	for k := 0; k <= 3; k++ {
		addSI(k, k)
		addW(k)
	}
	for e := 1; e < len(evIDs); e++ {
		if canonEv(e) == e && !seenE[e] {
			seenE[e] = true
			ids = append(ids, e)
		}
	}
	cd.mru = &[]mruHit{}
	// the wrappers themselves first, then per event id
	for w := 1; w <= nWrappers; w++ {
		cd.keys = append(cd.keys, keyCand{w, keyBytes(cWrappers[w])})
	}
	for _, e := range ids {
		for _, w := range ws {
			cd.keys = append(cd.keys, derivedKey(w, e))
		}
	}
	return cd
}

func attributeEnc(s string, orig []byte, keys []keyCand, ship bool) string {
	ct, _, err := unframeEnc(s)
	if err != nil {
		return "VUnknown"
	}
	raw, _ := base64.RawURLEncoding.DecodeString(strings.TrimPrefix(s, "encrypted:"))
	for _, k := range keys {
		if pt, err := gcmOpen(k.key, ct); err == nil {
			if !ship {
				return fmt.Sprintf("(VEnc %s %s [] [])", hc.N(k.id), hc.B(string(pt) == string(orig)))
			}
			return fmt.Sprintf("(VEnc %s %s %s %s)", hc.N(k.id), hc.B(string(pt) == string(orig)), hexLit(raw), hexLit([]byte(s)))
		}
	}
	return "VUnknown"
}

func attributeHmac(s string, orig []byte, did int, cd cands, ship bool) (string, attribution) {
	if !strings.HasPrefix(s, "hmac-sha256:") {
		return "VUnknown", attribution{}
	}
	mac, err := base64.RawURLEncoding.DecodeString(s[len("hmac-sha256:"):])
	if err != nil {
		return "VUnknown", attribution{}
	}
	hit := func(k keyCand, si, ii int) (string, attribution) {
		framed := "[]"
		if ship {
			framed = hexLit([]byte(s))
		}
		return fmt.Sprintf("(VHmac %s %s %s %s %s %s)", hc.N(k.id), bstrLit(si), bstrLit(ii), hc.N(did), hexLit(mac), framed), attribution{k.id, si, ii, true}
	}
	if cd.mru != nil {
		for n, h := range *cd.mru {
			if hmacFramedCached(h.k, h.si, h.ii, orig) == s {
				if n > 0 {
					copy((*cd.mru)[1:n+1], (*cd.mru)[:n])
					(*cd.mru)[0] = h
				}
				return hit(h.k, h.si, h.ii)
			}
		}
	}
	for _, k := range cd.keys {
		for _, si := range cd.salts { // nil and empty are the same HKDF salt: 0 stands for both
			for _, ii := range cd.infos {
				if hmacFramedCached(k, si, ii, orig) == s {
					if cd.mru != nil {
						m := append([]mruHit{{k, si, ii}}, *cd.mru...)
						if len(m) > 6 {
							m = m[:6]
						}
						*cd.mru = m
					}
					return hit(k, si, ii)
				}
			}
		}
	}
	return "VUnknown", attribution{}
}

// the HKDF expansion of every candidate (key, salt, info) is computed once
var (
	hkdfCache   = map[[3]int][]byte{}
	hkdfCacheMu sync.Mutex // the attribution runs on the processing goroutines of the concurrent part
)

func hmacFramedCached(k keyCand, si, ii int, data []byte) string {
	id := [3]int{k.id, si, ii}
	hkdfCacheMu.Lock()
	dk, ok := hkdfCache[id]
	if !ok {
		dk = hkdfSHA256(k.key, poolBytes("salt", si), poolBytes("info", ii), 32)
		hkdfCache[id] = dk
	}
	hkdfCacheMu.Unlock()
	m := hmac.New(sha256.New, dk)
	m.Write(data)
	return "hmac-sha256:" + base64.RawURLEncoding.EncodeToString(m.Sum(nil))
}

// the wrapper KIND: a plain AEAD wrapper, or a pooled wrapper (extras/multi) whose encrypting key is wrapper w and which holds
// the other keys for decryption only - the key in force is the pool's encrypting key, wherever its key id sorts among the others
func wrapperOf(w int, pool []int) wrapping.Wrapper {
	if w <= 0 || len(pool) == 0 {
		return cWrapper(w)
	}
	ctx := context.Background()
	pw, err := multi.NewPooledWrapper(ctx, cWrapper(w))
	if err != nil {
		panic(err)
	}
	for _, m := range pool {
		if m != w && m > 0 {
			if _, err := pw.AddWrapper(ctx, cWrapper(m)); err != nil {
				panic(err)
			}
		}
	}
	return pw
}

func rotOpts(o COp) []encrypt.Option {
	var opts []encrypt.Option
	if o.W > 0 {
		opts = append(opts, encrypt.WithWrapper(wrapperOf(o.W, o.Pool)))
	}
	if o.S >= 0 {
		opts = append(opts, encrypt.WithSalt(poolBytes("salt", o.S)))
	}
	if o.I >= 0 {
		opts = append(opts, encrypt.WithInfo(poolBytes("info", o.I)))
	}
	return opts
}

// ---------- values at every depth and along every container path ----------
// CLeaf: the tagged struct at the end of a path
type CLeaf struct {
	E string `class:"sensitive"`
	H []byte `class:"secret,hmac-sha256"`
}

// the value at the head of a path: m = map[string]interface{}{"k1": rest}, l = a slice of the rest, s / p = a struct (pointer to
// a struct) with the rest as its only field, or - at the end of the path - the leaf itself
func buildPath(toks []string, d []byte) reflect.Value {
	if len(toks) == 1 {
		leaf := CLeaf{E: string(d), H: append([]byte{}, d...)}
		if toks[0] == "p" {
			return reflect.ValueOf(&leaf)
		}
		return reflect.ValueOf(leaf)
	}
	in := buildPath(toks[1:], d)
	switch toks[0] {
	case "m":
		return reflect.ValueOf(map[string]interface{}{"k1": in.Interface()})
	case "l":
		return reflect.Append(reflect.MakeSlice(reflect.SliceOf(in.Type()), 0, 1), in)
	}
	st := reflect.New(reflect.StructOf([]reflect.StructField{{Name: "F1", Type: in.Type()}}))
	st.Elem().Field(0).Set(in)
	if toks[0] == "p" {
		return st
	}
	return st.Elem()
}

func mkDeep(o COp) interface{} {
	var vals []reflect.Value
	var sf []reflect.StructField
	for i, path := range o.DP {
		v := buildPath(strings.Split(path, "."), dataPool[o.Data[i%len(o.Data)]])
		vals = append(vals, v)
		sf = append(sf, reflect.StructField{Name: fmt.Sprintf("F%d", i+1), Type: v.Type()})
	}
	pv := reflect.New(reflect.StructOf(sf))
	for i, v := range vals {
		pv.Elem().Field(i).Set(v)
	}
	if o.EWI {
		return &EWI{EvID: evID(o.EvID), Salt: poolBytes("salt", o.S), Info: poolBytes("info", o.I), P: pv.Interface()}
	}
	return pv.Interface()
}

func deepOut(o COp, p interface{}) (out []string) {
	defer func() {
		if recover() != nil {
			out = nil
		}
	}()
	if e, is := p.(*EWI); is {
		p = e.P
	}
	root := reflect.ValueOf(p).Elem()
	for i, path := range o.DP {
		v := root.Field(i)
		toks := strings.Split(path, ".")
		for j, t := range toks {
			for v.Kind() == reflect.Interface || v.Kind() == reflect.Ptr {
				v = v.Elem()
			}
			if j == len(toks)-1 {
				break
			}
			switch t {
			case "m":
				v = v.MapIndex(reflect.ValueOf("k1"))
			case "l":
				v = v.Index(0)
			default:
				v = v.Field(0)
			}
		}
		for v.Kind() == reflect.Interface || v.Kind() == reflect.Ptr {
			v = v.Elem()
		}
		out = append(out, v.Field(0).String(), string(v.Field(1).Bytes()))
	}
	return out
}

func outFieldsOf(o COp, p interface{}) []string {
	if len(o.DP) > 0 {
		return deepOut(o, p)
	}
	return outFields(p)
}

func mkPayload(o COp) interface{} {
	if len(o.DP) > 0 {
		return mkDeep(o)
	}
	d := func(i int) []byte { return append([]byte{}, dataPool[o.Data[i]]...) }
	if o.TM {
		return CTM{"hb": d(0), "hs": string(d(0)), "eb": d(1), "es": string(d(1))}
	}
	if o.SL {
		p := &CSlices{PS: &[]string{}}
		for i := range o.Data {
			p.HS = append(p.HS, string(d(i)))
			p.HB = append(p.HB, d(i))
			*p.PS = append(*p.PS, string(d(i)))
			if i < 2 {
				p.ES = append(p.ES, string(d(i)))
			}
		}
		return p
	}
	if o.EWI {
		id := ""
		if o.EvID > 0 {
			id = evID(o.EvID)
		}
		return &CEwi{E1: string(d(0)), E2: d(1), H1: string(d(2)), H2: d(3), E3: string(d(4)), id: id, salt: poolBytes("salt", o.S), info: poolBytes("info", o.I)}
	}
	return &CPlain{E1: string(d(0)), E2: d(1), H1: string(d(2)), H2: d(3), E3: string(d(4))}
}

func outFields(p interface{}) []string {
	switch x := p.(type) {
	case *CPlain:
		return []string{x.E1, string(x.E2), x.H1, string(x.H2), x.E3}
	case *CEwi:
		return []string{x.E1, string(x.E2), x.H1, string(x.H2), x.E3}
	case *CSlices:
		var out []string
		out = append(out, x.HS...)
		for _, b := range x.HB {
			out = append(out, string(b))
		}
		if x.PS != nil {
			out = append(out, *x.PS...)
		}
		return append(out, x.ES...)
	case CTM:
		out := make([]string, 4)
		for i, k := range []string{"hb", "hs", "eb", "es"} {
			switch v := x[k].(type) {
			case string:
				out[i] = v
			case []byte:
				out[i] = string(v)
			}
		}
		return out
	}
	return nil
}

var concValues int // HMAC values produced under concurrent rotation and attributed in this run

type cresult struct {
	lit     string
	more    []string // the further filters of an aliasing case (each its own history, judged against its own key in force)
	log     []string
	nontriv bool
	panics  []string
}

func execCrypto(c CCase) cresult {
	ctx := context.Background()
	cd := candsOf(c)
	if c.CB {
		return execCB(c, cd)
	}
	if c.RP && len(c.Ops) > 0 {
		return execRP(c, cd)
	}
	origSalt, origInfo := poolBytes("salt", c.Init.S), poolBytes("info", c.Init.I)
	mk := func() *encrypt.Filter {
		if c.ViaRotate {
			return &encrypt.Filter{Wrapper: wrapperOf(c.Init.W, c.Init.Pool)} // salt / info arrive with the first operations (rotate, Orig)
		}
		return &encrypt.Filter{Wrapper: wrapperOf(c.Init.W, c.Init.Pool), HmacSalt: origSalt, HmacInfo: origInfo}
	}
	filters := []*encrypt.Filter{mk()}
	if c.Alias {
		// further filters configured with the very same slices
		nf := c.NF
		if nf < 2 {
			nf = 2
		}
		for len(filters) < nf {
			filters = append(filters, mk())
		}
	}
	initS, initI := optBstrLit(c.Init.S), optBstrLit(c.Init.I)
	if c.ViaRotate {
		initS, initI = "None", "None"
	}
	var res cresult
	stepsOf := make([][]string, len(filters))
	rotated, shipped := false, false
	var lastP interface{}
	// every forwarded event is read again at the end of the history: what a later call does must not show in it
	type keptEvent struct {
		o    COp
		out  *el.Event
		vals []string
	}
	var kept []keptEvent
	readVals := func(o COp, out *el.Event) []string {
		if len(o.TF) > 0 {
			v, _ := taggedOut(o, out.Payload)
			return v
		}
		return outFieldsOf(o, out.Payload)
	}
	// the bytes of a value (blob / mac / framed text) go to Coq for the framing check (Base64.v) while the case's budget lasts:
	// long plaintexts and long key ids make long blobs, and the byte literals are what a shard's evaluation time goes into
	budget := 2500
	if c.Gen == "special" {
		budget = 7000
	}
	for n, o := range c.Ops {
		f := filters[o.F%len(filters)]
		var opLit, obs, whole string
		func() {
			defer func() {
				if r := recover(); r != nil {
					obs = "CoPanic"
					res.panics = append(res.panics, fmt.Sprintf("case %d step %d: %v", c.ID, n, r))
				}
			}()
			// the override table in force at this operation (an exported field, assigned between the operations); only events carry one
			setOverrides(f, Cfg{Ov: o.Ov})
			switch o.K {
			case "rotate":
				if o.Orig {
					opLit = fmt.Sprintf("ORotate N None %s %s", optBstrLit(c.Init.S), optBstrLit(c.Init.I))
					f.Rotate(encrypt.WithSalt(origSalt), encrypt.WithInfo(origInfo))
				} else {
					opLit = fmt.Sprintf("ORotate N %s %s %s", optKeyLit(o.W), optBstrLit(o.S), optBstrLit(o.I))
					opts := rotOpts(o)
					if o.Rep {
						// every option twice, a decoy first: the last one wins; an explicit nil wrapper leaves the wrapper alone
						decoy := rotOpts(COp{W: 1 + o.W%4, S: 3, I: 2})
						if o.W <= 0 {
							decoy[0] = encrypt.WithWrapper(nil)
						}
						if o.S < 0 {
							decoy[1] = nil
						}
						if o.I < 0 {
							decoy[2] = nil
						}
						opts = append(decoy, opts...)
					}
					if o.Nil {
						opts = append([]encrypt.Option{nil}, append(opts, nil)...)
					}
					f.Rotate(opts...)
				}
				obs = "CoNone"
				rotated = true
			case "rotpayload":
				opLit = fmt.Sprintf("ORotPayload N %s %s %s", optKeyLit(o.W), optBstrLit(o.S), optBstrLit(o.I))
				rp := &Rot{W: wrapperOf(o.W, o.Pool), Salt: poolBytes("salt", o.S), Info: poolBytes("info", o.I)}
				var rpl interface{} = rp
				if o.V {
					rpl = RotV{W: rp.W, Salt: rp.Salt, Info: rp.Info}
				}
				if o.EWI {
					// a rotation payload that ALSO has an event id (RotateWrapper + EventWrapperInfo): still a rotation payload
					if o.V {
						rpl = RotEwiV{W: rp.W, Salt: rp.Salt, Info: rp.Info, ID: "Ev-1"}
					} else {
						rpl = &RotEwi{W: rp.W, Salt: rp.Salt, Info: rp.Info, ID: "Ev-1"}
					}
				}
				out, err := f.Process(ctx, &el.Event{Type: "t", CreatedAt: fixedTime, Payload: rpl})
				// the payload's own slices are scribbled over afterwards: the filter must not have kept them
				for _, b := range [][]byte{rp.Salt, rp.Info} {
					for i := range b {
						b[i] ^= 0x55
					}
				}
				switch {
				case err != nil:
					obs = "CoErr"
				case out == nil:
					obs = "CoConsumed"
				default:
					obs = "(CoValues [])"
				}
				rotated = true
			case "reopen", "type":
				// methods the property does not mention: identity steps of the model
				opLit, obs = "ORotate N None None None", "CoNone"
				if o.K == "reopen" && f.Reopen() != nil || o.K == "type" && f.Type() != el.NodeTypeFilter {
					obs = "CoErr"
				}
			case "setenc":
				// the pooled wrapper the filter holds gets another encrypting key IN PLACE (no method of the filter is called): as far
				// as the key in force goes, a rotation of the wrapper - when the pool accepts it (a key id it holds already is refused)
				opLit, obs = "ORotate N None None None", "CoNone"
				if pw, ok := f.Wrapper.(*multi.PooledWrapper); ok && o.W > 0 {
					if done, err := pw.SetEncryptingWrapper(ctx, cWrapper(o.W)); err == nil && done {
						opLit = fmt.Sprintf("ORotate N %s None None", optKeyLit(o.W))
						rotated = true
					}
				}
			case "setfield":
				// the exported fields assigned directly between two events (no event in flight): W 0 = left alone, S / I -2 = left
				// alone, -1 = set to nil (the empty salt / info, as far as the key in force goes)
				ws, ss, is := "None", "None", "None"
				if o.W > 0 {
					f.Wrapper, ws = wrapperOf(o.W, o.Pool), optKeyLit(o.W)
				}
				if o.S >= -1 {
					f.HmacSalt, ss = poolBytes("salt", o.S), "(Some "+bstrLit(o.S)+")"
				}
				if o.I >= -1 {
					f.HmacInfo, is = poolBytes("info", o.I), "(Some "+bstrLit(o.I)+")"
				}
				opLit, obs = fmt.Sprintf("ORotate N %s %s %s", ws, ss, is), "CoNone"
				rotated = true
			default:
				ewi, vals, dataOf, isHmac := eventModel(o)
				var p interface{}
				switch {
				case o.Again && lastP != nil:
					p = lastP
				case len(o.TF) > 0:
					p = mkTagged(o)
				default:
					p = mkPayload(o)
				}
				lastP = p
				in := &el.Event{Type: "t", CreatedAt: fixedTime, Payload: p}
				// contexts of every kind in turn: the key in force does not depend on the context
				ectx, ecancel := ctxOf([]string{"", "cancelled", "", "deadline", "custom", "", "cause"}[n%7])
				out, err := f.Process(ectx, in)
				ecancel()
				if out != nil && out != in {
					kept = append(kept, keptEvent{o, out, readVals(o, out)})
				}
				ship := c.Gen == "special" || !shipped
				shipped = true
				if len(o.TF) > 0 {
					whole = taggedStep(n, o, ewi, in, out, err, cd, &res)
				} else {
					opLit = fmt.Sprintf("OEvent N %s %s", ewi, vals)
					obs = observeEvent(fmt.Sprintf("step %d", n), o, out, err, dataOf, isHmac, cd, ship, &budget, &res)
				}
				if rotated && out != nil {
					res.nontriv = true
				}
			}
		}()
		if whole != "" && obs != "CoPanic" {
			stepsOf[o.F%len(filters)] = append(stepsOf[o.F%len(filters)], whole)
			continue
		}
		if opLit == "" { // a panic before the operation was described: the model's event, observed as a panic
			ewi, vals, _, _ := eventModel(o)
			opLit = fmt.Sprintf("OEvent N %s %s", ewi, vals)
		}
		stepsOf[o.F%len(filters)] = append(stepsOf[o.F%len(filters)], fmt.Sprintf("(%s, %s)", opLit, obs))
	}
	steps := stepsOf[0]
	conc := concurrentPart(c, cd, &res)
	concValues += len(conc)
	// the slices the caller configured the filters with must still hold what the caller put there
	callerOK := string(origSalt) == string(poolBytes("salt", c.Init.S)) && string(origInfo) == string(poolBytes("info", c.Init.I))
	for _, k := range kept {
		now := readVals(k.o, k.out)
		if len(now) != len(k.vals) {
			callerOK = false
		}
		for i := range now {
			if i < len(k.vals) && now[i] != k.vals[i] {
				callerOK = false
				res.log = append(res.log, "an event forwarded earlier changed after later calls")
			}
		}
	}
	res.lit = fmt.Sprintf("{| cc_id := %s; cc_init := {| f_wrap := %s; f_salt := %s; f_info := %s |};\n   cc_steps := %s;\n   cc_conc := %s; cc_cbs := []; cc_rps := []; cc_caller := %s |}",
		hc.N(c.ID), optKeyLit(c.Init.W), initS, initI, hc.List(steps), hc.List(conc), hc.B(callerOK))
	for i := 1; i < len(filters); i++ {
		res.more = append(res.more, fmt.Sprintf("{| cc_id := %s; cc_init := {| f_wrap := %s; f_salt := %s; f_info := %s |};\n   cc_steps := %s;\n   cc_conc := []; cc_cbs := []; cc_rps := []; cc_caller := true |}",
			hc.N(c.ID+i), optKeyLit(c.Init.W), initS, initI, hc.List(stepsOf[i])))
	}
	return res
}

// the model's side of an event: its wrapper info, the values its tags dictate (with the default operations; a tagged event's
// values are resolved by Tag.v, see taggedStep), and per output field the datum and whether it is an HMAC
func eventModel(o COp) (ewi, vals string, dataOf []int, isHmac func(int) bool) {
	ewi = "None"
	if o.EWI {
		id := "[]"
		if o.EvID > 0 {
			id = "[" + hc.N(canonEv(o.EvID)) + "]"
		}
		ewi = fmt.Sprintf("(Some (%s, %s, %s))", id, optBstrLit(o.S), optBstrLit(o.I))
	}
	if len(o.TF) > 0 {
		return ewi, "[]", nil, func(int) bool { return false }
	}
	dataOf = o.Data
	isHmac = func(i int) bool { return i == 2 || i == 3 }
	if len(o.DP) > 0 {
		// per path the leaf's encrypted string and its HMAC-ed []byte
		dataOf = nil
		for i := range o.DP {
			d := o.Data[i%len(o.Data)]
			dataOf = append(dataOf, d, d)
		}
		isHmac = func(i int) bool { return i%2 == 1 }
	}
	if o.TM {
		dataOf = []int{o.Data[0], o.Data[0], o.Data[1], o.Data[1]}
		isHmac = func(i int) bool { return i < 2 }
	}
	if o.SL {
		n := len(o.Data)
		dataOf = append(append(append([]int{}, o.Data...), o.Data...), o.Data...)
		for i := 0; i < n && i < 2; i++ {
			dataOf = append(dataOf, o.Data[i])
		}
		isHmac = func(i int) bool { return i < 3*n }
	}
	items := make([]string, len(dataOf))
	for i, d := range dataOf {
		cop := "CEnc []"
		if isHmac(i) {
			cop = "CHmac"
		}
		items[i] = fmt.Sprintf("(%s, %s)", cop, bstrLit2(d))
	}
	return ewi, hc.List(items), dataOf, isHmac
}

// what an event gave: error, consumed, or every value attributed among the candidates of the case
func observeEvent(what string, o COp, out *el.Event, err error, dataOf []int, isHmac func(int) bool, cd cands, ship bool, budget *int, res *cresult) string {
	switch {
	case err != nil && out == nil:
		res.log = append(res.log, fmt.Sprintf("%s: error %v", what, err))
		return "CoErr"
	case out == nil:
		return "CoConsumed"
	}
	fs := outFieldsOf(o, out.Payload)
	items := make([]string, len(fs))
	for i, s := range fs {
		if i >= len(dataOf) {
			items[i] = "VUnknown"
			continue
		}
		orig := dataPool[dataOf[i]]
		sv := ship && 2*len(s) <= *budget
		if sv {
			*budget -= 2 * len(s)
		}
		if isHmac(i) {
			var a attribution
			items[i], a = attributeHmac(s, orig, dataOf[i], cd, sv)
			res.log = append(res.log, fmt.Sprintf("%s value %d: hmac under key %d salt %d info %d (found %v)", what, i, a.kid, a.sid, a.iid, a.ok))
		} else {
			items[i] = attributeEnc(s, orig, cd.keys, sv)
			res.log = append(res.log, fmt.Sprintf("%s value %d: %s", what, i, shortItem(items[i])))
		}
	}
	return "(CoValues " + hc.List(items) + ")"
}

// a tagged event as a step of the history: (tstep overrides wrapper-info fields result); Tag.v resolves what each tag dictates
func taggedStep(n int, o COp, ewi string, in, out *el.Event, err error, cd cands, res *cresult) string {
	tf := normTF(o.TF)
	fields := make([]string, len(tf))
	for i, f := range tf {
		fields[i] = fmt.Sprintf("{| tf_tag := %s; tf_data := %s |}", q(f.T), bstrLit2(f.D))
	}
	r := ""
	switch {
	case err != nil && out == nil:
		r = "TrErr"
		res.log = append(res.log, fmt.Sprintf("step %d: error %v", n, err))
	case out == nil:
		r = "TrConsumed"
	case out == in:
		r = "TrSame"
	default:
		vals, ok := taggedOut(o, out.Payload)
		if !ok || len(vals) != len(tf) {
			r = "(TrOut [])"
			break
		}
		items := make([]string, len(vals))
		for i, s := range vals {
			orig := dataPool[tf[i].D]
			items[i] = fmt.Sprintf("(TText %s %s)", hc.B(s == string(orig)), hc.B(s == "[REDACTED]"))
			switch {
			case strings.HasPrefix(s, "hmac-sha256:"):
				if lit, a := attributeHmac(s, orig, tf[i].D, cd, false); a.ok {
					items[i] = "(TVal " + lit + ")"
				}
			case strings.HasPrefix(s, "encrypted:"):
				if lit := attributeEnc(s, orig, cd.keys, false); lit != "VUnknown" {
					items[i] = "(TVal " + lit + ")"
				}
			}
			res.log = append(res.log, fmt.Sprintf("step %d value %d (tag %q): %s", n, i, tf[i].T, shortItem(items[i])))
		}
		r = "(TrOut " + hc.List(items) + ")"
	}
	return fmt.Sprintf("(tstep %s %s %s %s)", ovLit(o.Ov), ewi, hc.List(fields), r)
}

// a rotation payload whose accessors each start an event on the same filter (another goroutine, bounded wait)
func execRP(c CCase, cd cands) cresult {
	var res cresult
	ctx := context.Background()
	cd.mru = nil
	f := &encrypt.Filter{Wrapper: wrapperOf(c.Init.W, c.Init.Pool), HmacSalt: poolBytes("salt", c.Init.S), HmacInfo: poolBytes("info", c.Init.I)}
	rot := c.Ops[0]
	evs := c.Ops[1:]
	type slot struct {
		o    COp
		out  *el.Event
		err  error
		pan  interface{}
		done chan struct{}
	}
	var slots [3]*slot
	rp := &RotHook{W: cWrapper(rot.W), Salt: poolBytes("salt", rot.S), Info: poolBytes("info", rot.I)}
	rp.at = func(k int) {
		if len(evs) == 0 {
			return
		}
		sl := &slot{o: evs[k%len(evs)], done: make(chan struct{})}
		slots[k] = sl
		go func() {
			defer close(sl.done)
			defer func() {
				if r := recover(); r != nil {
					sl.pan = r
				}
			}()
			sl.out, sl.err = f.Process(ctx, &el.Event{Type: "t", CreatedAt: fixedTime, Payload: mkPayload(sl.o)})
		}()
		select {
		case <-sl.done:
		case <-time.After(hookWait):
		}
	}
	consumed := false
	func() {
		defer func() {
			if r := recover(); r != nil {
				res.panics = append(res.panics, fmt.Sprintf("case %d (rotation payload): %v", c.ID, r))
			}
		}()
		out, err := f.Process(ctx, &el.Event{Type: "t", CreatedAt: fixedTime, Payload: rp})
		consumed = out == nil && err == nil
	}()
	budget := 0
	var hooked []string
	for k, sl := range slots {
		if sl == nil {
			continue
		}
		ewi, vals, dataOf, isHmac := eventModel(sl.o)
		obs := ""
		select {
		case <-sl.done:
			if sl.pan != nil {
				obs = "CoPanic"
				res.panics = append(res.panics, fmt.Sprintf("case %d (event started by accessor %d): %v", c.ID, k, sl.pan))
			} else {
				obs = observeEvent(fmt.Sprintf("event started by %s", []string{"Wrapper()", "HmacSalt()", "HmacInfo()"}[k]), sl.o, sl.out, sl.err, dataOf, isHmac, cd, false, &budget, &res)
			}
		case <-time.After(20 * time.Second):
			obs = "CoPanic" // it never returned
			res.panics = append(res.panics, fmt.Sprintf("case %d: the event started by accessor %d did not return", c.ID, k))
		}
		hooked = append(hooked, fmt.Sprintf("(%s, %s, %s)", ewi, vals, obs))
	}
	after := COp{K: "event", S: -1, I: -1, Data: []int{1, 1, 1, 1, 1}}
	_, avals, adata, ahm := eventModel(after)
	aobs := "CoPanic"
	func() {
		defer func() { recover() }()
		out, err := f.Process(ctx, &el.Event{Type: "t", CreatedAt: fixedTime, Payload: mkPayload(after)})
		aobs = observeEvent("next event", after, out, err, adata, ahm, cd, false, &budget, &res)
	}()
	res.nontriv = true
	rpLit := fmt.Sprintf("{| rp_init := {| f_wrap := %s; f_salt := %s; f_info := %s |}; rp_rot := (%s, %s, %s); rp_consumed := %s;\n      rp_hooked := %s;\n      rp_after := %s; rp_after_obs := %s |}",
		optKeyLit(c.Init.W), optBstrLit(c.Init.S), optBstrLit(c.Init.I), optKeyLit(rot.W), optBstrLit(rot.S), optBstrLit(rot.I), hc.B(consumed), hc.List(hooked), avals, aobs)
	res.lit = fmt.Sprintf("{| cc_id := %s; cc_init := {| f_wrap := %s; f_salt := %s; f_info := %s |};\n   cc_steps := [];\n   cc_conc := []; cc_cbs := []; cc_rps := [%s]; cc_caller := true |}",
		hc.N(c.ID), optKeyLit(c.Init.W), optBstrLit(c.Init.S), optBstrLit(c.Init.I), rpLit)
	return res
}

// an attributed value without its byte literals (for the replay log)
func shortItem(s string) string {
	s = strings.SplitN(s, " (unhex", 2)[0]
	return strings.SplitN(s, " [", 2)[0]
}

func hexLit(b []byte) string { return fmt.Sprintf("(unhex \"%x\")", b) }

func bstrLit2(d int) string { return "[" + hc.N(d) + "]" }

// events processed by several goroutines while another one rotates wrapper, salt and info TOGETHER through (j, j, j):
// every HMAC value must be reproduced by one (j, j, j), never by a mixture
func concurrentPart(c CCase, cd cands, res *cresult) []string {
	if c.Conc <= 0 {
		return nil
	}
	cd.mru = nil // attributed from the processing goroutines
	ctx := context.Background()
	f := &encrypt.Filter{Wrapper: cWrapper(1), HmacSalt: poolBytes("salt", 1), HmacInfo: poolBytes("info", 1)}
	stop := make(chan struct{})
	var wg, rot sync.WaitGroup
	last := 1 // the rotation in force once the rotator has stopped
	rot.Add(1)
	go func() {
		defer rot.Done()
		for j := 2; ; j++ {
			select {
			case <-stop:
				return
			default:
			}
			k := 1 + j%3
			if j%2 == 0 {
				f.Rotate(encrypt.WithWrapper(cWrapper(k)), encrypt.WithSalt(poolBytes("salt", k)), encrypt.WithInfo(poolBytes("info", k)))
			} else {
				// the other route: a rotation payload changing wrapper, salt and info together
				_, _ = f.Process(ctx, &el.Event{Type: "t", CreatedAt: fixedTime, Payload: &Rot{W: cWrapper(k), Salt: poolBytes("salt", k), Info: poolBytes("info", k)}})
			}
			last = k
		}
	}()
	var mu sync.Mutex
	var out []string
	bad := "(0%N, 1%N, 2%N)"
	// one event: plain, or with per-event wrapper info (recurring event ids, no salt / info of its own: those in force at its
	// start); want > 0: the event started after the last rotation and must be under exactly that one
	one := func(evid, want int) {
		var p interface{} = &CPlain{E1: "x", E2: []byte("y"), H1: "data", H2: []byte("data"), E3: "z"}
		if evid > 0 {
			p = &CEwi{E1: "x", E2: []byte("y"), H1: "data", H2: []byte("data"), E3: "z", id: evID(evid)}
		}
		ev, err := f.Process(ctx, &el.Event{Type: "t", CreatedAt: fixedTime, Payload: p})
		var items []string
		if err != nil || ev == nil {
			items = []string{bad}
		} else {
			fs := outFields(ev.Payload)
			for _, s := range []string{fs[2], fs[3]} {
				_, a := attributeHmac(s, []byte("data"), 0, cd, false)
				base := a.kid
				okID := evid == 0
				if evid > 0 {
					base, okID = a.kid/1000, a.kid%1000 == evid
				}
				switch {
				case !a.ok || !okID:
					items = append(items, bad)
				case want > 0 && (base != want || a.sid != want || a.iid != want):
					items = append(items, bad)
				default:
					items = append(items, fmt.Sprintf("(%s, %s, %s)", hc.N(base), hc.N(a.sid), hc.N(a.iid)))
				}
			}
		}
		mu.Lock()
		out = append(out, items...)
		mu.Unlock()
	}
	for g := 0; g < 4; g++ {
		wg.Add(1)
		go func(g int) {
			defer wg.Done()
			for n := 0; n < c.Conc; n++ {
				if g%2 == 0 {
					one(0, 0)
				} else {
					one(1+(n+g)%3, 0)
				}
			}
		}(g)
	}
	// under a watchdog: a filter that never returns is a violation, not a hung check
	finished := make(chan struct{})
	go func() { wg.Wait(); close(finished) }()
	select {
	case <-finished:
	case <-time.After(120 * time.Second):
		res.panics = append(res.panics, fmt.Sprintf("case %d: events processed concurrently with rotations did not return within 120 s", c.ID))
		close(stop)
		return []string{bad}
	}
	close(stop)
	rot.Wait()
	// events started after the last Rotate returned: every one under the key, salt and info now in force
	for n := 0; n < 3; n++ {
		one(0, last)
		for e := 1; e <= 3; e++ {
			one(e, last)
		}
	}
	return append(out, sharedSliceConcurrent(c, cd)...)
}

// Two filters configured with the SAME salt / info slices: B processes events while A is rotated through both routes (a
// RotateWrapper payload through Process, Filter.Rotate) to values as long as the old ones.  Every value of B must be under
// B's own configuration (wrapper 1, salt 1, info 1), and the caller's slices must keep their bytes.  (Built with -race by the
// C19 check: a rotation writing into the shared backing array is also a data race with B's reads.)
func sharedSliceConcurrent(c CCase, cd cands) []string {
	var out []string
	for _, route := range []string{"rotpayload", "rotate"} {
		out = append(out, sharedSliceRoute(c, cd, route)...)
	}
	return out
}

func sharedSliceRoute(c CCase, cd cands, route string) []string {
	ctx := context.Background()
	salt, info := poolBytes("salt", 1), poolBytes("info", 1)
	a := &encrypt.Filter{Wrapper: cWrapper(1), HmacSalt: salt, HmacInfo: info}
	b := &encrypt.Filter{Wrapper: cWrapper(1)}
	b.Rotate(encrypt.WithSalt(salt), encrypt.WithInfo(info))
	stop := make(chan struct{})
	var rot, wg sync.WaitGroup
	rot.Add(1)
	go func() {
		defer rot.Done()
		for j := 1; ; j++ {
			select {
			case <-stop:
				return
			default:
			}
			k := 1 + j%3 // 2, 3, 1, 2, ...: values as long as the configured ones
			if route == "rotpayload" {
				_, _ = a.Process(ctx, &el.Event{Type: "t", CreatedAt: fixedTime, Payload: &Rot{Salt: poolBytes("salt", k), Info: poolBytes("info", k)}})
			} else {
				a.Rotate(encrypt.WithSalt(poolBytes("salt", k)), encrypt.WithInfo(poolBytes("info", k)))
			}
		}
	}()
	var mu sync.Mutex
	var out []string
	bad := "(0%N, 1%N, 2%N)"
	for g := 0; g < 2; g++ {
		wg.Add(1)
		go func() {
			defer wg.Done()
			for n := 0; n < c.Conc; n++ {
				ev, err := b.Process(ctx, &el.Event{Type: "t", CreatedAt: fixedTime, Payload: &CPlain{E1: "x", E2: []byte("y"), H1: "data", H2: []byte("data"), E3: "z"}})
				item := bad
				if err == nil && ev != nil {
					if _, at := attributeHmac(ev.Payload.(*CPlain).H1, []byte("data"), 0, cd, false); at.ok && at.kid == 1 && at.sid == 1 && at.iid == 1 {
						item = "(1%N, 1%N, 1%N)"
					}
				}
				mu.Lock()
				out = append(out, item)
				mu.Unlock()
			}
		}()
	}
	wg.Wait()
	close(stop)
	rot.Wait()
	if string(salt) != string(poolBytes("salt", 1)) || string(info) != string(poolBytes("info", 1)) {
		out = append(out, bad) // the caller's slices were written to
	}
	return out
}

// a salt / info: nil and empty (non-nil) one time in eight each, otherwise a value of the pool (half of it the length alphabet)
func (g *gen) comp() int {
	switch x := g.r.Intn(8); x {
	case 0:
		return -1
	case 1:
		return 0
	}
	return 1 + g.r.Intn(poolMax)
}

// an event that rotates the filter from its own Tags() callback: any initial state (salt / info absent, empty or set; now and
// then no wrapper), any rotation through either route, with and without per-event wrapper info, every shape
func (g *gen) cbCase() CCase {
	r := g.r
	c := CCase{Gen: "callback-rotation", CB: true, Init: COp{W: 1 + r.Intn(nWrappers), S: g.comp(), I: g.comp()}}
	if r.Chance(1, 12) {
		c.Init.W = 0
	}
	if r.Chance(1, 2) { // absent / empty on the filter: what a fallback resolved late would pick up
		c.Init.S = -r.Intn(2)
	}
	if r.Chance(1, 2) {
		c.Init.I = -r.Intn(2)
	}
	ev := COp{K: "event", S: -1, I: -1, Sh: []string{"mid", "top", "map"}[r.Intn(3)]}
	for i := 0; i < 5; i++ {
		ev.Data = append(ev.Data, r.Intn(len(dataPool)))
	}
	if r.Chance(2, 3) {
		ev.EWI = true
		ev.EvID = 1 + r.Intn(len(evIDs)-1)
		if r.Chance(1, 12) {
			ev.EvID = 0
		}
		if r.Chance(1, 3) {
			ev.S = g.comp()
		}
		if r.Chance(1, 3) {
			ev.I = g.comp()
		}
	}
	rot := COp{K: []string{"rotate", "rotpayload"}[r.Intn(2)], W: r.Intn(nWrappers + 1), S: g.comp(), I: g.comp()}
	if r.Chance(1, 2) {
		rot.W = 0
	}
	c.Ops = []COp{ev, rot}
	return c
}

// the grid around the class "the filter has no salt / info of its own": initial salt and info absent / empty / set, the rotation
// introducing, emptying or changing salt, info and wrapper (together and one at a time, a 65-byte value included), events
// without wrapper info, with an event id only, and with a salt or an info of their own; shapes and routes in turn
func cbGrid() []CCase {
	var out []CCase
	rots := [][3]int{{2, 2, 2}, {0, 2, -1}, {0, -1, 2}, {2, 0, 0}, {2, -1, -1}, {0, 10, 10}}
	evs := []COp{{S: -1, I: -1}, {EWI: true, EvID: 1, S: -1, I: -1}, {EWI: true, EvID: 2, S: 3, I: -1}, {EWI: true, EvID: 3, S: -1, I: 3}}
	n := 0
	for _, is := range []int{-1, 0, 1} {
		for _, ii := range []int{-1, 0, 1} {
			for _, rt := range rots {
				for _, e := range evs {
					ev := e
					ev.K, ev.Sh, ev.Data = "event", []string{"mid", "top", "map"}[n%3], []int{1, 2, 9, 4, 1}
					rot := COp{K: []string{"rotate", "rotpayload"}[(n/3)%2], W: rt[0], S: rt[1], I: rt[2]}
					out = append(out, CCase{Gen: "callback-rotation", CB: true, Init: COp{W: 1, S: is, I: ii}, Ops: []COp{ev, rot}})
					n++
				}
			}
		}
	}
	return out
}

// class tags in look-alike spellings: Tag.v says what each resolves to (an unknown classification is redacted, an unknown
// operation word falls back to the classification's default, operation words are case-insensitive, nothing is trimmed)
var cTagClasses = []string{"public", "sensitive", "secret", "sensitive", "secret", "Secret", "secret ", "SECRET", " secret", "bogus", ""}
var cTagOps = []string{"<absent>", "", "redact", "encrypt", "hmac-sha256", "encrypt", "hmac-sha256", "HMAC-SHA256", "Encrypt", "encrypt ", " encrypt", "bogus", "unknown"}
var cOvTexts = []string{"", "", "none", "redact", "encrypt", "hmac"}

func (g *gen) cTag(pointer bool) string {
	c := cTagClasses[g.r.Intn(len(cTagClasses))]
	if pointer {
		c = cTagClasses[g.r.Intn(5)] // a PointerTag with an unknown classification ends Process with an error (Encrypt.v, C09): not here
	}
	o := cTagOps[g.r.Intn(len(cTagOps))]
	if o == "<absent>" {
		if pointer {
			return c + ","
		}
		return c
	}
	return c + "," + o
}

// an event whose values carry their own class tags (struct tags and PointerTags), under an override table
func (g *gen) taggedEvent() COp {
	r := g.r
	o := COp{K: "event", S: -1, I: -1}
	if r.Chance(4, 5) {
		for j := range o.Ov {
			o.Ov[j] = cOvTexts[r.Intn(len(cOvTexts))]
		}
	}
	if r.Chance(1, 3) {
		// no class-level operation that needs a key: the values that are encrypted / HMAC-ed get there by their own tag
		o.Ov = [3]string{[]string{"", "none"}[r.Intn(2)], []string{"none", "redact"}[r.Intn(2)], []string{"", "none", "redact"}[r.Intn(3)]}
	}
	for n := 2 + r.Intn(5); n > 0; n-- {
		p := r.Chance(1, 3)
		o.TF = append(o.TF, TField{T: g.cTag(p), P: p, B: r.Chance(1, 3), D: r.Intn(len(dataPool))})
	}
	if r.Chance(1, 2) {
		o.EWI = true
		o.EvID = 1 + r.Intn(len(evIDs)-1)
		if r.Chance(1, 10) {
			o.EvID = 0
		}
		if r.Chance(1, 3) {
			o.S = g.comp()
		}
		if r.Chance(1, 3) {
			o.I = g.comp()
		}
	}
	return o
}

// a container path from the payload root to a tagged leaf struct: m map, l slice, s struct, p pointer to struct; never a slice
// directly in a slice (the filter does not look into slices of slices)
func (g *gen) cPath() string {
	n := 1 + g.r.Intn(6)
	var toks []string
	for len(toks) < n-1 {
		t := []string{"m", "m", "l", "s", "p"}[g.r.Intn(5)]
		if t == "l" && len(toks) > 0 && toks[len(toks)-1] == "l" {
			continue
		}
		toks = append(toks, t)
	}
	return strings.Join(append(toks, []string{"s", "p"}[g.r.Intn(2)]), ".")
}

func (g *gen) deepEvent() COp {
	r := g.r
	o := COp{K: "event", S: -1, I: -1}
	for n := 1 + r.Intn(4); n > 0; n-- {
		o.DP = append(o.DP, g.cPath())
		o.Data = append(o.Data, r.Intn(len(dataPool)))
	}
	if r.Chance(2, 3) {
		o.EWI = true
		o.EvID = 1 + r.Intn(len(evIDs)-1)
		if r.Chance(1, 3) {
			o.S = g.comp()
		}
		if r.Chance(1, 3) {
			o.I = g.comp()
		}
	}
	return o
}

// every container path up to three containers deep (and a few longer ones), without wrapper info, with an event id, with salt and
// info of the event's own - before and after a rotation
func deepGrid() []CCase {
	var paths []string
	var ext func(prefix []string, n int)
	ext = func(prefix []string, n int) {
		for _, leaf := range []string{"s", "p"} {
			paths = append(paths, strings.Join(append(append([]string{}, prefix...), leaf), "."))
		}
		if n == 0 {
			return
		}
		for _, t := range []string{"m", "l", "s", "p"} {
			if t == "l" && len(prefix) > 0 && prefix[len(prefix)-1] == "l" {
				continue
			}
			ext(append(append([]string{}, prefix...), t), n-1)
		}
	}
	ext(nil, 3)
	paths = append(paths, "m.m.m.m.s", "m.m.m.m.m.p", "l.p.m.l.s.m.p", "m.l.m.l.m.s", "p.p.p.m.m.s", "m.s.m.s.m.s.m.p")
	var out []CCase
	for i := 0; i < len(paths); i += 6 {
		end := i + 6
		if end > len(paths) {
			end = len(paths)
		}
		dp := paths[i:end]
		ev := func(ewi bool, id, s, in int) COp {
			return COp{K: "event", DP: dp, Data: []int{1, 2, 9}, EWI: ewi, EvID: id, S: s, I: in}
		}
		out = append(out, CCase{Gen: "container-paths", Init: COp{W: 1, S: 1, I: 1}, Ops: []COp{ev(false, 0, -1, -1), ev(true, 1, -1, -1), {K: "rotpayload", W: 2, S: 2, I: -1}, ev(true, 2, 3, 3), ev(false, 0, -1, -1)}})
	}
	return out
}

// the keys a pooled wrapper may hold (distinct, non-empty key ids): wrappers 1 - 4 ("w1" < "w2" < "w3" < "w4") and 8 - 15
var poolable = []int{1, 2, 3, 4, 8, 9, 10, 11, 12, 13, 14, 15}

// now and then the wrapper w is the encrypting key of a pool of 1 - 3 keys (its key id first, in the middle or last among them)
func (g *gen) pool(w int) []int {
	ok := false
	for _, p := range poolable {
		ok = ok || p == w
	}
	if !ok || !g.r.Chance(1, 3) {
		return nil
	}
	out := []int{w}
	for n := g.r.Intn(3); n > 0; n-- {
		out = append(out, poolable[g.r.Intn(len(poolable))])
	}
	return out
}

// pools of one, two and three keys with the encrypting key first / in the middle / last in the order of the key ids, handed over
// at construction, through Rotate(WithWrapper(pool)), through a rotation payload, assigned to the field, and changed in place
// with SetEncryptingWrapper between events; events without and with wrapper info after each
func poolGrid() []CCase {
	all := []int{1, 1, 1, 1, 1}
	ev := COp{K: "event", S: -1, I: -1, Data: all}
	ewi := COp{K: "event", EWI: true, EvID: 1, S: -1, I: -1, Data: all}
	var out []CCase
	for _, p := range [][]int{{1}, {1, 2}, {2, 1}, {1, 2, 3}, {2, 1, 3}, {3, 1, 2}, {4, 8}, {8, 4, 15}} {
		w := p[0]
		out = append(out, CCase{Gen: "pooled-wrappers", Init: COp{W: w, Pool: p, S: 1, I: 1}, Ops: []COp{ev, ewi, {K: "setenc", W: 9}, ev, ewi, {K: "setenc", W: w}, ev}})
		for _, route := range []string{"rotate", "rotpayload", "setfield"} {
			out = append(out, CCase{Gen: "pooled-wrappers", Init: COp{W: 3, S: 1, I: 1}, Ops: []COp{ev, {K: route, W: w, Pool: p, S: -2 + map[string]int{"rotate": 1, "rotpayload": 1}[route], I: -2 + map[string]int{"rotate": 1, "rotpayload": 1}[route]},
				ev, ewi, {K: "setenc", W: 10}, ev, ewi, {K: "rotate", W: 2, S: 2, I: -1}, ev}})
		}
	}
	return out
}

// a rotation payload whose accessors start events on the same filter
func (g *gen) rpCase() CCase {
	r := g.r
	c := CCase{Gen: "rotation-payload-accessors", RP: true, Init: COp{W: 1 + r.Intn(nWrappers), S: g.comp(), I: g.comp()}}
	c.Ops = []COp{{K: "rotpayload", W: r.Intn(nWrappers + 1), S: g.comp(), I: g.comp()}}
	for n := 1 + r.Intn(3); n > 0; n-- {
		c.Ops = append(c.Ops, rpEvent(r.Intn(4), 1+r.Intn(len(evIDs)-1)))
	}
	return c
}

func rpEvent(kind, evid int) COp {
	all := []int{1, 1, 1, 1, 1}
	switch kind {
	case 1:
		return COp{K: "event", EWI: true, EvID: evid, S: -1, I: -1, Data: all} // falls back to the filter's salt / info
	case 2:
		return COp{K: "event", SL: true, S: -1, I: -1, Data: []int{1, 2, 1}}
	case 3:
		return COp{K: "event", EWI: true, EvID: evid, S: 3, I: -1, Data: all}
	}
	return COp{K: "event", S: -1, I: -1, Data: all}
}

func rpGrid() []CCase {
	var out []CCase
	n := 0
	for _, in := range [][3]int{{1, 1, 1}, {1, -1, -1}, {2, 10, 12}} {
		for _, rt := range [][3]int{{2, 2, 2}, {3, 2, -1}, {3, -1, 2}, {0, 2, 2}, {3, 0, 0}, {4, 14, 13}} {
			c := CCase{Gen: "rotation-payload-accessors", RP: true, Init: COp{W: in[0], S: in[1], I: in[2]}, Ops: []COp{{K: "rotpayload", W: rt[0], S: rt[1], I: rt[2]}}}
			switch n % 3 {
			case 0:
				c.Ops = append(c.Ops, rpEvent(0, 1))
			case 1:
				c.Ops = append(c.Ops, rpEvent(1, 1+n%3))
			default:
				c.Ops = append(c.Ops, rpEvent(0, 1), rpEvent(1, 2), rpEvent(2, 1))
			}
			out = append(out, c)
			n++
		}
	}
	return out
}

// override tables that leave no / one / every class-level operation needing a key x values that name their own operation in
// a struct tag or a PointerTag x events without wrapper info, with an event id, with salt and info of their own
func taggedGrid() []CCase {
	fields := []TField{{T: "secret,encrypt", D: 1}, {T: "secret,hmac-sha256", D: 2, B: true}, {T: "sensitive", D: 9}, {T: "sensitive,hmac-sha256", D: 4}, {T: "secret", D: 1}, {T: "public", D: 2},
		{T: "Secret,encrypt", D: 9}, {T: "secret,HMAC-SHA256", D: 1}, {T: "secret,encrypt", P: true, D: 2}, {T: "sensitive,hmac-sha256", P: true, B: true, D: 1}, {T: "secret,", P: true, D: 9}, {T: "sensitive,Encrypt", P: true, D: 4}}
	var out []CCase
	for _, ov := range [][3]string{{"", "redact", ""}, {"", "none", ""}, {"", "redact", "redact"}, {"none", "none", "redact"}, {"", "hmac", ""}, {"", "", ""}, {"none", "none", "none"}, {"", "encrypt", "hmac"}, {"hmac", "none", "none"}} {
		ev := func(ewi bool, id, s, i int) COp {
			return COp{K: "event", Ov: ov, TF: fields, EWI: ewi, EvID: id, S: s, I: i}
		}
		out = append(out, CCase{Gen: "tagged-overrides", Init: COp{W: 1, S: 1, I: 1}, Ops: []COp{ev(false, 0, -1, -1), ev(true, 1, -1, -1), {K: "rotate", W: 2, S: 2, I: -1},
			ev(true, 2, 3, 3), ev(false, 0, -1, -1), ev(true, 0, -1, -1), {K: "event", S: -1, I: -1, Data: []int{1, 1, 1, 1, 1}}}})
	}
	return out
}

func (g *gen) cryptoCase(n int) CCase {
	r := g.r
	pick := func() int { return r.Intn(len(dataPool)) }
	comp := func() int { return g.comp() }
	c := CCase{Gen: "random", Init: COp{W: r.Intn(nWrappers + 1), S: comp(), I: comp()}}
	if r.Chance(4, 5) && c.Init.W == 0 {
		c.Init.W = 1 + r.Intn(nWrappers)
	}
	c.Init.Pool = g.pool(c.Init.W)
	for i := 0; i < n; i++ {
		switch x := r.Intn(10); {
		case x < 2 && r.Chance(1, 4):
			// the rest of the exported surface: identity steps, and the fields assigned directly
			switch r.Intn(3) {
			case 0:
				c.Ops = append(c.Ops, COp{K: "reopen"})
			case 1:
				c.Ops = append(c.Ops, COp{K: "type"})
			default:
				if r.Chance(1, 3) {
					c.Ops = append(c.Ops, COp{K: "setenc", W: poolable[r.Intn(len(poolable))]})
					break
				}
				o := COp{K: "setfield", S: -2, I: -2}
				if r.Bool() {
					o.W = 1 + r.Intn(nWrappers)
					o.Pool = g.pool(o.W)
				}
				if r.Bool() {
					o.S = comp()
				}
				if r.Bool() {
					o.I = comp()
				}
				c.Ops = append(c.Ops, o)
			}
		case x < 2:
			w := r.Intn(nWrappers + 1)
			c.Ops = append(c.Ops, COp{K: "rotate", W: w, Pool: g.pool(w), S: comp(), I: comp(), Nil: r.Chance(1, 5), Rep: r.Chance(1, 5)})
		case x < 4:
			w := r.Intn(nWrappers + 1)
			c.Ops = append(c.Ops, COp{K: "rotpayload", W: w, Pool: g.pool(w), S: comp(), I: comp(), V: r.Chance(1, 4), EWI: r.Chance(1, 4)})
		default:
			o := COp{K: "event", S: -1, I: -1, Data: []int{pick(), pick(), pick(), pick(), pick()}}
			if r.Chance(1, 7) {
				c.Ops = append(c.Ops, g.deepEvent())
				continue
			}
			if c.Init.W > 0 && r.Chance(1, 5) {
				c.Ops = append(c.Ops, g.taggedEvent())
				if i+1 < n && r.Chance(1, 8) {
					again := c.Ops[len(c.Ops)-1]
					again.Again = true
					c.Ops = append(c.Ops, again)
					i++
				}
				continue
			}
			if r.Chance(1, 6) {
				o.TM = true
			} else if r.Chance(1, 6) {
				// slice-typed fields: 2..5 elements, now and then equal ones
				o.SL = true
				o.Data = nil
				for n := 2 + r.Intn(4); n > 0; n-- {
					if len(o.Data) > 0 && r.Chance(1, 3) {
						o.Data = append(o.Data, o.Data[r.Intn(len(o.Data))])
					} else {
						o.Data = append(o.Data, pick())
					}
				}
			} else if r.Chance(2, 5) {
				o.EWI = true
				o.EvID = r.Intn(len(evIDs))
				if r.Chance(3, 4) && o.EvID == 0 {
					o.EvID = 1 + r.Intn(len(evIDs)-1)
				}
				o.S, o.I = comp(), comp()
			}
			if r.Chance(1, 3) && i > 0 { // the same data again: determinism across events and rotations
				for _, p := range c.Ops {
					if p.K == "event" && p.SL == o.SL && len(p.TF) == 0 && len(p.DP) == 0 {
						o.Data = append([]int{}, p.Data...)
					}
				}
			}
			c.Ops = append(c.Ops, o)
			if i+1 < n && r.Chance(1, 8) {
				o.Again = true // the same payload object once more (the first send worked on a copy)
				c.Ops = append(c.Ops, o)
				i++
			}
		}
	}
	return c
}

// the fixed scenarios of the property text: precedence of per-event salt / info, event id present / absent, every datum
func cryptoSpecials() []CCase {
	var out []CCase
	all := func(d int) []int { return []int{d, d, d, d, d} }
	for d := range dataPool {
		out = append(out, CCase{Gen: "special", Init: COp{W: 1, S: 1, I: 1}, Ops: []COp{
			{K: "event", S: -1, I: -1, Data: all(d)},
			{K: "event", EWI: true, EvID: 1, S: 2, I: -1, Data: all(d)},
			{K: "rotate", W: 2, S: -1, I: 3},
			{K: "event", S: -1, I: -1, Data: all(d)},
			{K: "event", EWI: true, EvID: 1, S: -1, I: 0, Data: all(d)},
			{K: "rotpayload", W: 0, S: 0, I: -1},
			{K: "event", S: -1, I: -1, Data: all(d)},
			{K: "event", EWI: true, EvID: 0, S: 1, I: 1, Data: all(d)},
			{K: "event", EWI: true, EvID: 2, S: 3, I: 3, Data: all(d)},
			{K: "event", TM: true, S: -1, I: -1, Data: all(d)}}})
	}
	// slice-typed fields: equal elements, empty elements, five elements
	out = append(out, CCase{Gen: "special", Init: COp{W: 1, S: 1, I: 1}, Ops: []COp{
		{K: "event", SL: true, S: -1, I: -1, Data: []int{1, 1}}, {K: "event", SL: true, S: -1, I: -1, Data: []int{0, 1, 0, 2, 1}},
		{K: "event", SL: true, S: -1, I: -1, Data: []int{2, 4, 9}}, {K: "rotate", W: 2, S: 6, I: -1}, {K: "event", SL: true, S: -1, I: -1, Data: []int{1, 1, 3}}}})
	// per-event wrapper info: every look-alike event id, under the same filter key
	{
		c := CCase{Gen: "scenario", Init: COp{W: 1, S: 1, I: 6}}
		for e := 1; e < len(evIDs); e++ {
			c.Ops = append(c.Ops, COp{K: "event", EWI: true, EvID: e, S: -1, I: -1, Data: all(1)})
		}
		out = append(out, c)
	}
	// rotations (payload and Rotate) to a wrapper with the SAME key id and another key, and back
	out = append(out, CCase{Gen: "scenario", Init: COp{W: 1, S: 1, I: 1}, Ops: []COp{
		{K: "event", S: -1, I: -1, Data: all(1)}, {K: "rotpayload", W: 5, S: -1, I: -1}, {K: "event", S: -1, I: -1, Data: all(1)}, {K: "event", EWI: true, EvID: 1, S: -1, I: -1, Data: all(1)},
		{K: "rotate", W: 1, S: -1, I: -1}, {K: "event", S: -1, I: -1, Data: all(1)}, {K: "rotate", W: 5, S: -1, I: -1}, {K: "event", S: -1, I: -1, Data: all(1)},
		{K: "rotpayload", W: 1, S: 2, I: -1}, {K: "event", S: -1, I: -1, Data: all(1)}}})
	// the same with wrappers that have no key id at all
	out = append(out, CCase{Gen: "scenario", Init: COp{W: 6, S: 1, I: 1}, Ops: []COp{
		{K: "event", S: -1, I: -1, Data: all(1)}, {K: "rotpayload", W: 7, S: 2, I: -1}, {K: "event", S: -1, I: -1, Data: all(1)}, {K: "event", EWI: true, EvID: 2, S: -1, I: -1, Data: all(1)},
		{K: "rotate", W: 6, S: -1, I: -1}, {K: "event", S: -1, I: -1, Data: all(1)}, {K: "rotpayload", W: 1, S: -1, I: -1}, {K: "event", S: -1, I: -1, Data: all(1)}}})
	out = append(out, CCase{Gen: "scenario", Init: COp{W: 0, S: -1, I: -1}, Ops: []COp{
		{K: "event", S: -1, I: -1, Data: all(1)}, {K: "event", EWI: true, EvID: 1, S: -1, I: -1, Data: all(1)},
		{K: "rotpayload", W: 3, S: -1, I: -1}, {K: "event", S: -1, I: -1, Data: all(1)}, {K: "event", EWI: true, EvID: 3, S: -1, I: -1, Data: all(1)}}})
	// two filters built from the same salt / info slices: rotating one (to a shorter, an equally long, a longer value, and back
	// to the caller's original slices) must never show in the other, and each is judged against its own history
	evA := COp{K: "event", S: -1, I: -1, Data: all(1)}
	evB := evA
	evB.F = 1
	out = append(out, CCase{Gen: "aliasing", Alias: true, Init: COp{W: 1, S: 1, I: 1}, Ops: []COp{evA, evB,
		{K: "rotate", S: 4, I: -1}, evA, evB, {K: "rotate", S: 2, I: 2}, evA, evB, {K: "rotate", S: 5, I: 5}, evA, evB,
		{K: "rotate", Orig: true}, evA, evB, {K: "rotate", F: 1, S: 3, I: 4}, evA, evB, {K: "rotate", S: 3, I: -1}, {K: "rotate", Orig: true}, evA, evB}})
	// the same through every rotation route (Filter.Rotate, a RotateWrapper payload through Process), with the shared slices
	// handed over through the exported fields or through Rotate(WithSalt(s), WithInfo(i)), for two and three filters
	for _, route := range []string{"rotate", "rotpayload"} {
		for _, via := range []bool{false, true} {
			for nf := 2; nf <= 3; nf++ {
				c := CCase{Gen: "aliasing", Alias: true, NF: nf, ViaRotate: via, Init: COp{W: 1, S: 2, I: 3}}
				evs := func() {
					for f := 0; f < nf; f++ {
						e := COp{K: "event", S: -1, I: -1, F: f, Data: all(1 + f)}
						c.Ops = append(c.Ops, e)
					}
				}
				if via {
					for f := 0; f < nf; f++ {
						c.Ops = append(c.Ops, COp{K: "rotate", Orig: true, F: f})
					}
				}
				evs()
				for _, n := range []int{4, 1, 5, 3} { // shorter, equally long, longer, equally long again
					c.Ops = append(c.Ops, COp{K: route, S: n, I: n})
					evs()
				}
				c.Ops = append(c.Ops, COp{K: route, F: nf - 1, S: 1, I: -1})
				evs()
				out = append(out, c)
			}
		}
	}
	out = append(out, CCase{Gen: "concurrent", Init: COp{W: 1, S: 1, I: 1}, Conc: 150})
	out = append(out, CCase{Gen: "callback-rotation", Init: COp{W: 1, S: 1, I: 1}, CB: true})
	out = append(out, cbGrid()...)
	out = append(out, rpGrid()...)
	out = append(out, taggedGrid()...)
	out = append(out, deepGrid()...)
	out = append(out, poolGrid()...)
	// the length alphabet: salt and info (on the filter through Rotate and through a rotation payload, and on the event), event id
	// and key id of 1, 63, 64, 65, 127, 128, 129 and 1100 bytes; consecutive values share every byte of the shorter one, so each
	// rotation from one to the next must change the digests of the same data
	{
		c := CCase{Gen: "length-alphabet", Init: COp{W: 1, S: 9, I: 9}}
		ev := COp{K: "event", S: -1, I: -1, Data: all(1)}
		c.Ops = append(c.Ops, ev)
		for j := range lenAlphabet {
			c.Ops = append(c.Ops, COp{K: "rotate", S: 7 + j, I: -1}, ev, COp{K: "rotpayload", S: -1, I: 7 + j}, ev,
				COp{K: "event", EWI: true, EvID: 1, S: -1, I: -1, Data: all(1)},
				COp{K: "event", EWI: true, EvID: len(evIDs) - len(lenAlphabet) + j, S: 7 + (j+1)%len(lenAlphabet), I: 7 + (j+2)%len(lenAlphabet), Data: all(1)},
				COp{K: "rotate", W: 8 + j, S: -1, I: -1}, ev)
		}
		out = append(out, c)
		// a filter CONFIGURED with long values, events with long values of their own, rotated to the neighbours that share a prefix
		for j := range lenAlphabet {
			k := (j + 1) % len(lenAlphabet)
			out = append(out, CCase{Gen: "length-alphabet", Init: COp{W: 8 + j, S: 7 + j, I: 7 + k}, Ops: []COp{ev,
				{K: "event", EWI: true, EvID: len(evIDs) - 1 - j, S: 7 + k, I: 7 + j, Data: all(3)}, {K: "event", SL: true, S: -1, I: -1, Data: []int{len(dataPool) - 1 - j, 1, len(dataPool) - 1 - k}},
				{K: "rotpayload", W: 8 + k, S: 7 + k, I: 7 + j}, ev, {K: "event", EWI: true, EvID: len(evIDs) - 1 - j, S: -1, I: -1, Data: all(3)},
				{K: "event", TM: true, S: -1, I: -1, Data: all(len(dataPool) - 1 - j)}}})
		}
	}
	return out
}

func mainCrypto(out, prefix string, perShard, n int, corpus string, concOnly bool) {
	initDataPool()
	cf := &hc.CaseFile{Dir: out, Prefix: prefix, PerShard: perShard * 74 / 250, Type: "list ccase",
		Header: "From Coq Require Import List NArith String.\nFrom Verif Require Import Tag Base64 Crypto Run_Crypto.\nImport ListNotations.\nOpen Scope string_scope.\nOpen Scope list_scope.",
		Footer: "Definition M := Eval vm_compute in mismatches cases.\nPrint M."}
	side, err := os.Create(out + "/" + prefix + ".jsonl")
	if err != nil {
		panic(err)
	}
	stats := map[string]int{}
	seen := map[string]bool{}
	nontriv := 0
	var panics []string
	id := 0
	emit := func(c CCase) {
		id++
		c.ID = id
		r := execCrypto(c)
		if err := cf.Add(r.lit); err != nil {
			panic(err)
		}
		js, _ := json.Marshal(c)
		side.Write(append(js, '\n'))
		for _, l := range r.more {
			id++
			if err := cf.Add(l); err != nil {
				panic(err)
			}
			c2 := c
			c2.ID = id
			js2, _ := json.Marshal(c2)
			side.Write(append(js2, '\n'))
		}
		stats["cases"]++
		stats["gen:"+c.Gen]++
		if c.CB {
			e, rot := cbOps(c)
			stats["cb:shape:"+e.Sh]++
			stats["cb:route:"+rot.K]++
			if e.EWI {
				stats["cb:event-with-wrapper-info"]++
			}
			if c.Init.S <= 0 || c.Init.I <= 0 {
				stats["cb:filter-salt-or-info-absent-or-empty"]++
			}
		}
		for _, o := range c.Ops {
			stats["op:"+o.K]++
			if o.K == "event" && o.EWI {
				stats["op:event-with-wrapper-info"]++
			}
			if len(o.DP) > 0 {
				stats["op:event-with-container-paths"]++
			}
			if len(o.TF) > 0 {
				stats["op:event-with-tagged-values"]++
				if o.Ov != [3]string{} {
					stats["op:event-under-overrides"]++
				}
			}
			if len(o.Pool) > 0 || o.K == "setenc" {
				stats["op:pooled-wrapper"]++
			}
			if o.Nil || o.Rep {
				stats["op:rotate-nil-or-repeated-options"]++
			}
		}
		panics = append(panics, r.panics...)
		c.ID = 0
		key, _ := json.Marshal(c)
		if r.nontriv && !seen[string(key)] {
			seen[string(key)] = true
			nontriv++
		}
	}
	if corpus != "" {
		if data, err := os.ReadFile(corpus); err == nil {
			for _, line := range strings.Split(string(data), "\n") {
				line = strings.TrimSpace(line)
				if line == "" || strings.HasPrefix(line, "#") {
					continue
				}
				var c CCase
				if json.Unmarshal([]byte(line), &c) == nil {
					c.Gen = "corpus"
					emit(c)
				}
			}
		}
	}
	if concOnly {
		// only the search under concurrent rotation (also used by the C19 check)
		emit(CCase{Gen: "concurrent", Init: COp{W: 1, S: 1, I: 1}, Conc: 400})
		n = 0
	}
	if n > 0 {
		// the fixed scenarios that ship many bytes to Coq are spread over the shards (one every few random histories): a shard's
		// evaluation time goes into its byte literals
		var heavy []CCase
		for _, c := range cryptoSpecials() {
			if c.CB || c.RP {
				emit(c)
			} else {
				heavy = append(heavy, c)
			}
		}
		g := &gen{r: hc.NewRand(hc.Seed()).Fork()}
		every := n / (len(heavy) + 1)
		if every < 1 {
			every = 1
		}
		for i := 0; i < n; i++ {
			if i%every == 0 && len(heavy) > 0 {
				emit(heavy[0])
				heavy = heavy[1:]
			}
			emit(g.cryptoCase(4 + g.r.Intn(9)))
			if i%4 == 0 {
				emit(g.cbCase())
			}
			if i%30 == 7 {
				emit(g.rpCase())
			}
		}
		for _, c := range heavy {
			emit(c)
		}
	}
	cf.Close()
	side.Close()
	summary := map[string]interface{}{"stats": stats, "files": cf.Files, "cases": cf.Total, "distinct_nontrivial": nontriv, "panics": panics, "seed": hc.Seed(), "values_under_concurrent_rotation": concValues,
		"data_pool":       "empty, 1 byte, non-UTF-8 with NUL, 300 bytes, UTF-8, texts that look like filtered values, 63 / 64 / 65 / 127 / 128 / 129 / 1100 bytes",
		"length_alphabet": "salt, info, event id, key id, plaintext: 0, 1, 63, 64, 65, 127, 128, 129, 1100 bytes; the long values of a kind are prefixes of one stream (shared 64- and 128-byte prefixes)"}
	js, _ := json.MarshalIndent(summary, "", " ")
	os.WriteFile(out+"/"+prefix+"_summary.json", js, 0o644)
	fmt.Printf("encrypth -crypto: %d cases in %d files, %d panics\n", cf.Total, len(cf.Files), len(panics))
}

func replayCrypto(data []byte) {
	initDataPool()
	var w struct {
		Case CCase `json:"case"`
	}
	if err := json.Unmarshal(data, &w); err != nil || len(w.Case.Ops) == 0 && w.Case.Conc == 0 && !w.Case.CB {
		_ = json.Unmarshal(data, &w.Case)
	}
	r := execCrypto(w.Case)
	fmt.Printf("initial filter state: wrapper %d salt %d info %d (-1 nil, 0 empty)\n", w.Case.Init.W, w.Case.Init.S, w.Case.Init.I)
	for i, o := range w.Case.Ops {
		fmt.Printf("step %d: %+v\n", i, o)
	}
	for _, l := range r.log {
		fmt.Println(l)
	}
	for _, p := range r.panics {
		fmt.Println("PANIC:", p)
	}
	if w.Case.CB {
		e, rot := cbOps(w.Case)
		fmt.Printf("the event %+v rotates the filter from its own Tags() callback: %+v\n", e, rot)
		fmt.Println("(an event WITH wrapper info must be under the key in force at its start throughout; a plain one under the filter state each value is produced in)")
	}
}
