package main

// Exhaustive enumeration of the payload trees of a reduced alphabet up to a depth (thorough tier):
//   leaves     string, []string (2 elements), int
//   class tags none, public, sensitive, "secret,hmac-sha256", Bogus
//   containers one-field struct, pointer to it, one-element slice of it, untagged map with one key (any value, so a
//              struct by value too), Taggable map with one string key and the tag lists {}, {/k1 public}, {/k1 sensitive}, {/k9 secret}
//   payloads   pointer to struct, slice, map, pointer to map, Taggable map, pointer to Taggable map, pointer to string, []string

var enumTags = []*string{nil, sp("public"), sp("sensitive"), sp("secret,hmac-sha256"), sp("Bogus")}

func enumLeaves() []*V {
	return []*V{{K: "str", C: 1}, {K: "strs", Cs: []int{1, 1}}, {K: "int", I: 3}}
}

func enumTMaps() []*V {
	var out []*V
	for _, tags := range [][]PTag{nil, {{Ptr: "/k1", Class: "public"}}, {{Ptr: "/k1", Class: "sensitive"}}, {{Ptr: "/k9", Class: "secret"}}} {
		out = append(out, &V{K: "tmap", Tags: tags, Keys: []string{"k1"}, Vals: []*V{{K: "str", C: 1}}})
	}
	return out
}

func enumStructs(inner []*V) []*V {
	var out []*V
	for _, t := range enumTags {
		for _, v := range inner {
			out = append(out, &V{K: "struct", Fields: []Field{{Name: "F1", Tag: t, V: v}}})
		}
	}
	return out
}

// values of nesting depth <= d that can sit in a struct field or under a map key
func enumValues(d int) []*V {
	out := enumLeaves()
	if d <= 0 {
		return out
	}
	inner := enumValues(d - 1)
	for _, s := range enumStructs(inner) {
		out = append(out, s, &V{K: "ptr", Elem: s}, &V{K: "slice", Elem: s, Elems: []*V{s}})
	}
	for _, v := range inner {
		out = append(out, &V{K: "map", Iface: true, Keys: []string{"k1"}, Vals: []*V{v}})
	}
	return append(out, enumTMaps()...)
}

// deep copy with fresh canaries
func renumber(v *V, n *int) *V {
	if v == nil {
		return nil
	}
	c := *v
	switch v.K {
	case "str", "bytes", "wstr", "wbytes":
		*n++
		c.C = *n
	}
	c.Cs = nil
	for range v.Cs {
		*n++
		c.Cs = append(c.Cs, *n)
	}
	c.Fields = nil
	for _, f := range v.Fields {
		c.Fields = append(c.Fields, Field{Name: f.Name, Tag: f.Tag, V: renumber(f.V, n)})
	}
	c.Elem = renumber(v.Elem, n)
	c.Elems = nil
	for _, e := range v.Elems {
		c.Elems = append(c.Elems, renumber(e, n))
	}
	c.Vals = nil
	for _, e := range v.Vals {
		c.Vals = append(c.Vals, renumber(e, n))
	}
	return &c
}

func genEnum(e *emitter, depth, budget int) (int, bool) {
	var payloads []*V
	inner := enumValues(depth - 1)
	for _, s := range enumStructs(inner) {
		payloads = append(payloads, &V{K: "ptr", Elem: s}, &V{K: "slice", Elem: s, Elems: []*V{s}}, &V{K: "slice", Elem: &V{K: "ptr", Elem: s}, Elems: []*V{{K: "ptr", Elem: s}}})
	}
	for _, v := range inner {
		m := &V{K: "map", Iface: true, Keys: []string{"k1"}, Vals: []*V{v}}
		payloads = append(payloads, m, &V{K: "ptr", Elem: m})
	}
	for _, t := range enumTMaps() {
		payloads = append(payloads, t, &V{K: "ptr", Elem: t})
	}
	payloads = append(payloads, &V{K: "ptr", Elem: &V{K: "str", C: 1}}, &V{K: "strs", Cs: []int{1, 1}})
	n := 0
	for _, p := range payloads {
		if budget > 0 && n >= budget {
			return n, false
		}
		k := 0
		e.emit(Case{Gen: "enum", Cfg: Cfg{Wrap: "ok"}, PK: "val", V: renumber(p, &k)})
		n++
	}
	return n, true
}
