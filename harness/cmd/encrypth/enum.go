package main

// placeholder stubs, filled in below
func genEnum(e *emitter, depth, budget int) (int, bool)             { return 0, true }
func replayCrypto(data []byte)                                      {}
func mainCrypto(out, prefix string, perShard, n int, corpus string) {}
