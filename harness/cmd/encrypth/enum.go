package main

func genEnum(e *emitter, depth, budget int) (int, bool) { return 0, true }
