package main

// Generators of payload trees of the grammar G and of filter configurations.

import (
	"fmt"

	"verifharness/hc"
)

type gen struct {
	r      *hc.Rand
	canary int
	key    int
}

func (g *gen) can() int { g.canary++; return g.canary }

var classTexts = []string{"public", "sensitive", "secret", "Secret", "PUBLIC", "bogus", "", "secret ", " secret", "SECRET", "sensitive\t", "publi"}
var opTexts = []string{"", "redact", "encrypt", "hmac-sha256", "HMAC-SHA256", "Redact", "bogus", "unknown", "encrypt ", " redact", "Hmac-Sha256", "hmac", "none"}

func sp(s string) *string { return &s }

func (g *gen) tagText() *string {
	if g.r.Chance(1, 4) {
		return nil
	}
	// valid classifications dominate; mis-spelt ones are the malformed stream
	var c string
	if g.r.Chance(4, 5) {
		c = classTexts[g.r.Intn(3)]
	} else {
		c = classTexts[g.r.Intn(len(classTexts))]
	}
	if g.r.Chance(1, 3) {
		return sp(c)
	}
	o := opTexts[g.r.Intn(len(opTexts))]
	t := c + "," + o
	if g.r.Chance(1, 25) {
		t += ",extra"
	}
	return sp(t)
}

func (g *gen) leaf() *V {
	switch g.r.Intn(12) {
	case 0, 1, 2:
		return &V{K: "str", C: g.can()}
	case 3:
		return &V{K: "bytes", C: g.can()}
	case 4:
		n := g.r.Intn(5) // 0 .. 4 elements: loops over the elements have boundaries at the first and the last one
		v := &V{K: "strs"}
		for i := 0; i < n; i++ {
			switch {
			case i > 0 && g.r.Chance(1, 5):
				v.Cs = append(v.Cs, v.Cs[g.r.Intn(i)]) // an element equal to an earlier one (adjacent or not)
			case g.r.Chance(1, 8):
				v.Cs = append(v.Cs, 0) // an empty element
			default:
				v.Cs = append(v.Cs, g.can())
			}
		}
		return v
	case 5:
		n := 1 + g.r.Intn(4)
		v := &V{K: "bytess"}
		for i := 0; i < n; i++ {
			v.Cs = append(v.Cs, g.can())
		}
		return v
	case 6:
		return &V{K: "wstr", C: g.can()}
	case 7:
		return &V{K: "wbytes", C: g.can()}
	case 8:
		switch g.r.Intn(4) {
		case 0:
			return &V{K: "jnum", I: int64(g.r.Intn(1000)) + 1} // json.Number: a number held in a named string type
		case 1:
			return &V{K: "role", I: int64(g.r.Intn(9)) + 1} // type Role string
		}
		return &V{K: "int", I: int64(g.r.Intn(100)) + 1}
	case 9:
		return &V{K: "bool", I: 1}
	case 10:
		return &V{K: "time", I: int64(1000 + g.r.Intn(100000))}
	default:
		return &V{K: "nilbytes"}
	}
}

func (g *gen) strct(depth int) *V {
	n := 1 + g.r.Intn(4)
	v := &V{K: "struct"}
	for i := 0; i < n; i++ {
		v.Fields = append(v.Fields, Field{Name: fmt.Sprintf("F%d", i+1), Tag: g.tagText(), V: g.value(depth - 1)})
	}
	return v
}

// a value that can be a struct field
func (g *gen) value(depth int) *V {
	if depth <= 0 {
		return g.leaf()
	}
	switch g.r.Intn(16) {
	case 0, 1, 2, 3:
		return g.leaf()
	case 4:
		return g.strct(depth)
	case 5:
		return &V{K: "ptr", Elem: g.strct(depth)}
	case 6:
		switch g.r.Intn(4) {
		case 0:
			return &V{K: "ptr", Elem: &V{K: "str", C: g.can()}}
		case 1:
			return &V{K: "ptr", Elem: &V{K: "wstr", C: g.can()}}
		case 2:
			return &V{K: "ptr", Elem: &V{K: "wbytes", C: g.can()}}
		}
		return &V{K: "nilptr", Elem: g.strct(1)}
	case 7, 8:
		return g.slice(depth)
	case 9, 10:
		return g.mapv(depth)
	case 11, 12:
		t := g.tmap(depth)
		if g.r.Chance(1, 4) {
			return &V{K: "ptr", Elem: t}
		}
		return t
	case 13:
		h := g.hand(depth)
		if g.r.Chance(1, 3) {
			return &V{K: "ptr", Elem: h}
		}
		return h
	case 14:
		switch g.r.Intn(3) {
		case 0:
			return g.ptrTaggableHeld()
		case 1:
			l := g.local()
			if g.r.Bool() {
				return &V{K: "ptr", Elem: l}
			}
			return l
		}
		if g.r.Bool() {
			return g.emb()
		}
		return g.unexp()
	default:
		return &V{K: "ptr", Elem: g.mapv(depth)}
	}
}

// slice of structs / pointers to structs / maps / taggable maps / taggable structs (homogeneous element type)
func (g *gen) slice(depth int) *V {
	var shape *V
	switch g.r.Intn(16) {
	case 11:
		shape = g.tmap(0) // a pointer-receiver Taggable map by value: an ordinary map there
		shape.K = "ptmap"
	case 12:
		shape = g.ptrTaggable() // pointer-receiver Taggable (map or struct type) ...
		if g.r.Bool() {
			shape = &V{K: "ptr", Elem: shape} // ... behind a pointer: honoured
		}
	case 13:
		shape = g.mapv(depth - 1) // a typed map (map[string]string, map[string]S, ...) or an interface-valued one
		if g.r.Bool() {
			shape = &V{K: "ptr", Elem: shape}
		}
	case 14:
		// a slice of slices: [][]string-like ([]strs), [][]S, [][]*S - the filter does not look into the inner slices
		switch g.r.Intn(3) {
		case 0:
			shape = &V{K: "strs", Cs: []int{g.can(), g.can()}}
			if g.r.Bool() {
				shape.K = "bytess"
			}
		case 1:
			in := g.strct(0)
			shape = &V{K: "slice", Elem: in, Elems: []*V{in}}
		default:
			in := &V{K: "ptr", Elem: g.strct(0)}
			shape = &V{K: "slice", Elem: in, Elems: []*V{in, g.cloneFresh(in)}}
		}
	case 15:
		shape = &V{K: "ptr", Elem: g.unexp()}
	case 7:
		shape = &V{K: "ptr", Elem: g.tmap(depth - 1)} // []*TaggableMap
	case 8:
		t := g.tmap(0)
		t.K = "ptmap"
		shape = &V{K: "ptr", Elem: t} // pointer-receiver Taggable map behind a pointer
	case 9:
		m := g.mapv(depth - 1)
		m.Iface = true
		shape = &V{K: "ptr", Elem: m} // []*map[string]interface{}
	case 10:
		shape = g.local()
		if g.r.Bool() {
			shape = &V{K: "ptr", Elem: shape}
		}
	case 0, 1:
		shape = g.strct(depth - 1)
	case 2:
		shape = &V{K: "ptr", Elem: g.strct(depth - 1)}
	case 3:
		shape = g.mapv(depth - 1)
		shape.Iface = true
	case 4:
		shape = g.tmap(depth - 1)
	case 5:
		shape = g.hand(depth - 1)
	default:
		shape = &V{K: "ptr", Elem: g.hand(depth - 1)}
	}
	n := g.r.Intn(4)
	v := &V{K: "slice", Elem: shape}
	for i := 0; i < n; i++ {
		switch {
		case shape.K == "ptr" && g.r.Chance(1, 5):
			// a nil pointer among the elements (same element type)
			v.Elems = append(v.Elems, &V{K: "nilptr", Elem: g.cloneFresh(shape.Elem)})
		case i == 0:
			v.Elems = append(v.Elems, shape)
		default:
			v.Elems = append(v.Elems, g.cloneFresh(shape))
		}
	}
	return v
}

// a heterogeneous []interface{} as it sits in a decoded JSON document: numbers, bools, nils, strings, []byte, maps, pointers to
// structs, nested slices - in every order (a scalar first and a container later, a container first, nil first ...).  Met as a
// VALUE OF A MAP it is walked element by element (maps swept, pointers to structs filtered; strings and nested slices of a
// slice are left alone - "nothing reasonable yet")
func (g *gen) islice(depth int) *V {
	v := &V{K: "islice"}
	elem := func() *V {
		switch g.r.Intn(10) {
		case 0:
			return &V{K: "int", I: int64(g.r.Intn(9))}
		case 1:
			return &V{K: "bool", I: int64(g.r.Intn(2))}
		case 2:
			return &V{K: "nilif"}
		case 3:
			return &V{K: "str", C: g.can()}
		case 4:
			return &V{K: "bytes", C: g.can()}
		case 5, 6:
			m := g.leafMap(true, 1+g.r.Intn(2))
			if depth > 0 && g.r.Chance(1, 3) {
				m.Keys = append(m.Keys, "k5")
				m.Vals = append(m.Vals, g.islice(depth-1))
			}
			return m
		case 7:
			return &V{K: "ptr", Elem: g.strct(0)}
		case 8:
			if g.r.Bool() {
				return g.strct(0) // a struct held BY VALUE by the interface
			}
			return &V{K: "ptr", Elem: g.strct(0)}
		default:
			if g.r.Bool() {
				return &V{K: "strs", Cs: []int{g.can()}}
			}
			return &V{K: "islice", Elems: []*V{{K: "int", I: 1}, g.leafMap(true, 1)}}
		}
	}
	for n := 2 + g.r.Intn(4); n > 0; n-- {
		v.Elems = append(v.Elems, elem())
	}
	if g.r.Chance(1, 2) {
		// a scalar (or nil) first, a container last
		v.Elems[0] = []*V{{K: "int", I: 3}, {K: "bool", I: 1}, {K: "nilif"}, {K: "int", I: 0}}[g.r.Intn(4)]
		if g.r.Bool() {
			v.Elems[len(v.Elems)-1] = g.leafMap(true, 2)
		} else {
			v.Elems[len(v.Elems)-1] = &V{K: "ptr", Elem: g.strct(0)}
		}
	}
	return v
}

func (g *gen) mapLeaf() *V {
	switch g.r.Intn(7) {
	case 0, 1, 2:
		return &V{K: "str", C: g.can()}
	case 3:
		return &V{K: "bytes", C: g.can()}
	case 4:
		v := &V{K: "strs"}
		for i := g.r.Intn(4); i >= 0; i-- {
			v.Cs = append(v.Cs, g.can())
		}
		return v
	case 5:
		v := &V{K: "bytess"}
		for i := g.r.Intn(3); i >= 0; i-- {
			v.Cs = append(v.Cs, g.can())
		}
		return v
	default:
		switch g.r.Intn(3) {
		case 0:
			return &V{K: "jnum", I: int64(g.r.Intn(1000)) + 1}
		case 1:
			return &V{K: "role", I: int64(g.r.Intn(9)) + 1}
		}
		return &V{K: "int", I: int64(g.r.Intn(50)) + 1}
	}
}

func (g *gen) mapv(depth int) *V {
	v := &V{K: "map", Iface: g.r.Chance(2, 3)}
	n := g.r.Intn(4)
	var shape *V
	for i := 0; i < n; i++ {
		var e *V
		if v.Iface {
			switch g.r.Intn(9) {
			case 0:
				e = &V{K: "ptr", Elem: g.strct(depth - 1)}
			case 1, 2:
				e = g.strct(depth - 1) // a struct stored by value (F8a)
			case 3:
				e = g.mapv(depth - 1)
			case 4:
				if depth > 1 {
					s := g.strct(depth - 2)
					e = &V{K: "slice", Elem: s, Elems: []*V{s}}
				} else {
					e = g.mapLeaf()
				}
			case 5:
				if g.r.Bool() {
					e = g.islice(1)
				} else {
					e = &V{K: "nilptr", Elem: g.strct(0)}
				}
			case 6:
				if g.r.Chance(1, 3) {
					e = g.tmap(0) // a Taggable map DIRECTLY as a value of an untagged map is swept as an untagged map
				} else {
					e = g.mapLeaf()
				}
			default:
				e = g.mapLeaf()
			}
		} else {
			if shape == nil {
				switch g.r.Intn(8) {
				case 0:
					shape = &V{K: "ptr", Elem: g.strct(depth - 1)}
				case 1, 2:
					shape = g.strct(depth - 1)
				case 3:
					shape = &V{K: "strs", Cs: []int{g.can()}}
				case 4:
					shape = &V{K: "bytes", C: g.can()}
				case 5:
					shape = g.mapv(depth - 1)
					shape.Iface = true
				case 6:
					if g.r.Bool() {
						shape = &V{K: "role", I: 1}
					} else {
						shape = &V{K: "jnum", I: 7}
					}
				default:
					shape = &V{K: "str", C: g.can()}
				}
				e = shape
			} else {
				e = g.cloneFresh(shape)
			}
		}
		v.Keys = append(v.Keys, fmt.Sprintf("k%d", i+1))
		v.Vals = append(v.Vals, e)
	}
	return v
}

var tagClasses = []string{"public", "sensitive", "secret", "secret", "sensitive", "bogus", "", "Secret", "secret ", "SECRET", " public"}
var tagOps = []string{"", "", "redact", "encrypt", "hmac-sha256", "Encrypt", "bogus", "HMAC-SHA256", "encrypt ", "none", "unknown"}

func (g *gen) ptag(ptr string) PTag {
	c := tagClasses[g.r.Intn(5)]
	if g.r.Chance(1, 12) {
		c = tagClasses[g.r.Intn(len(tagClasses))]
	}
	return PTag{Ptr: ptr, Class: c, Op: tagOps[g.r.Intn(len(tagOps))]}
}

func (g *gen) tmap(depth int) *V {
	v := &V{K: "tmap"}
	n := g.r.Intn(4)
	nestedKey := ""
	for i := 0; i < n; i++ {
		k := fmt.Sprintf("k%d", i+1)
		v.Keys = append(v.Keys, k)
		switch g.r.Intn(9) {
		case 8:
			if g.r.Chance(1, 3) {
				v.Vals = append(v.Vals, g.islice(1)) // a mixed []interface{} under a key (tags name strings only: this key stays untagged)
				break
			}
			v.Vals = append(v.Vals, &V{K: "bytes", C: g.can()}) // a []byte under a (possibly tagged) key
		case 0:
			v.Vals = append(v.Vals, &V{K: "int", I: 7})
		case 1:
			// a nested map that "/k/k2" pointers may go through: strings, now and then a struct or a further map
			m := &V{K: "map", Iface: true}
			for j := 0; j < 1+g.r.Intn(3); j++ {
				m.Keys = append(m.Keys, fmt.Sprintf("k%d", j+1))
				switch {
				case j > 0 && depth > 0 && g.r.Chance(1, 6):
					m.Vals = append(m.Vals, g.strct(0))
				case j > 0 && g.r.Chance(1, 8):
					m.Vals = append(m.Vals, g.leafMap(true, 1))
				default:
					m.Vals = append(m.Vals, &V{K: "str", C: g.can()})
				}
			}
			v.Vals = append(v.Vals, m)
			nestedKey = k
		case 2:
			if depth > 0 {
				v.Vals = append(v.Vals, &V{K: "ptr", Elem: g.strct(depth - 1)})
			} else {
				v.Vals = append(v.Vals, &V{K: "str", C: g.can()})
			}
		default:
			v.Vals = append(v.Vals, &V{K: "str", C: g.can()})
		}
	}
	nt := g.r.Intn(4)
	for i := 0; i < nt; i++ {
		k := fmt.Sprintf("k%d", 1+g.r.Intn(5))
		// tags name keys holding strings (or ints), or absent keys - and, one time in three, whatever the key holds: a nested map,
		// a pointer to a struct, a mixed []interface{} (a tag on a container classifies the container as a whole)
		ok := true
		for j, kk := range v.Keys {
			if kk == k && v.Vals[j].K != "str" && v.Vals[j].K != "int" && v.Vals[j].K != "bytes" {
				ok = false
			}
		}
		if !ok && !g.r.Chance(1, 3) {
			continue
		}
		v.Tags = append(v.Tags, g.ptag("/"+k))
	}
	if nestedKey != "" && g.r.Chance(1, 3) {
		// a pointer three (or four) levels deep: a further map below the nested one
		for j, kk := range v.Keys {
			if kk == nestedKey {
				inner := g.leafMap(true, 1+g.r.Intn(2))
				ptr := fmt.Sprintf("/%s/k7/k%d", nestedKey, 1+g.r.Intn(2))
				if g.r.Chance(1, 2) {
					// deeper still: one to three further maps on the way
					tail := g.leafMap(true, 2)
					ptr = fmt.Sprintf("/k%d", 1+g.r.Intn(3))
					for d := g.r.Intn(3); d >= 0; d-- {
						tail = &V{K: "map", Iface: true, Keys: []string{"k3", "k8"}, Vals: []*V{tail, {K: "str", C: g.can()}}}
						ptr = "/k3" + ptr
					}
					inner.Keys = append(inner.Keys, "k3")
					inner.Vals = append(inner.Vals, tail.Vals[0])
					ptr = fmt.Sprintf("/%s/k7", nestedKey) + ptr
				}
				v.Vals[j].Keys = append(v.Vals[j].Keys, "k7")
				v.Vals[j].Vals = append(v.Vals[j].Vals, inner)
				v.Tags = append(v.Tags, g.ptag(ptr))
			}
		}
	}
	if nestedKey != "" && g.r.Chance(2, 3) {
		// nested pointers name keys holding strings (k1 always does) or absent keys
		for n := 1 + g.r.Intn(2); n > 0; n-- {
			k2 := []int{1, 1, 4}[g.r.Intn(3)]
			v.Tags = append(v.Tags, g.ptag(fmt.Sprintf("/%s/k%d", nestedKey, k2)))
		}
	}
	if g.r.Chance(1, 40) {
		v.Tags = append(v.Tags, g.ptag("k1")) // does not parse
	}
	// a tag that names a CONTAINER (nested map, slice, pointer to struct) classifies it as a whole; together with deeper tags that
	// go through the same key the outcome depends on the order the tags are applied in (the first replaces the map by a string, the
	// deeper pointer then finds no map): the model keeps the two apart, the generator does too
	var kept []PTag
	for _, t := range v.Tags {
		drop := false
		for j, kk := range v.Keys {
			if t.Ptr == "/"+kk && v.Vals[j].K != "str" && v.Vals[j].K != "int" && v.Vals[j].K != "bytes" {
				for _, u := range v.Tags {
					if len(u.Ptr) > len(t.Ptr) && u.Ptr[:len(t.Ptr)+1] == t.Ptr+"/" {
						drop = true
					}
				}
			}
		}
		if !drop {
			kept = append(kept, t)
		}
	}
	v.Tags = kept
	return v
}

func (g *gen) leafMap(iface bool, n int) *V {
	m := &V{K: "map", Iface: iface}
	for j := 0; j < n; j++ {
		m.Keys = append(m.Keys, fmt.Sprintf("k%d", j+1))
		m.Vals = append(m.Vals, &V{K: "str", C: g.can()})
	}
	return m
}

// a hand-written Taggable struct
func (g *gen) hand(depth int) *V {
	if g.r.Chance(2, 3) {
		v := &V{K: "hand", Hand: "TStructA"}
		m := g.leafMap(true, g.r.Intn(4))
		if len(m.Keys) > 0 && g.r.Chance(1, 3) {
			m.Vals[0] = &V{K: "int", I: 9}
		}
		if g.r.Chance(1, 3) {
			// a struct (by value or behind a pointer) as a value of the map field, holding a Taggable map of its own:
			// found by the final sweep, its Taggable field is honoured there
			inner := &V{K: "struct", Fields: []Field{{Name: "F1", Tag: g.tagText(), V: &V{K: "str", C: g.can()}}, {Name: "F2", V: g.tmap(0)}}}
			if g.r.Bool() {
				inner = &V{K: "ptr", Elem: inner}
			}
			// under a key no tag of the struct names (tags name string values)
			m.Keys = append(m.Keys, "k9")
			m.Vals = append(m.Vals, inner)
		}
		ms := g.leafMap(false, g.r.Intn(3))
		v.Fields = []Field{{Name: "Pub", Tag: sp("public"), V: &V{K: "str", C: g.can()}}, {Name: "Sens", Tag: sp("sensitive"), V: &V{K: "str", C: g.can()}},
			{Name: "Unt", V: &V{K: "str", C: g.can()}}, {Name: "M", V: m}, {Name: "MS", V: ms}}
		for i := g.r.Intn(4); i > 0; i-- {
			f := "M"
			if g.r.Bool() {
				f = "MS"
			}
			v.Tags = append(v.Tags, g.ptag(fmt.Sprintf("/%s/k%d", f, 1+g.r.Intn(4))))
		}
		return v
	}
	v := &V{K: "hand", Hand: "TStructB"}
	t := g.tmap(0)
	l := &V{K: "slice", Elem: g.tmap(0)}
	for i := g.r.Intn(3); i > 0; i-- {
		l.Elems = append(l.Elems, g.tmap(0))
	}
	m := g.leafMap(true, g.r.Intn(3))
	v.Fields = []Field{{Name: "Sec", Tag: sp("secret"), V: &V{K: "str", C: g.can()}}, {Name: "M", V: m}, {Name: "T", V: t}, {Name: "L", V: l}}
	for i := g.r.Intn(3); i > 0; i-- {
		v.Tags = append(v.Tags, g.ptag(fmt.Sprintf("/M/k%d", 1+g.r.Intn(3))))
	}
	return v
}

// a Taggable with a pointer receiver (map or struct type), tags classifying some entries public, some with an operation
func (g *gen) ptrTaggable() *V {
	if g.r.Bool() {
		t := g.tmap(0)
		t.K = "ptmap"
		return t
	}
	m := g.leafMap(true, 1+g.r.Intn(3))
	v := &V{K: "hand", Hand: "PTStruct", Fields: []Field{{Name: "Sec", Tag: sp("secret"), V: &V{K: "str", C: g.can()}}, {Name: "Unt", V: &V{K: "str", C: g.can()}}, {Name: "M", V: m}}}
	for i := 1 + g.r.Intn(3); i > 0; i-- {
		v.Tags = append(v.Tags, g.ptag(fmt.Sprintf("/M/k%d", 1+g.r.Intn(4))))
	}
	return v
}

// ... held by value, behind a pointer, behind a pointer in an interface-typed field, as slice elements, as a map value
func (g *gen) ptrTaggableHeld() *V {
	t := g.ptrTaggable()
	switch g.r.Intn(6) {
	case 0:
		return t
	case 1, 2:
		return &V{K: "ptr", Elem: t}
	case 3:
		return &V{K: "iface", Elem: &V{K: "ptr", Elem: t}}
	case 4:
		p := &V{K: "ptr", Elem: t}
		return &V{K: "slice", Elem: p, Elems: []*V{p, g.cloneFresh(p)}}
	default:
		return &V{K: "map", Iface: true, Keys: []string{"k1", "k2"}, Vals: []*V{{K: "ptr", Elem: t}, {K: "str", C: g.can()}}}
	}
}

// one of the same-named local struct types: "main.payload" (LocalA, LocalB, LocalC) and "main.record" (LocalD, LocalE)
func (g *gen) local() *V {
	return g.localOf([]string{"LocalA", "LocalB", "LocalC", "LocalD", "LocalE"}[g.r.Intn(5)])
}

func (g *gen) localOf(name string) *V {
	strs := func(n int) *V {
		v := &V{K: "strs"}
		for ; n > 0; n-- {
			v.Cs = append(v.Cs, g.can())
		}
		return v
	}
	s := func() *V { return &V{K: "str", C: g.can()} }
	switch name {
	case "LocalA":
		return &V{K: "hand", Hand: name, Fields: []Field{{Name: "Name", Tag: sp("public"), V: s()}, {Name: "Token", Tag: sp("secret"), V: s()}, {Name: "Note", Tag: sp("sensitive"), V: strs(2)}}}
	case "LocalB":
		return &V{K: "hand", Hand: name, Fields: []Field{{Name: "Name", Tag: sp("secret"), V: s()}, {Name: "Token", Tag: sp("public"), V: s()}, {Name: "Note", Tag: sp("public"), V: strs(2)}}}
	case "LocalC":
		return &V{K: "hand", Hand: name, Fields: []Field{{Name: "Name", Tag: sp("sensitive,hmac-sha256"), V: s()}, {Name: "Token", V: s()}, {Name: "Extra", Tag: sp("public"), V: s()}}}
	case "LocalD":
		return &V{K: "hand", Hand: name, Fields: []Field{{Name: "Key", Tag: sp("public"), V: s()}, {Name: "Note", Tag: sp("public"), V: strs(2)}, {Name: "Secret", Tag: sp("secret"), V: s()}}}
	}
	return &V{K: "hand", Hand: "LocalE", Fields: []Field{{Name: "Key", Tag: sp("secret"), V: s()}, {Name: "Note", V: strs(1)}, {Name: "Secret", Tag: sp("public"), V: s()}, {Name: "Extra", Tag: sp("sensitive"), V: &V{K: "bytes", C: g.can()}}}}
}

// a struct with an embedded struct: exported (walked like any struct field) or unexported (not reachable: F10)
func (g *gen) emb() *V {
	if g.r.Bool() {
		return &V{K: "hand", Hand: "EmbA", Fields: []Field{
			{Name: "EmbInner", V: &V{K: "hand", Hand: "EmbInner", Fields: []Field{{Name: "Sec", Tag: sp("secret"), V: &V{K: "str", C: g.can()}}, {Name: "Pub", Tag: sp("public"), V: &V{K: "str", C: g.can()}}}}},
			{Name: "Unt", V: &V{K: "str", C: g.can()}}}}
	}
	return &V{K: "hand", Hand: "EmbU", Fields: []Field{
		{Name: "embHidden", V: &V{K: "hand", Hand: "embHidden", Fields: []Field{{Name: "Sec", Tag: sp("secret"), V: &V{K: "str", C: g.can()}}, {Name: "N", V: &V{K: "int", I: int64(g.r.Intn(3))}}}}},
		{Name: "Sens", Tag: sp("sensitive"), V: &V{K: "str", C: g.can()}}}}
}

func (g *gen) unexp() *V {
	return &V{K: "hand", Hand: "UnexpA", Fields: []Field{
		{Name: "hidden", V: &V{K: "int", I: int64(g.r.Intn(3))}}, // 0 now and then: nothing to lose
		{Name: "hiddenS", V: &V{K: "str", C: g.can()}},
		{Name: "N", V: &V{K: "int", I: 5}},
		{Name: "Sec", Tag: sp("secret"), V: &V{K: "str", C: g.can()}},
		{Name: "Pub", Tag: sp("public"), V: &V{K: "str", C: g.can()}}}}
}

// same shape (same Go type), fresh canaries
func (g *gen) cloneFresh(v *V) *V {
	c := *v
	switch v.K {
	case "str", "bytes", "wstr", "wbytes":
		c.C = g.can()
	case "strs", "bytess":
		c.Cs = nil
		for range v.Cs {
			c.Cs = append(c.Cs, g.can())
		}
	case "struct", "hand":
		c.Fields = nil
		for _, f := range v.Fields {
			f2 := f
			f2.V = g.cloneFresh(f.V)
			c.Fields = append(c.Fields, f2)
		}
	case "ptr", "iface":
		c.Elem = g.cloneFresh(v.Elem)
	case "slice", "islice":
		c.Elems = nil
		for _, e := range v.Elems {
			c.Elems = append(c.Elems, g.cloneFresh(e))
		}
	case "map", "tmap", "ptmap":
		c.Vals = nil
		for _, e := range v.Vals {
			c.Vals = append(c.Vals, g.cloneFresh(e))
		}
	}
	return &c
}

// scalars only at the bottom of 3 - 6 container wraps (6 - 13 levels)
func (g *gen) deep() *V {
	var w []string
	for n := 3 + g.r.Intn(4); n > 0; n-- {
		w = append(w, []string{"S", "P", "L", "LV", "M", "MV"}[g.r.Intn(6)])
	}
	c := g.canary + 1
	g.canary += 7
	v := deepChain(c, w...)
	switch g.r.Intn(6) {
	case 0:
		return sliceOf(v)
	case 1:
		return imap("k1", v)
	}
	return v
}

func (g *gen) payload(depth int) (string, *V) {
	if g.r.Chance(1, 40) {
		return "val", g.deep()
	}
	switch g.r.Intn(24) {
	case 0, 1, 2, 3, 4, 5, 6:
		return "val", &V{K: "ptr", Elem: g.strct(depth)}
	case 7, 8:
		sl := g.slice(depth)
		if g.r.Chance(1, 5) {
			return "val", &V{K: "ptr", Elem: sl} // a pointer to the slice
		}
		return "val", sl
	case 9:
		v := &V{K: "strs"}
		if g.r.Bool() {
			v.K = "bytess"
		}
		for i := g.r.Intn(4); i >= 0; i-- {
			v.Cs = append(v.Cs, g.can())
		}
		return "val", v
	case 10:
		if g.r.Bool() {
			return "val", &V{K: "ptr", Elem: &V{K: "str", C: g.can()}}
		}
		return "val", &V{K: "ptr", Elem: &V{K: "bytes", C: g.can()}}
	case 11, 12:
		return "val", g.mapv(depth)
	case 13:
		return "val", &V{K: "ptr", Elem: g.mapv(depth)}
	case 14, 15:
		return "val", g.tmap(depth)
	case 16:
		return "val", &V{K: "ptr", Elem: g.tmap(depth)}
	case 17, 18:
		return "val", &V{K: "ptr", Elem: g.hand(depth)}
	case 19:
		if g.r.Chance(2, 3) {
			return "val", &V{K: "ptr", Elem: g.local()}
		}
		return "val", &V{K: "ptr", Elem: g.unexp()}
	case 20:
		return "val", g.ewi(depth)
	case 21:
		switch g.r.Intn(4) {
		case 0:
			return "nil", nil
		case 1:
			return "val", &V{K: "nilptr", Elem: g.strct(1)}
		case 2:
			// a string or []byte by value cannot be set: error, nothing forwarded
			if g.r.Bool() {
				return "val", &V{K: "bytes", C: g.can()}
			}
			return "val", &V{K: "str", C: g.can()}
		default:
			return "rotate", &V{K: []string{"all", "salt", "info", "wrapper", "empty", "both", "bothv", "botht"}[g.r.Intn(8)]}
		}
	case 23:
		t := g.ptrTaggable()
		if g.r.Chance(3, 4) {
			return "val", &V{K: "ptr", Elem: t}
		}
		return "val", t
	case 22:
		// a struct handed over BY VALUE (outside G for the no-leak theorem: its own strings cannot be set; what it refers
		// to is still filtered, in the private copy only)
		return "val", g.strct(depth)
	default:
		return "val", &V{K: "ptr", Elem: g.strct(depth)}
	}
}

func (g *gen) ewi(depth int) *V {
	id := &V{K: "evid"}
	if !g.r.Chance(1, 6) {
		id.I = int64(1 + g.r.Intn(3)) // event id "ev<i>"
	}
	salt, info := &V{K: "nilbytes"}, &V{K: "nilbytes"}
	if g.r.Bool() {
		salt = &V{K: "bytes", C: g.can()}
	}
	if g.r.Bool() {
		info = &V{K: "bytes", C: g.can()}
	}
	return &V{K: "ptr", Elem: &V{K: "hand", Hand: "EWI", Fields: []Field{
		{Name: "EvID", Tag: sp("public"), V: id}, {Name: "Salt", Tag: sp("public"), V: salt}, {Name: "Info", Tag: sp("public"), V: info},
		{Name: "P", V: &V{K: "ptr", Elem: g.strct(depth - 1)}}}}}
}

var ovTexts = []string{"", "none", "redact", "encrypt", "hmac", "other"}

func (g *gen) cfg() Cfg {
	var c Cfg
	c.Wrap = "ok"
	if g.r.Chance(1, 3) {
		for i := range c.Ov {
			if g.r.Chance(1, 2) {
				c.Ov[i] = ovTexts[g.r.Intn(5)]
				if g.r.Chance(1, 15) {
					c.Ov[i] = "other"
				}
			}
		}
	}
	switch g.r.Intn(10) {
	case 0:
		c.Wrap = "absent"
	case 1:
		c.Wrap = "failing"
		c.EncFail = []int{g.r.Intn(4)}
		if g.r.Chance(1, 3) {
			c.EncFail = append(c.EncFail, g.r.Intn(6))
		}
		c.ErrK = g.r.Intn(7)
		if g.r.Chance(1, 4) {
			c.Wrap, c.EncFail = "keyid", nil
		}
	}
	if g.r.Chance(1, 4) {
		c.Ctx = []string{"cancelled", "deadline", "custom", "cause", "inflight"}[g.r.Intn(5)]
	}
	c.EmptyOv = g.r.Chance(1, 8)
	return c
}
