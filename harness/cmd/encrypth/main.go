// encrypth — correspondence driver for encrypt.Filter (C09, C10; C16 with -crypto).
// It builds payloads of the shape grammar G as real Go values (reflect.StructOf / MapOf / SliceOf and a few hand-written
// types), runs encrypt.Filter.Process of the tree under test on them, maps every string of the forwarded payload to a
// symbolic leaf by decrypting / recomputing with an independent implementation, and prints cases_*.v files for
// Run_Encrypt.mismatches.
package main

import (
	"context"
	"crypto/sha256"
	"encoding/base64"
	"encoding/json"
	"errors"
	"flag"
	"fmt"
	"io"
	"os"
	"reflect"
	"runtime/pprof"
	"sort"
	"strings"
	"time"

	el "github.com/hashicorp/eventlogger"
	"github.com/hashicorp/eventlogger/filters/encrypt"
	wrapping "github.com/hashicorp/go-kms-wrapping/v2"
	"github.com/hashicorp/go-kms-wrapping/v2/aead"
	"verifharness/hc"
)

type Cfg struct {
	Ov      [3]string `json:"ov"`   // overrides of public, sensitive, secret: "" (absent) none redact encrypt hmac other
	Wrap    string    `json:"wrap"` // ok absent failing
	EncFail []int     `json:"encfail,omitempty"`
	Ign     bool      `json:"ign,omitempty"` // Filter.IgnoreTypes = {*Ign}
	// the context handed to Process: "" Background, cancelled, deadline (in the past), custom (a type that is not from the context
	// package, done), cause (cancelled with a cause of its own), inflight (cancelled by the first Tags() callback of the payload).
	// The AEAD wrapper ignores it; the failing wrapper answers a dead context with the context's error at every Encrypt call.
	Ctx     string `json:"ctx,omitempty"`
	ErrK    int    `json:"errk,omitempty"`    // which kind of error value the failing wrapper returns first (the kinds rotate per call)
	EmptyOv bool   `json:"emptyov,omitempty"` // FilterOperationOverrides is an empty non-nil map where there are no overrides
}
type Case struct {
	ID  int    `json:"id"`
	Gen string `json:"gen"`
	Cfg Cfg    `json:"cfg"`
	PK  string `json:"pk"` // nil rotate val
	V   *V     `json:"v,omitempty"`
	// a history on ONE Filter: the case is its event number Step (0-based); the events before it only set the scene
	Hist []HistStep `json:"hist,omitempty"`
	Step int        `json:"step,omitempty"`
	// ignored values sit where the IgnoreTypes rule applies (outside the model): only the snapshot oracles are evaluated
	SnapOnly bool `json:"snaponly,omitempty"`
}

// one event of a history: the override table and (Rot > 0) the wrapper the filter is rotated to before it
type HistStep struct {
	Cfg Cfg    `json:"cfg"`
	Rot int    `json:"rot,omitempty"`
	PK  string `json:"pk"`
	V   *V     `json:"v,omitempty"`
	// the very payload OBJECT of the previous event is sent again (the filter works on a copy: the same result is due)
	Again bool `json:"again,omitempty"`
	// a node's OWN OUTPUT fed back: 1 = the *Event the previous step forwarded is the event of this step, 2 = the very *Event the
	// previous step was given, once more.  Other: through another Filter (same key, salt, info and table) instead of the history's.
	// The model's input is the projection of the object actually handed over; Process must treat it as any caller's event.
	Feed  int  `json:"feed,omitempty"`
	Other bool `json:"other,omitempty"`
}

var histKeys = map[int]string{1: "k1", 3: "k3", 4: "k4"}

// what the filter's key material is at an event (the model is told the key id; the classifier tries the salt / info)
type hstate struct {
	keyName    string
	keyID      int
	salt, info []byte
	lastPV     interface{} // the payload object of the previous event of the history
	again      bool
	feed       int       // this step's event is lastOut (1) / lastIn (2)
	keepOut    bool      // the next step feeds this step's forwarded event back: it is left as the filter made it
	lastIn     *el.Event // the event the previous step was given
	lastOut    *el.Event // the event the previous step forwarded
}

// a rotation payload of kind all / salt / info / wrapper / empty: only the named components are non-nil
func rotPayload(kind string, n int) (*Rot, int) {
	if kind == "typednil" {
		return nil, 0 // a typed nil pointer in the payload interface: a rotation payload that rotates nothing
	}
	switch kind {
	case "byvalue", "both", "bothv", "botht":
		kind = "all" // the same components in another payload type (rotPayloadValue)
	}
	r := &Rot{}
	w := 0
	if kind == "all" || kind == "wrapper" {
		w = []int{3, 4}[n%2]
		r.W = newAead(histKeys[w])
	}
	if kind == "all" || kind == "salt" {
		r.Salt = []byte(fmt.Sprintf("rsalt-%d", n))
	}
	if kind == "all" || kind == "info" {
		r.Info = []byte(fmt.Sprintf("rinfo-%d", n))
	}
	return r, w
}

// the payload object of a rotation: *Rot, a typed nil *Rot, or a RotV by value (RotateWrapper through value receivers)
func rotPayloadValue(kind string, n int) interface{} {
	r, _ := rotPayload(kind, n)
	switch kind {
	case "byvalue":
		return RotV{W: r.W, Salt: r.Salt, Info: r.Info}
	case "both": // RotateWrapper AND EventWrapperInfo
		return &RotEwi{W: r.W, Salt: r.Salt, Info: r.Info, ID: "ev1"}
	case "bothv": // ... through value receivers, by value
		return RotEwiV{W: r.W, Salt: r.Salt, Info: r.Info, ID: "ev2"}
	case "botht": // ... and Taggable
		return &RotEwiT{RotEwi: RotEwi{W: r.W, Salt: r.Salt, Info: r.Info, ID: "ev3"}, Sec: "a rotation payload is never forwarded"}
	}
	return r
}

func allNone(c Cfg) bool {
	return (c.Ov[0] == "" || c.Ov[0] == "none") && c.Ov[1] == "none" && c.Ov[2] == "none"
}

func keyBytes(name string) []byte { h := sha256.Sum256([]byte("verif-" + name)); return h[:] }

func newAead(name string) *aead.Wrapper {
	w := aead.NewWrapper()
	if _, err := w.SetConfig(context.Background(), wrapping.WithKeyId(name)); err != nil {
		panic(err)
	}
	if err := w.SetAesGcmKeyBytes(keyBytes(name)); err != nil {
		panic(err)
	}
	return w
}

// a wrapper whose Encrypt fails at chosen calls; NewDerivedReader rejects its type, so every HMAC fails
type failW struct {
	inner  *aead.Wrapper
	calls  int
	fail   map[int]bool
	errK   int
	keyid  bool  // KeyId fails (NewEventWrapper asks for it)
	ctxHit []int // the calls answered with the context's error (the observed choice, handed to the model as its oracle's answer)
}

// the kinds of error values a dependency may return; the filter must fail closed on every one of them
type timeoutErr struct{}

func (timeoutErr) Error() string   { return "injected timeout" }
func (timeoutErr) Timeout() bool   { return true }
func (timeoutErr) Temporary() bool { return true }
func (timeoutErr) Is(t error) bool { return t == context.DeadlineExceeded }

type nilErr struct{}

func (e *nilErr) Error() string { return "injected typed-nil error" }

var sharedErr = errors.New("injected wrapper failure (one value shared by all callers)")

func errOfKind(k int) error {
	switch k % 7 {
	case 1:
		return fmt.Errorf("wrapped: %w", io.ErrUnexpectedEOF)
	case 2:
		return context.DeadlineExceeded
	case 3:
		return timeoutErr{}
	case 4:
		return errors.Join(errors.New("first"), os.ErrClosed)
	case 5:
		return (*nilErr)(nil)
	case 6:
		return sharedErr
	}
	return errors.New("injected wrapper failure")
}

func (f *failW) Type(ctx context.Context) (wrapping.WrapperType, error) { return f.inner.Type(ctx) }
func (f *failW) KeyId(ctx context.Context) (string, error) {
	if f.keyid {
		return "", errOfKind(f.errK)
	}
	return f.inner.KeyId(ctx)
}
func (f *failW) SetConfig(ctx context.Context, o ...wrapping.Option) (*wrapping.WrapperConfig, error) {
	return f.inner.SetConfig(ctx, o...)
}
func (f *failW) Encrypt(ctx context.Context, pt []byte, o ...wrapping.Option) (*wrapping.BlobInfo, error) {
	i := f.calls
	f.calls++
	if f.fail[i] {
		return nil, errOfKind(f.errK + i)
	}
	if err := ctx.Err(); err != nil {
		f.ctxHit = append(f.ctxHit, i)
		return nil, err
	}
	return f.inner.Encrypt(ctx, pt, o...)
}
func (f *failW) Decrypt(ctx context.Context, b *wrapping.BlobInfo, o ...wrapping.Option) ([]byte, error) {
	return f.inner.Decrypt(ctx, b, o...)
}

func opOf(s string) (encrypt.FilterOperation, string) {
	switch s {
	case "none":
		return encrypt.NoOperation, "Some ONone"
	case "redact":
		return encrypt.RedactOperation, "Some ORedact"
	case "encrypt":
		return encrypt.EncryptOperation, "Some OEncrypt"
	case "hmac":
		return encrypt.HmacSha256Operation, "Some OHmac"
	case "other":
		return encrypt.FilterOperation("rot13"), "Some OOther"
	}
	return "", "None"
}

var filterSalt, filterInfo = []byte("fsalt"), []byte("finfo")

func setOverrides(f *encrypt.Filter, c Cfg) {
	f.FilterOperationOverrides = nil
	if c.EmptyOv {
		f.FilterOperationOverrides = map[encrypt.DataClassification]encrypt.FilterOperation{}
	}
	classes := []encrypt.DataClassification{encrypt.PublicClassification, encrypt.SensitiveClassification, encrypt.SecretClassification}
	for i, o := range c.Ov {
		if o != "" {
			if f.FilterOperationOverrides == nil {
				f.FilterOperationOverrides = map[encrypt.DataClassification]encrypt.FilterOperation{}
			}
			op, _ := opOf(o)
			f.FilterOperationOverrides[classes[i]] = op
		}
	}
}

func mkFilter(c Cfg) *encrypt.Filter {
	f := &encrypt.Filter{HmacSalt: filterSalt, HmacInfo: filterInfo}
	setOverrides(f, c)
	if c.Ign {
		f.IgnoreTypes = []reflect.Type{reflect.TypeOf(&Ign{})}
	}
	switch c.Wrap {
	case "ok":
		f.Wrapper = newAead("k1")
	case "failing", "keyid":
		fw := &failW{inner: newAead("k1"), fail: map[int]bool{}, errK: c.ErrK, keyid: c.Wrap == "keyid"}
		for _, i := range c.EncFail {
			fw.fail[i] = true
		}
		f.Wrapper = fw
	}
	return f
}

func collectInts(v *V, out *[]string) {
	if v == nil {
		return
	}
	if v.K == "int" {
		*out = append(*out, fmt.Sprintf("%s", int(v.I)))
	}
	for _, f := range v.Fields {
		collectInts(f.V, out)
	}
	if v.K == "ptr" || v.K == "iface" {
		collectInts(v.Elem, out)
	}
	for _, e := range v.Elems {
		collectInts(e, out)
	}
	for _, e := range v.Vals {
		collectInts(e, out)
	}
}

func collectCanaries(v *V, m map[string]int) {
	if v == nil {
		return
	}
	switch v.K {
	case "str", "bytes", "wstr", "wbytes":
		if v.C != 0 {
			m[canary(v.C)] = v.C
		}
	case "evid":
		if v.I != 0 {
			m[fmt.Sprintf("ev%d", v.I)] = 9000 + int(v.I)
		}
	}
	for _, c := range v.Cs {
		if c != 0 { // 0 is the empty string: no canary
			m[canary(c)] = c
		}
	}
	for _, f := range v.Fields {
		collectCanaries(f.V, m)
	}
	if v.K == "ptr" || v.K == "iface" {
		collectCanaries(v.Elem, m)
	}
	for _, e := range v.Elems {
		collectCanaries(e, m)
	}
	for _, e := range v.Vals {
		collectCanaries(e, m)
	}
}

func payloadClass(pk string, v *V) int {
	switch pk {
	case "nil":
		return 8
	case "rotate":
		return 9
	}
	root := v
	if root.K == "ptr" {
		root = root.Elem
	}
	switch root.K {
	case "struct":
		if v.K != "ptr" {
			return 14 // by value
		}
		return 1
	case "slice":
		return 2
	case "strs", "bytess":
		return 3
	case "str", "bytes":
		if v.K == "ptr" {
			return 4
		}
		return 11
	case "map":
		return 5
	case "tmap", "ptmap":
		return 6
	case "hand":
		switch root.Hand {
		case "EWI":
			return 10
		case "UnexpA":
			return 13
		}
		return 7
	case "nilptr":
		return 8
	}
	return 0
}

type result struct {
	lit     string // ecase literal
	class   int
	obs     string // same consumed err panic out
	panicV  interface{}
	errText string
	inLit   string
	outLit  string
	nontriv bool
}

var fixedTime = time.Unix(1700000000, 0).UTC()

// a context that is not from the context package
type ownCtx struct{ done chan struct{} }

func (ownCtx) Deadline() (time.Time, bool)   { return time.Time{}, false }
func (c ownCtx) Done() <-chan struct{}       { return c.done }
func (ownCtx) Value(interface{}) interface{} { return nil }
func (c ownCtx) Err() error {
	select {
	case <-c.done:
		return context.Canceled
	default:
		return nil
	}
}

// called by every Tags() of the harness's Taggables (a point in the middle of Process)
var tagsHook func()

func fireTagsHook() {
	if h := tagsHook; h != nil {
		tagsHook = nil
		h()
	}
}

func ctxOf(kind string) (context.Context, func()) {
	switch kind {
	case "cancelled":
		c, cancel := context.WithCancel(context.Background())
		cancel()
		return c, func() {}
	case "deadline":
		c, cancel := context.WithDeadline(context.Background(), time.Unix(1, 0))
		return c, cancel
	case "custom":
		d := make(chan struct{})
		close(d)
		return ownCtx{d}, func() {}
	case "cause":
		parent, cancel := context.WithCancelCause(context.Background())
		cancel(errors.New("the caller's own cause"))
		c, cancel2 := context.WithCancel(parent) // a child of the cancelled one
		return c, cancel2
	case "inflight":
		c, cancel := context.WithCancel(context.Background())
		tagsHook = cancel
		return c, cancel
	}
	return context.Background(), func() {}
}

// a history: the events before c.Step run on the same filter first; the case proper is event c.Step
func execCase(c Case) (res result) {
	if len(c.Hist) == 0 {
		return execOn(mkFilter(c.Cfg), &hstate{keyName: "k1", keyID: 1, salt: filterSalt, info: filterInfo}, c, 0)
	}
	f := &encrypt.Filter{HmacSalt: filterSalt, HmacInfo: filterInfo, Wrapper: newAead("k1")}
	hs := &hstate{keyName: "k1", keyID: 1, salt: filterSalt, info: filterInfo}
	for i, h := range c.Hist {
		setOverrides(f, h.Cfg)
		// the rest of the exported surface between two events: IgnoreTypes as this step says (the histories hold no value of the
		// ignored type: setting it changes nothing), Reopen and Type are identity steps
		f.IgnoreTypes = nil
		if h.Cfg.Ign {
			f.IgnoreTypes = []reflect.Type{reflect.TypeOf(&Ign{})}
		}
		if f.Reopen() != nil || f.Type() != el.NodeTypeFilter {
			panic("Reopen / Type")
		}
		hs.again = h.Again
		if name, ok := histKeys[h.Rot]; ok {
			f.Rotate(encrypt.WithWrapper(newAead(name)))
			hs.keyName, hs.keyID = name, h.Rot
		}
		step := Case{ID: c.ID, Gen: c.Gen, Cfg: h.Cfg, PK: h.PK, V: h.V, SnapOnly: c.SnapOnly && i == c.Step}
		hs.feed = h.Feed
		hs.keepOut = i+1 < len(c.Hist) && c.Hist[i+1].Feed == 1
		fx := f
		if h.Other {
			// another Filter object in the state the history's filter is in
			fx = &encrypt.Filter{HmacSalt: hs.salt, HmacInfo: hs.info, Wrapper: newAead(hs.keyName)}
			setOverrides(fx, h.Cfg)
		}
		r := execOn(fx, hs, step, i)
		if h.PK == "rotate" && !allNone(h.Cfg) && h.V != nil {
			// what the model says a consumed rotation payload has done to the filter
			rp, w := rotPayload(h.V.K, i)
			if rp == nil {
				rp = &Rot{}
			}
			if w != 0 {
				hs.keyName, hs.keyID = histKeys[w], w
			}
			if rp.Salt != nil {
				hs.salt = rp.Salt
			}
			if rp.Info != nil {
				hs.info = rp.Info
			}
		}
		if i == c.Step {
			return r
		}
	}
	return res
}

func execOn(f *encrypt.Filter, hs *hstate, c Case, n int) (res result) {
	keyName, keyID := hs.keyName, hs.keyID
	ctx, cancelCtx := ctxOf(c.Cfg.Ctx)
	defer func() { cancelCtx(); tagsHook = nil }()
	cl := &classifier{canaries: map[string]int{}}
	var pv interface{}
	var fed *el.Event
	ewi := "None"
	switch c.PK {
	case "nil":
	case "rotate":
		kind := "all"
		if c.V != nil {
			kind = c.V.K
		}
		pv = rotPayloadValue(kind, n)
	default:
		collectCanaries(c.V, cl.canaries)
		collectInts(c.V, &cl.extra)
		pv = valueOf(c.V).Interface()
		if hs.again && hs.lastPV != nil {
			pv = hs.lastPV
		}
		switch {
		case hs.feed == 1 && hs.lastOut != nil && hs.lastOut.Payload != nil:
			fed = hs.lastOut
		case hs.feed == 2 && hs.lastIn != nil && hs.lastIn.Payload != nil:
			fed = hs.lastIn
		}
		if fed != nil {
			pv = fed.Payload
		}
		hs.lastPV = pv
	}
	cl.keys = []keyCand{{keyID, keyBytes(keyName)}}
	for id, name := range histKeys {
		if id != keyID {
			cl.keys = append(cl.keys, keyCand{id, keyBytes(name)})
		}
	}
	cl.si = []saltInfo{{hs.salt, hs.info}}
	if i, ok := pv.(encrypt.EventWrapperInfo); ok {
		id := 0
		fmt.Sscanf(i.EventId(), "ev%d", &id)
		ewi = "(Some " + hc.N(id) + ")"
		cl.keys = append(cl.keys, keyCand{2, deriveEventKey(keyBytes(keyName), i.EventId())})
		for _, s := range [][]byte{hs.salt, i.HmacSalt()} {
			for _, n := range [][]byte{hs.info, i.HmacInfo()} {
				cl.si = append(cl.si, saltInfo{s, n})
			}
		}
	}
	pr := &projector{cl: cl}
	// the event as Broker.Send hands it over: mostly with formatted data of earlier nodes, now and then with a nil or an empty map
	var formatted map[string][]byte
	switch c.ID % 5 {
	case 0:
	case 1:
		formatted = map[string][]byte{}
	default:
		formatted = map[string][]byte{"json": []byte("formatted"), "text": []byte("formatted as text")}
	}
	e := &el.Event{Type: "t", CreatedAt: fixedTime, Payload: pv, Formatted: formatted}
	if fed != nil {
		e = fed
	}
	// the input as the model sees it, read BEFORE Process (an event fed back carries filtered values already)
	inBefore := ""
	if c.PK == "val" {
		inBefore = safeLit(pr, reflect.ValueOf(pv))
	}
	snap := func() (s string) {
		defer func() {
			if r := recover(); r != nil {
				s = fmt.Sprintf("the input can no longer be projected: %v", r)
			}
		}()
		s = fmt.Sprintf("%s|%d|%v|%v|", e.Type, e.CreatedAt.UnixNano(), e.Formatted == nil, e.Formatted)
		if e.Payload != nil && c.PK == "val" {
			s += pr.lit(reflect.ValueOf(e.Payload))
		}
		return s
	}
	before := snap()
	var out *el.Event
	var err error
	func() {
		defer func() {
			if r := recover(); r != nil {
				res.panicV = r
			}
		}()
		out, err = f.Process(ctx, e)
	}()
	unchanged := snap() == before
	payloadLit := "PNil"
	switch c.PK {
	case "rotate":
		payloadLit = "PRotate"
	case "val":
		res.inLit = inBefore
		payloadLit = fmt.Sprintf("(PVal %s %s)", ewi, res.inLit)
	}
	obs := ""
	switch {
	case res.panicV != nil:
		obs, res.obs = "ObPanic", "panic"
	case err != nil && out == nil:
		obs, res.obs, res.errText = "ObErr", "err", err.Error()
	case out == nil:
		obs, res.obs = "ObConsumed", "consumed"
	case out == e:
		obs, res.obs = "ObSame", "same"
	default:
		res.obs = "out"
		if err != nil {
			res.errText = "event AND error returned: " + err.Error()
		}
		if c.PK == "val" {
			res.outLit = safeLit(pr, reflect.ValueOf(out.Payload))
		} else {
			res.outLit = "(VOther 0%Z)" // a nil or rotation payload came back in a new event: only the outcome class matters
		}
		sameType := reflect.TypeOf(out.Payload) == reflect.TypeOf(pv) && sameContainerTypes(reflect.ValueOf(pv), reflect.ValueOf(out.Payload), 0)
		meta := out.Type == e.Type && out.CreatedAt.Equal(e.CreatedAt) && reflect.DeepEqual(out.Formatted, e.Formatted)
		var found []int
		if js, jerr := json.Marshal(out.Payload); jerr == nil {
			txt := string(js)
			for t, id := range cl.canaries {
				if strings.Contains(txt, t) || strings.Contains(txt, base64.StdEncoding.EncodeToString([]byte(t))) {
					found = append(found, id)
				}
			}
			sort.Ints(found)
		}
		obs = fmt.Sprintf("(ObOut %s {| of_sametype := %s; of_meta := %s; of_json := %s |})", res.outLit, hc.B(sameType), hc.B(meta), hc.NList(found))
	}
	// aliasing: whatever a later node does to the forwarded event (a formatter writes Formatted, a filter rewrites the
	// payload) must not show in the event the caller and the other pipelines hold
	if c.PK == "val" {
		hs.lastIn, hs.lastOut = e, nil
		if res.panicV == nil && out != nil {
			hs.lastOut = out
		}
	}
	unaliased := true
	if res.obs == "out" && out != e && !hs.keepOut {
		func() {
			defer func() { recover() }()
			out.FormattedAs("verif-new-format", []byte("written by a later node"))
			for k, v := range out.Formatted {
				if len(v) > 0 {
					v[0] ^= 0xff
				}
				out.Formatted[k] = append(v, '!')
			}
			if out.Payload != nil {
				mutate(reflect.ValueOf(out.Payload), 0)
			}
		}()
		unaliased = snap() == before
	}
	res.class = payloadClass(c.PK, c.V)
	// what the model is told about the wrapper: a wrapper the per-event derivation cannot use (not an AEAD wrapper, or its KeyId
	// fails) is no wrapper for a payload with wrapper info; the Encrypt calls that were answered with the context's error
	// failed (the observed choice)
	hasWrap := c.Cfg.Wrap != "absent"
	if _, isEwi := pv.(encrypt.EventWrapperInfo); isEwi && (c.Cfg.Wrap == "failing" || c.Cfg.Wrap == "keyid") {
		hasWrap = false
	}
	encFail := append([]int{}, c.Cfg.EncFail...)
	if fw, ok := f.Wrapper.(*failW); ok {
		encFail = append(encFail, fw.ctxHit...)
		fw.ctxHit = nil
	}
	_, o0 := opOf(c.Cfg.Ov[0])
	_, o1 := opOf(c.Cfg.Ov[1])
	_, o2 := opOf(c.Cfg.Ov[2])
	res.lit = fmt.Sprintf("{| e_id := %s; e_class := %s; e_ov := {| ov_public := %s; ov_sensitive := %s; ov_secret := %s |}; e_wrap := %s; e_key := %s; e_ekey := 2%%N; e_encfail := %s; e_hmacfail := %s;\n   e_payload := %s;\n   e_unchanged := %s; e_unaliased := %s; e_snaponly := %s; e_obs := %s |}",
		hc.N(c.ID), hc.N(res.class), o0, o1, o2, hc.B(hasWrap), hc.N(keyID), hc.NList(encFail), hc.B(c.Cfg.Wrap == "failing" || c.Cfg.Wrap == "keyid"), payloadLit, hc.B(unchanged), hc.B(unaliased), hc.B(c.SnapOnly), obs)
	res.nontriv = res.obs == "out" && res.outLit != res.inLit
	return res
}

// projection of a value the harness did not build (an unexpected output): a panic of the projector is an opaque value
func safeLit(pr *projector, rv reflect.Value) (lit string) {
	defer func() {
		if r := recover(); r != nil {
			lit = "(VOther (-1)%Z)"
		}
	}()
	return pr.lit(rv)
}

// mutate rewrites everything reachable from a forwarded payload: strings and byte slices in place, every slice element,
// every map entry (and a new key), every pointer target
func mutate(rv reflect.Value, depth int) {
	if !rv.IsValid() || depth > 12 {
		return
	}
	switch rv.Kind() {
	case reflect.Ptr, reflect.Interface:
		if !rv.IsNil() {
			mutate(rv.Elem(), depth+1)
		}
	case reflect.String:
		if rv.CanSet() {
			rv.SetString("MUTATED")
		}
	case reflect.Int, reflect.Int64:
		if rv.CanSet() {
			rv.SetInt(rv.Int() + 1)
		}
	case reflect.Struct:
		for i := 0; i < rv.NumField(); i++ {
			if rv.Type().Field(i).PkgPath == "" {
				mutate(rv.Field(i), depth+1)
			}
		}
	case reflect.Slice:
		for i := 0; i < rv.Len(); i++ {
			el := rv.Index(i)
			if el.Kind() == reflect.Uint8 {
				el.SetUint(uint64(el.Uint()) ^ 0xff)
			} else {
				mutate(el, depth+1)
			}
		}
	case reflect.Map:
		if rv.IsNil() || rv.Type().Key().Kind() != reflect.String {
			return
		}
		for _, k := range rv.MapKeys() {
			v := rv.MapIndex(k)
			mutate(v, depth+1)
			et := rv.Type().Elem()
			switch {
			case et.Kind() == reflect.String:
				rv.SetMapIndex(k, reflect.ValueOf("MUTATED").Convert(et))
			case et.Kind() == reflect.Interface && v.Elem().IsValid() && v.Elem().Kind() == reflect.String:
				rv.SetMapIndex(k, reflect.ValueOf("MUTATED"))
			}
		}
		rv.SetMapIndex(reflect.ValueOf("zz-added-by-a-later-node").Convert(rv.Type().Key()), reflect.Zero(rv.Type().Elem()))
	}
}

type emitter struct {
	cf      *hc.CaseFile
	side    *os.File
	stats   map[string]int
	seen    map[string]bool
	nontriv int
	panics  []string
	n       int
}

// F18 (found in round 10, repair: patches/encrypt/0009): a nil element of a []interface{} held by a map makes Process panic on a
// tree without the repair.  The driver asks the tree under test once; where it still panics, the cases that contain such an
// element are held back (counted in the summary as "held-back:nil-element-F18") - everything else about mixed slices runs.
var nilElemsOK = true

func probeNilElement() (ok bool) {
	defer func() {
		if recover() != nil {
			ok = false
		}
	}()
	f := mkFilter(Cfg{Wrap: "ok"})
	_, _ = f.Process(context.Background(), &el.Event{Type: "t", CreatedAt: fixedTime, Payload: map[string]interface{}{"k1": []interface{}{"x", nil}}})
	return true
}

// The dynamic type of every CONTAINER position (struct, pointer, map, slice, array - whatever an interface holds there) of the
// forwarded payload is the input's: a struct held by value in a []interface{} must not come back as a pointer to it.  Leaves
// are not compared (a value a pointer tag names is replaced by the filtered STRING, whatever it was).
func isContainerKind(k reflect.Kind) bool {
	return k == reflect.Struct || k == reflect.Ptr || k == reflect.Map || k == reflect.Slice || k == reflect.Array
}

func sameContainerTypes(a, b reflect.Value, depth int) (same bool) {
	defer func() {
		if recover() != nil {
			same = true
		}
	}()
	for a.IsValid() && a.Kind() == reflect.Interface {
		a = a.Elem()
	}
	for b.IsValid() && b.Kind() == reflect.Interface {
		b = b.Elem()
	}
	if !a.IsValid() || !b.IsValid() || depth > 14 || !isContainerKind(a.Kind()) || !isContainerKind(b.Kind()) {
		return true
	}
	if a.Type() == tBytes || b.Type() == tBytes {
		return true
	}
	if a.Type() != b.Type() {
		return false
	}
	switch a.Kind() {
	case reflect.Ptr:
		if a.IsNil() || b.IsNil() {
			return true
		}
		return sameContainerTypes(a.Elem(), b.Elem(), depth+1)
	case reflect.Struct:
		for i := 0; i < a.NumField(); i++ {
			if a.Type().Field(i).PkgPath == "" && !sameContainerTypes(a.Field(i), b.Field(i), depth+1) {
				return false
			}
		}
	case reflect.Slice, reflect.Array:
		for i := 0; i < a.Len() && i < b.Len(); i++ {
			if !sameContainerTypes(a.Index(i), b.Index(i), depth+1) {
				return false
			}
		}
	case reflect.Map:
		for _, k := range a.MapKeys() {
			if bv := b.MapIndex(k); bv.IsValid() && !sameContainerTypes(a.MapIndex(k), bv, depth+1) {
				return false
			}
		}
	}
	return true
}

// Does the tree under test filter a struct held BY VALUE in a []interface{} that is a map value (through a settable copy, as it does
// for a struct by value in a map)?  Where it does, such elements run under the full model; where it leaves them alone they are
// outside the model (input-side oracles and the container-type comparison only).
var structInSliceOK = false

type probeS struct {
	Sec string `class:"secret"`
}

func probeStructInSlice() (ok bool) {
	defer func() {
		if recover() != nil {
			ok = false
		}
	}()
	f := mkFilter(Cfg{Wrap: "ok"})
	out, err := f.Process(context.Background(), &el.Event{Type: "t", CreatedAt: fixedTime, Payload: map[string]interface{}{"k1": []interface{}{probeS{Sec: "plain"}}}})
	if err != nil || out == nil {
		return false
	}
	switch x := out.Payload.(map[string]interface{})["k1"].([]interface{})[0].(type) {
	case probeS:
		return x.Sec != "plain"
	case *probeS:
		return x.Sec != "plain"
	}
	return false
}

// a struct by value among the elements of a []interface{}
func hasStructInISlice(v *V) bool {
	if v == nil {
		return false
	}
	if v.K == "islice" {
		for _, x := range v.Elems {
			if x.K == "struct" || x.K == "hand" {
				return true
			}
		}
	}
	for _, f := range v.Fields {
		if hasStructInISlice(f.V) {
			return true
		}
	}
	for _, x := range v.Elems {
		if hasStructInISlice(x) {
			return true
		}
	}
	for _, x := range v.Vals {
		if hasStructInISlice(x) {
			return true
		}
	}
	return hasStructInISlice(v.Elem)
}

func hasNilIf(v *V) bool {
	if v == nil {
		return false
	}
	if v.K == "nilif" {
		return true
	}
	for _, f := range v.Fields {
		if hasNilIf(f.V) {
			return true
		}
	}
	for _, x := range v.Elems {
		if hasNilIf(x) {
			return true
		}
	}
	for _, x := range v.Vals {
		if hasNilIf(x) {
			return true
		}
	}
	return hasNilIf(v.Elem)
}

func (e *emitter) emit(c Case) {
	if !nilElemsOK {
		held := hasNilIf(c.V)
		for i := 0; i <= c.Step && i < len(c.Hist); i++ {
			held = held || hasNilIf(c.Hist[i].V)
		}
		if held {
			e.stats["held-back:nil-element-F18"]++
			return
		}
	}
	if !structInSliceOK && (hasStructInISlice(c.V) || len(c.Hist) > 0 && hasStructInISlice(c.Hist[c.Step].V)) {
		c.SnapOnly = true
		e.stats["outside-the-model:struct-by-value-in-interface-slice"]++
	}
	e.n++
	c.ID = e.n
	r := execCase(c)
	if err := e.cf.Add(r.lit); err != nil {
		panic(err)
	}
	js, _ := json.Marshal(c)
	e.side.Write(append(js, '\n'))
	e.stats["cases"]++
	e.stats["gen:"+c.Gen]++
	e.stats["obs:"+r.obs]++
	e.stats[fmt.Sprintf("class:%d", r.class)]++
	e.stats["wrap:"+c.Cfg.Wrap]++
	if c.Cfg.Ov != [3]string{} {
		e.stats["with-overrides"]++
	}
	if c.V != nil {
		sz := c.V.size()
		switch {
		case sz <= 5:
			e.stats["size<=5"]++
		case sz <= 20:
			e.stats["size<=20"]++
		case sz <= 60:
			e.stats["size<=60"]++
		default:
			e.stats["size>60"]++
		}
	}
	if r.panicV != nil {
		e.panics = append(e.panics, fmt.Sprintf("case %d: %v", c.ID, r.panicV))
	}
	if r.nontriv {
		key := r.inLit + "|" + fmt.Sprint(c.Cfg)
		if !e.seen[key] {
			e.seen[key] = true
			e.nontriv++
		}
	}
}

// every event of a history is a case of its own (judged under the table and key in force at that event)
func (e *emitter) emitHistory(gen string, h []HistStep) {
	for i := range h {
		e.emit(Case{Gen: gen, Cfg: h[i].Cfg, PK: h[i].PK, V: h[i].V, Hist: h, Step: i})
	}
}

// histories on one Filter: a few payload TYPES recur under changing override tables and wrappers
func genHistories(e *emitter, r *hc.Rand, n int) {
	g := &gen{r: r}
	for k := 0; k < n; k++ {
		g.canary = 0
		var pool []*V
		for i := 0; i < 2+g.r.Intn(2); i++ {
			pool = append(pool, &V{K: "ptr", Elem: g.strct(1 + g.r.Intn(2))})
		}
		if g.r.Chance(1, 2) {
			// distinct types that share their NAME (and field names) with different tags; Taggable maps with the same keys and other tags
			fam := [][]string{{"LocalA", "LocalB", "LocalC"}, {"LocalD", "LocalE"}, {"LocalB", "LocalE", "LocalA", "LocalD"}}[g.r.Intn(3)]
			for _, n := range fam {
				l := g.localOf(n)
				switch g.r.Intn(4) {
				case 0:
					pool = append(pool, &V{K: "slice", Elem: l, Elems: []*V{l}})
				case 1:
					pool = append(pool, &V{K: "ptr", Elem: &V{K: "struct", Fields: []Field{{Name: "F1", V: &V{K: "ptr", Elem: l}}}}})
				default:
					pool = append(pool, &V{K: "ptr", Elem: l})
				}
			}
			pool = append(pool, g.tmap(1))
		}
		var h []HistStep
		for i := 0; i < 4+g.r.Intn(4); i++ {
			var c Cfg
			c.Wrap = "ok"
			if g.r.Chance(3, 5) {
				for j := range c.Ov {
					if g.r.Chance(1, 2) {
						c.Ov[j] = ovTexts[1+g.r.Intn(4)]
					}
				}
			}
			if g.r.Chance(1, 8) {
				c.Ov = [3]string{"none", "none", "none"} // the pass-through configuration: nothing is filtered, nothing is rotated
			}
			st := HistStep{Cfg: c, PK: "val", V: g.cloneFresh(pool[g.r.Intn(len(pool))])}
			if g.r.Chance(1, 4) {
				st.Rot = []int{1, 3, 4}[g.r.Intn(3)]
			}
			if i > 0 && g.r.Chance(1, 5) {
				// a rotation payload carrying only some of wrapper / salt / info: consumed, and the later events show what it installed
				st = HistStep{Cfg: c, PK: "rotate", V: &V{K: []string{"all", "salt", "info", "wrapper", "empty", "typednil", "byvalue", "both", "bothv", "botht"}[g.r.Intn(10)]}}
			} else if len(h) > 0 && h[len(h)-1].PK == "val" && h[len(h)-1].Feed == 0 && g.r.Chance(1, 6) {
				// the very payload object of the previous event once more
				st = HistStep{Cfg: c, PK: "val", V: h[len(h)-1].V, Again: true, Rot: st.Rot}
			} else if g.r.Chance(1, 10) {
				// an event that fails (a string by value cannot be set; wrapper info without an event id): what comes later must not notice
				if g.r.Bool() {
					st = HistStep{Cfg: c, PK: "val", V: &V{K: "str", C: g.can()}}
				} else {
					st = HistStep{Cfg: c, PK: "val", V: &V{K: "ptr", Elem: &V{K: "hand", Hand: "EWI", Fields: []Field{{Name: "EvID", Tag: sp("public"), V: &V{K: "evid", I: 0}},
						{Name: "P", V: &V{K: "ptr", Elem: g.strct(1)}}}}}}
				}
			}
			st.Cfg.Ign = g.r.Chance(1, 6)
			h = append(h, st)
			if st.PK == "val" && st.Feed == 0 && g.r.Chance(1, 5) {
				// the node's own output fed back: into the same Filter (or another one), then the forwarded event of THAT once more or
				// the very same event again
				fb := HistStep{Cfg: c, PK: "val", V: st.V, Feed: 1, Other: g.r.Chance(1, 3)}
				h = append(h, fb)
				if g.r.Bool() {
					h = append(h, HistStep{Cfg: c, PK: "val", V: st.V, Feed: 1 + g.r.Intn(2), Other: g.r.Chance(1, 4)})
				}
			}
		}
		e.emitHistory("history", h)
	}
}

// Filter.IgnoreTypes = {*Ign}: values of the ignored type behind typed fields and slice elements (the rule applies: left
// alone) and behind map values and interface-typed fields (the rule is not applied: filtered) - never in the caller's data
func genIgnore(e *emitter, r *hc.Rand, n int) {
	g := &gen{r: r}
	ign := func() *V {
		return &V{K: "ptr", Elem: &V{K: "hand", Hand: "Ign", Fields: []Field{{Name: "Pub", Tag: sp("public"), V: &V{K: "str", C: g.can()}},
			{Name: "Sec", Tag: sp("secret"), V: &V{K: "str", C: g.can()}}, {Name: "Unt", V: &V{K: "str", C: g.can()}}}}}
	}
	for k := 0; k < n; k++ {
		g.canary = 0
		cfg := g.cfg()
		cfg.Ign = true
		// (a) only positions where the rule is not applied: the model (which knows no IgnoreTypes) must agree in full
		free := &V{K: "struct", Fields: []Field{{Name: "F1", Tag: g.tagText(), V: &V{K: "iface", Elem: ign()}},
			{Name: "F2", V: &V{K: "map", Iface: true, Keys: []string{"k1", "k2"}, Vals: []*V{ign(), {K: "str", C: g.can()}}}}, {Name: "F3", Tag: g.tagText(), V: g.leaf()}}}
		e.emit(Case{Gen: "ignore", Cfg: cfg, PK: "val", V: &V{K: "ptr", Elem: free}})
		if k%4 == 0 {
			e.emit(Case{Gen: "ignore", Cfg: cfg, PK: "val", V: &V{K: "map", Iface: true, Keys: []string{"k1"}, Vals: []*V{ign()}}})
		}
		// (b) every kind of position, also the payload itself: snapshot oracles only
		x := ign()
		mixed := &V{K: "struct", Fields: []Field{{Name: "F1", V: ign()}, {Name: "F2", V: &V{K: "slice", Elem: x, Elems: []*V{x, ign()}}},
			{Name: "F3", V: &V{K: "map", Iface: true, Keys: []string{"k1"}, Vals: []*V{ign()}}}, {Name: "F4", V: &V{K: "iface", Elem: ign()}},
			{Name: "F5", V: &V{K: "map", Keys: []string{"k1"}, Vals: []*V{ign()}}}, {Name: "F6", Tag: sp("secret"), V: &V{K: "str", C: g.can()}}}}
		e.emit(Case{Gen: "ignore", Cfg: cfg, PK: "val", V: &V{K: "ptr", Elem: mixed}, SnapOnly: true})
		if k%4 == 1 {
			e.emit(Case{Gen: "ignore", Cfg: cfg, PK: "val", V: ign(), SnapOnly: true})
			e.emit(Case{Gen: "ignore", Cfg: cfg, PK: "val", V: &V{K: "slice", Elem: x, Elems: []*V{ign(), ign()}}, SnapOnly: true})
		}
	}
}

func fixRandomCase(c *Case) {
	if c.V != nil && c.V.K == "ptr" && c.V.Elem.K == "hand" && c.V.Elem.Hand == "EWI" && (c.Cfg.Wrap == "failing" || c.Cfg.Wrap == "keyid") {
		c.Cfg.Wrap, c.Cfg.EncFail = "ok", nil
	}
}

func genRandom(e *emitter, r *hc.Rand, n, depth int) {
	g := &gen{r: r}
	for i := 0; i < n; i++ {
		g.canary = 0
		d := 1 + g.r.Intn(depth)
		pk, v := g.payload(d)
		c := Case{Gen: "random", Cfg: g.cfg(), PK: pk, V: v}
		fixRandomCase(&c)
		e.emit(c)
	}
}

// every class spelling x operation spelling x override table on a one-field struct (and the same tag on a []string field)
func genTagTable(e *emitter, full bool) {
	classes := []string{"public", "sensitive", "secret", "Secret", "bogus", ""}
	ops := []string{"<absent>", "", "redact", "encrypt", "hmac-sha256", "HMAC-SHA256", "bogus", "unknown"}
	var tags []*string
	tags = append(tags, nil)
	for _, c := range classes {
		for _, o := range ops {
			if o == "<absent>" {
				tags = append(tags, sp(c))
			} else {
				tags = append(tags, sp(c+","+o))
			}
		}
	}
	tags = append(tags, sp("secret,encrypt,extra"), sp(" secret"), sp("sensitive ,redact"))
	ovs := ovTexts
	if !full {
		ovs = ovTexts[:5]
	}
	for _, o0 := range ovs {
		for _, o1 := range ovs {
			for _, o2 := range ovs {
				for _, t := range tags {
					v := &V{K: "ptr", Elem: &V{K: "struct", Fields: []Field{{Name: "F1", Tag: t, V: &V{K: "str", C: 1}}, {Name: "F2", Tag: t, V: &V{K: "strs", Cs: []int{2}}}}}}
					e.emit(Case{Gen: "tagtable", Cfg: Cfg{Ov: [3]string{o0, o1, o2}, Wrap: "ok"}, PK: "val", V: v})
				}
				// the same configuration without a wrapper: the check at the head of Process
				v := &V{K: "ptr", Elem: &V{K: "struct", Fields: []Field{{Name: "F1", Tag: sp("secret,encrypt"), V: &V{K: "str", C: 1}}}}}
				e.emit(Case{Gen: "tagtable-nowrapper", Cfg: Cfg{Ov: [3]string{o0, o1, o2}, Wrap: "absent"}, PK: "val", V: v})
				v2 := &V{K: "ptr", Elem: &V{K: "struct", Fields: []Field{{Name: "F1", Tag: sp("secret"), V: &V{K: "str", C: 1}}}}}
				e.emit(Case{Gen: "tagtable-nowrapper", Cfg: Cfg{Ov: [3]string{o0, o1, o2}, Wrap: "absent"}, PK: "val", V: v2})
			}
		}
	}
}

// payload classes of Process's head: nil, zero, rotation, per-event wrapper info, with and without wrapper / all-none
func genSpecial(e *emitter) {
	g := &gen{r: hc.NewRand(7)}
	allNone := [3]string{"", "none", "none"}
	cfgs := []Cfg{{Wrap: "ok"}, {Wrap: "absent"}, {Ov: allNone, Wrap: "ok"}, {Ov: allNone, Wrap: "absent"},
		{Ov: [3]string{"", "redact", ""}, Wrap: "absent"}, {Ov: [3]string{"encrypt", "none", "none"}, Wrap: "absent"}, {Ov: [3]string{"other", "none", "none"}, Wrap: "ok"}}
	for _, cf := range cfgs {
		g.canary = 0
		st := func() *V {
			return &V{K: "struct", Fields: []Field{{Name: "F1", Tag: sp("secret"), V: &V{K: "str", C: g.can()}}, {Name: "F2", Tag: sp("sensitive"), V: &V{K: "str", C: g.can()}}, {Name: "F3", V: &V{K: "int", I: 3}}}}
		}
		e.emit(Case{Gen: "special", Cfg: cf, PK: "nil"})
		for _, k := range []string{"all", "salt", "info", "wrapper", "empty", "typednil", "byvalue", "both", "bothv", "botht"} {
			e.emit(Case{Gen: "special", Cfg: cf, PK: "rotate", V: &V{K: k}})
		}
		// a typed nil pointer to a payload type with wrapper info: it still implements the interface, with an empty event id
		e.emit(Case{Gen: "special", Cfg: cf, PK: "val", V: &V{K: "nilptr", Elem: &V{K: "hand", Hand: "EWI"}}})
		e.emit(Case{Gen: "special", Cfg: cf, PK: "val", V: &V{K: "nilptr", Elem: st()}})
		e.emit(Case{Gen: "special", Cfg: cf, PK: "val", V: &V{K: "str", C: 0}})
		e.emit(Case{Gen: "special", Cfg: cf, PK: "val", V: &V{K: "str", C: g.can()}})
		e.emit(Case{Gen: "special", Cfg: cf, PK: "val", V: &V{K: "int", I: 0}})
		e.emit(Case{Gen: "special", Cfg: cf, PK: "val", V: &V{K: "int", I: 5}})
		e.emit(Case{Gen: "special", Cfg: cf, PK: "val", V: &V{K: "nilbytes"}})
		e.emit(Case{Gen: "special", Cfg: cf, PK: "val", V: &V{K: "ptr", Elem: st()}})
		e.emit(Case{Gen: "special", Cfg: cf, PK: "val", V: &V{K: "ptr", Elem: &V{K: "ptr", Elem: st()}}})
		for _, id := range []int64{0, 1} {
			for _, si := range []bool{false, true} {
				salt, info := &V{K: "nilbytes"}, &V{K: "nilbytes"}
				if si {
					salt, info = &V{K: "bytes", C: g.can()}, &V{K: "bytes", C: g.can()}
				}
				e.emit(Case{Gen: "special", Cfg: cf, PK: "val", V: &V{K: "ptr", Elem: &V{K: "hand", Hand: "EWI", Fields: []Field{
					{Name: "EvID", Tag: sp("public"), V: &V{K: "evid", I: id}}, {Name: "Salt", Tag: sp("public"), V: salt}, {Name: "Info", Tag: sp("public"), V: info},
					{Name: "P", V: &V{K: "ptr", Elem: &V{K: "struct", Fields: []Field{{Name: "F1", Tag: sp("sensitive"), V: &V{K: "str", C: g.can()}}, {Name: "F2", Tag: sp("sensitive,hmac-sha256"), V: &V{K: "bytes", C: g.can()}}}}}}}}}})
			}
		}
	}
}

// wrapper failures of every class, contexts of every kind, on one payload that encrypts three times, HMACs once, redacts once and
// holds a Taggable map (whose Tags() is the point in the middle of Process at which the "inflight" context is cancelled)
func genFaults(e *emitter) {
	g := &gen{r: hc.NewRand(9)}
	pay := func(ewi bool) *V {
		g.canary = 0
		st := &V{K: "struct", Fields: []Field{{Name: "F1", Tag: sp("sensitive"), V: &V{K: "str", C: g.can()}}, {Name: "F2", Tag: sp("secret"), V: &V{K: "str", C: g.can()}},
			{Name: "F3", V: tmapv([]PTag{{Ptr: "/k1", Class: "sensitive"}, {Ptr: "/k2", Class: "public"}}, "k1", str(g.can()), "k2", str(g.can()))},
			{Name: "F4", Tag: sp("sensitive"), V: &V{K: "strs", Cs: []int{g.can(), g.can()}}}, {Name: "F5", Tag: sp("sensitive,hmac-sha256"), V: &V{K: "bytes", C: g.can()}}}}
		if !ewi {
			return ptr(st)
		}
		return ptr(&V{K: "hand", Hand: "EWI", Fields: []Field{{Name: "EvID", Tag: sp("public"), V: &V{K: "evid", I: 1}}, {Name: "Salt", Tag: sp("public"), V: &V{K: "nilbytes"}}, {Name: "Info", Tag: sp("public"), V: &V{K: "nilbytes"}}, {Name: "P", V: ptr(st)}}})
	}
	ctxs := []string{"", "cancelled", "deadline", "custom", "cause", "inflight"}
	for _, cx := range ctxs {
		for _, ewi := range []bool{false, true} {
			e.emit(Case{Gen: "faults", Cfg: Cfg{Wrap: "ok", Ctx: cx}, PK: "val", V: pay(ewi)})
			e.emit(Case{Gen: "faults", Cfg: Cfg{Wrap: "ok", Ctx: cx, Ov: [3]string{"", "hmac", "encrypt"}, EmptyOv: true}, PK: "val", V: pay(ewi)})
			e.emit(Case{Gen: "faults", Cfg: Cfg{Wrap: "failing", Ctx: cx, Ov: [3]string{"", "", "redact"}}, PK: "val", V: pay(ewi)})
			e.emit(Case{Gen: "faults", Cfg: Cfg{Wrap: "keyid", Ctx: cx, Ov: [3]string{"", "", "redact"}}, PK: "val", V: pay(ewi)})
			e.emit(Case{Gen: "faults", Cfg: Cfg{Wrap: "absent", Ctx: cx, Ov: [3]string{"", "redact", ""}, EmptyOv: true}, PK: "val", V: pay(ewi)})
		}
	}
	// every kind of error value, at every Encrypt call of the payload
	for k := 0; k < 7; k++ {
		for i := 0; i < 4; i++ {
			e.emit(Case{Gen: "faults", Cfg: Cfg{Wrap: "failing", EncFail: []int{i}, ErrK: k, Ov: [3]string{"", "", "redact"}}, PK: "val", V: pay(false)})
		}
		e.emit(Case{Gen: "faults", Cfg: Cfg{Wrap: "keyid", ErrK: k}, PK: "val", V: pay(true)})
	}
}

func runCorpus(e *emitter, path string) {
	data, err := os.ReadFile(path)
	if err != nil {
		return
	}
	for _, line := range strings.Split(string(data), "\n") {
		line = strings.TrimSpace(line)
		if line == "" || strings.HasPrefix(line, "#") {
			continue
		}
		var c Case
		if err := json.Unmarshal([]byte(line), &c); err != nil {
			fmt.Fprintf(os.Stderr, "corpus: %v\n", err)
			continue
		}
		c.Gen = "corpus"
		if len(c.Hist) > 0 {
			e.emitHistory("corpus", c.Hist)
			continue
		}
		e.emit(c)
	}
}

const header = "From Coq Require Import List NArith ZArith String.\nFrom Verif Require Import Tag Encrypt Run_Encrypt.\nImport ListNotations.\nOpen Scope string_scope.\nOpen Scope list_scope."

func main() {
	out := flag.String("out", ".", "output directory")
	prefix := flag.String("prefix", "cases", "case file prefix")
	modes := flag.String("modes", "special,tagtable,random", "generators: special tagtable tagtable-full random enum")
	nRandom := flag.Int("random", 1500, "random trees")
	nIgn := flag.Int("ignore", 100, "configurations with Filter.IgnoreTypes (mode ignore)")
	nHist := flag.Int("histories", 200, "histories of events on one filter (mode history)")
	depth := flag.Int("depth", 4, "max depth of random trees")
	enumDepth := flag.Int("enum-depth", 2, "depth of the exhaustive enumeration")
	enumBudget := flag.Int("enum-budget", 0, "max enumerated cases (0 = unlimited)")
	perShard := flag.Int("per-shard", 250, "cases per file")
	corpus := flag.String("corpus", "", "corpus file (JSON lines), run first")
	replay := flag.String("replay", "", "replay one JSON case and print its observations")
	crypto := flag.Bool("crypto", false, "C16 mode: key selection, rotation and value formats")
	nCrypto := flag.Int("crypto-histories", 300, "C16 mode: number of random histories")
	concOnly := flag.Bool("crypto-conc-only", false, "C16 mode: only the events processed concurrently with rotations")
	cpuProf := flag.String("cpuprofile", "", "write a CPU profile of the run to this file")
	flag.Parse()
	if *cpuProf != "" {
		if pf, err := os.Create(*cpuProf); err == nil {
			if pprof.StartCPUProfile(pf) == nil {
				defer pprof.StopCPUProfile()
			}
		}
	}

	if *replay != "" {
		data, err := os.ReadFile(*replay)
		if err != nil {
			fmt.Fprintln(os.Stderr, err)
			os.Exit(2)
		}
		if *crypto {
			replayCrypto(data)
			return
		}
		var w struct {
			Case Case `json:"case"`
		}
		if err := json.Unmarshal(data, &w); err != nil || w.Case.PK == "" {
			_ = json.Unmarshal(data, &w.Case)
		}
		if len(w.Case.Hist) > 0 {
			fmt.Printf("history of %d events on one filter; the case is event %d\n", len(w.Case.Hist), w.Case.Step)
			for i := 0; i <= w.Case.Step && i < len(w.Case.Hist); i++ {
				c := w.Case
				c.Step = i
				r := execCase(c)
				fmt.Printf("event %d: overrides %v rotate-to %d\n  input : %s\n  result: %s %s\n  output: %s\n", i, c.Hist[i].Cfg.Ov, c.Hist[i].Rot, r.inLit, r.obs, r.errText, r.outLit)
			}
			return
		}
		r := execCase(w.Case)
		fmt.Printf("configuration: %+v\ninput : %s\nresult: %s %s\noutput: %s\n", w.Case.Cfg, r.inLit, r.obs, r.errText, r.outLit)
		if r.panicV != nil {
			fmt.Printf("PANIC: %v\n", r.panicV)
		}
		return
	}
	if *crypto {
		mainCrypto(*out, *prefix, *perShard, *nCrypto, *corpus, *concOnly)
		return
	}

	cf := &hc.CaseFile{Dir: *out, Prefix: *prefix, PerShard: *perShard, Type: "list ecase", Header: header,
		Footer: "Definition M := Eval vm_compute in mismatches cases.\nPrint M."}
	side, err := os.Create(*out + "/" + *prefix + ".jsonl")
	if err != nil {
		panic(err)
	}
	e := &emitter{cf: cf, side: side, stats: map[string]int{}, seen: map[string]bool{}}
	nilElemsOK = probeNilElement()
	structInSliceOK = probeStructInSlice()
	if os.Getenv("ENCRYPTH_STRUCT_IN_SLICE") == "filters" {
		structInSliceOK = true // for the record of F19: the full model on a tree that does not filter such elements
	}
	r := hc.NewRand(hc.Seed())
	if *corpus != "" {
		runCorpus(e, *corpus)
	}
	summary := map[string]interface{}{}
	for _, m := range strings.Split(*modes, ",") {
		switch m {
		case "special":
			genSpecial(e)
			genSeeds(e)
			genFaults(e)
		case "tagtable":
			genTagTable(e, false)
			summary["tagtable_exhaustive"] = "6 class spellings x 8 operation spellings (+ no tag, 3 odd tags) x 5^3 override tables"
		case "tagtable-full":
			genTagTable(e, true)
			summary["tagtable_exhaustive"] = "6 class spellings x 8 operation spellings (+ no tag, 3 odd tags) x 6^3 override tables"
		case "random":
			genRandom(e, r.Fork(), *nRandom, *depth)
		case "history":
			genHistories(e, r.Fork(), *nHist)
		case "ignore":
			genIgnore(e, r.Fork(), *nIgn)
		case "enum":
			n, complete := genEnum(e, *enumDepth, *enumBudget)
			summary["enum_depth"] = *enumDepth
			summary["enum_cases"] = n
			summary["enum_complete"] = complete
		case "":
		default:
			fmt.Fprintf(os.Stderr, "unknown mode %s\n", m)
			os.Exit(2)
		}
	}
	cf.Close()
	side.Close()
	summary["stats"] = e.stats
	summary["files"] = cf.Files
	summary["cases"] = cf.Total
	summary["distinct_nontrivial"] = e.nontriv
	summary["panics"] = e.panics
	summary["seed"] = hc.Seed()
	summary["nil_element_in_a_slice_held_by_a_map"] = map[bool]string{true: "handled", false: "Process PANICS (F18; repair: patches/encrypt/0009): the cases with such an element were held back"}[nilElemsOK]
	summary["struct_by_value_in_a_slice_of_interfaces_held_by_a_map"] = map[bool]string{true: "filtered (full model)", false: "left alone by the tree under test: outside the model (input-side oracles + container types)"}[structInSliceOK]
	js, _ := json.MarshalIndent(summary, "", " ")
	os.WriteFile(*out+"/"+*prefix+"_summary.json", js, 0o644)
	fmt.Printf("encrypth: %d cases in %d files, %d panics\n", cf.Total, len(cf.Files), len(e.panics))
}
