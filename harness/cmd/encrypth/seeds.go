package main

import (
	"fmt"

	"verifharness/hc"
)

// One small payload per production of the grammar G (and per defect shape found so far): the minimal witnesses of a
// defect are among them, so a violation is reported with a case a person can read.

func str(c int) *V                        { return &V{K: "str", C: c} }
func fld(n string, t *string, v *V) Field { return Field{Name: n, Tag: t, V: v} }
func st(fs ...Field) *V                   { return &V{K: "struct", Fields: fs} }
func ptr(v *V) *V                         { return &V{K: "ptr", Elem: v} }
func imap(kv ...interface{}) *V {
	m := &V{K: "map", Iface: true}
	for i := 0; i+1 < len(kv); i += 2 {
		m.Keys = append(m.Keys, kv[i].(string))
		m.Vals = append(m.Vals, kv[i+1].(*V))
	}
	return m
}
func tmapv(tags []PTag, kv ...interface{}) *V {
	m := imap(kv...)
	m.K, m.Iface, m.Tags = "tmap", false, tags
	return m
}
func sliceOf(es ...*V) *V { return &V{K: "slice", Elem: es[0], Elems: es} }

func seedPayloads() []*V {
	sec, sens, pub := sp("secret"), sp("sensitive"), sp("public")
	inner := func(c int) *V { return st(fld("F1", sec, str(c)), fld("F2", nil, str(c+1)), fld("F3", pub, str(c+2))) }
	tsA := func(c int, tags []PTag) *V {
		return &V{K: "hand", Hand: "TStructA", Tags: tags, Fields: []Field{fld("Pub", pub, str(c)), fld("Sens", sens, str(c+1)), fld("Unt", nil, str(c+2)),
			fld("M", nil, imap("k1", str(c+3), "k2", str(c+4))), fld("MS", nil, &V{K: "map", Keys: []string{"k1"}, Vals: []*V{str(c + 5)}})}}
	}
	pubTag := []PTag{{Ptr: "/k1", Class: "public"}}
	var out []*V
	add := func(v *V) { out = append(out, v) }
	// struct fields of every leaf kind under every default
	for _, t := range []*string{sec, sens, pub, nil, sp("sensitive,hmac-sha256"), sp("secret,encrypt")} {
		add(ptr(st(fld("F1", t, str(1)), fld("F2", t, &V{K: "bytes", C: 2}), fld("F3", t, &V{K: "strs", Cs: []int{3, 4, 9, 10}}), fld("F4", t, &V{K: "bytess", Cs: []int{5, 11, 12}}),
			fld("F5", t, &V{K: "wstr", C: 6}), fld("F6", t, ptr(&V{K: "wbytes", C: 7})), fld("F7", t, ptr(str(8))), fld("F8", t, &V{K: "nilbytes"}),
			fld("F9", t, &V{K: "int", I: 42}), fld("F10", t, &V{K: "time", I: 12345}), fld("F11", t, &V{K: "bool", I: 1}))))
	}
	// nesting: by value, by pointer, nil pointer, slices
	add(ptr(st(fld("F1", nil, inner(1)))))
	add(ptr(st(fld("F1", nil, ptr(inner(1))))))
	add(ptr(st(fld("F1", nil, &V{K: "nilptr", Elem: inner(1)}))))
	add(ptr(st(fld("F1", nil, sliceOf(inner(1), inner(4))))))
	add(ptr(st(fld("F1", nil, sliceOf(ptr(inner(1)))))))
	add(sliceOf(inner(1)))
	add(sliceOf(ptr(inner(1))))
	add(sliceOf(imap("k1", str(1))))
	// a nil pointer among the elements of a slice of struct pointers: payload, field, map value
	nilIn := func() *V {
		return &V{K: "slice", Elem: ptr(inner(1)), Elems: []*V{ptr(inner(1)), {K: "nilptr", Elem: inner(7)}, ptr(inner(4))}}
	}
	add(&V{K: "slice", Elem: ptr(inner(1)), Elems: []*V{{K: "nilptr", Elem: inner(1)}}})
	add(nilIn())
	add(ptr(st(fld("F1", nil, nilIn()))))
	add(ptr(st(fld("F1", nil, imap("k1", nilIn())))))
	add(&V{K: "strs", Cs: []int{1, 2}})
	add(&V{K: "bytess", Cs: []int{1}})
	add(ptr(str(1)))
	add(ptr(&V{K: "bytes", C: 1}))
	// by value: a string / []byte cannot be set (error, nothing forwarded); a struct's own strings cannot either, but
	// whatever it refers to is filtered - in the private copy, never in the caller's value
	add(str(1))
	add(&V{K: "bytes", C: 1})
	add(st(fld("F1", sec, str(1)), fld("F2", sec, &V{K: "strs", Cs: []int{2, 3}}), fld("F3", nil, &V{K: "bytess", Cs: []int{4}}), fld("F4", nil, imap("k1", str(5))),
		fld("F5", nil, ptr(inner(6))), fld("F6", nil, sliceOf(inner(9))), fld("F7", nil, sliceOf(ptr(inner(12)))), fld("F8", nil, &V{K: "map", Keys: []string{"k1"}, Vals: []*V{str(15)}}),
		fld("F9", nil, tmapv(pubTag, "k1", str(16), "k2", str(17)))))
	// untagged maps as fields: strings, byte slices, string slices, nested maps, pointers to structs
	add(ptr(st(fld("F1", nil, imap("k1", str(1), "k2", &V{K: "bytes", C: 2}, "k3", &V{K: "strs", Cs: []int{3}}, "k4", &V{K: "int", I: 9}, "k5", imap("k1", str(4)), "k6", ptr(inner(5)))))))
	add(ptr(st(fld("F1", nil, &V{K: "map", Keys: []string{"k1", "k2"}, Vals: []*V{str(1), str(2)}}))))
	add(ptr(st(fld("F1", nil, ptr(imap("k1", str(1)))))))
	// named string types (json.Number, type Role string) are values the filter leaves alone: interface-valued and typed maps, fields
	add(ptr(st(fld("F1", nil, imap("k1", &V{K: "jnum", I: 42}, "k2", &V{K: "role", I: 3}, "k3", str(1))), fld("F2", sec, &V{K: "role", I: 4}), fld("F3", nil, &V{K: "jnum", I: 5}),
		fld("F4", nil, &V{K: "map", Keys: []string{"k1", "k2"}, Vals: []*V{{K: "role", I: 1}, {K: "role", I: 2}}}), fld("F5", nil, &V{K: "map", Keys: []string{"k1"}, Vals: []*V{{K: "jnum", I: 9}}}))))
	add(imap("k1", &V{K: "jnum", I: 42}, "k2", &V{K: "role", I: 3}))
	// F8a: a struct stored by value in a map
	add(ptr(st(fld("F1", nil, imap("k1", inner(1))))))
	add(ptr(st(fld("F1", nil, &V{K: "map", Keys: []string{"k1"}, Vals: []*V{inner(1)}}))))
	add(ptr(st(fld("F1", nil, imap("k1", st(fld("F1", nil, inner(1))))))))
	add(ptr(st(fld("F1", nil, imap("k1", sliceOf(inner(1)))))))
	// F8b: a non-Taggable map as the payload itself
	add(imap("k1", str(1)))
	add(&V{K: "map", Keys: []string{"k1"}, Vals: []*V{str(1)}})
	add(ptr(imap("k1", str(1))))
	add(imap("k1", ptr(inner(1))))
	// Taggable maps: tags naming present keys, absent keys (F8c), no tags (F8c), nested pointers, malformed pointers
	add(tmapv([]PTag{{Ptr: "/k1", Class: "public"}, {Ptr: "/k2", Class: "sensitive"}, {Ptr: "/k3", Class: "secret", Op: "hmac-sha256"}}, "k1", str(1), "k2", str(2), "k3", str(3), "k4", str(4)))
	add(tmapv(nil, "k1", str(1)))
	add(tmapv([]PTag{{Ptr: "/k9", Class: "secret"}}, "k1", str(1)))
	add(ptr(tmapv(nil, "k1", str(1))))
	add(ptr(st(fld("F1", nil, tmapv(nil, "k1", str(1))))))
	add(ptr(st(fld("F1", nil, ptr(tmapv([]PTag{{Ptr: "/k9", Class: "public"}}, "k1", str(1)))))))
	add(ptr(st(fld("F1", nil, tmapv(pubTag, "k1", str(1), "k2", str(2))))))
	add(sliceOf(tmapv(nil, "k1", str(1))))
	add(tmapv([]PTag{{Ptr: "/k1/k1", Class: "sensitive"}}, "k1", imap("k1", str(1), "k2", str(2)), "k2", str(3)))
	add(tmapv([]PTag{{Ptr: "/k2", Class: "public"}, {Ptr: "/k1/k1", Class: "sensitive"}}, "k1", imap("k1", str(1), "k2", str(2)), "k2", str(3)))
	add(tmapv([]PTag{{Ptr: "/k1/k1", Class: "public"}}, "k1", imap("k1", str(1), "k2", str(2))))
	add(tmapv([]PTag{{Ptr: "/k2", Class: "public"}, {Ptr: "/k1/k1", Class: "public"}, {Ptr: "/k1/k2", Class: "sensitive", Op: "hmac-sha256"}, {Ptr: "/k1/k9", Class: "secret"}},
		"k1", imap("k1", str(1), "k2", str(2), "k3", str(3)), "k2", str(4), "k3", str(5)))
	add(ptr(st(fld("F1", nil, tmapv([]PTag{{Ptr: "/k1/k1", Class: "public"}}, "k1", imap("k1", str(1), "k2", st(fld("F1", sens, str(2)))), "k2", str(3))))))
	// []byte values under tagged keys: the bytes (not a rendering of the slice) are encrypted / HMAC-ed
	add(tmapv([]PTag{{Ptr: "/k1", Class: "sensitive", Op: "hmac-sha256"}, {Ptr: "/k2", Class: "sensitive"}, {Ptr: "/k3", Class: "secret"}, {Ptr: "/k4", Class: "public"}},
		"k1", &V{K: "bytes", C: 1}, "k2", &V{K: "bytes", C: 2}, "k3", &V{K: "bytes", C: 3}, "k4", &V{K: "bytes", C: 4}, "k5", &V{K: "bytes", C: 5}))
	// pointers three levels deep
	add(tmapv([]PTag{{Ptr: "/k1/k2/k1", Class: "public"}}, "k1", imap("k2", imap("k1", str(1), "k2", str(2)))))
	add(tmapv([]PTag{{Ptr: "/k1/k2/k1", Class: "public"}, {Ptr: "/k1/k2/k2", Class: "sensitive", Op: "hmac-sha256"}, {Ptr: "/k3/k1", Class: "public"}, {Ptr: "/k1/k1/k1", Class: "secret"}},
		"k1", imap("k1", str(1), "k2", imap("k1", str(2), "k2", str(3), "k3", str(4))), "k2", str(5), "k3", imap("k1", str(6), "k2", str(7))))
	// pointers through 3, 4 and 5 intermediate maps, with a public, a sensitive (encrypt) and a sensitive hmac leaf at the bottom
	for depth := 3; depth <= 5; depth++ {
		bottom := imap("k1", str(1), "k2", str(2), "k3", str(3), "k4", str(4))
		path := ""
		cur := bottom
		for d := depth; d >= 1; d-- {
			cur = imap(fmt.Sprintf("k%d", d), cur, "k9", str(10+d))
		}
		for d := 1; d <= depth; d++ {
			path += fmt.Sprintf("/k%d", d)
		}
		cur.K, cur.Iface = "tmap", false
		cur.Tags = []PTag{{Ptr: path + "/k1", Class: "public"}, {Ptr: path + "/k2", Class: "sensitive"}, {Ptr: path + "/k3", Class: "sensitive", Op: "hmac-sha256"}}
		add(cur)
		add(ptr(st(fld("F1", nil, cur))))
	}
	add(tmapv([]PTag{{Ptr: "k1", Class: "secret"}}, "k1", str(1)))
	add(tmapv([]PTag{{Ptr: "/k1", Class: "bogus"}}, "k1", str(1)))
	add(tmapv([]PTag{{Ptr: "/k1", Class: "bogus"}}, "k2", str(1)))
	add(tmapv([]PTag{{Ptr: "/k1", Class: "sensitive"}, {Ptr: "/k1", Class: "secret"}}, "k1", str(1)))
	add(tmapv([]PTag{{Ptr: "/k1", Class: "secret"}}, "k1", &V{K: "int", I: 7}))
	add(tmapv([]PTag{{Ptr: "/k1/k2", Class: "secret"}}, "k1", str(1)))
	// Taggable structs: payload, field by value / pointer, slice element; a Taggable field next to other fields
	tagsA := []PTag{{Ptr: "/M/k1", Class: "public"}, {Ptr: "/MS/k1", Class: "sensitive", Op: "redact"}, {Ptr: "/M/k7", Class: "secret"}}
	add(ptr(tsA(1, tagsA)))
	add(ptr(tsA(1, nil)))
	add(ptr(st(fld("F1", nil, tsA(1, tagsA)))))
	add(ptr(st(fld("F1", nil, ptr(tsA(1, tagsA))))))
	add(sliceOf(tsA(1, tagsA)))
	add(sliceOf(ptr(tsA(1, tagsA))))
	add(ptr(st(fld("F1", nil, tsA(1, tagsA)), fld("F2", nil, st(fld("F1", nil, tmapv(pubTag, "k1", str(10), "k2", str(11))))))))
	add(ptr(st(fld("F1", nil, st(fld("F1", nil, tmapv(pubTag, "k1", str(10), "k2", str(11))))), fld("F2", nil, tsA(1, tagsA)))))
	add(ptr(st(fld("F1", nil, tsA(1, tagsA)), fld("F2", nil, sliceOf(ptr(st(fld("F1", nil, tsA(20, tagsA)))))))))
	add(ptr(&V{K: "hand", Hand: "TStructB", Tags: []PTag{{Ptr: "/M/k1", Class: "public"}}, Fields: []Field{fld("Sec", sec, str(1)), fld("M", nil, imap("k1", str(2), "k2", str(3))),
		fld("T", nil, tmapv(pubTag, "k1", str(4), "k2", str(5))), fld("L", nil, sliceOf(tmapv(pubTag, "k1", str(6), "k2", str(7))))}}))
	// Taggable struct payload -> map field -> struct value -> Taggable map with public / sensitive entries
	deepT := func(c int) *V {
		return tmapv([]PTag{{Ptr: "/k1", Class: "public"}, {Ptr: "/k2", Class: "sensitive"}}, "k1", str(c), "k2", str(c+1), "k3", str(c+2))
	}
	for _, val := range []*V{st(fld("F1", nil, deepT(30))), ptr(st(fld("F1", nil, deepT(40))))} {
		x := tsA(1, tagsA)
		x.Fields[3].V = imap("k1", str(4), "k2", val)
		add(ptr(x))
	}
	add(ptr(st(fld("F1", nil, imap("k1", deepT(50))))))
	// Taggable through a pointer receiver (map type and struct type): behind a pointer field, behind a pointer in an interface-typed
	// field, as the payload, as slice elements - honoured; by value and as a map value - an ordinary map / struct
	ptTags := []PTag{{Ptr: "/k1", Class: "public"}, {Ptr: "/k2", Class: "sensitive"}, {Ptr: "/k3", Class: "secret", Op: "hmac-sha256"}}
	ptm := func(c int) *V {
		m := tmapv(ptTags, "k1", str(c), "k2", str(c+1), "k3", str(c+2), "k4", str(c+3))
		m.K = "ptmap"
		return m
	}
	pts := func(c int) *V {
		return &V{K: "hand", Hand: "PTStruct", Tags: []PTag{{Ptr: "/M/k1", Class: "public"}, {Ptr: "/M/k2", Class: "sensitive"}},
			Fields: []Field{fld("Sec", sec, str(c)), fld("Unt", nil, str(c+1)), fld("M", nil, imap("k1", str(c+2), "k2", str(c+3), "k3", str(c+4)))}}
	}
	for _, mk := range []func(int) *V{ptm, pts} {
		add(ptr(mk(1)))
		add(mk(1))
		add(ptr(st(fld("F1", nil, ptr(mk(1))), fld("F2", nil, mk(10)), fld("F3", nil, &V{K: "iface", Elem: ptr(mk(20))}), fld("F4", nil, sliceOf(ptr(mk(30)))),
			fld("F5", nil, imap("k1", ptr(mk(40)))), fld("F6", nil, sliceOf(mk(50))))))
	}
	// the payload itself a slice of pointers to Taggable maps (value and pointer receiver), of pointers to plain maps, a pointer to a slice
	add(sliceOf(ptr(tmapv(ptTags, "k1", str(1), "k2", str(2), "k3", str(3), "k4", str(4))), ptr(tmapv(ptTags, "k1", str(5), "k2", str(6)))))
	add(sliceOf(ptr(ptm(1)), ptr(ptm(10))))
	add(sliceOf(ptm(1)))
	add(sliceOf(ptr(imap("k1", str(1), "k2", ptr(inner(2))))))
	add(ptr(sliceOf(ptr(tmapv(ptTags, "k1", str(1), "k2", str(2))))))
	add(ptr(sliceOf(inner(1), inner(4))))
	// three distinct struct types named main.payload with different tags on the same field names, one after the other
	// and two named main.record, met in the other order (the one that tags Key secret first); as the payload, as slice elements
	// ([]T and []*T) and as a field - through a fresh Filter each time, within this one process
	g0 := &gen{r: hc.NewRand(11)}
	for _, n := range []string{"LocalA", "LocalB", "LocalC", "LocalB", "LocalA", "LocalE", "LocalD", "LocalE"} {
		g0.canary = 0
		add(ptr(g0.localOf(n)))
	}
	for _, n := range []string{"LocalB", "LocalA", "LocalD"} {
		g0.canary = 0
		add(sliceOf(g0.localOf(n), g0.localOf(n)))
		add(sliceOf(ptr(g0.localOf(n))))
		add(ptr(st(fld("F1", nil, g0.localOf(n)), fld("F2", nil, ptr(g0.localOf(n))))))
	}
	// the payload itself a slice of slices, of typed maps, of pointer-receiver Taggable structs
	add(&V{K: "slice", Elem: &V{K: "strs", Cs: []int{1}}, Elems: []*V{{K: "strs", Cs: []int{1, 2}}, {K: "strs", Cs: []int{3}}}})
	add(&V{K: "slice", Elem: sliceOf(inner(1)), Elems: []*V{sliceOf(inner(1)), sliceOf(inner(10))}})
	add(sliceOf(&V{K: "map", Keys: []string{"k1", "k2"}, Vals: []*V{str(1), str(2)}}))
	add(sliceOf(ptr(pts(1)), ptr(pts(10))))
	add(sliceOf(pts(1)))
	// embedded structs: exported (payload by pointer and by value, as a field) and unexported
	g1 := &gen{r: hc.NewRand(12)}
	for i := 0; i < 4; i++ {
		g1.canary = 0
		em := g1.emb()
		add(ptr(em))
		if i%2 == 0 {
			g1.canary = 0
			add(ptr(st(fld("F1", nil, g1.emb()), fld("F2", sec, str(90)))))
		}
	}
	// nil against empty: a nil map, a nil []string and a nil []byte next to their empty twins
	add(ptr(st(fld("F1", nil, &V{K: "nilmap"}), fld("F2", sens, &V{K: "nilstrs"}), fld("F3", sens, &V{K: "strs"}), fld("F4", nil, imap()), fld("F5", sec, &V{K: "nilbytes"}), fld("F6", sec, str(1)))))
	// equal and empty elements in []string / [][]byte fields and payloads
	add(ptr(st(fld("F1", sens, &V{K: "strs", Cs: []int{1, 1, 0, 2, 1}}), fld("F2", sp("sensitive,hmac-sha256"), &V{K: "bytess", Cs: []int{3, 3, 0}}))))
	add(&V{K: "strs", Cs: []int{1, 0, 1}})
	// heterogeneous []interface{} values of maps (the JSON array [3, {"ssn": ...}]): a scalar first and containers later, in a map
	// payload, a map field, a map in a map, under an untagged key of a Taggable map; every order of two element kinds + a third
	mixed := func(c int, order ...string) *V {
		v := &V{K: "islice"}
		for i, k := range order {
			switch k {
			case "int":
				v.Elems = append(v.Elems, &V{K: "int", I: 3})
			case "zero":
				v.Elems = append(v.Elems, &V{K: "int", I: 0})
			case "bool":
				v.Elems = append(v.Elems, &V{K: "bool", I: 1})
			case "nil":
				v.Elems = append(v.Elems, &V{K: "nilif"})
			case "str":
				v.Elems = append(v.Elems, str(c+10*i))
			case "bytes":
				v.Elems = append(v.Elems, &V{K: "bytes", C: c + 10*i})
			case "map":
				v.Elems = append(v.Elems, imap("k1", str(c+10*i), "k2", imap("k1", str(c+10*i+1))))
			case "ptr":
				v.Elems = append(v.Elems, ptr(inner(c+10*i)))
			case "slice":
				v.Elems = append(v.Elems, &V{K: "islice", Elems: []*V{{K: "int", I: 1}, imap("k1", str(c+10*i))}})
			}
		}
		return v
	}
	kinds := []string{"int", "bool", "nil", "str", "bytes", "map", "ptr", "slice", "zero"}
	nmix := 0
	for _, a := range kinds {
		for _, b := range kinds {
			if a == b {
				continue
			}
			m := mixed(1, a, b, []string{"map", "ptr", "str"}[nmix%3])
			switch nmix % 4 {
			case 0:
				add(imap("k1", m))
			case 1:
				add(ptr(st(fld("F1", nil, imap("k1", str(90), "k2", m)))))
			case 2:
				add(imap("k1", imap("k2", m)))
			default:
				add(tmapv([]PTag{{Ptr: "/k1", Class: "public"}}, "k1", str(90), "k2", m))
			}
			nmix++
		}
	}
	// a struct held BY VALUE in a []interface{} that is a map value: first, last, next to a pointer to the same type
	add(imap("k1", &V{K: "islice", Elems: []*V{inner(1)}}))
	add(imap("k1", &V{K: "islice", Elems: []*V{{K: "int", I: 3}, inner(1), ptr(inner(10)), str(20)}}, "k2", str(30)))
	add(ptr(st(fld("F1", nil, imap("k1", imap("k2", &V{K: "islice", Elems: []*V{ptr(inner(1)), inner(10)}}))))))
	add(tmapv([]PTag{{Ptr: "/k1", Class: "public"}}, "k1", str(90), "k2", &V{K: "islice", Elems: []*V{inner(1), imap("k1", str(5))}}))
	// pointer tags whose TARGET is no scalar: a nested map, a []string, a [][]byte, a mixed []interface{}, a pointer to a struct -
	// public (the whole container stays as it is), sensitive, secret, with each operation
	for _, target := range []*V{imap("k1", str(1), "k2", imap("k1", str(2))), {K: "strs", Cs: []int{1, 2}}, {K: "bytess", Cs: []int{1, 2}},
		{K: "islice", Elems: []*V{str(1), imap("k1", str(2)), {K: "int", I: 3}}}, ptr(inner(1))} {
		for _, tg := range []PTag{{Class: "public"}, {Class: "public", Op: "encrypt"}, {Class: "sensitive"}, {Class: "sensitive", Op: "hmac-sha256"}, {Class: "secret"}, {Class: "secret", Op: "encrypt"}, {Class: "sensitive", Op: "redact"}} {
			tg.Ptr = "/k1"
			add(tmapv([]PTag{tg}, "k1", target, "k2", str(30)))
		}
		add(ptr(st(fld("F1", nil, tmapv([]PTag{{Ptr: "/k1", Class: "public"}, {Ptr: "/k3", Class: "public"}}, "k1", target, "k2", str(30), "k3", target)))))
	}
	// unexported fields (F10)
	add(ptr(&V{K: "hand", Hand: "UnexpA", Fields: []Field{fld("hidden", nil, &V{K: "int", I: 7}), fld("hiddenS", nil, str(1)), fld("N", nil, &V{K: "int", I: 5}), fld("Sec", sec, str(2)), fld("Pub", pub, str(3))}}))
	return out
}

// payload shapes the filter does not (fully) look into - arrays, []interface{}, a slice behind a pointer to an interface: outside the
// model, judged by the input-side oracles only (the caller's data is never modified, whatever the shape)
func outsidePayloads() []*V {
	sec := sp("secret")
	inner := func(c int) *V {
		return st(fld("F1", sec, str(c)), fld("F2", nil, &V{K: "strs", Cs: []int{c + 1, c + 2}}), fld("F3", nil, imap("k1", str(c+3))))
	}
	tm := func(c int) *V {
		return tmapv([]PTag{{Ptr: "/k1", Class: "public"}, {Ptr: "/k2", Class: "sensitive"}}, "k1", str(c), "k2", str(c+1), "k3", str(c+2))
	}
	return []*V{
		{K: "array", Elems: []*V{inner(1), inner(10)}},
		{K: "array", Elems: []*V{ptr(inner(1)), ptr(inner(10))}},
		{K: "array", Elems: []*V{str(1), str(2)}},
		ptr(&V{K: "array", Elems: []*V{inner(1)}}),
		{K: "islice", Elems: []*V{str(1), ptr(inner(2)), inner(10), tm(20), ptr(tm(30)), imap("k1", str(40)), &V{K: "bytes", C: 41}, &V{K: "strs", Cs: []int{42, 43}}}},
		ptr(&V{K: "iface", Elem: sliceOf(ptr(tm(1)), ptr(tm(10)))}), // *interface{} holding a []*TaggableMap
		ptr(&V{K: "iface", Elem: sliceOf(inner(1))}),
		{K: "islice", Elems: []*V{ptr(tm(1)), ptr(tm(10))}},
		{K: "array", Elems: []*V{ptr(tm(1)), ptr(tm(10))}},
		{K: "array", Elems: []*V{tm(1)}},
		// maps whose keys are no strings: as the payload, as a field, holding strings and pointers to structs
		{K: "imap", Vals: []*V{str(1), str(2)}},
		ptr(st(fld("F1", nil, &V{K: "imap", Vals: []*V{str(1)}}), fld("F2", nil, &V{K: "imap", Vals: []*V{ptr(inner(10))}}), fld("F3", sec, str(20)))),
		ptr(st(fld("F1", nil, &V{K: "array", Elems: []*V{inner(1)}}), fld("F2", nil, &V{K: "islice", Elems: []*V{ptr(inner(10)), tm(20)}}))),
	}
}

// A payload whose scalars sit only at the bottom of a chain of containers: every level above holds nothing but the next container.
// wraps, applied from the bottom up: S struct field, P pointer field, L slice of pointers, LV slice of structs, M pointer in an
// interface-valued map, MV struct by value in a map.  The leaves of deepChain(w) are 1 + (1 per S / P, 2 per L / LV / M / MV)
// struct / slice / map levels below the payload root.
func deepChain(c int, wraps ...string) *V {
	sec, sens, pub := sp("secret"), sp("sensitive"), sp("public")
	cur := st(fld("F1", sec, str(c)), fld("F2", sens, str(c+1)), fld("F3", nil, str(c+2)), fld("F4", pub, str(c+3)),
		fld("F5", sp("sensitive,hmac-sha256"), &V{K: "bytes", C: c + 4}), fld("F6", sec, &V{K: "strs", Cs: []int{c + 5, c + 6}}))
	for _, w := range wraps {
		switch w {
		case "S":
			cur = st(fld("F1", nil, cur))
		case "P":
			cur = st(fld("F1", nil, ptr(cur)))
		case "L":
			cur = st(fld("F1", nil, sliceOf(ptr(cur))))
		case "LV":
			cur = st(fld("F1", nil, sliceOf(cur)))
		case "M":
			cur = st(fld("F1", nil, imap("k1", ptr(cur))))
		case "MV":
			cur = st(fld("F1", nil, imap("k1", cur)))
		}
	}
	return ptr(cur)
}

func deepPayloads() []*V {
	return []*V{
		deepChain(1, "P", "L", "M"),             // 6 levels: pointer -> struct -> slice of pointers -> map -> struct
		deepChain(1, "L", "M", "P"),             // 6
		deepChain(1, "M", "M", "S"),             // 6
		deepChain(1, "S", "S", "S", "S", "S"),   // 6, structs only
		deepChain(1, "L", "L", "P"),             // 6, slices only
		deepChain(1, "LV", "MV", "L"),           // 7, by value
		deepChain(1, "M", "L", "M", "P"),        // 8
		deepChain(1, "P", "L", "M", "S", "L"),   // 9
		deepChain(1, "M", "L", "MV", "LV", "P"), // 10
		deepChain(1, "P", "L"),                  // 4 and 5: on the near side of any bound at five
		deepChain(1, "M", "L"),
		sliceOf(deepChain(1, "P", "L", "M")), // the payload itself a slice / a map over the chain
		imap("k1", deepChain(1, "L", "M", "P")),
	}
}

func genSeeds(e *emitter) {
	for _, cf := range []Cfg{{Wrap: "ok"}, {Ov: [3]string{"", "hmac", "encrypt"}, Wrap: "ok"}, {Ov: [3]string{"redact", "redact", "none"}, Wrap: "absent"}, {Wrap: "failing", EncFail: []int{1}}} {
		for _, v := range deepPayloads() {
			e.emit(Case{Gen: "seeds-deep", Cfg: cf, PK: "val", V: v})
		}
	}
	for _, cf := range []Cfg{{Wrap: "ok"}, {Ov: [3]string{"", "hmac", "encrypt"}, Wrap: "ok"}} {
		for _, v := range outsidePayloads() {
			e.emit(Case{Gen: "seeds-outside", Cfg: cf, PK: "val", V: v, SnapOnly: true})
		}
	}
	cfgs := []Cfg{{Wrap: "ok"}, {Ov: [3]string{"none", "none", "none"}, Wrap: "ok"}, {Ov: [3]string{"", "hmac", "encrypt"}, Wrap: "ok"}, {Ov: [3]string{"redact", "redact", "none"}, Wrap: "absent"}, {Wrap: "failing", EncFail: []int{0}}}
	for _, cf := range cfgs {
		for _, v := range seedPayloads() {
			e.emit(Case{Gen: "seeds", Cfg: cf, PK: "val", V: v})
		}
	}
}
