package main

// The shape grammar G of DESIGN 5.C09 as a tree, the Go value built from a tree (reflect.StructOf / MapOf / SliceOf plus a
// few hand-written types for what reflection cannot make: Taggable maps and structs, unexported fields, payload
// interfaces), and the projection of a Go value back to a Gallina literal of Encrypt.v with symbolic leaves.

import (
	"encoding/json"
	"fmt"
	"reflect"
	"sort"
	"strconv"
	"strings"
	"time"
	"unsafe"

	"github.com/hashicorp/eventlogger/filters/encrypt"
	wrapping "github.com/hashicorp/go-kms-wrapping/v2"
	"google.golang.org/protobuf/types/known/wrapperspb"
	"verifharness/hc"
)

type Field struct {
	Name string  `json:"n"`
	Tag  *string `json:"tag,omitempty"` // text of the class tag; nil = no tag
	V    *V      `json:"v"`
}

// Tag of a Taggable: pointer text as handed to the filter, classification and filter operation texts
type PTag struct {
	Ptr   string `json:"ptr"`
	Class string `json:"class"`
	Op    string `json:"op"`
}

type V struct {
	K      string   `json:"k"` // str bytes nilbytes strs bytess wstr wbytes int bool time struct ptr nilptr slice map tmap hand
	C      int      `json:"c,omitempty"`
	Cs     []int    `json:"cs,omitempty"`
	I      int64    `json:"i,omitempty"`
	Fields []Field  `json:"fields,omitempty"` // struct, hand
	Elem   *V       `json:"elem,omitempty"`   // ptr, nilptr (type witness), slice (element type witness when empty)
	Elems  []*V     `json:"elems,omitempty"`  // slice
	Iface  bool     `json:"iface,omitempty"`  // map: map[string]interface{}
	Keys   []string `json:"keys,omitempty"`   // map, tmap
	Vals   []*V     `json:"vals,omitempty"`
	Tags   []PTag   `json:"tags,omitempty"` // tmap, hand Taggable struct
	Hand   string   `json:"hand,omitempty"` // name of the hand-written type
}

// the text of canary c; some canaries LOOK like values the filter produced (they are plaintext all the same)
func canary(c int) string {
	if c == 0 {
		return ""
	}
	switch {
	case c%7 == 3:
		return fmt.Sprintf("encrypted:cnry%05dz", c)
	case c%7 == 5:
		return fmt.Sprintf("hmac-sha256:cnry%05dz", c)
	case c%11 == 4:
		return fmt.Sprintf("[REDACTED]cnry%05dz", c)
	}
	return fmt.Sprintf("cnry%05dz", c)
}

// named string types (not among the kinds the filter supports: they are values it must leave alone)
type Role string

// ---------- hand-written types ----------
type TMap map[string]interface{}

var tagRegistry = map[int][]PTag{}
var nextTagID = 1

func regTags(t []PTag) int {
	id := nextTagID
	nextTagID++
	tagRegistry[id] = t
	return id
}
func toPointerTags(ts []PTag) []encrypt.PointerTag {
	var out []encrypt.PointerTag
	for _, t := range ts {
		out = append(out, encrypt.PointerTag{Pointer: t.Ptr, Classification: encrypt.DataClassification(t.Class), Filter: encrypt.FilterOperation(t.Op)})
	}
	return out
}
func (t TMap) Tags() ([]encrypt.PointerTag, error) {
	fireTagsHook()
	id, _ := t["__id"].(int)
	return toPointerTags(tagRegistry[id]), nil
}

// PTMap / PTStruct: Taggable through a POINTER receiver only (as generated protobuf messages are): the value itself is
// no Taggable, a pointer to it is
type PTMap map[string]interface{}

func (t *PTMap) Tags() ([]encrypt.PointerTag, error) {
	fireTagsHook()
	id, _ := (*t)["__id"].(int)
	return toPointerTags(tagRegistry[id]), nil
}

type PTStruct struct {
	ID  int
	Sec string `class:"secret"`
	Unt string
	M   map[string]interface{}
}

func (t *PTStruct) Tags() ([]encrypt.PointerTag, error) {
	fireTagsHook()
	return toPointerTags(tagRegistry[t.ID]), nil
}

// TStructA: a Taggable struct whose tags point into its two map fields
type TStructA struct {
	ID   int
	Pub  string `class:"public"`
	Sens string `class:"sensitive"`
	Unt  string
	M    map[string]interface{}
	MS   map[string]string
}

func (t TStructA) Tags() ([]encrypt.PointerTag, error) {
	fireTagsHook()
	return toPointerTags(tagRegistry[t.ID]), nil
}

// TStructB: a Taggable struct with Taggable fields (filtered with withIgnoreTaggable)
type TStructB struct {
	ID  int
	Sec string `class:"secret"`
	M   map[string]interface{}
	T   TMap
	L   []TMap
}

func (t TStructB) Tags() ([]encrypt.PointerTag, error) {
	fireTagsHook()
	return toPointerTags(tagRegistry[t.ID]), nil
}

// UnexpA: unexported fields (reflect.StructOf cannot make them)
type UnexpA struct {
	hidden  int
	hiddenS string
	N       int
	Sec     string `class:"secret"`
	Pub     string `class:"public"`
}

// Three DISTINCT struct types that share package path and name ("main.payload": function-local declarations), with
// different class tags on same-named fields and partly different fields: whatever a filter remembers about a type must be
// remembered by the type's identity, not by its name
func localTypeA() reflect.Type {
	type payload struct {
		Name  string   `class:"public"`
		Token string   `class:"secret"`
		Note  []string `class:"sensitive"`
	}
	return reflect.TypeOf(payload{})
}
func localTypeB() reflect.Type {
	type payload struct {
		Name  string   `class:"secret"`
		Token string   `class:"public"`
		Note  []string `class:"public"`
	}
	return reflect.TypeOf(payload{})
}
func localTypeC() reflect.Type {
	type payload struct {
		Name  string `class:"sensitive,hmac-sha256"`
		Token string
		Extra string `class:"public"`
	}
	return reflect.TypeOf(payload{})
}

// a second family, "main.record", met by the filter in the opposite order (the one with the secret key first)
func localTypeD() reflect.Type {
	type record struct {
		Key    string   `class:"public"`
		Note   []string `class:"public"`
		Secret string   `class:"secret"`
	}
	return reflect.TypeOf(record{})
}
func localTypeE() reflect.Type {
	type record struct {
		Key    string `class:"secret"`
		Note   []string
		Secret string `class:"public"`
		Extra  []byte `class:"sensitive"`
	}
	return reflect.TypeOf(record{})
}

// Ign: the type listed in Filter.IgnoreTypes (as *Ign) by the "ignore" cases
type Ign struct {
	Pub string `class:"public"`
	Sec string `class:"secret"`
	Unt string
}

// EWI: a payload implementing EventWrapperInfo around generated data
type EWI struct {
	EvID string `class:"public"`
	Salt []byte `class:"public"`
	Info []byte `class:"public"`
	P    interface{}
}

// (nil-safe: a typed nil *EWI in the payload interface still implements EventWrapperInfo - with an empty event id)
func (p *EWI) EventId() string {
	if p == nil {
		return ""
	}
	return p.EvID
}
func (p *EWI) HmacSalt() []byte {
	if p == nil {
		return nil
	}
	return p.Salt
}
func (p *EWI) HmacInfo() []byte {
	if p == nil {
		return nil
	}
	return p.Info
}

// Embedded structs: an exported one (its fields are filtered like those of any struct field) and an unexported one (not
// reachable by reflection: left alone - and zero in the forwarded copy, F10)
type EmbInner struct {
	Sec string `class:"secret"`
	Pub string `class:"public"`
}
type embHidden struct {
	Sec string `class:"secret"`
	N   int
}
type EmbA struct {
	EmbInner
	Unt string
}
type EmbU struct {
	embHidden
	Sens string `class:"sensitive"`
}

// Rot: a payload implementing RotateWrapper
type Rot struct {
	W    wrapping.Wrapper
	Salt []byte
	Info []byte
}

// (nil-safe: a typed nil *Rot in the payload interface is a rotation payload that rotates nothing)
func (r *Rot) Wrapper() wrapping.Wrapper {
	if r == nil {
		return nil
	}
	return r.W
}
func (r *Rot) HmacSalt() []byte {
	if r == nil {
		return nil
	}
	return r.Salt
}
func (r *Rot) HmacInfo() []byte {
	if r == nil {
		return nil
	}
	return r.Info
}

// Payload types that implement SEVERAL of the optional interfaces at once: a rotation payload that also has an event id
// (RotateWrapper + EventWrapperInfo; the two share HmacSalt / HmacInfo), through pointer and through value receivers, and one that
// is Taggable on top.  A rotation payload is a rotation payload: consumed, the filter rotated, nothing forwarded.
type RotEwi struct {
	W    wrapping.Wrapper
	Salt []byte
	Info []byte
	ID   string
}

func (r *RotEwi) Wrapper() wrapping.Wrapper { return r.W }
func (r *RotEwi) HmacSalt() []byte          { return r.Salt }
func (r *RotEwi) HmacInfo() []byte          { return r.Info }
func (r *RotEwi) EventId() string           { return r.ID }

type RotEwiV struct {
	W    wrapping.Wrapper
	Salt []byte
	Info []byte
	ID   string
}

func (r RotEwiV) Wrapper() wrapping.Wrapper { return r.W }
func (r RotEwiV) HmacSalt() []byte          { return r.Salt }
func (r RotEwiV) HmacInfo() []byte          { return r.Info }
func (r RotEwiV) EventId() string           { return r.ID }

type RotEwiT struct {
	RotEwi
	Sec string `class:"secret"`
}

func (r *RotEwiT) Tags() ([]encrypt.PointerTag, error) { return nil, nil }

// RotV: RotateWrapper through VALUE receivers - a rotation payload handed over by value (and by pointer)
type RotV struct {
	W    wrapping.Wrapper
	Salt []byte
	Info []byte
}

func (r RotV) Wrapper() wrapping.Wrapper { return r.W }
func (r RotV) HmacSalt() []byte          { return r.Salt }
func (r RotV) HmacInfo() []byte          { return r.Info }

var handTypes = map[string]reflect.Type{
	"TStructA":  reflect.TypeOf(TStructA{}),
	"TStructB":  reflect.TypeOf(TStructB{}),
	"UnexpA":    reflect.TypeOf(UnexpA{}),
	"EWI":       reflect.TypeOf(EWI{}),
	"PTStruct":  reflect.TypeOf(PTStruct{}),
	"LocalA":    localTypeA(),
	"LocalB":    localTypeB(),
	"LocalC":    localTypeC(),
	"LocalD":    localTypeD(),
	"LocalE":    localTypeE(),
	"Ign":       reflect.TypeOf(Ign{}),
	"EmbA":      reflect.TypeOf(EmbA{}),
	"EmbU":      reflect.TypeOf(EmbU{}),
	"EmbInner":  reflect.TypeOf(EmbInner{}),
	"embHidden": reflect.TypeOf(embHidden{}),
}

// names <-> N
var fixedNames = []string{"", "ID", "Pub", "Sens", "Unt", "M", "MS", "Sec", "T", "L", "hidden", "hiddenS", "N", "EvID", "Salt", "Info", "P", "Value", "Name", "Token", "Note", "Extra", "Key", "Secret", "EmbInner", "embHidden"}

func nameNok(s string) (int, bool) {
	if len(s) > 1 && (s[0] == 'F' || s[0] == 'k') {
		if i, err := strconv.Atoi(s[1:]); err == nil {
			return i, true
		}
	}
	for i, n := range fixedNames {
		if n == s && i > 0 {
			return 1000 + i, true
		}
	}
	return 99999, false
}

// names the harness did not make (fields of foreign types met while projecting an unexpected output) share one number
func nameN(s string) int {
	n, _ := nameNok(s)
	return n
}

// ---------- Go types and values from trees ----------
var (
	tString = reflect.TypeOf("")
	tBytes  = reflect.TypeOf([]byte(nil))
	tStrs   = reflect.TypeOf([]string(nil))
	tBytess = reflect.TypeOf([][]byte(nil))
	tInt    = reflect.TypeOf(0)
	tBool   = reflect.TypeOf(false)
	tTime   = reflect.TypeOf(time.Time{})
	tIface  = reflect.TypeOf((*interface{})(nil)).Elem()
	tWStr   = reflect.TypeOf(wrapperspb.StringValue{})
	tWBytes = reflect.TypeOf(wrapperspb.BytesValue{})
	tTMap   = reflect.TypeOf(TMap{})
	tPTMap  = reflect.TypeOf(PTMap{})
	tJNum   = reflect.TypeOf(json.Number(""))
	tRole   = reflect.TypeOf(Role(""))
)

func typeOf(v *V) reflect.Type {
	switch v.K {
	case "str", "evid":
		return tString
	case "bytes", "nilbytes":
		return tBytes
	case "strs":
		return tStrs
	case "bytess":
		return tBytess
	case "wstr":
		return tWStr
	case "wbytes":
		return tWBytes
	case "int":
		return tInt
	case "jnum":
		return tJNum
	case "role":
		return tRole
	case "bool":
		return tBool
	case "time":
		return tTime
	case "struct":
		fs := make([]reflect.StructField, len(v.Fields))
		for i, f := range v.Fields {
			fs[i] = reflect.StructField{Name: f.Name, Type: typeOf(f.V)}
			if f.Tag != nil {
				fs[i].Tag = reflect.StructTag(fmt.Sprintf(`class:"%s"`, *f.Tag))
			}
		}
		return reflect.StructOf(fs)
	case "hand":
		return handTypes[v.Hand]
	case "iface":
		return tIface
	case "ptr", "nilptr":
		return reflect.PointerTo(typeOf(v.Elem))
	case "slice":
		if len(v.Elems) > 0 {
			return reflect.SliceOf(typeOf(v.Elems[0]))
		}
		return reflect.SliceOf(typeOf(v.Elem))
	case "array":
		return reflect.ArrayOf(len(v.Elems), typeOf(v.Elems[0]))
	case "islice":
		return reflect.SliceOf(tIface)
	case "map":
		if v.Iface || len(v.Vals) == 0 {
			return reflect.MapOf(tString, tIface)
		}
		return reflect.MapOf(tString, typeOf(v.Vals[0]))
	case "tmap":
		return tTMap
	case "ptmap":
		return tPTMap
	case "imap": // a map whose keys are no strings
		if len(v.Vals) > 0 && v.Vals[0].K != "str" {
			return reflect.MapOf(tInt, typeOf(v.Vals[0]))
		}
		return reflect.MapOf(tInt, tString)
	case "nilif": // an untyped nil held by an interface (an element of a []interface{}, a value of a map[string]interface{})
		return tIface
	case "nilmap":
		return reflect.MapOf(tString, tIface)
	case "nilstrs":
		return tStrs
	}
	panic("typeOf " + v.K)
}

func setField(f reflect.Value, val reflect.Value) {
	if f.CanSet() {
		f.Set(val)
		return
	}
	reflect.NewAt(f.Type(), unsafe.Pointer(f.UnsafeAddr())).Elem().Set(val)
}

func valueOf(v *V) reflect.Value {
	t := typeOf(v)
	switch v.K {
	case "str":
		return reflect.ValueOf(canary(v.C))
	case "evid":
		if v.I == 0 {
			return reflect.ValueOf("")
		}
		return reflect.ValueOf(fmt.Sprintf("ev%d", v.I))
	case "bytes":
		return reflect.ValueOf([]byte(canary(v.C)))
	case "nilbytes":
		return reflect.Zero(tBytes)
	case "strs":
		out := make([]string, len(v.Cs))
		for i, c := range v.Cs {
			out[i] = canary(c)
		}
		return reflect.ValueOf(out)
	case "bytess":
		out := make([][]byte, len(v.Cs))
		for i, c := range v.Cs {
			out[i] = []byte(canary(c))
		}
		return reflect.ValueOf(out)
	case "wstr":
		r := reflect.New(tWStr).Elem()
		r.FieldByName("Value").SetString(canary(v.C))
		return r
	case "wbytes":
		r := reflect.New(tWBytes).Elem()
		r.FieldByName("Value").SetBytes([]byte(canary(v.C)))
		return r
	case "int":
		return reflect.ValueOf(int(v.I))
	case "jnum":
		return reflect.ValueOf(json.Number(strconv.FormatInt(v.I, 10)))
	case "role":
		return reflect.ValueOf(Role(fmt.Sprintf("role%d", v.I)))
	case "bool":
		return reflect.ValueOf(v.I != 0)
	case "time":
		return reflect.ValueOf(time.Unix(v.I, 0).UTC())
	case "struct", "hand":
		r := reflect.New(t).Elem()
		for _, f := range v.Fields {
			fv := r.FieldByName(f.Name)
			if !fv.IsValid() {
				panic("no field " + f.Name + " in " + t.String())
			}
			val := valueOf(f.V)
			if fv.Kind() == reflect.Interface {
				setField(fv, val)
			} else if fv.Kind() == reflect.Map && val.Kind() == reflect.Map && val.Type() != fv.Type() {
				m := reflect.MakeMap(fv.Type())
				for _, k := range val.MapKeys() {
					e := val.MapIndex(k)
					if e.Kind() == reflect.Interface {
						e = e.Elem()
					}
					m.SetMapIndex(k, e.Convert(fv.Type().Elem()))
				}
				setField(fv, m)
			} else {
				setField(fv, val.Convert(fv.Type()))
			}
		}
		if v.Hand == "TStructA" || v.Hand == "TStructB" || v.Hand == "PTStruct" {
			r.FieldByName("ID").SetInt(int64(regTags(v.Tags)))
		}
		return r
	case "ptr":
		p := reflect.New(typeOf(v.Elem))
		p.Elem().Set(valueOf(v.Elem))
		return p
	case "nilptr":
		return reflect.Zero(t)
	case "iface":
		r := reflect.New(tIface).Elem()
		r.Set(valueOf(v.Elem))
		return r
	case "slice", "islice":
		r := reflect.MakeSlice(t, 0, len(v.Elems))
		for _, e := range v.Elems {
			r = reflect.Append(r, valueOf(e))
		}
		return r
	case "array":
		r := reflect.New(t).Elem()
		for i, e := range v.Elems {
			r.Index(i).Set(valueOf(e))
		}
		return r
	case "map":
		r := reflect.MakeMap(t)
		for i, k := range v.Keys {
			r.SetMapIndex(reflect.ValueOf(k), valueOf(v.Vals[i]))
		}
		return r
	case "imap":
		r := reflect.MakeMap(t)
		for i, e := range v.Vals {
			r.SetMapIndex(reflect.ValueOf(i+1), valueOf(e))
		}
		return r
	case "nilmap", "nilstrs", "nilif":
		return reflect.Zero(t)
	case "tmap":
		m := TMap{"__id": regTags(v.Tags)}
		for i, k := range v.Keys {
			m[k] = valueOf(v.Vals[i]).Interface()
		}
		return reflect.ValueOf(m)
	case "ptmap":
		m := PTMap{"__id": regTags(v.Tags)}
		for i, k := range v.Keys {
			m[k] = valueOf(v.Vals[i]).Interface()
		}
		return reflect.ValueOf(m)
	}
	panic("valueOf " + v.K)
}

// ---------- projection of a Go value to a Gallina literal ----------
type projector struct {
	cl *classifier
}

func q(s string) string { return "\"" + s + "\"" }

func parsePtr(ptr string, forStruct bool) string {
	// Some (TKey k) | Some (TNested k1 k2) | None      /     Some (f, k) | None
	if ptr == "" || ptr[0] != '/' {
		return "None"
	}
	parts := strings.Split(ptr[1:], "/")
	for _, p := range parts {
		if _, ok := nameNok(p); !ok {
			return "None"
		}
	}
	if forStruct {
		if len(parts) != 2 {
			return "None"
		}
		return fmt.Sprintf("Some (%s, %s)", hc.N(nameN(parts[0])), hc.N(nameN(parts[1])))
	}
	ns := make([]int, len(parts))
	for i, p := range parts {
		ns[i] = nameN(p)
	}
	return "Some (TPath " + hc.NList(ns) + ")"
}

func tagsLit(ts []PTag, forStruct bool) string {
	items := make([]string, len(ts))
	for i, t := range ts {
		items[i] = fmt.Sprintf("(%s, %s)", parsePtr(t.Ptr, forStruct), q(t.Class+","+t.Op))
	}
	return "(Some " + hc.List(items) + ")"
}

func (p *projector) lit(rv reflect.Value) string { return p.litp(rv, false) }

// viaPtr: the value is the target of a pointer (a type that is Taggable through a pointer receiver only is Taggable there
// and nowhere else: held by value it is an ordinary map / struct)
func (p *projector) litp(rv reflect.Value, viaPtr bool) string {
	if !rv.IsValid() {
		return "(VPtr None)"
	}
	switch rv.Kind() {
	case reflect.Interface:
		if rv.IsNil() {
			return "(VPtr None)"
		}
		return p.litp(rv.Elem(), false)
	case reflect.Ptr:
		if rv.IsNil() {
			return "(VPtr None)"
		}
		return "(VPtr (Some " + p.litp(rv.Elem(), true) + "))"
	case reflect.String:
		switch rv.Type() {
		case tJNum:
			n, _ := strconv.ParseInt(rv.String(), 10, 64)
			return "(VOther " + hc.Z(n) + ")"
		case tRole:
			var n int64 = -1
			fmt.Sscanf(rv.String(), "role%d", &n)
			return "(VOther " + hc.Z(1000000+n) + ")"
		}
		return "(VLeaf LStr " + p.cl.classify(rv.String()) + ")"
	case reflect.Int, reflect.Int64:
		return "(VOther " + hc.Z(rv.Int()) + ")"
	case reflect.Bool:
		if rv.Bool() {
			return "(VOther 1%Z)"
		}
		return "(VOther 0%Z)"
	case reflect.Array:
		items := make([]string, rv.Len())
		for i := range items {
			items[i] = p.litp(rv.Index(i), false)
		}
		return "(VSlice " + hc.List(items) + ")"
	case reflect.Slice:
		switch rv.Type() {
		case tBytes:
			if rv.IsNil() {
				return "VNilBytes"
			}
			return "(VLeaf LBytes " + p.cl.classify(string(rv.Bytes())) + ")"
		case tStrs:
			items := make([]string, rv.Len())
			for i := range items {
				items[i] = p.cl.classify(rv.Index(i).String())
			}
			return "(VLeaves LStr " + hc.List(items) + ")"
		case tBytess:
			items := make([]string, rv.Len())
			for i := range items {
				items[i] = p.cl.classify(string(rv.Index(i).Bytes()))
			}
			return "(VLeaves LBytes " + hc.List(items) + ")"
		}
		items := make([]string, rv.Len())
		for i := range items {
			items[i] = p.lit(rv.Index(i))
		}
		return "(VSlice " + hc.List(items) + ")"
	case reflect.Map:
		tg := "None"
		if rv.Type() == tTMap || (rv.Type() == tPTMap && viaPtr) {
			id := 0
			if idv := rv.MapIndex(reflect.ValueOf("__id")); idv.IsValid() {
				if i, ok := idv.Interface().(int); ok {
					id = i
				}
			}
			tg = tagsLit(tagRegistry[id], false)
		}
		if rv.Type().Key().Kind() != reflect.String {
			// keys that are no strings (outside the model): entries in key order, the key as the entry's number
			ks := rv.MapKeys()
			sort.Slice(ks, func(i, j int) bool { return ks[i].Int() < ks[j].Int() })
			items := make([]string, len(ks))
			for i, k := range ks {
				items[i] = "(" + hc.N(int(k.Int())) + ", " + p.lit(rv.MapIndex(k)) + ")"
			}
			return "(VMap None " + hc.List(items) + ")"
		}
		var keys []string
		for _, k := range rv.MapKeys() {
			if k.String() != "__id" {
				keys = append(keys, k.String())
			}
		}
		sort.Slice(keys, func(i, j int) bool { return nameN(keys[i]) < nameN(keys[j]) })
		items := make([]string, len(keys))
		for i, k := range keys {
			items[i] = "(" + hc.N(nameN(k)) + ", " + p.lit(rv.MapIndex(reflect.ValueOf(k))) + ")"
		}
		return "(VMap " + tg + " " + hc.List(items) + ")"
	case reflect.Struct:
		switch rv.Type() {
		case tWStr:
			return "(VLeaf LWStr " + p.cl.classify(rv.FieldByName("Value").String()) + ")"
		case tWBytes:
			return "(VLeaf LWBytes " + p.cl.classify(string(rv.FieldByName("Value").Bytes())) + ")"
		case tTime:
			return "(VOther " + hc.Z(rv.Interface().(time.Time).Unix()) + ")"
		}
		tg := "None"
		if rv.Type() == handTypes["TStructA"] || rv.Type() == handTypes["TStructB"] || (rv.Type() == handTypes["PTStruct"] && viaPtr) {
			tg = tagsLit(tagRegistry[int(rv.FieldByName("ID").Int())], true)
		}
		var items []string
		for i := 0; i < rv.NumField(); i++ {
			sf := rv.Type().Field(i)
			tag := "None"
			if t, ok := sf.Tag.Lookup("class"); ok {
				tag = "(Some " + q(t) + ")"
			}
			if sf.Name == "ID" && tg != "None" {
				// the registry handle is not payload data
				continue
			}
			items = append(items, fmt.Sprintf("(%s, %s, %s, %s)", hc.N(nameN(sf.Name)), hc.B(sf.PkgPath == ""), tag, p.lit(rv.Field(i))))
		}
		return "(VStruct " + tg + " " + hc.List(items) + ")"
	}
	panic("project: kind " + rv.Kind().String())
}

// node count of a tree (to pick the smallest failing case)
func (v *V) size() int {
	if v == nil {
		return 0
	}
	n := 1 + len(v.Cs)
	for _, f := range v.Fields {
		n += f.V.size()
	}
	if v.K == "ptr" || v.K == "iface" {
		n += v.Elem.size()
	}
	for _, e := range v.Elems {
		n += e.size()
	}
	for _, e := range v.Vals {
		n += e.size()
	}
	return n + len(v.Tags)
}
